#!/usr/bin/env python3
"""apply one textual mutation to the repo worktree, run ./check C06, revert; print the outcome"""
import subprocess, sys, os, time
REPO="/tmp/wt/repo-C06"; VERIF="/tmp/wt/verif-C06"
MUTS = {
 "m1_f4_end_boundary": ("src/tables/cmap.rs", "if start_code <= ch && ch <= end_code {", "if start_code <= ch && ch < end_code {"),
 "m2_offset_to_index_bound": ("src/tables/cmap.rs", "if glyph_id_offset >= id_range_offsets_len as u32 * 2 && (glyph_id_offset & 1) == 0 {", "if glyph_id_offset > id_range_offsets_len as u32 * 2 && (glyph_id_offset & 1) == 0 {"),
 "m3_f9_dropped": ("src/tables/cmap.rs", "            if glyph_id == 0 {\n                // A value of 0 in the glyphIdArray", "            if false {\n                // A value of 0 in the glyphIdArray"),
 "m4_macroman_swapped_entry": ("src/macroman.rs", "            128 => Some('Ä'), // A dieresis\n            129 => Some('Å'), // A ring", "            128 => Some('Å'), // A dieresis\n            129 => Some('Ä'), // A ring"),
 "m5_preference_swapped": ("src/font.rs", "cmap.find_subtable(PlatformId::WINDOWS, EncodingId::WINDOWS_UNICODE_BMP_UCS2)", "cmap.find_subtable(PlatformId::UNICODE, EncodingId::MACINTOSH_UNICODE_UCS4)"),
 "m6_f12_end_boundary": ("src/tables/cmap.rs", "            CmapSubtable::Format12 { ref groups, .. } => {\n                for group in groups {\n                    if group.start_char_code <= ch && ch <= group.end_char_code {", "            CmapSubtable::Format12 { ref groups, .. } => {\n                for group in groups {\n                    if group.start_char_code <= ch && ch < group.end_char_code {"),
 "m7_symbol_fold_boundary": ("src/font.rs", "let char_code0 = if ch < '\\u{F000}' || ch > '\\u{F0FF}' {", "let char_code0 = if ch < '\\u{F000}' || ch >= '\\u{F0FF}' {"),
 "m8_f4_mappings_range": ("src/tables/cmap.rs", "for (offset_from_start, ch) in (start_code..=end_code).enumerate() {", "for (offset_from_start, ch) in (start_code..end_code).enumerate() {"),
 "m9_f6_first_boundary": ("src/tables/cmap.rs", "                let first_code = u32::from(first_code);\n                if first_code <= ch {\n                    let index = usize::safe_from(ch - first_code);", "                let first_code = u32::from(first_code);\n                if first_code < ch {\n                    let index = usize::safe_from(ch - first_code);"),
 "m10_f4_length_check": ("src/tables/cmap.rs", "                ctxt.check(length >= (8 + (4 * seg_count)) * size::U16)?;", "                ctxt.check(length > (8 + (4 * seg_count)) * size::U16)?;"),
 "m11_delta_not_modulo": ("src/tables/cmap.rs", "            Ok(((i32::from(ch) + i32::from(id_delta)) & 0xFFFF) as u16)", "            Ok(((i32::from(ch) + i32::from(id_delta)) & 0x7FFF) as u16)"),
 "m12_f1_reverted": ("src/font.rs", "        self.cmap_table\n            .get(self.cmap_subtable_offset..)\n            .unwrap_or(&[])", "        &self.cmap_table[self.cmap_subtable_offset..]"),
 "m13_fontographer_dropped": ("src/tables/cmap.rs", "        if id_range_offset == 0xFFFF {", "        if id_range_offset == 0xFFFE {"),
 "m14_owned_f10_boundary": ("src/tables/cmap.rs", "                    if ch >= start_char_code {\n                        let index = usize::try_from(ch - start_char_code)?;", "                    if ch > start_char_code {\n                        let index = usize::try_from(ch - start_char_code)?;"),
 "m15_macroman_arm_value": ("src/macroman.rs", "            'é' => Some(142), // e acute", "            'é' => Some(143), // e acute"),
 "m16_symbol_first_char_default": ("src/font.rs", "        } else {\n            0x20\n        };\n        (char_code0 + first_char)", "        } else {\n            0x21\n        };\n        (char_code0 + first_char)"),
 "m17_find_subtable_or": ("src/tables/cmap.rs", ".find(|record| record.platform_id == platform_id && record.encoding_id == encoding_id)", ".find(|record| record.platform_id == platform_id || record.encoding_id == encoding_id)"),
 "m18_f12_mappings_glyph": ("src/tables/cmap.rs", "                            .checked_add(u16::try_from(i)?)\n                            .ok_or(ParseError::BadValue)?;\n                        callback(ch, glyph_id)", "                            .checked_add(u16::try_from(i)?)\n                            .ok_or(ParseError::BadValue)?;\n                        callback(ch + 1, glyph_id)"),
}
names = sys.argv[1:] or list(MUTS)
for name in names:
    f, old, new = MUTS[name]
    path = os.path.join(REPO, f)
    src = open(path, encoding="utf-8").read()
    if src.count(old) != 1:
        print("%s: PATTERN COUNT %d" % (name, src.count(old))); continue
    open(path, "w", encoding="utf-8").write(src.replace(old, new))
    t0 = time.time()
    env = dict(os.environ, VERIF_REPO=REPO)
    p = subprocess.run(["./check", "C06"], cwd=VERIF, env=env, stdout=subprocess.PIPE, stderr=subprocess.STDOUT, text=True)
    subprocess.run(["git", "-C", REPO, "checkout", "--", "."])
    out = [l for l in p.stdout.strip().split("\n") if l][-4:]
    print("== %s: rc=%d %.0fs" % (name, p.returncode, time.time() - t0))
    for l in out: print("   " + l[:400])
    # first violation recorded
    rp = os.path.join(VERIF, "work/replay/C06-failing-input.json")
    if p.returncode == 1 and os.path.exists(rp) and "no-failing-input-found" not in p.stdout.split("VIOLATION")[-1]:
        import json
        b = json.load(open(rp)); print("   class=%s reason=%s input=%s" % (b.get("class"), b.get("reason","")[:200], b.get("input","")[:160]))
    sys.stdout.flush()
