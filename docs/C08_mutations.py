#!/usr/bin/env python3
"""apply one textual mutation to the repo worktree, run ./check C08, revert; print the outcome"""
import subprocess, sys, os, time, json
REPO="/tmp/wt/repo-C06"; VERIF="/tmp/wt/verif-C06"
S="src/tables/cmap/subset.rs"; C="src/tables/cmap.rs"
MUTS = {
 "m1_gap_fill_short": (S, "self.glyph_ids.extend(iter::repeat(0).take(gap as usize));", "self.glyph_ids.extend(iter::repeat(0).take(gap as usize - 1));"),
 "m2_consecutive_test": (S, "self.consecutive_glyph_ids &= (prev + 1) == gid;", "self.consecutive_glyph_ids &= (prev + 1) <= gid;"),
 "m3_fixup_off_by_one": (S, "let count = num_segments + usize::from(*id_range_offset) - index;", "let count = num_segments + usize::from(*id_range_offset) - index - 1;"),
 "m4_terminator_glyph": (S, "segment = CmapSubtableFormat4Segment::new(0xFFFF, 0, &mut glyph_ids);", "segment = CmapSubtableFormat4Segment::new(0xFFFF, 1, &mut glyph_ids);"),
 "m5_f8_guard_removed": (S, "                if mappings.iter().all(|(_ch, gid)| u8::try_from(gid).is_ok()) =>", "                if mappings.iter().all(|(_ch, gid)| u16::try_from(gid).is_ok()) =>"),
 "m6_f12_gid_run": (S, "if ch.as_u32() == segment.end_char_code + 1 && gid == prev_gid + 1 {", "if ch.as_u32() == segment.end_char_code + 1 && gid >= prev_gid + 1 {"),
 "m7_f12_code_run": (S, "if ch.as_u32() == segment.end_char_code + 1 && gid == prev_gid + 1 {", "if ch.as_u32() <= segment.end_char_code + 2 && gid == prev_gid + 1 {"),
 "m8_keep_notdef": (S, "if gid != 0 && glyph_ids.contains(&gid) {", "if glyph_ids.contains(&gid) {"),
 "m9_macroman_filter": (S, "if output_char.existence() <= CharExistence::MacRoman {", "if output_char.existence() <= CharExistence::BasicMultilingualPlane {"),
 "m10_plane_not_tracked": (S, "                            plane = output_char.existence();", "                            let _ = output_char.existence();"),
 "m11_writer_length_truncated": (C, "                    ctxt.write_vec::<U16Be, _>(id_range_offsets)?;\n                    ctxt.write_vec::<U16Be, _>(glyph_id_array)?;\n                    ctxt.write_placeholder(length, u16::try_from(ctxt.bytes_written() - start)?)?;", "                    ctxt.write_vec::<U16Be, _>(id_range_offsets)?;\n                    ctxt.write_vec::<U16Be, _>(glyph_id_array)?;\n                    ctxt.write_placeholder(length, (ctxt.bytes_written() - start) as u16)?;"),
 "m12_symbol_inverse_reverted": (S, "    ch.checked_add(0x20)?", "    (if (0xF000..=0xF0FF).contains(&ch) { ch } else { ch.checked_add(0xF000)? }).checked_add(0x20)?"),
 "m13_second_mapping_skipped": (S, "        for (ch, gid) in mappings.iter().skip(1) {\n            if !segment.add(ch.as_u32(), gid) {", "        for (ch, gid) in mappings.iter().skip(2) {\n            if !segment.add(ch.as_u32(), gid) {"),
 "m14_delta_of_second_glyph": (S, "let first_glyph_id = *segment.glyph_ids.first().unwrap();", "let first_glyph_id = *segment.glyph_ids.last().unwrap();"),
 "m15_gap_threshold": (S, "        } else if gap < 4 {", "        } else if gap <= 4 {"),
 "m16_new_id_default": ("src/tables/glyf/subset.rs", "self.old_to_new_id.get(&old_id).copied().unwrap_or(0)", "self.old_to_new_id.get(&old_id).copied().map(|id| id.saturating_sub(1)).unwrap_or(0)"),
 "m17_array_offset_before_push": (S, "            self.id_range_offsets.push(self.glyph_id_array.len() as u16);\n            self.glyph_id_array.extend_from_slice(segment.glyph_ids);", "            self.glyph_id_array.extend_from_slice(segment.glyph_ids);\n            self.id_range_offsets.push(self.glyph_id_array.len() as u16);"),
}
names = sys.argv[1:] or list(MUTS)
for name in names:
    f, old, new = MUTS[name]
    path = os.path.join(REPO, f)
    src = open(path, encoding="utf-8").read()
    if src.count(old) != 1:
        print("%s: PATTERN COUNT %d" % (name, src.count(old))); continue
    open(path, "w", encoding="utf-8").write(src.replace(old, new))
    t0 = time.time()
    env = dict(os.environ, VERIF_REPO=REPO)
    p = subprocess.run(["./check", "C08"], cwd=VERIF, env=env, stdout=subprocess.PIPE, stderr=subprocess.STDOUT, text=True)
    subprocess.run(["git", "-C", REPO, "checkout", "--", "."])
    out = [l for l in p.stdout.strip().split("\n") if l][-3:]
    print("== %s: rc=%d %.0fs" % (name, p.returncode, time.time() - t0))
    for l in out: print("   " + l[:300])
    rp = os.path.join(VERIF, "work/replay/C08-failing-input.json")
    if p.returncode == 1 and os.path.exists(rp) and "no-failing-input-found" not in p.stdout.split("VIOLATION")[-1]:
        b = json.load(open(rp)); print("   class=%s reason=%s input=%s" % (b.get("class"), b.get("reason","")[:160], b.get("input","")[:100]))
    sys.stdout.flush()
