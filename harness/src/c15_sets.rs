// C15: the array-shaped structures modelled in coq/Model/CffSets.v — the `cvt ` table, CFF custom
// charsets, FDSelect and custom encodings.
//
//   set|cvt|LEN|HEX     bytes -> CvtTable::read_dep(LEN) -> write -> read_dep(written length)
//   set|chs|N|HEX       bytes -> CustomCharset::read_dep(N glyphs) -> write -> read_dep(N)
//   set|fds|N|HEX       bytes -> FDSelect::read_dep(N glyphs) -> write -> read_dep(N)
//   set|enc|0|HEX       bytes -> CustomEncoding::read -> write -> read
//                       -> r=ok:SHOW;w=HEX;r2=ok:SHOW     (r=err:E / w=err:E)
//   setw|cvt|0|V,V,..            value -> write -> read_dep(2 * count)
//   setw|chs|N|FMT/RECS          value -> write -> read_dep(N)
//   setw|fds|N|FMT/RECS/SENTINEL value -> write -> read_dep(N)
//                       -> w=HEX;r=ok:SHOW      (w=err:E)
//   SHOW: cvt = V,V,..   chs / enc = FMT/RECS   fds = FMT/RECS/SENTINEL
//   RECS = . | R+R+..    R = a (one field) | a:b (range: first, nLeft / fd)
//   Long runs of equal records can be written K*R in an input (expanded before use).
use allsorts::binary::read::{ReadArrayCow, ReadBinary, ReadBinaryDep, ReadScope};
use allsorts::binary::write::{WriteBinary, WriteBuffer};
use allsorts::cff::{CustomCharset, CustomEncoding, FDSelect, Range};
use allsorts::error::WriteError;
use allsorts::tables::CvtTable;
use avh::perr;
use avh::prng::{hex, unhex, Rng};

fn werr(e: &WriteError) -> &'static str {
    match e {
        WriteError::BadValue => "BadValue",
        WriteError::NotImplemented => "NotImplemented",
        WriteError::PlaceholderMismatch => "OtherErr",
    }
}
fn fresh<F: FnOnce(&mut WriteBuffer) -> Result<(), WriteError>>(f: F) -> Result<Vec<u8>, WriteError> {
    let mut b = WriteBuffer::new();
    f(&mut b)?;
    Ok(b.into_inner())
}
fn plus(v: Vec<String>) -> String {
    if v.is_empty() {
        ".".to_string()
    } else {
        v.join("+")
    }
}
fn recs(s: &str) -> Vec<Vec<u32>> {
    if s == "." || s.is_empty() {
        return vec![];
    }
    let mut out = Vec::new();
    for item in s.split('+') {
        let (k, r) = match item.split_once('*') {
            Some((k, r)) => (k.parse::<usize>().unwrap(), r),
            None => (1, item),
        };
        let rec: Vec<u32> = r.split(':').map(|x| x.parse().unwrap()).collect();
        for _ in 0..k {
            out.push(rec.clone());
        }
    }
    out
}

fn cvt_show(t: &CvtTable<'_>) -> String {
    let v: Vec<String> = t.values.iter().map(|x| x.to_string()).collect();
    if v.is_empty() {
        "-".to_string()
    } else {
        v.join(",")
    }
}
fn chs_show(c: &CustomCharset<'_>) -> String {
    match c {
        CustomCharset::Format0 { glyphs } => format!("0/{}", plus(glyphs.iter().map(|g| g.to_string()).collect())),
        CustomCharset::Format1 { ranges } => {
            format!("1/{}", plus(ranges.iter().map(|r| format!("{}:{}", r.first, r.n_left)).collect()))
        }
        CustomCharset::Format2 { ranges } => {
            format!("2/{}", plus(ranges.iter().map(|r| format!("{}:{}", r.first, r.n_left)).collect()))
        }
    }
}
/// queries on a parsed charset at probe points derived from the value: id_for_glyph and sid_to_gid
/// (`n` = None, `P` = the call panicked)  ->  IDS/S2G
fn chs_queries(c: &CustomCharset<'_>) -> String {
    let mut sids: Vec<u32> = vec![0, 1, 5, 100, 390, 391, 1000, 65535];
    match c {
        CustomCharset::Format0 { glyphs } => {
            for g in glyphs.iter().take(3) {
                sids.push(u32::from(g));
            }
        }
        CustomCharset::Format1 { ranges } => {
            for r in ranges.iter().take(3) {
                sids.push(u32::from(r.first));
                sids.push(u32::from(r.first) + u32::from(r.n_left));
            }
        }
        CustomCharset::Format2 { ranges } => {
            for r in ranges.iter().take(3) {
                sids.push(u32::from(r.first));
                sids.push(u32::from(r.first) + u32::from(r.n_left));
            }
        }
    }
    let gids: [u16; 9] = [0, 1, 2, 3, 4, 255, 256, 257, 65535];
    let show = |r: std::thread::Result<Option<u16>>| match r {
        Ok(Some(v)) => v.to_string(),
        Ok(None) => "n".to_string(),
        Err(_) => "P".to_string(),
    };
    let ids: Vec<String> = gids
        .iter()
        .map(|g| show(std::panic::catch_unwind(std::panic::AssertUnwindSafe(|| c.id_for_glyph(*g)))))
        .collect();
    let s2g: Vec<String> = sids
        .iter()
        .filter(|s| **s <= 65535)
        .map(|s| show(std::panic::catch_unwind(std::panic::AssertUnwindSafe(|| c.sid_to_gid(*s as u16)))))
        .collect();
    format!("{}/{}", ids.join(","), s2g.join(","))
}
fn fds_show(f: &FDSelect<'_>) -> String {
    match f {
        FDSelect::Format0 { glyph_font_dict_indices } => {
            format!("0/{}/0", plus(glyph_font_dict_indices.iter().map(|g| g.to_string()).collect()))
        }
        FDSelect::Format3 { ranges, sentinel } => {
            format!("3/{}/{}", plus(ranges.iter().map(|r| format!("{}:{}", r.first, r.n_left)).collect()), sentinel)
        }
    }
}
fn enc_show(e: &CustomEncoding<'_>) -> String {
    match e {
        CustomEncoding::Format0 { codes } => format!("0/{}", plus(codes.iter().map(|g| g.to_string()).collect())),
        CustomEncoding::Format1 { ranges } => {
            format!("1/{}", plus(ranges.iter().map(|r| format!("{}:{}", r.first, r.n_left)).collect()))
        }
    }
}

pub fn run_set(p: &[&str]) -> String {
    let n: usize = p[2].parse().unwrap();
    let d = unhex(p[3]);
    match p[1] {
        "cvt" => {
            let t = match ReadScope::new(&d).read_dep::<CvtTable<'_>>(n as u32) {
                Ok(t) => t,
                Err(e) => return format!("r=err:{}", perr(&e)),
            };
            let mut out = format!("r=ok:{}", cvt_show(&t));
            match fresh(|b| CvtTable::write(b, &t)) {
                Err(e) => out += &format!(";w=err:{}", werr(&e)),
                Ok(w) => {
                    out += &format!(";w={}", hex(&w));
                    match ReadScope::new(&w).read_dep::<CvtTable<'_>>(w.len() as u32) {
                        Ok(t2) => out += &format!(";r2=ok:{}", cvt_show(&t2)),
                        Err(e) => out += &format!(";r2=err:{}", perr(&e)),
                    }
                }
            }
            out
        }
        "chs" => {
            let t = match ReadScope::new(&d).read_dep::<CustomCharset<'_>>(n) {
                Ok(t) => t,
                Err(e) => return format!("r=err:{}", perr(&e)),
            };
            let mut out = format!("r=ok:{}", chs_show(&t));
            match fresh(|b| CustomCharset::write(b, &t)) {
                Err(e) => out += &format!(";w=err:{}", werr(&e)),
                Ok(w) => {
                    out += &format!(";w={}", hex(&w));
                    match ReadScope::new(&w).read_dep::<CustomCharset<'_>>(n) {
                        Ok(t2) => out += &format!(";r2=ok:{}", chs_show(&t2)),
                        Err(e) => out += &format!(";r2=err:{}", perr(&e)),
                    }
                }
            }
            out += &format!(";q={}", chs_queries(&t));
            out
        }
        "fds" => {
            let t = match ReadScope::new(&d).read_dep::<FDSelect<'_>>(n) {
                Ok(t) => t,
                Err(e) => return format!("r=err:{}", perr(&e)),
            };
            let mut out = format!("r=ok:{}", fds_show(&t));
            match fresh(|b| FDSelect::write(b, &t)) {
                Err(e) => out += &format!(";w=err:{}", werr(&e)),
                Ok(w) => {
                    out += &format!(";w={}", hex(&w));
                    match ReadScope::new(&w).read_dep::<FDSelect<'_>>(n) {
                        Ok(t2) => out += &format!(";r2=ok:{}", fds_show(&t2)),
                        Err(e) => out += &format!(";r2=err:{}", perr(&e)),
                    }
                }
            }
            out
        }
        "enc" => {
            let t = match ReadScope::new(&d).read::<CustomEncoding<'_>>() {
                Ok(t) => t,
                Err(e) => return format!("r=err:{}", perr(&e)),
            };
            let mut out = format!("r=ok:{}", enc_show(&t));
            match fresh(|b| CustomEncoding::write(b, &t)) {
                Err(e) => out += &format!(";w=err:{}", werr(&e)),
                Ok(w) => {
                    out += &format!(";w={}", hex(&w));
                    match ReadScope::new(&w).read::<CustomEncoding<'_>>() {
                        Ok(t2) => out += &format!(";r2=ok:{}", enc_show(&t2)),
                        Err(e) => out += &format!(";r2=err:{}", perr(&e)),
                    }
                }
            }
            out
        }
        _ => "n/a".to_string(),
    }
}

pub fn run_setw(p: &[&str]) -> String {
    let n: usize = p[2].parse().unwrap();
    match p[1] {
        "cvt" => {
            let vals: Vec<i16> = if p[3] == "-" { vec![] } else { p[3].split(',').map(|x| x.parse().unwrap()).collect() };
            let cnt = vals.len();
            let t = CvtTable { values: ReadArrayCow::Owned(vals) };
            match fresh(|b| CvtTable::write(b, &t)) {
                Err(e) => format!("w=err:{}", werr(&e)),
                Ok(w) => match ReadScope::new(&w).read_dep::<CvtTable<'_>>(2 * cnt as u32) {
                    Ok(t2) => format!("w={};r=ok:{}", hex(&w), cvt_show(&t2)),
                    Err(e) => format!("w={};r=err:{}", hex(&w), perr(&e)),
                },
            }
        }
        "chs" => {
            let (fmt, rs) = p[3].split_once('/').unwrap();
            let rs = recs(rs);
            let t = match fmt {
                "0" => CustomCharset::Format0 { glyphs: ReadArrayCow::Owned(rs.iter().map(|r| r[0] as u16).collect()) },
                "1" => CustomCharset::Format1 {
                    ranges: ReadArrayCow::Owned(rs.iter().map(|r| Range { first: r[0] as u16, n_left: r[1] as u8 }).collect()),
                },
                _ => CustomCharset::Format2 {
                    ranges: ReadArrayCow::Owned(rs.iter().map(|r| Range { first: r[0] as u16, n_left: r[1] as u16 }).collect()),
                },
            };
            match fresh(|b| CustomCharset::write(b, &t)) {
                Err(e) => format!("w=err:{}", werr(&e)),
                Ok(w) => match ReadScope::new(&w).read_dep::<CustomCharset<'_>>(n) {
                    Ok(t2) => format!("w={};r=ok:{};q={}", hex(&w), chs_show(&t2), chs_queries(&t2)),
                    Err(e) => format!("w={};r=err:{}", hex(&w), perr(&e)),
                },
            }
        }
        "fds" => {
            let f: Vec<&str> = p[3].split('/').collect();
            let rs = recs(f[1]);
            let t = match f[0] {
                "0" => FDSelect::Format0 { glyph_font_dict_indices: ReadArrayCow::Owned(rs.iter().map(|r| r[0] as u8).collect()) },
                _ => FDSelect::Format3 {
                    ranges: ReadArrayCow::Owned(rs.iter().map(|r| Range { first: r[0] as u16, n_left: r[1] as u8 }).collect()),
                    sentinel: f[2].parse::<u32>().unwrap() as u16,
                },
            };
            match fresh(|b| FDSelect::write(b, &t)) {
                Err(e) => format!("w=err:{}", werr(&e)),
                Ok(w) => match ReadScope::new(&w).read_dep::<FDSelect<'_>>(n) {
                    Ok(t2) => format!("w={};r=ok:{}", hex(&w), fds_show(&t2)),
                    Err(e) => format!("w={};r=err:{}", hex(&w), perr(&e)),
                },
            }
        }
        _ => "n/a".to_string(),
    }
}

// ---------------------------------------------------------------- generator
fn edge16(rng: &mut Rng) -> u32 {
    *rng.pick(&[0u32, 1, 2, 255, 256, 257, 390, 391, 32767, 32768, 65534, 65535])
}
fn val16(rng: &mut Rng) -> u32 {
    if rng.chance(1, 3) {
        edge16(rng)
    } else {
        rng.below(65536) as u32
    }
}
fn val8(rng: &mut Rng) -> u32 {
    if rng.chance(1, 3) {
        *rng.pick(&[0u32, 1, 2, 127, 128, 254, 255])
    } else {
        rng.below(256) as u32
    }
}
fn be16(v: u32) -> [u8; 2] {
    [(v >> 8) as u8, v as u8]
}

/// ranges (first, n_left) that cover exactly `n` glyphs with the last range (n_left below `lim`)
fn covering(rng: &mut Rng, n: u32, lim: u32) -> Vec<(u32, u32)> {
    let mut left = n;
    let mut out = Vec::new();
    while left > 0 {
        let mut l = if rng.chance(1, 4) { left } else { 1 + rng.below(left as u64) as u32 };
        if l > lim {
            l = lim;
        }
        // the last range may overshoot (legal: the loop stops at the first range reaching n)
        let over = if l == left && rng.chance(1, 5) { rng.below(4) as u32 } else { 0 };
        let nl = (l - 1 + over).min(lim - 1);
        out.push((val16(rng), nl));
        left -= l.min(left);
    }
    out
}

pub fn gen_sets(rng: &mut Rng, mutate: &mut dyn FnMut(&mut Rng, Vec<u8>) -> Vec<u8>) -> String {
    let kind = rng.below(8);
    let as_bytes = rng.chance(1, 2);
    match kind {
        0 => {
            // cvt
            let n = *rng.pick(&[0usize, 1, 2, 3, 7, 64, 300]);
            let n = if rng.chance(1, 2) { n } else { rng.below(40) as usize };
            let vals: Vec<i32> = (0..n)
                .map(|_| if rng.chance(1, 3) { *rng.pick(&[-32768i32, -32767, -1, 0, 1, 255, 256, 32766, 32767]) } else { rng.below(65536) as i32 - 32768 })
                .collect();
            if as_bytes {
                let mut b: Vec<u8> = vals.iter().flat_map(|v| (*v as i16).to_be_bytes()).collect();
                let mut len = b.len();
                if rng.chance(1, 4) {
                    b = mutate(rng, b);
                    len = b.len();
                }
                if rng.chance(1, 6) {
                    len = (len + rng.below(4) as usize).saturating_sub(rng.below(4) as usize);
                }
                format!("set|cvt|{}|{}", len, hex(&b))
            } else {
                let s = if vals.is_empty() { "-".to_string() } else { vals.iter().map(|v| v.to_string()).collect::<Vec<_>>().join(",") };
                format!("setw|cvt|0|{}", s)
            }
        }
        1 | 2 | 3 => {
            // charsets
            let fmt = rng.below(3) as u32;
            let nm1 = match rng.below(6) {
                0 => 0,
                1 => 1,
                2 => *rng.pick(&[255u32, 256, 257, 65534]),
                _ => rng.below(600) as u32,
            };
            let mut n_glyphs = nm1 as usize + 1;
            let rs: Vec<(u32, u32)> = match fmt {
                0 => (0..nm1.min(400)).map(|_| (val16(rng), 0)).collect(),
                1 => covering(rng, nm1, 256),
                _ => covering(rng, nm1, 65536),
            };
            if fmt == 0 {
                n_glyphs = rs.len() + 1;
            }
            // sometimes the declared glyph count disagrees with the ranges (fewer: early stop; more: Eof)
            if rng.chance(1, 6) {
                n_glyphs = (n_glyphs + rng.below(5) as usize).saturating_sub(rng.below(5) as usize);
            }
            if as_bytes {
                let mut b = vec![if rng.chance(1, 12) { rng.below(256) as u8 } else { fmt as u8 }];
                for (f, nl) in &rs {
                    b.extend_from_slice(&be16(*f));
                    match fmt {
                        0 => {}
                        1 => b.push(*nl as u8),
                        _ => b.extend_from_slice(&be16(*nl)),
                    }
                }
                if rng.chance(1, 3) {
                    // trailing bytes (further ranges that must not be read)
                    for _ in 0..rng.below(7) {
                        b.push(rng.below(256) as u8);
                    }
                }
                if rng.chance(1, 5) {
                    b = mutate(rng, b);
                }
                format!("set|chs|{}|{}", n_glyphs, hex(&b))
            } else {
                let items: Vec<String> = rs.iter().map(|(f, nl)| if fmt == 0 { f.to_string() } else { format!("{}:{}", f, nl) }).collect();
                format!("setw|chs|{}|{}/{}", n_glyphs, fmt, plus(items))
            }
        }
        4 | 5 | 6 => {
            // FDSelect
            let f3 = rng.chance(1, 2);
            let n_glyphs = match rng.below(5) {
                0 => 0usize,
                1 => 1,
                _ => rng.below(300) as usize,
            };
            if !f3 {
                let fds: Vec<u32> = (0..n_glyphs).map(|_| val8(rng)).collect();
                let mut n = n_glyphs;
                if rng.chance(1, 6) {
                    n = (n + rng.below(4) as usize).saturating_sub(rng.below(4) as usize);
                }
                if as_bytes {
                    let mut b = vec![if rng.chance(1, 12) { *rng.pick(&[1u8, 2, 3, 4, 5, 255]) } else { 0 }];
                    b.extend(fds.iter().map(|x| *x as u8));
                    if rng.chance(1, 5) {
                        b = mutate(rng, b);
                    }
                    format!("set|fds|{}|{}", n, hex(&b))
                } else {
                    format!("setw|fds|{}|0/{}/0", n, plus(fds.iter().map(|x| x.to_string()).collect()))
                }
            } else {
                // a run of equal ranges stands for the large counts (65535 / 65536 ranges: the nRanges edge)
                let big = !as_bytes && rng.chance(1, 8);
                let nr = if big { *rng.pick(&[65534usize, 65535, 65536, 65537, 70000]) } else { rng.below(12) as usize };
                let sentinel = val16(rng);
                if big {
                    return format!("setw|fds|{}|3/{}*{}:{}/{}", n_glyphs, nr, val16(rng), val8(rng), sentinel);
                }
                let rs: Vec<(u32, u32)> = (0..nr).map(|_| (val16(rng), val8(rng))).collect();
                if as_bytes {
                    let mut b = vec![if rng.chance(1, 12) { *rng.pick(&[0u8, 1, 2, 4, 5, 255]) } else { 3 }];
                    let cnt = if rng.chance(1, 8) { val16(rng) } else { nr as u32 };
                    b.extend_from_slice(&be16(cnt));
                    for (f, fd) in &rs {
                        b.extend_from_slice(&be16(*f));
                        b.push(*fd as u8);
                    }
                    b.extend_from_slice(&be16(sentinel));
                    if rng.chance(1, 5) {
                        b = mutate(rng, b);
                    }
                    format!("set|fds|{}|{}", n_glyphs, hex(&b))
                } else {
                    format!("setw|fds|{}|3/{}/{}", n_glyphs, plus(rs.iter().map(|(f, fd)| format!("{}:{}", f, fd)).collect()), sentinel)
                }
            }
        }
        _ => {
            // custom encodings (values exist only as parsed ones: ReadArray cannot be built by hand)
            let fmt = if rng.chance(1, 10) { *rng.pick(&[2u8, 3, 0x7f, 0x80, 0x81, 0xff]) } else { rng.below(2) as u8 };
            let n = match rng.below(5) {
                0 => 0usize,
                1 => 255,
                _ => rng.below(40) as usize,
            };
            let mut b = vec![fmt, n as u8];
            for _ in 0..n {
                b.push(val8(rng) as u8);
                if fmt & 1 == 1 {
                    b.push(val8(rng) as u8);
                }
            }
            if rng.chance(1, 3) {
                for _ in 0..rng.below(5) {
                    b.push(rng.below(256) as u8);
                }
            }
            if rng.chance(1, 5) {
                b = mutate(rng, b);
            }
            format!("set|enc|0|{}", hex(&b))
        }
    }
}
