// C12 CFF2 cases (included by src/bin/c12.rs as `mod cff2`): `variations::instance` on a
// harness-built variable CFF2 font (mode `c2`) and on the CFF2 fixture fonts (mode `c2f`).
//
//   c2|USER|AC:REGIONS|IVDS|VSDEF|GSUBRS|FDS|FDSEL|GLYPHS|HMTX|HVAR
//     USER     k1,k2,..  user coordinates in 2.14 units (every axis is -1 .. 0 .. +1, so the user
//              value k/16384 normalises to raw k; values outside +-16384 are clamped by fvar)
//     REGIONS  the VariationStore's region list: s,p,e;s,p,e;..  (all axes of all regions)
//     IVDS     the region indices of each ItemVariationData: i,j/./k   (`.` = no regions)
//     VSDEF    the vsindex of each Private DICT
//     GSUBRS   global subroutines: . (none) or HEX,HEX,..   (`-` = empty charstring)
//     FDS      per Font DICT, separated by /: ~ (no Subrs operator) or a list as above
//     FDSEL    font dict index of each glyph, or - (a single Font DICT)
//     GLYPHS   the variable charstrings, HEX,HEX,..
//     HMTX     aw:lsb,aw:lsb,..
//     HVAR     - or REGIONS#IVDS#ADVMAPHEX#LSBMAPHEX  (formats of mode `iv`, as in mode `e2e`)
//     optionally two more fields (older lines end at HVAR):
//     MVAR     - or REGIONS#IVDS#tag,outer,inner;..#0      (as in mode `e2e`; no vhea)
//     VALS     the 28 MVAR-controlled source values in the order of process_mvar's arms
//   c2f|FONT|USER 16.16 raw csv|NORM|AC:REGIONS|..|HVAR
//     the fields after NORM are sliced from the font file by this harness (own walk over the sfnt
//     directory, the CFF2 header / DICTs / INDEXes / FDSelect / VariationStore and HVAR);
//     NORM is the normalised tuple (fvar/avar: property C13).  The run re-reads the font file.
//   result: ok:T=k1,..;TAGS=t1,..;VS=0|1;CS=HEX,HEX,..;O=outline/outline/..;H=aw:lsb,..;M=v1,..,v28
//             CS  the charstrings of the instance's CFF2 table
//             O   per glyph, what CFF2Outlines (no tuple) draws from the instance:
//                 ok:Mx,y Lx,y Cx1,y1,x2,y2,x,y Z ..  |  er:Name
//             VS  1 when the instance's CFF2 table still has a VariationStore
//           | err:E | err:cff-E | err:write | err:other | bad:why | panic
use super::e2e::{
    cmap_bytes, font_bytes, gen_map_bytes, head_bytes, hhea_like, hvar_bytes, mvar_bytes, name_bytes_for, opt_hex,
    os2_bytes, post_bytes, rng_below, sfnt_tables, t, tbl, u16at, u32at, Prov, FIELDS, MVAR_TAGS,
};
use super::*;
use allsorts::cff::cff2::CFF2;
use allsorts::cff::outline::CFF2Outlines;
use allsorts::cff::CFFError;
use allsorts::font_data::FontData;
use allsorts::outline::{OutlineBuilder, OutlineSink};
use allsorts::pathfinder_geometry::line_segment::LineSegment2F;
use allsorts::pathfinder_geometry::vector::Vector2F;
use allsorts::tables::{Fixed, FontTableProvider, HheaTable, HmtxTable, MaxpTable};
use allsorts::variations::{instance, VariationError};

// ---------------------------------------------------------------- case representation

#[derive(Clone, Debug, Default)]
pub struct C2 {
    pub ac: usize,
    pub regions: Vec<(i16, i16, i16)>, // all axes of all regions, flattened
    pub ivds: Vec<Vec<u16>>,
    pub vsdef: Vec<i32>,
    pub gsubrs: Vec<Vec<u8>>,
    pub fds: Vec<Option<Vec<Vec<u8>>>>,
    pub fdsel: Vec<u8>,
    pub glyphs: Vec<Vec<u8>>,
    pub hmtx: Vec<(u16, i16)>,
    pub hvar: String,
    pub mvar: String,
    pub vals: Vec<i64>,
}

fn fmt_list(l: &[Vec<u8>]) -> String {
    if l.is_empty() {
        return ".".to_string();
    }
    l.iter().map(|b| hex(b)).collect::<Vec<_>>().join(",")
}

fn parse_list(s: &str) -> Vec<Vec<u8>> {
    if s == "." || s.is_empty() {
        return vec![];
    }
    s.split(',').map(unhex).collect()
}

/// the fields of a case from `AC:REGIONS` on
pub fn fmt_spec(c: &C2) -> String {
    let rs: Vec<String> = c.regions.iter().map(|(s, p, e)| format!("{},{},{}", s, p, e)).collect();
    let ivds: Vec<String> = c.ivds.iter().map(|d| if d.is_empty() { ".".to_string() } else { join(d, ",") }).collect();
    let fds: Vec<String> = c
        .fds
        .iter()
        .map(|f| match f {
            None => "~".to_string(),
            Some(l) => fmt_list(l),
        })
        .collect();
    let hm: Vec<String> = c.hmtx.iter().map(|(a, l)| format!("{}:{}", a, l)).collect();
    format!(
        "{}:{}|{}|{}|{}|{}|{}|{}|{}|{}|{}|{}",
        c.ac,
        join(&rs, ";"),
        if ivds.is_empty() { "-".to_string() } else { ivds.join("/") },
        join(&c.vsdef, ","),
        fmt_list(&c.gsubrs),
        fds.join("/"),
        join(&c.fdsel, ","),
        fmt_list(&c.glyphs),
        hm.join(","),
        c.hvar,
        if c.mvar.is_empty() { "-" } else { c.mvar.as_str() },
        join(&c.vals, ",")
    )
}

pub fn parse_spec(p: &[&str], base: usize) -> C2 {
    let (ac, regions) = parse_regions(p[base]);
    C2 {
        ac: ac as usize,
        regions,
        ivds: if p[base + 1] == "-" || p[base + 1].is_empty() {
            vec![]
        } else {
            p[base + 1].split('/').map(|d| if d == "." { vec![] } else { csv_i::<u16>(d) }).collect()
        },
        vsdef: csv_i::<i32>(p[base + 2]),
        gsubrs: parse_list(p[base + 3]),
        fds: p[base + 4].split('/').map(|f| if f == "~" { None } else { Some(parse_list(f)) }).collect(),
        fdsel: csv_i::<u8>(p[base + 5]),
        glyphs: parse_list(p[base + 6]),
        hmtx: if p[base + 7] == "-" || p[base + 7].is_empty() {
            vec![]
        } else {
            p[base + 7]
                .split(',')
                .map(|m| {
                    let (a, l) = m.split_once(':').unwrap();
                    (a.parse().unwrap(), l.parse().unwrap())
                })
                .collect()
        },
        hvar: p[base + 8].to_string(),
        mvar: p.get(base + 9).map(|s| s.to_string()).unwrap_or_else(|| "-".to_string()),
        vals: p.get(base + 10).map(|s| csv_i::<i64>(s)).unwrap_or_default(),
    }
}

// ---------------------------------------------------------------- CFF2 table synthesis

fn be(v: u32, n: usize) -> Vec<u8> {
    (0..n).rev().map(|i| (v >> (8 * i)) as u8).collect()
}

fn off_size(max: u32) -> usize {
    if max < 0x100 {
        1
    } else if max < 0x10000 {
        2
    } else if max < 0x1000000 {
        3
    } else {
        4
    }
}

/// CFF2 INDEX (32-bit count)
fn index(items: &[Vec<u8>]) -> Vec<u8> {
    let mut out = be(items.len() as u32, 4);
    if items.is_empty() {
        return out;
    }
    let mut offs = vec![1u32];
    for it in items {
        offs.push(offs.last().unwrap() + it.len() as u32);
    }
    let os = off_size(*offs.iter().max().unwrap());
    out.push(os as u8);
    for o in &offs {
        out.extend(be(*o, os));
    }
    for it in items {
        out.extend(it);
    }
    out
}

/// DICT integer operand in the fixed-width 5-byte form
fn dint(v: i32) -> Vec<u8> {
    let mut o = vec![29];
    o.extend(be(v as u32, 4));
    o
}

fn dict(entries: &[(Vec<u8>, Vec<i32>)]) -> Vec<u8> {
    let mut o = vec![];
    for (op, args) in entries {
        for a in args {
            o.extend(dint(*a));
        }
        o.extend(op);
    }
    o
}

fn fdselect(sel: &[u8], n_glyphs: usize) -> Vec<u8> {
    let mut s: Vec<u8> = sel.to_vec();
    s.resize(n_glyphs, 0);
    if sel.len() % 2 == 0 || s.is_empty() {
        let mut o = vec![0u8];
        o.extend(&s);
        return o;
    }
    let mut ranges: Vec<(u16, u8)> = vec![];
    for (i, fd) in s.iter().enumerate() {
        if ranges.last().map(|r| r.1) != Some(*fd) {
            ranges.push((i as u16, *fd));
        }
    }
    let mut o = vec![3u8];
    o.extend(be(ranges.len() as u32, 2));
    for (first, fd) in ranges {
        o.extend(be(first as u32, 2));
        o.push(fd);
    }
    o.extend(be(n_glyphs as u32, 2));
    o
}

/// Private DICT (+ local Subr INDEX right after it); returns (bytes, private dict length)
fn private_with_subrs(subrs: &Option<Vec<Vec<u8>>>, vsindex: i32) -> (Vec<u8>, usize) {
    let mut entries: Vec<(Vec<u8>, Vec<i32>)> = vec![];
    if vsindex != 0 {
        entries.push((vec![22], vec![vsindex]));
    }
    match subrs {
        None => {
            let d = dict(&entries);
            let n = d.len();
            (d, n)
        }
        Some(l) => {
            entries.push((vec![19], vec![0]));
            let n = dict(&entries).len();
            entries.last_mut().unwrap().1 = vec![n as i32];
            let mut d = dict(&entries);
            d.extend(index(l));
            (d, n)
        }
    }
}

fn build_vstore(c: &C2) -> Vec<u8> {
    let nreg = if c.ac == 0 { 0 } else { c.regions.len() / c.ac };
    let hdr = 2 + 4 + 2 + 4 * c.ivds.len();
    let mut regions = be(c.ac as u32, 2);
    regions.extend(be(nreg as u32, 2));
    for (s, p, e) in c.regions.iter().take(nreg * c.ac) {
        regions.extend(be(*s as u16 as u32, 2));
        regions.extend(be(*p as u16 as u32, 2));
        regions.extend(be(*e as u16 as u32, 2));
    }
    let mut ivs = be(1, 2);
    ivs.extend(be(hdr as u32, 4));
    ivs.extend(be(c.ivds.len() as u32, 2));
    let mut pos = hdr + regions.len();
    let mut ivd_bytes = vec![];
    for d in &c.ivds {
        ivs.extend(be(pos as u32, 4));
        let mut b = be(0, 2); // itemCount
        b.extend(be(0, 2)); // wordDeltaCount
        b.extend(be(d.len() as u32, 2));
        for i in d {
            b.extend(be(*i as u32, 2));
        }
        pos += b.len();
        ivd_bytes.extend(b);
    }
    ivs.extend(regions);
    ivs.extend(ivd_bytes);
    let mut out = be(ivs.len() as u32, 2);
    out.extend(ivs);
    out
}

pub fn build_cff2(c: &C2) -> Vec<u8> {
    let charstrings = index(&c.glyphs);
    let privs: Vec<(Vec<u8>, usize)> =
        c.fds.iter().enumerate().map(|(i, f)| private_with_subrs(f, c.vsdef.get(i).copied().unwrap_or(0))).collect();
    let multi = c.fds.len() > 1;
    let fdsel = fdselect(&c.fdsel, c.glyphs.len());
    let vstore = build_vstore(c);
    let mut offsets = (0i32, 0i32, 0i32, 0i32, vec![0i32; privs.len()]); // charstrings, fdarray, fdselect, vstore
    let mut out = vec![];
    for _pass in 0..2 {
        let mut top: Vec<(Vec<u8>, Vec<i32>)> = vec![];
        top.push((vec![17], vec![offsets.0]));
        top.push((vec![12, 36], vec![offsets.1]));
        if multi {
            top.push((vec![12, 37], vec![offsets.2]));
        }
        top.push((vec![24], vec![offsets.3]));
        let td = dict(&top);
        out = vec![2, 0, 5];
        out.extend(be(td.len() as u32, 2));
        out.extend(td);
        out.extend(index(&c.gsubrs));
        offsets.0 = out.len() as i32;
        out.extend(&charstrings);
        for (i, (p, _)) in privs.iter().enumerate() {
            offsets.4[i] = out.len() as i32;
            out.extend(p);
        }
        offsets.2 = out.len() as i32;
        if multi {
            out.extend(&fdsel);
        }
        offsets.3 = out.len() as i32;
        out.extend(&vstore);
        offsets.1 = out.len() as i32;
        let fdicts: Vec<Vec<u8>> =
            privs.iter().enumerate().map(|(i, (_, n))| dict(&[(vec![18], vec![*n as i32, offsets.4[i]])])).collect();
        out.extend(index(&fdicts));
    }
    out
}

fn maxp05_bytes(n: u16) -> Vec<u8> {
    let mut v = vec![];
    be32(&mut v, 0x00005000);
    be16(&mut v, n);
    v
}

/// the tables of a `c2` case
pub fn c2_font(c: &C2) -> Vec<(u32, Vec<u8>)> {
    let n = c.glyphs.len();
    let mut hmtx = vec![];
    for i in 0..n {
        let (aw, lsb) = c.hmtx.get(i).copied().unwrap_or((500, 0));
        be16(&mut hmtx, aw);
        hmtx.extend_from_slice(&lsb.to_be_bytes());
    }
    let mut os2 = os2_bytes();
    let mut hhea = hhea_like(n as u16);
    let mut post = post_bytes();
    for (i, (tb, off)) in FIELDS.iter().enumerate() {
        if let Some(val) = c.vals.get(i) {
            let b = (*val as u16).to_be_bytes();
            let d = match tb {
                0 => &mut os2,
                2 => &mut hhea,
                3 => &mut post,
                _ => continue,
            };
            d[*off] = b[0];
            d[*off + 1] = b[1];
        }
    }
    let mut tables: Vec<(u32, Vec<u8>)> = vec![
        (t(b"CFF2"), build_cff2(c)),
        (t(b"OS/2"), os2),
        (t(b"cmap"), cmap_bytes()),
        (t(b"fvar"), fvar_bytes(c.ac)),
        (t(b"head"), head_bytes()),
        (t(b"hhea"), hhea),
        (t(b"hmtx"), hmtx),
        (t(b"maxp"), maxp05_bytes(n as u16)),
        (t(b"name"), name_bytes_for((n as u64 * 4 + c.vals.iter().map(|v| *v as u64 & 0xffff).sum::<u64>()).wrapping_mul(0x9E3779B97F4A7C15) >> 7)),
        (t(b"post"), post),
    ];
    if c.mvar != "-" && !c.mvar.is_empty() {
        let m: Vec<&str> = c.mvar.split('#').collect();
        let (mac, regs) = parse_regions(m[0]);
        let ivs = ivs_bytes(mac, &regs, &parse_ivds(m[1]));
        let recs: Vec<(u32, u16, u16)> = if m[2] == "-" {
            vec![]
        } else {
            m[2].split(';')
                .map(|r| {
                    let f = csv_i::<u32>(r);
                    (f[0], f[1] as u16, f[2] as u16)
                })
                .collect()
        };
        tables.push((t(b"MVAR"), mvar_bytes(&ivs, &recs)));
    }
    if c.hvar != "-" {
        let h: Vec<&str> = c.hvar.split('#').collect();
        let (hac, regs) = parse_regions(h[0]);
        let ivs = ivs_bytes(hac, &regs, &parse_ivds(h[1]));
        tables.push((t(b"HVAR"), hvar_bytes(&ivs, &opt_hex(h[2]), &opt_hex(h[3]))));
    }
    tables
}

// ---------------------------------------------------------------- reading the instance back

struct Rec(Vec<String>);

fn num(v: f32) -> String {
    if v.fract() == 0.0 && v.abs() < 1e15 {
        format!("{}", v as i64)
    } else {
        format!("{:?}", v)
    }
}

impl OutlineSink for Rec {
    fn move_to(&mut self, to: Vector2F) {
        self.0.push(format!("M{},{}", num(to.x()), num(to.y())));
    }
    fn line_to(&mut self, to: Vector2F) {
        self.0.push(format!("L{},{}", num(to.x()), num(to.y())));
    }
    fn quadratic_curve_to(&mut self, ctrl: Vector2F, to: Vector2F) {
        self.0.push(format!("Q{},{},{},{}", num(ctrl.x()), num(ctrl.y()), num(to.x()), num(to.y())));
    }
    fn cubic_curve_to(&mut self, ctrl: LineSegment2F, to: Vector2F) {
        self.0.push(format!(
            "C{},{},{},{},{},{}",
            num(ctrl.from().x()),
            num(ctrl.from().y()),
            num(ctrl.to().x()),
            num(ctrl.to().y()),
            num(to.x()),
            num(to.y())
        ));
    }
    fn close(&mut self) {
        self.0.push("Z".to_string());
    }
}

fn cff_err(e: &CFFError) -> String {
    match e {
        CFFError::ParseError(p) => format!("Parse{}", perr(p)),
        other => format!("{:?}", other),
    }
}

fn verr2(e: VariationError) -> String {
    match e {
        VariationError::Parse(p) => format!("err:{}", perr(&p)),
        VariationError::CFF(c) => format!("err:cff-{}", cff_err(&c)),
        VariationError::Write(_) => "err:write".to_string(),
        _ => "err:other".to_string(),
    }
}

/// T=..;TAGS=..;VS=..;CS=..;O=..;H=..  of an instance
fn describe_instance(data: &[u8], tuple: &[i16]) -> Result<String, String> {
    let fd = ReadScope::new(data).read::<FontData<'_>>().map_err(|e| format!("out-font-{}", perr(&e)))?;
    let prov = fd.table_provider(0).map_err(|_| "out-provider".to_string())?;
    let tags = prov.table_tags().ok_or("out-tags".to_string())?;
    let rd = |tg: &[u8; 4]| -> Result<Vec<u8>, String> {
        prov.read_table_data(t(tg)).map(|c| c.into_owned()).map_err(|e| format!("out-{}-{}", String::from_utf8_lossy(tg), perr(&e)))
    };
    let maxp_d = rd(b"maxp")?;
    let maxp = ReadScope::new(&maxp_d).read::<MaxpTable>().map_err(|e| format!("out-maxp-{}", perr(&e)))?;
    let hhea_d = rd(b"hhea")?;
    let hhea = ReadScope::new(&hhea_d).read::<HheaTable>().map_err(|e| format!("out-hhea-{}", perr(&e)))?;
    let hmtx_d = rd(b"hmtx")?;
    let hmtx = ReadScope::new(&hmtx_d)
        .read_dep::<HmtxTable<'_>>((usize::from(maxp.num_glyphs), usize::from(hhea.num_h_metrics)))
        .map_err(|e| format!("out-hmtx-{}", perr(&e)))?;
    let cff2_d = rd(b"CFF2")?;
    let cff2 = ReadScope::new(&cff2_d).read::<CFF2<'_>>().map_err(|e| format!("out-CFF2-{}", perr(&e)))?;
    let n = cff2.char_strings_index.len();
    if n != usize::from(maxp.num_glyphs) {
        return Err(format!("out-glyph-count-{}-{}", n, maxp.num_glyphs));
    }
    let mut cs = vec![];
    let mut os = vec![];
    let mut hs = vec![];
    for gid in 0..n {
        let b = cff2.char_strings_index.read_object(gid).ok_or(format!("out-charstring{}", gid))?;
        cs.push(hex(b));
        let mut rec = Rec(vec![]);
        let mut outlines = CFF2Outlines { table: &cff2, tuple: None };
        match outlines.visit(gid as u16, &mut rec) {
            Ok(()) => os.push(format!("ok:{}", rec.0.join(" "))),
            Err(e) => os.push(format!("er:{}", cff_err(&e))),
        }
        let m = hmtx.metric(gid as u16).map_err(|e| format!("out-metric{}-{}", gid, perr(&e)))?;
        hs.push(format!("{}:{}", m.advance_width, m.lsb));
    }
    let os2 = rd(b"OS/2")?;
    let post = rd(b"post")?;
    let vhea = prov.read_table_data(t(b"vhea")).ok().map(|c| c.into_owned());
    let mut vals = vec![];
    for (i, (tb, off)) in FIELDS.iter().enumerate() {
        let src: Option<&Vec<u8>> = match tb {
            0 => Some(&os2),
            1 => vhea.as_ref(),
            2 => Some(&hhea_d),
            _ => Some(&post),
        };
        match src {
            Some(d) if d.len() >= off + 2 => {
                let raw = u16::from_be_bytes([d[*off], d[*off + 1]]);
                vals.push(if i == 3 || i == 4 { raw.to_string() } else { (raw as i16).to_string() });
            }
            _ => vals.push("x".to_string()),
        }
    }
    Ok(format!(
        "T={};TAGS={};VS={};CS={};O={};H={};M={}",
        join(tuple, ","),
        join(&tags, ","),
        cff2.vstore.is_some() as u8,
        cs.join(","),
        os.join("/"),
        hs.join(","),
        vals.join(",")
    ))
}

fn finish(r: Result<(Vec<u8>, allsorts::tables::variable_fonts::OwnedTuple), VariationError>) -> String {
    match r {
        Err(e) => verr2(e),
        Ok((data, tuple)) => {
            let tv: Vec<i16> = tuple.iter().map(|v| v.raw_value()).collect();
            match describe_instance(&data, &tv) {
                Ok(s) => format!("ok:{}", s),
                Err(e) => format!("bad:{}", e),
            }
        }
    }
}

pub fn c2_run(p: &[&str]) -> String {
    let user = csv_i::<i64>(p[1]);
    let c = parse_spec(p, 2);
    let user_fixed: Vec<Fixed> = user.iter().map(|k| Fixed::from_raw((*k as i32) * 4)).collect();
    finish(instance(&Prov(c2_font(&c)), &user_fixed))
}

pub fn c2f_run(p: &[&str]) -> String {
    let name = CFF2_FONTS.iter().find(|f| f.ends_with(p[1])).copied().unwrap_or("");
    let data = font_bytes(name);
    let user: Vec<Fixed> = csv_i::<i32>(p[2]).iter().map(|v| Fixed::from_raw(*v)).collect();
    let fd = match ReadScope::new(&data).read::<FontData<'_>>() {
        Ok(f) => f,
        Err(e) => return format!("err:font-{}", perr(&e)),
    };
    let prov = match fd.table_provider(0) {
        Ok(x) => x,
        Err(_) => return "err:prov".to_string(),
    };
    finish(instance(&prov, &user))
}

// ---------------------------------------------------------------- generator: charstrings with blends

#[derive(Clone, Copy, Debug)]
enum Num {
    I(i32),
    F(i32), // 16.16 raw
}

#[derive(Clone, Debug)]
struct Opnd {
    def: Num,
    deltas: Option<Vec<Num>>, // one per region of the ItemVariationData in use
}

type Tok = Vec<u8>;

fn enc_int(rng: &mut Rng, v: i32) -> Tok {
    let mut forms: Vec<u8> = vec![];
    if (-107..=107).contains(&v) {
        forms.extend([1, 1, 1, 1]);
    }
    if (108..=1131).contains(&v) || (-1131..=-108).contains(&v) {
        forms.extend([2, 2, 2, 2]);
    }
    if (-32768..=32767).contains(&v) {
        forms.extend([3, 3, 4]);
    }
    match *rng.pick(&forms) {
        1 => vec![(v + 139) as u8],
        2 => {
            if v > 0 {
                let w = v - 108;
                vec![(w / 256 + 247) as u8, (w % 256) as u8]
            } else {
                let w = -v - 108;
                vec![(w / 256 + 251) as u8, (w % 256) as u8]
            }
        }
        3 => {
            let mut o = vec![28];
            o.extend(be(v as i16 as u16 as u32, 2));
            o
        }
        _ => {
            let mut o = vec![255];
            o.extend(be((v << 16) as u32, 4));
            o
        }
    }
}

fn enc_num(rng: &mut Rng, n: Num) -> Tok {
    match n {
        Num::I(v) => enc_int(rng, v),
        Num::F(raw) => {
            let mut o = vec![255];
            o.extend(be(raw as u32, 4));
            o
        }
    }
}

/// how the glyph under construction chooses its numbers
struct Style {
    k: usize,           // regions of the ItemVariationData the blends use
    blend: u64,         // an operand is blended with probability blend/8
    uniform: Option<Vec<Num>>, // every blended operand has these deltas (rounding errors of one sign)
    frac: bool,         // 16.16 defaults / deltas occur
    big: bool,          // large coordinates
}

struct G<'a> {
    rng: &'a mut Rng,
    st: Style,
    toks: Vec<Tok>,
    stems: usize,
}

impl<'a> G<'a> {
    fn default_val(&mut self) -> Num {
        let r = self.rng.below(100);
        if self.st.frac && r < 15 {
            // magnitude below 128: 7 + 16 bits, exact in f32
            return Num::F(self.rng.range(-(100 << 16), 100 << 16) as i32);
        }
        Num::I(if self.st.big && r < 40 {
            self.rng.range(-6000, 6000) as i32
        } else if r < 25 {
            *self.rng.pick(&[-1131, -1132, -108, -107, 107, 108, 1131, 1132, 0, 0, 1, -1])
        } else if r < 45 {
            self.rng.range(-900, 900) as i32
        } else {
            self.rng.range(-120, 120) as i32
        })
    }
    fn delta_val(&mut self) -> Num {
        let r = self.rng.below(100);
        if self.st.frac && r < 10 {
            return Num::F(self.rng.range(-(20 << 16), 20 << 16) as i32);
        }
        Num::I(if r < 10 {
            0
        } else if r < 20 {
            *self.rng.pick(&[1, -1, 2, -3])
        } else if self.st.big && r < 40 {
            self.rng.range(-2500, 2500) as i32
        } else if r < 85 {
            self.rng.range(-60, 60) as i32
        } else {
            self.rng.range(-400, 400) as i32
        })
    }
    fn opnd(&mut self) -> Opnd {
        let def = self.default_val();
        let deltas = if self.rng.below(8) < self.st.blend {
            Some(match &self.st.uniform {
                Some(u) => u.clone(),
                None => (0..self.st.k).map(|_| self.delta_val()).collect(),
            })
        } else {
            None
        };
        Opnd { def, deltas }
    }
    /// `n` operands followed by the operator bytes; runs of blended operands share a blend
    /// operator (or are split at random), every default / delta in a random number form
    fn emit(&mut self, ops: Vec<Opnd>, operator: &[u8]) {
        let mut i = 0;
        while i < ops.len() {
            if ops[i].deltas.is_none() {
                let tk = enc_num(self.rng, ops[i].def);
                self.toks.push(tk);
                i += 1;
                continue;
            }
            let mut j = i;
            while j < ops.len() && ops[j].deltas.is_some() && (j == i || !self.rng.chance(1, 5)) && j - i < 40 {
                j += 1;
            }
            for o in &ops[i..j] {
                let tk = enc_num(self.rng, o.def);
                self.toks.push(tk);
            }
            for o in &ops[i..j] {
                for d in o.deltas.as_ref().unwrap() {
                    let tk = enc_num(self.rng, *d);
                    self.toks.push(tk);
                }
            }
            let tk = enc_int(self.rng, (j - i) as i32);
            self.toks.push(tk);
            self.toks.push(vec![16]);
            i = j;
        }
        self.toks.push(operator.to_vec());
    }
    fn op(&mut self, n: usize, operator: &[u8]) {
        let ops: Vec<Opnd> = (0..n).map(|_| self.opnd()).collect();
        self.emit(ops, operator);
    }
    fn mask(&mut self, o: u8, implicit_vstems: usize) {
        let ops: Vec<Opnd> = (0..2 * implicit_vstems).map(|_| self.opnd()).collect();
        self.stems += implicit_vstems;
        let n = (self.stems + 7) / 8;
        let mut tk = vec![o];
        tk.extend(self.rng.bytes(n));
        self.emit(ops, &tk);
    }
    fn hints(&mut self) {
        let hm = self.rng.chance(1, 2);
        if self.rng.chance(2, 3) {
            let k = 1 + self.rng.below(3) as usize;
            self.stems += k;
            self.op(2 * k, &[if hm { 18 } else { 1 }]);
        }
        if self.rng.chance(1, 2) {
            let k = 1 + self.rng.below(3) as usize;
            if hm && self.rng.chance(1, 2) {
                self.mask(19, k);
            } else {
                self.stems += k;
                self.op(2 * k, &[if hm { 23 } else { 3 }]);
            }
        }
        if hm && self.stems > 0 && self.rng.chance(1, 2) {
            let o = if self.rng.chance(1, 2) { 19 } else { 20 };
            self.mask(o, 0);
        }
    }
    fn segment(&mut self) {
        let m = |g: &mut G, cap: u64| 1 + g.rng.below(cap) as usize;
        match self.rng.below(16) {
            0 | 1 => {
                let n = m(self, 5);
                self.op(2 * n, &[5]);
            }
            2 | 3 => {
                let n = m(self, 7);
                let o = if self.rng.chance(1, 2) { 6 } else { 7 };
                self.op(n, &[o]);
            }
            4 | 5 => {
                let n = m(self, 3);
                self.op(6 * n, &[8]);
            }
            6 | 7 => {
                let n = m(self, 3);
                let odd = self.rng.chance(1, 2) as usize;
                let o = if self.rng.chance(1, 2) { 27 } else { 26 };
                self.op(4 * n + odd, &[o]);
            }
            8 | 9 | 10 => {
                let n = m(self, 4);
                let odd = self.rng.chance(1, 2) as usize;
                let o = if self.rng.chance(1, 2) { 31 } else { 30 };
                self.op(4 * n + odd, &[o]);
            }
            11 => {
                let n = m(self, 2);
                self.op(6 * n + 2, &[24]);
            }
            12 => {
                let n = m(self, 3);
                self.op(2 * n + 6, &[25]);
            }
            13 => self.op(13, &[12, 35]),
            14 => {
                if self.rng.chance(1, 2) {
                    self.op(7, &[12, 34])
                } else {
                    self.op(9, &[12, 36])
                }
            }
            _ => {
                // flex1 chooses the direction of its last operand by comparing |dx| and |dy| of
                // its own operands: a discontinuous function of them, so they are not blended
                // and the two sums are kept well apart
                let mut vals: Vec<i32> = (0..11).map(|_| self.rng.range(-60, 60) as i32).collect();
                let dx: i32 = (0..5).map(|i| vals[2 * i]).sum();
                let dy: i32 = (0..5).map(|i| vals[2 * i + 1]).sum();
                if (dx.abs() - dy.abs()).abs() < 3 {
                    vals[0] += 200;
                }
                let ops = vals.iter().map(|v| Opnd { def: Num::I(*v), deltas: None }).collect();
                self.emit(ops, &[12, 37]);
            }
        }
    }
    fn path(&mut self, long: bool) {
        if self.rng.chance(1, 3) {
            self.hints();
        }
        let contours = match self.rng.below(10) {
            0 => 0,
            1..=6 => 1,
            7 | 8 => 2,
            _ => 3,
        };
        for _ in 0..contours {
            match self.rng.below(3) {
                0 => self.op(2, &[21]),
                1 => self.op(1, &[22]),
                _ => self.op(1, &[4]),
            }
            let segs = if long { 6 + self.rng.below(14) } else { self.rng.below(5) };
            for _ in 0..segs {
                self.segment();
                if self.stems > 0 && self.rng.chance(1, 10) {
                    self.mask(19, 0);
                }
            }
        }
    }
}

fn bias(n: usize) -> i32 {
    if n < 1240 {
        107
    } else if n < 33900 {
        1131
    } else {
        32768
    }
}

/// move random token runs into subroutines (the pools have a fixed size, so the bias is known)
fn factor(rng: &mut Rng, toks: &[Tok], g: &mut Vec<Option<Vec<u8>>>, l: &mut Option<Vec<Option<Vec<u8>>>>, depth: usize, want: usize) -> Vec<u8> {
    let mut out = vec![];
    let mut i = 0;
    while i < toks.len() {
        if depth < want && rng.chance(1, 4) {
            let len = 1 + rng.below((toks.len() - i).min(14) as u64) as usize;
            let use_local = l.is_some() && rng.chance(1, 2);
            let slot = {
                let pool: &Vec<Option<Vec<u8>>> = if use_local { l.as_ref().unwrap() } else { g };
                (0..pool.len()).find(|k| pool[*k].is_none())
            };
            if let Some(slot) = slot {
                if use_local {
                    l.as_mut().unwrap()[slot] = Some(vec![]);
                } else {
                    g[slot] = Some(vec![]);
                }
                let body = factor(rng, &toks[i..i + len], g, l, depth + 1, want);
                let n = if use_local { l.as_ref().unwrap().len() } else { g.len() };
                if use_local {
                    l.as_mut().unwrap()[slot] = Some(body);
                } else {
                    g[slot] = Some(body);
                }
                out.extend(enc_int(rng, slot as i32 - bias(n)));
                out.push(if use_local { 10 } else { 29 });
                i += len;
                continue;
            }
        }
        out.extend(&toks[i]);
        i += 1;
    }
    out
}

fn region_axes(rng: &mut Rng) -> (i16, i16, i16) {
    match rng.below(8) {
        // the usual shapes of a designspace: 0 .. 1 .. 1, an intermediate master, the negative side
        0 | 1 => (0, 16384, 16384),
        2 => (-16384, -16384, 0),
        3 => {
            let p = *rng.pick(&[8192i16, 4096, 5461, 10923, 12288, 3277]);
            (0, p, 16384)
        }
        4 => {
            let p = *rng.pick(&[8192i16, 4096, 5461, 10923, 12288]);
            (p, 16384, 16384)
        }
        5 => (0, 0, 0),
        _ => gen_axis(rng),
    }
}

pub fn gen_c2(rng: &mut Rng) -> String {
    let ac = 1 + rng.below(2) as usize;
    let nreg = 1 + rng.below(4) as usize;
    let mut regions = vec![];
    for _ in 0..nreg * ac {
        regions.push(region_axes(rng));
    }
    let nivd = 1 + rng.below(3) as usize;
    let ivds: Vec<Vec<u16>> = (0..nivd)
        .map(|_| {
            let k = if rng.chance(1, 8) { 0 } else { 1 + rng.below(3) as usize };
            (0..k).map(|_| rng.below(nreg as u64) as u16).collect()
        })
        .collect();
    let nfd = 1 + rng.below(2) as usize;
    let vsdef: Vec<i32> = (0..nfd).map(|_| if rng.chance(1, 2) { 0 } else { rng.below(nivd as u64) as i32 }).collect();
    let nglyphs = 1 + rng.below(4) as usize;
    let fdsel: Vec<u8> = if nfd == 1 { vec![] } else { (0..nglyphs).map(|_| rng.below(nfd as u64) as u8).collect() };

    let gsize = if rng.chance(1, 3) { 0 } else { 1 + rng.below(5) as usize };
    let mut gpool: Vec<Option<Vec<u8>>> = vec![None; gsize];
    let mut lpools: Vec<Option<Vec<Option<Vec<u8>>>>> =
        (0..nfd).map(|_| if rng.chance(1, 3) { None } else { Some(vec![None; 1 + rng.below(4) as usize]) }).collect();

    let mut glyphs = vec![];
    for gi in 0..nglyphs {
        let fd = if fdsel.is_empty() { 0 } else { fdsel[gi] as usize };
        let explicit = nivd > 1 && rng.chance(1, 3);
        let vs = if explicit { rng.below(nivd as u64) as usize } else { vsdef[fd] as usize };
        let k = ivds[vs].len();
        let frac = rng.chance(1, 6);
        let big = rng.chance(1, 10);
        let mut g = G { rng: &mut *rng, st: Style { k, blend: 0, uniform: None, frac, big }, toks: vec![], stems: 0 };
        g.st.blend = *g.rng.pick(&[0, 2, 4, 6, 8, 8, 8]);
        if g.rng.chance(1, 3) {
            let u: Vec<Num> = (0..k).map(|_| g.delta_val()).collect();
            g.st.uniform = Some(u);
        }
        let long = g.rng.chance(1, 4);
        g.path(long);
        let mut toks = std::mem::take(&mut g.toks);
        if explicit {
            let mut pre = vec![enc_int(rng, vs as i32), vec![15]];
            pre.extend(toks);
            toks = pre;
        }
        let want = match rng.below(6) {
            0..=2 => 0,
            3 | 4 => 1,
            _ => 2,
        };
        let mut cs = factor(rng, &toks, &mut gpool, &mut lpools[fd], 0, want);
        if rng.chance(1, 60) && !cs.is_empty() {
            // a damaged charstring: both sides must fail, or agree on what is drawn
            let i = rng.below(cs.len() as u64) as usize;
            match rng.below(3) {
                0 => cs[i] = rng.next() as u8,
                1 => cs.truncate(i),
                _ => cs[i] ^= 1 << rng.below(8),
            }
        }
        glyphs.push(cs);
    }
    let fin = |p: Vec<Option<Vec<u8>>>| -> Vec<Vec<u8>> { p.into_iter().map(|x| x.unwrap_or_default()).collect() };
    let hmtx: Vec<(u16, i16)> = (0..nglyphs).map(|_| (rng.range(0, 3000) as u16, rng.range(-300, 300) as i16)).collect();

    let mut all_axes: Vec<Vec<(i16, i16, i16)>> = regions.chunks(ac).map(|r| r.to_vec()).collect();
    let hvar = if rng.chance(1, 3) {
        let (rs, ivs, regs, nivd) = gen_ivs(rng, ac, nglyphs.max(4), true);
        for r in regs.chunks(ac) {
            all_axes.push(r.to_vec());
        }
        let adv = if rng.chance(1, 2) {
            let c = 1 + rng_below(rng, nglyphs + 1);
            hex(&gen_map_bytes(rng, c, nivd as u16 - 1, 3))
        } else {
            "-".to_string()
        };
        let lsb = if rng.chance(1, 3) {
            let c = 1 + rng_below(rng, nglyphs + 1);
            hex(&gen_map_bytes(rng, c, nivd as u16 - 1, 3))
        } else {
            "-".to_string()
        };
        format!("{}#{}#{}#{}", rs, ivs, adv, lsb)
    } else {
        "-".to_string()
    };

    let mut vals: Vec<i64> = (0..28).map(|_| rng.range(-900, 900)).collect();
    vals[0] = rng.range(500, 1200);
    vals[1] = rng.range(-500, 0);
    vals[3] = rng.range(0, 2000);
    vals[4] = rng.range(0, 2000);
    let mvar = if rng.chance(1, 4) {
        let (rs, ivs, regs, nivd) = gen_ivs(rng, ac, 4, true);
        for r in regs.chunks(ac) {
            all_axes.push(r.to_vec());
        }
        let mut idx: Vec<usize> = (0..28).filter(|i| rng.chance(1, 4) && FIELDS[*i].0 != 1).collect();
        idx.sort_by_key(|i| t(MVAR_TAGS[*i]));
        let recs: Vec<String> = idx.iter().map(|i| format!("{},{},{}", t(MVAR_TAGS[*i]), rng.below(nivd as u64), rng.below(4))).collect();
        format!("{}#{}#{}#0", rs, ivs, if recs.is_empty() { "-".to_string() } else { recs.join(";") })
    } else {
        "-".to_string()
    };

    let user: Vec<i64> = (0..ac)
        .map(|k| match rng.below(10) {
            0 => *rng.pick(&[0i64, 16384, -16384, 16385, -16385, 20000, -30000, 8192]),
            // strictly between the masters: fractional scalars
            1..=4 => {
                let i = rng.below(all_axes.len() as u64) as usize;
                let a = all_axes[i][k];
                let (lo, hi) = (a.0.min(a.2) as i64, a.0.max(a.2) as i64);
                if hi - lo >= 2 {
                    rng.range(lo + 1, hi - 1)
                } else {
                    rng.range(-16384, 16384)
                }
            }
            _ => {
                let i = rng.below(all_axes.len() as u64) as usize;
                gen_coord(rng, all_axes[i][k]) as i64
            }
        })
        .collect();
    let user = if rng.chance(1, 8) { vec![0; ac] } else { user };
    let c = C2 {
        ac,
        regions,
        ivds,
        vsdef,
        gsubrs: fin(gpool),
        fds: lpools.into_iter().map(|p| p.map(fin)).collect(),
        fdsel,
        glyphs,
        hmtx,
        hvar,
        mvar,
        vals,
    };
    format!("c2|{}|{}", join(&user, ","), fmt_spec(&c))
}

// ---------------------------------------------------------------- fixture fonts

pub const CFF2_FONTS: [&str; 2] = [
    "tests/fonts/opentype/cff2/SourceSansVariable-Roman.abc.otf",
    "tests/fonts/opentype/cff2/SourceSans3.abc.otf",
];

/// DICT data: (operator (two-byte operators as 0x0c00 | b1), the operands in front of it)
fn dict_entries(d: &[u8]) -> Vec<(u16, Vec<f64>)> {
    let mut out = vec![];
    let mut args: Vec<f64> = vec![];
    let mut i = 0;
    while i < d.len() {
        let b0 = d[i];
        i += 1;
        match b0 {
            0..=27 => {
                let op = if b0 == 12 {
                    let b1 = d.get(i).copied().unwrap_or(0);
                    i += 1;
                    0x0c00 | b1 as u16
                } else {
                    b0 as u16
                };
                out.push((op, std::mem::take(&mut args)));
            }
            28 => {
                if i + 2 > d.len() {
                    break;
                }
                args.push(i16::from_be_bytes([d[i], d[i + 1]]) as f64);
                i += 2;
            }
            29 => {
                if i + 4 > d.len() {
                    break;
                }
                args.push(i32::from_be_bytes([d[i], d[i + 1], d[i + 2], d[i + 3]]) as f64);
                i += 4;
            }
            30 => {
                // real number: nibbles up to 0xf (the value is not needed here)
                let mut s = String::new();
                'outer: while i < d.len() {
                    let b = d[i];
                    i += 1;
                    for nib in [b >> 4, b & 15] {
                        match nib {
                            0..=9 => s.push((b'0' + nib) as char),
                            10 => s.push('.'),
                            11 => s.push('e'),
                            12 => s.push_str("e-"),
                            14 => s.push('-'),
                            15 => break 'outer,
                            _ => {}
                        }
                    }
                }
                args.push(s.parse().unwrap_or(0.0));
            }
            32..=246 => args.push(b0 as f64 - 139.0),
            247..=250 => {
                let b1 = d.get(i).copied().unwrap_or(0);
                i += 1;
                args.push((b0 as f64 - 247.0) * 256.0 + b1 as f64 + 108.0);
            }
            251..=254 => {
                let b1 = d.get(i).copied().unwrap_or(0);
                i += 1;
                args.push(-(b0 as f64 - 251.0) * 256.0 - b1 as f64 - 108.0);
            }
            _ => {}
        }
    }
    out
}

fn dict_last(es: &[(u16, Vec<f64>)], op: u16, n: usize) -> Option<Vec<i64>> {
    es.iter().find(|(o, _)| *o == op).and_then(|(_, a)| if a.len() >= n { Some(a[a.len() - n..].iter().map(|v| *v as i64).collect()) } else { None })
}

/// CFF2 INDEX at `off`: (objects, offset behind the INDEX)
fn read_index2(d: &[u8], off: usize) -> Option<(Vec<Vec<u8>>, usize)> {
    let count = u32at(d.get(off..off + 4)?, 0) as usize;
    if count == 0 {
        return Some((vec![], off + 4));
    }
    let os = *d.get(off + 4)? as usize;
    let ob = off + 5;
    let rd = |k: usize| -> Option<usize> {
        let s = d.get(ob + k * os..ob + (k + 1) * os)?;
        Some(s.iter().fold(0usize, |a, b| (a << 8) | *b as usize))
    };
    let data = ob + (count + 1) * os - 1;
    let mut out = vec![];
    for k in 0..count {
        out.push(d.get(data + rd(k)?..data + rd(k + 1)?)?.to_vec());
    }
    Some((out, data + rd(count)?))
}

/// ItemVariationStore: (axis count, regions flattened, per ItemVariationData (itemCount, wordDeltaCount, region indices, delta bytes))
fn read_ivs(d: &[u8]) -> Option<(usize, Vec<(i16, i16, i16)>, Vec<(u16, u16, Vec<u16>, Vec<u8>)>)> {
    let rlo = u32at(d.get(2..6)?, 0) as usize;
    let n = u16at(d.get(6..8)?, 0) as usize;
    let ac = u16at(d.get(rlo..rlo + 2)?, 0) as usize;
    let rc = u16at(d.get(rlo + 2..rlo + 4)?, 0) as usize;
    let mut regions = vec![];
    for k in 0..rc * ac {
        let o = rlo + 4 + 6 * k;
        let s = d.get(o..o + 6)?;
        regions.push((u16at(s, 0) as i16, u16at(s, 2) as i16, u16at(s, 4) as i16));
    }
    let mut ivds = vec![];
    for k in 0..n {
        let o = u32at(d.get(8 + 4 * k..12 + 4 * k)?, 0) as usize;
        let h = d.get(o..o + 6)?;
        let (items, wdc, ric) = (u16at(h, 0), u16at(h, 2), u16at(h, 4) as usize);
        let idx: Vec<u16> = (0..ric).map(|j| d.get(o + 6 + 2 * j..o + 8 + 2 * j).map(|s| u16at(s, 0))).collect::<Option<Vec<_>>>()?;
        let wc = (wdc & 0x7fff) as usize;
        let row = (ric + wc) * if wdc & 0x8000 != 0 { 2 } else { 1 };
        let data = d.get(o + 6 + 2 * ric..o + 6 + 2 * ric + row * items as usize)?.to_vec();
        ivds.push((items, wdc, idx, data));
    }
    Some((ac, regions, ivds))
}

fn read_dsim_bytes(d: &[u8], off: usize) -> Option<Vec<u8>> {
    let fmt = *d.get(off)?;
    let ef = *d.get(off + 1)?;
    let es = (((ef & 0x30) >> 4) + 1) as usize;
    let (count, hdr) = if fmt == 0 { (u16at(d.get(off + 2..off + 4)?, 0) as usize, 4) } else { (u32at(d.get(off + 2..off + 6)?, 0) as usize, 6) };
    Some(d.get(off..off + hdr + count * es)?.to_vec())
}

fn extract_cff2(ts: &[(u32, Vec<u8>)]) -> Option<C2> {
    let d = tbl(ts, b"CFF2")?;
    let hs = *d.get(2)? as usize;
    let tl = u16at(d.get(3..5)?, 0) as usize;
    let top = dict_entries(d.get(hs..hs + tl)?);
    let (gsubrs, _) = read_index2(d, hs + tl)?;
    let (glyphs, _) = read_index2(d, dict_last(&top, 17, 1)?[0] as usize)?;
    let (fdicts, _) = read_index2(d, dict_last(&top, 0x0c24, 1)?[0] as usize)?;
    let mut fds = vec![];
    let mut vsdef = vec![];
    for fdict in &fdicts {
        let pr = dict_last(&dict_entries(fdict), 18, 2)?;
        let (size, off) = (pr[0] as usize, pr[1] as usize);
        let pe = dict_entries(d.get(off..off + size)?);
        vsdef.push(dict_last(&pe, 22, 1).map(|v| v[0] as i32).unwrap_or(0));
        fds.push(match dict_last(&pe, 19, 1) {
            Some(s) => Some(read_index2(d, off + s[0] as usize)?.0),
            None => None,
        });
    }
    let n = glyphs.len();
    let fdsel: Vec<u8> = match dict_last(&top, 0x0c25, 1) {
        None => vec![],
        Some(o) => {
            let o = o[0] as usize;
            match *d.get(o)? {
                0 => d.get(o + 1..o + 1 + n)?.to_vec(),
                3 => {
                    let nr = u16at(d.get(o + 1..o + 3)?, 0) as usize;
                    let mut sel = vec![0u8; n];
                    for r in 0..nr {
                        let b = o + 3 + 3 * r;
                        let first = u16at(d.get(b..b + 2)?, 0) as usize;
                        let fd = *d.get(b + 2)?;
                        let next = u16at(d.get(b + 3..b + 5)?, 0) as usize;
                        for g in first..next.min(n) {
                            sel[g] = fd;
                        }
                    }
                    sel
                }
                _ => return None,
            }
        }
    };
    let vo = dict_last(&top, 24, 1)?[0] as usize;
    let vl = u16at(d.get(vo..vo + 2)?, 0) as usize;
    let (ac, regions, ivds) = read_ivs(d.get(vo + 2..vo + 2 + vl)?)?;
    // hmtx
    let hhea = tbl(ts, b"hhea")?;
    let hmtx_d = tbl(ts, b"hmtx")?;
    let nhm = u16at(hhea, 34) as usize;
    let hmtx: Vec<(u16, i16)> = (0..n)
        .map(|g| {
            if g < nhm {
                (u16at(hmtx_d, 4 * g), u16at(hmtx_d, 4 * g + 2) as i16)
            } else {
                (u16at(hmtx_d, 4 * (nhm - 1)), u16at(hmtx_d, 4 * nhm + 2 * (g - nhm)) as i16)
            }
        })
        .collect();
    // HVAR
    let hvar = match tbl(ts, b"HVAR") {
        None => "-".to_string(),
        Some(h) => {
            let so = u32at(h, 4) as usize;
            let (hac, hregs, hivds) = read_ivs(h.get(so..)?)?;
            let rs: Vec<String> = hregs.iter().map(|(s, p, e)| format!("{},{},{}", s, p, e)).collect();
            let ds: Vec<String> =
                hivds.iter().map(|(items, wdc, idx, data)| format!("{}:{}:{}:{}:{}", wdc, idx.len(), join(idx, ","), items, hex(data))).collect();
            let mp = |o: usize| -> Option<String> {
                if o == 0 {
                    Some("-".to_string())
                } else {
                    read_dsim_bytes(h, o).map(|b| hex(&b))
                }
            };
            format!("{}:{}#{}#{}#{}", hac, join(&rs, ";"), ds.join("/"), mp(u32at(h, 8) as usize)?, mp(u32at(h, 12) as usize)?)
        }
    };
    // MVAR and the values it controls
    let ivs_str = |regs: &[(i16, i16, i16)], ivds: &[(u16, u16, Vec<u16>, Vec<u8>)]| -> (String, String) {
        let rs: Vec<String> = regs.iter().map(|(s, p, e)| format!("{},{},{}", s, p, e)).collect();
        let ds: Vec<String> =
            ivds.iter().map(|(items, wdc, idx, data)| format!("{}:{}:{}:{}:{}", wdc, idx.len(), join(idx, ","), items, hex(data))).collect();
        (join(&rs, ";"), ds.join("/"))
    };
    let mvar = match tbl(ts, b"MVAR") {
        None => "-".to_string(),
        Some(m) => {
            let rec_size = u16at(m, 6) as usize;
            let rec_count = u16at(m, 8) as usize;
            let so = u16at(m, 10) as usize;
            let recs: Vec<String> = (0..rec_count)
                .map(|k| {
                    let o = 12 + k * rec_size;
                    format!("{},{},{}", u32at(m, o), u16at(m, o + 4), u16at(m, o + 6))
                })
                .collect();
            let (mac, mregs, mivds) = read_ivs(m.get(so..)?)?;
            let (rs, ds) = ivs_str(&mregs, &mivds);
            format!("{}:{}#{}#{}#0", mac, rs, ds, if recs.is_empty() { "-".to_string() } else { recs.join(";") })
        }
    };
    let os2 = tbl(ts, b"OS/2")?;
    let post = tbl(ts, b"post")?;
    let vals: Vec<i64> = FIELDS
        .iter()
        .enumerate()
        .map(|(i, (tb, off))| {
            let d: Option<&Vec<u8>> = match tb {
                0 => Some(os2),
                2 => Some(hhea),
                3 => Some(post),
                _ => None,
            };
            match d {
                Some(d) if d.len() >= off + 2 => {
                    let raw = u16at(d, *off);
                    if i == 3 || i == 4 {
                        raw as i64
                    } else {
                        raw as i16 as i64
                    }
                }
                _ => 0,
            }
        })
        .collect();
    Some(C2 { ac, regions, ivds: ivds.into_iter().map(|x| x.2).collect(), vsdef, gsubrs, fds, fdsel, glyphs, hmtx, hvar, mvar, vals })
}

pub fn gen_c2f(rng: &mut Rng) -> String {
    let fallback = |rng: &mut Rng| gen_c2(rng);
    let cands: Vec<(&str, Vec<(u32, Vec<u8>)>)> = CFF2_FONTS
        .iter()
        .map(|f| (*f, sfnt_tables(&font_bytes(f))))
        .filter(|(_, ts)| tbl(ts, b"fvar").is_some() && tbl(ts, b"CFF2").is_some())
        .collect();
    if cands.is_empty() {
        return fallback(rng);
    }
    let (name, ts) = &cands[rng.below(cands.len() as u64) as usize];
    let fvar = tbl(ts, b"fvar").unwrap();
    let axes_off = u16at(fvar, 4) as usize;
    let nax = u16at(fvar, 8) as usize;
    let asz = u16at(fvar, 10) as usize;
    let mut user = vec![];
    for i in 0..nax {
        let o = axes_off + i * asz;
        let mn = u32at(fvar, o + 4) as i32;
        let df = u32at(fvar, o + 8) as i32;
        let mx = u32at(fvar, o + 12) as i32;
        let span = (mx as i64 - mn as i64).max(0);
        let v = match rng.below(12) {
            0 => mn,
            1 => df,
            2 => mx,
            3 => mn.saturating_sub(65536),
            4 => mx.saturating_add(65536),
            // whole and half units of the axis, then anything in between
            5 | 6 => (mn as i64 + (rng.below((span >> 16) as u64 + 1) as i64) * 65536) as i32,
            7 => (mn as i64 + (rng.below((span >> 15) as u64 + 1) as i64) * 32768).min(mx as i64) as i32,
            _ => (mn as i64 + (rng.next() % (span as u64 + 1)) as i64) as i32,
        };
        user.push(v);
    }
    let norm: Vec<i16> = {
        use allsorts::tables::variable_fonts::avar::AvarTable;
        let f = match ReadScope::new(fvar).read::<FvarTable<'_>>() {
            Ok(f) => f,
            Err(_) => return fallback(rng),
        };
        let avar = tbl(ts, b"avar").and_then(|a| ReadScope::new(a).read::<AvarTable<'_>>().ok());
        match f.normalize(user.iter().map(|v| Fixed::from_raw(*v)), avar.as_ref()) {
            Ok(tp) => tp.iter().map(|v| v.raw_value()).collect(),
            Err(_) => return fallback(rng),
        }
    };
    match extract_cff2(ts) {
        Some(c) => format!("c2f|{}|{}|{}|{}", name.rsplit('/').next().unwrap(), join(&user, ","), join(&norm, ","), fmt_spec(&c)),
        None => fallback(rng),
    }
}
