//! Shared by the GSUB (c04) and GPOS (c05) correspondence binaries (include with
//! `#[path = "../layoutser.rs"] mod layoutser;`): the integer-tree case format, a small table builder with
//! 16/32-bit child offsets, serialisers for Coverage / ClassDef / GDEF / ScriptList / FeatureList /
//! LookupList (with optional extension wrapping), and generators for coverage, classdef and GDEF trees.
//!
//! The case format is a parenthesised tree of integers (see ocaml/c04/drv.ml for the grammar); the same
//! text is parsed by the OCaml model driver, so both sides run the same abstract lookup program.
#![allow(dead_code)]
use avh::prng::Rng;
use std::fmt;

#[derive(Clone, Debug, PartialEq)]
pub enum T {
    I(i64),
    L(Vec<T>),
}

impl fmt::Display for T {
    fn fmt(&self, f: &mut fmt::Formatter<'_>) -> fmt::Result {
        match self {
            T::I(v) => write!(f, "{}", v),
            T::L(items) => {
                write!(f, "(")?;
                for (k, it) in items.iter().enumerate() {
                    if k > 0 {
                        write!(f, " ")?;
                    }
                    write!(f, "{}", it)?;
                }
                write!(f, ")")
            }
        }
    }
}

impl T {
    pub fn int(&self) -> i64 {
        match self {
            T::I(v) => *v,
            T::L(_) => panic!("tree: expected int, got {}", self),
        }
    }
    pub fn list(&self) -> &[T] {
        match self {
            T::L(v) => v,
            T::I(_) => panic!("tree: expected list, got {}", self),
        }
    }
    pub fn ints(&self) -> Vec<i64> {
        self.list().iter().map(|x| x.int()).collect()
    }
    /// `()` = None, `(x)` = Some(x)
    pub fn opt(&self) -> Option<&T> {
        let l = self.list();
        match l.len() {
            0 => None,
            1 => Some(&l[0]),
            _ => panic!("tree: expected option, got {}", self),
        }
    }
    pub fn none() -> T {
        T::L(vec![])
    }
    pub fn some(x: T) -> T {
        T::L(vec![x])
    }
    pub fn of_ints(v: &[i64]) -> T {
        T::L(v.iter().map(|x| T::I(*x)).collect())
    }
}

pub fn parse_tree(s: &str) -> T {
    let b = s.as_bytes();
    let mut pos = 0usize;
    fn item(b: &[u8], pos: &mut usize) -> T {
        while *pos < b.len() && b[*pos] == b' ' {
            *pos += 1;
        }
        if *pos >= b.len() {
            panic!("tree: eof");
        }
        if b[*pos] == b'(' {
            *pos += 1;
            let mut v = vec![];
            loop {
                while *pos < b.len() && b[*pos] == b' ' {
                    *pos += 1;
                }
                if *pos >= b.len() {
                    panic!("tree: unclosed");
                }
                if b[*pos] == b')' {
                    *pos += 1;
                    break;
                }
                v.push(item(b, pos));
            }
            T::L(v)
        } else {
            let st = *pos;
            while *pos < b.len() && b[*pos] != b' ' && b[*pos] != b'(' && b[*pos] != b')' {
                *pos += 1;
            }
            T::I(std::str::from_utf8(&b[st..*pos]).unwrap().parse::<i64>().expect("tree: int"))
        }
    }
    item(b, &mut pos)
}

// ---------------------------------------------------------------------------------------------------
// table builder: fixed header of 16/32-bit words, some of which are offsets to child tables that are
// laid out after the header in the order they were added

enum W {
    U16(u16),
    U32(u32),
    Off16(Option<usize>),
    Off32(Option<usize>),
}

#[derive(Default)]
pub struct Obj {
    words: Vec<W>,
    children: Vec<Vec<u8>>,
}

impl Obj {
    pub fn new() -> Obj {
        Obj::default()
    }
    pub fn u16(&mut self, v: i64) -> &mut Obj {
        self.words.push(W::U16(v as u16));
        self
    }
    pub fn u32(&mut self, v: i64) -> &mut Obj {
        self.words.push(W::U32(v as u32));
        self
    }
    pub fn u16s(&mut self, vs: &[i64]) -> &mut Obj {
        for v in vs {
            self.u16(*v);
        }
        self
    }
    /// 16-bit offset to a child table; `None` is the NULL offset 0
    pub fn off16(&mut self, child: Option<Vec<u8>>) -> &mut Obj {
        match child {
            Some(c) => {
                self.children.push(c);
                self.words.push(W::Off16(Some(self.children.len() - 1)));
            }
            None => self.words.push(W::Off16(None)),
        }
        self
    }
    pub fn off32(&mut self, child: Option<Vec<u8>>) -> &mut Obj {
        match child {
            Some(c) => {
                self.children.push(c);
                self.words.push(W::Off32(Some(self.children.len() - 1)));
            }
            None => self.words.push(W::Off32(None)),
        }
        self
    }
    pub fn finish(&self) -> Vec<u8> {
        let header: usize = self
            .words
            .iter()
            .map(|w| match w {
                W::U16(_) | W::Off16(_) => 2,
                W::U32(_) | W::Off32(_) => 4,
            })
            .sum();
        let mut pos = header;
        let mut at = vec![];
        for c in &self.children {
            at.push(pos);
            pos += c.len();
        }
        let mut out = Vec::with_capacity(pos);
        for w in &self.words {
            match w {
                W::U16(v) => out.extend_from_slice(&v.to_be_bytes()),
                W::U32(v) => out.extend_from_slice(&v.to_be_bytes()),
                W::Off16(None) => out.extend_from_slice(&[0, 0]),
                W::Off32(None) => out.extend_from_slice(&[0, 0, 0, 0]),
                W::Off16(Some(k)) => {
                    assert!(at[*k] <= 0xFFFF, "layoutser: 16-bit offset overflow");
                    out.extend_from_slice(&(at[*k] as u16).to_be_bytes())
                }
                W::Off32(Some(k)) => out.extend_from_slice(&(at[*k] as u32).to_be_bytes()),
            }
        }
        for c in &self.children {
            out.extend_from_slice(c);
        }
        out
    }
}

// ---------------------------------------------------------------------------------------------------
// serialisers

/// cov = (1 g ...) | (2 (s e i) ...)
pub fn ser_coverage(t: &T) -> Vec<u8> {
    let l = t.list();
    let mut o = Obj::new();
    match l[0].int() {
        1 => {
            o.u16(1).u16((l.len() - 1) as i64);
            for g in &l[1..] {
                o.u16(g.int());
            }
        }
        2 => {
            o.u16(2).u16((l.len() - 1) as i64);
            for r in &l[1..] {
                o.u16s(&r.ints());
            }
        }
        f => panic!("coverage format {}", f),
    }
    o.finish()
}

/// classdef = (1 start v ...) | (2 (s e c) ...)
pub fn ser_classdef(t: &T) -> Vec<u8> {
    let l = t.list();
    let mut o = Obj::new();
    match l[0].int() {
        1 => {
            o.u16(1).u16(l[1].int()).u16((l.len() - 2) as i64);
            for v in &l[2..] {
                o.u16(v.int());
            }
        }
        2 => {
            o.u16(2).u16((l.len() - 1) as i64);
            for r in &l[1..] {
                o.u16s(&r.ints());
            }
        }
        f => panic!("classdef format {}", f),
    }
    o.finish()
}

/// gdef = opt ( opt classdef  opt classdef  opt (cov ...) ) -> GDEF 1.2 bytes
pub fn ser_gdef(t: &T) -> Option<Vec<u8>> {
    let g = t.opt()?.list();
    let mut o = Obj::new();
    o.u16(1).u16(2);
    o.off16(g[0].opt().map(ser_classdef));
    o.u16(0).u16(0);
    o.off16(g[1].opt().map(ser_classdef));
    o.off16(g[2].opt().map(|sets| {
        let mut m = Obj::new();
        m.u16(1).u16(sets.list().len() as i64);
        for c in sets.list() {
            m.off32(Some(ser_coverage(c)));
        }
        m.finish()
    }));
    Some(o.finish())
}

/// scripts = ((tag script) ...), script = ( opt (fi ...)  ((tag (fi ...)) ...) )
pub fn ser_script_list(t: &T) -> Vec<u8> {
    fn langsys(t: &T) -> Vec<u8> {
        let fi = t.ints();
        let mut o = Obj::new();
        o.u16(0).u16(0xFFFF).u16(fi.len() as i64).u16s(&fi);
        o.finish()
    }
    let mut o = Obj::new();
    o.u16(t.list().len() as i64);
    for rec in t.list() {
        let r = rec.list();
        let sc = r[1].list();
        let mut s = Obj::new();
        s.off16(sc[0].opt().map(langsys));
        s.u16(sc[1].list().len() as i64);
        for lr in sc[1].list() {
            let lr = lr.list();
            s.u32(lr[0].int());
            s.off16(Some(langsys(&lr[1])));
        }
        o.u32(r[0].int());
        o.off16(Some(s.finish()));
    }
    o.finish()
}

/// features = ((tag (li ...)) ...)
pub fn ser_feature_list(t: &T) -> Vec<u8> {
    let mut o = Obj::new();
    o.u16(t.list().len() as i64);
    for rec in t.list() {
        let r = rec.list();
        let li = r[1].ints();
        let mut f = Obj::new();
        f.u16(0).u16(li.len() as i64).u16s(&li);
        o.u32(r[0].int());
        o.off16(Some(f.finish()));
    }
    o.finish()
}

/// One lookup table: `ext` wraps every subtable in an extension subtable of type `ext_type`.
pub fn ser_lookup(ty: i64, flag: i64, mfs: Option<i64>, subtables: Vec<Vec<u8>>, ext: Option<i64>) -> Vec<u8> {
    let mut o = Obj::new();
    o.u16(if ext.is_some() { ext.unwrap() } else { ty }).u16(flag).u16(subtables.len() as i64);
    for s in subtables {
        match ext {
            None => {
                o.off16(Some(s));
            }
            Some(_) => {
                let mut e = Obj::new();
                e.u16(1).u16(ty).off32(Some(s));
                o.off16(Some(e.finish()));
            }
        }
    }
    // the field is present exactly when the flag bit says so (the reader consumes it on that condition)
    if flag & 0x10 != 0 {
        o.u16(mfs.unwrap_or(0));
    }
    o.finish()
}

pub fn ser_lookup_list(lookups: Vec<Vec<u8>>) -> Vec<u8> {
    let mut o = Obj::new();
    o.u16(lookups.len() as i64);
    for l in lookups {
        o.off16(Some(l));
    }
    o.finish()
}

/// GSUB / GPOS header 1.0
pub fn ser_layout_table(scripts: Option<Vec<u8>>, features: Option<Vec<u8>>, lookups: Option<Vec<u8>>) -> Vec<u8> {
    let mut o = Obj::new();
    o.u16(1).u16(0).off16(scripts).off16(features).off16(lookups);
    let mut v = o.finish();
    // an offset equal to the table length is rejected by the reader even when NULL offsets are used
    v.extend_from_slice(&[0, 0]);
    v
}

// ---------------------------------------------------------------------------------------------------
// generators (the glyph alphabet is small so that rules hit often)

pub const NG: i64 = 14; // glyph ids 0..NG-1 are "in the font"

pub fn gen_glyph(rng: &mut Rng) -> i64 {
    match rng.below(40) {
        0 => *rng.pick(&[0i64, 65535, 65534, 255, 256, 32768]),
        1 => rng.range(NG, NG + 3),
        _ => rng.range(1, NG - 1),
    }
}

fn sorted_set(rng: &mut Rng, max: usize) -> Vec<i64> {
    let n = rng.below(max as u64 + 1) as usize;
    let mut v: Vec<i64> = (0..n).map(|_| gen_glyph(rng)).collect();
    v.sort();
    v.dedup();
    v
}

/// a coverage over the small alphabet; `want` glyphs are made members (so rules are reachable)
pub fn gen_coverage(rng: &mut Rng, want: &[i64]) -> T {
    let mut set = sorted_set(rng, 5);
    for w in want {
        if !set.contains(w) {
            set.push(*w);
        }
    }
    set.sort();
    if rng.chance(1, 2) {
        let mut v = vec![T::I(1)];
        v.extend(set.iter().map(|g| T::I(*g)));
        T::L(v)
    } else {
        // ranges: maximal runs, sometimes split, coverage index continues; rarely malformed
        let mut v = vec![T::I(2)];
        let mut idx: i64 = 0;
        let mut k = 0;
        while k < set.len() {
            let s = set[k];
            let mut e = s;
            while k + 1 < set.len() && set[k + 1] == e + 1 && !rng.chance(1, 4) {
                k += 1;
                e = set[k];
            }
            k += 1;
            let mut sci = idx;
            let (mut s2, mut e2) = (s, e);
            match rng.below(80) {
                // start_coverage_index + (g - start) does not fit in 16 bits for the later glyphs of the range
                0 => {
                    sci = 65534;
                    e2 = (e + 3).min(65535);
                }
                1 => sci = rng.range(0, 6), // indices out of step
                // start > end: the reader rejects the table
                2 if e < 65535 => {
                    s2 = e + 1;
                    e2 = s;
                }
                3 => e2 = (e + rng.range(0, 70000)).min(65535),
                _ => {}
            }
            v.push(T::of_ints(&[s2, e2, sci]));
            idx += e - s + 1;
        }
        T::L(v)
    }
}

pub fn gen_classdef(rng: &mut Rng, nclasses: i64) -> T {
    if rng.chance(1, 2) {
        let start = rng.range(0, 4);
        let n = rng.range(0, NG);
        let mut v = vec![T::I(1), T::I(start)];
        for _ in 0..n {
            v.push(T::I(if rng.chance(1, 3) { 0 } else { rng.range(0, nclasses) }));
        }
        T::L(v)
    } else {
        let mut v = vec![T::I(2)];
        let mut g = rng.range(0, 3);
        while g < NG + 2 && v.len() < 7 {
            let e = g + rng.range(0, 3);
            v.push(T::of_ints(&[g, e, rng.range(0, nclasses)]));
            g = e + 1 + rng.range(0, 2);
            if rng.chance(1, 6) {
                break;
            }
        }
        if rng.chance(1, 30) {
            v.push(T::of_ints(&[rng.range(0, 5), 65535, rng.range(0, nclasses)]));
        }
        T::L(v)
    }
}

/// gdef with glyph classes 0..4 over the alphabet, mark attachment classes, 0-3 mark sets
pub fn gen_gdef(rng: &mut Rng) -> T {
    if rng.chance(1, 8) {
        return T::none();
    }
    let classes = if rng.chance(1, 10) {
        T::none()
    } else {
        // explicit per-glyph classes so that marks are frequent
        let mut v = vec![T::I(1), T::I(0)];
        for _ in 0..NG + 1 {
            v.push(T::I(*rng.pick(&[0i64, 1, 1, 1, 2, 3, 3, 3, 4])));
        }
        T::some(T::L(v))
    };
    let attach = if rng.chance(1, 3) { T::none() } else { T::some(gen_classdef(rng, 3)) };
    let sets = if rng.chance(1, 4) {
        T::none()
    } else {
        let n = rng.below(4);
        let mut v = vec![];
        for _ in 0..n {
            // keep mark-set coverages well-formed: a malformed one makes the whole GDEF unreadable
            let mut set = sorted_set(rng, 6);
            set.retain(|g| *g < 65000);
            let mut c = vec![T::I(1)];
            c.extend(set.iter().map(|g| T::I(*g)));
            if rng.chance(1, 2) && !set.is_empty() {
                c = vec![T::I(2)];
                let mut idx = 0;
                for g in &set {
                    c.push(T::of_ints(&[*g, *g, idx]));
                    idx += 1;
                }
            }
            v.push(T::L(c));
        }
        T::some(T::L(v))
    };
    T::some(T::L(vec![classes, attach, sets]))
}

/// lookup flag: every bit combination of the low five bits, mark attachment types 0..3 (rarely large)
pub fn gen_flag(rng: &mut Rng) -> (i64, Option<i64>) {
    let mut f = 0i64;
    if rng.chance(1, 3) {
        return (0, None);
    }
    for bit in [1i64, 2, 4, 8, 16] {
        if rng.chance(1, 4) {
            f |= bit;
        }
    }
    match rng.below(12) {
        0 | 1 => f |= rng.range(1, 3) << 8,
        2 => f |= rng.range(0, 255) << 8,
        _ => {}
    }
    if rng.chance(1, 50) {
        f |= 0x20 | 0x40 | 0x80; // reserved bits
    }
    let mfs = if f & 0x10 != 0 { Some(if rng.chance(1, 12) { rng.range(3, 70) } else { rng.range(0, 2) }) } else { None };
    (f, mfs)
}

/// class of a glyph under a classdef tree (generator utility: used to build glyph strings that hit
/// class-based rules; independent of the code under test)
pub fn class_of(cd: &T, g: i64) -> i64 {
    let l = cd.list();
    match l[0].int() {
        1 => {
            let start = l[1].int();
            let k = g - start;
            if k >= 0 && (k as usize) < l.len() - 2 {
                l[2 + k as usize].int()
            } else {
                0
            }
        }
        _ => {
            for r in &l[1..] {
                let r = r.ints();
                if g >= r[0] && g <= r[1] {
                    return r[2];
                }
            }
            0
        }
    }
}

/// some glyph of the small alphabet with the given class, if any
pub fn glyph_with_class(rng: &mut Rng, cd: &T, class: i64) -> Option<i64> {
    let c: Vec<i64> = (1..NG + 2).filter(|g| class_of(cd, *g) == class).collect();
    if c.is_empty() {
        None
    } else {
        Some(c[rng.below(c.len() as u64) as usize])
    }
}

// ---------------------------------------------------------------------------------------------------
// GPOS subtables (C05).  value = (xp yp xa ya), anchor = (x y); grammar in ocaml/c05/drv.ml

/// the fields of a value record selected by `fmt`, device offsets (bits 4-7) written as NULL
pub fn ser_value(o: &mut Obj, fmt: i64, v: &T) {
    let f = v.ints();
    for bit in 0..8 {
        if fmt & (1 << bit) != 0 {
            o.u16(if bit < 4 { f[bit] } else { 0 });
        }
    }
}

/// Anchor table; the format (1, 2 or 3) is derived from the coordinates so that all three occur
pub fn ser_anchor(a: &T) -> Vec<u8> {
    let c = a.ints();
    let mut o = Obj::new();
    match (c[0] + 2 * c[1]).rem_euclid(3) {
        0 => {
            o.u16(1).u16(c[0]).u16(c[1]);
        }
        1 => {
            o.u16(2).u16(c[0]).u16(c[1]).u16(7);
        }
        _ => {
            o.u16(3).u16(c[0]).u16(c[1]).u16(0).u16(0);
        }
    }
    o.finish()
}

fn ser_mark_array(marks: &T) -> Vec<u8> {
    let mut o = Obj::new();
    o.u16(marks.list().len() as i64);
    for m in marks.list() {
        let m = m.list();
        o.u16(m[0].int()).off16(Some(ser_anchor(&m[1])));
    }
    o.finish()
}

/// rows of optional anchors, each row `class_count` offsets wide (BaseArray / LigatureAttach)
fn ser_anchor_matrix(rows: &T, class_count: i64) -> Vec<u8> {
    let mut o = Obj::new();
    o.u16(rows.list().len() as i64);
    for r in rows.list() {
        let r = r.list();
        for k in 0..class_count as usize {
            o.off16(r.get(k).and_then(|a| a.opt()).map(ser_anchor));
        }
    }
    o.finish()
}

pub fn ser_context(t: &T) -> Vec<u8> {
    fn recs(o: &mut Obj, r: &T) {
        for x in r.list() {
            o.u16s(&x.ints());
        }
    }
    fn sets(o: &mut Obj, sets: &T, rule: &dyn Fn(&T) -> Vec<u8>) {
        o.u16(sets.list().len() as i64);
        for s in sets.list() {
            o.off16(s.opt().map(|rules| {
                let mut so = Obj::new();
                so.u16(rules.list().len() as i64);
                for r in rules.list() {
                    so.off16(Some(rule(r)));
                }
                so.finish()
            }));
        }
    }
    fn rule(r: &T) -> Vec<u8> {
        let r = r.list();
        let input = r[0].ints();
        let mut o = Obj::new();
        o.u16(input.len() as i64 + 1).u16(r[1].list().len() as i64).u16s(&input);
        recs(&mut o, &r[1]);
        o.finish()
    }
    let l = t.list();
    let mut o = Obj::new();
    match l[0].int() {
        1 => {
            o.u16(1).off16(Some(ser_coverage(&l[1])));
            sets(&mut o, &l[2], &rule);
        }
        2 => {
            o.u16(2).off16(Some(ser_coverage(&l[1]))).off16(Some(ser_classdef(&l[2])));
            sets(&mut o, &l[3], &rule);
        }
        _ => {
            o.u16(3).u16(l[1].list().len() as i64).u16(l[2].list().len() as i64);
            for c in l[1].list() {
                o.off16(Some(ser_coverage(c)));
            }
            recs(&mut o, &l[2]);
        }
    }
    o.finish()
}

pub fn ser_chain_context(t: &T) -> Vec<u8> {
    fn recs(o: &mut Obj, r: &T) {
        for x in r.list() {
            o.u16s(&x.ints());
        }
    }
    fn crule(r: &T) -> Vec<u8> {
        let r = r.list();
        let (b, i, l) = (r[0].ints(), r[1].ints(), r[2].ints());
        let mut o = Obj::new();
        o.u16(b.len() as i64).u16s(&b);
        o.u16(i.len() as i64 + 1).u16s(&i);
        o.u16(l.len() as i64).u16s(&l);
        o.u16(r[3].list().len() as i64);
        recs(&mut o, &r[3]);
        o.finish()
    }
    fn sets(o: &mut Obj, sets: &T) {
        o.u16(sets.list().len() as i64);
        for s in sets.list() {
            o.off16(s.opt().map(|rules| {
                let mut so = Obj::new();
                so.u16(rules.list().len() as i64);
                for r in rules.list() {
                    so.off16(Some(crule(r)));
                }
                so.finish()
            }));
        }
    }
    fn cov_array(o: &mut Obj, covs: &T) {
        o.u16(covs.list().len() as i64);
        for c in covs.list() {
            o.off16(Some(ser_coverage(c)));
        }
    }
    let l = t.list();
    let mut o = Obj::new();
    match l[0].int() {
        1 => {
            o.u16(1).off16(Some(ser_coverage(&l[1])));
            sets(&mut o, &l[2]);
        }
        2 => {
            o.u16(2).off16(Some(ser_coverage(&l[1])));
            o.off16(Some(ser_classdef(&l[2]))).off16(Some(ser_classdef(&l[3]))).off16(Some(ser_classdef(&l[4])));
            sets(&mut o, &l[5]);
        }
        _ => {
            o.u16(3);
            cov_array(&mut o, &l[1]);
            cov_array(&mut o, &l[2]);
            cov_array(&mut o, &l[3]);
            o.u16(l[4].list().len() as i64);
            recs(&mut o, &l[4]);
        }
    }
    o.finish()
}

pub fn ser_gpos_subtable(ty: i64, t: &T) -> Vec<u8> {
    let l = t.list();
    let mut o = Obj::new();
    match ty {
        1 => match l[0].int() {
            1 => {
                let fmt = l[2].int();
                o.u16(1).off16(Some(ser_coverage(&l[1]))).u16(fmt);
                ser_value(&mut o, fmt, &l[3]);
            }
            _ => {
                let fmt = l[2].int();
                o.u16(2).off16(Some(ser_coverage(&l[1]))).u16(fmt).u16(l[3].list().len() as i64);
                for v in l[3].list() {
                    ser_value(&mut o, fmt, v);
                }
            }
        },
        2 => match l[0].int() {
            1 => {
                let (f1, f2) = (l[2].int(), l[3].int());
                o.u16(1).off16(Some(ser_coverage(&l[1]))).u16(f1).u16(f2).u16(l[4].list().len() as i64);
                for set in l[4].list() {
                    let mut so = Obj::new();
                    so.u16(set.list().len() as i64);
                    for pv in set.list() {
                        let pv = pv.list();
                        so.u16(pv[0].int());
                        ser_value(&mut so, f1, &pv[1]);
                        ser_value(&mut so, f2, &pv[2]);
                    }
                    o.off16(Some(so.finish()));
                }
            }
            _ => {
                let (f1, f2) = (l[2].int(), l[3].int());
                let c2 = l[6].int();
                o.u16(2).off16(Some(ser_coverage(&l[1]))).u16(f1).u16(f2);
                o.off16(Some(ser_classdef(&l[4]))).off16(Some(ser_classdef(&l[5])));
                o.u16(l[7].list().len() as i64).u16(c2);
                let zero = T::of_ints(&[0, 0, 0, 0]);
                for row in l[7].list() {
                    let row = row.list();
                    for k in 0..c2 as usize {
                        match row.get(k) {
                            Some(cell) => {
                                ser_value(&mut o, f1, &cell.list()[0]);
                                ser_value(&mut o, f2, &cell.list()[1]);
                            }
                            None => {
                                ser_value(&mut o, f1, &zero);
                                ser_value(&mut o, f2, &zero);
                            }
                        }
                    }
                }
            }
        },
        3 => {
            o.u16(1).off16(Some(ser_coverage(&l[0]))).u16(l[1].list().len() as i64);
            for r in l[1].list() {
                let r = r.list();
                o.off16(r[0].opt().map(ser_anchor)).off16(r[1].opt().map(ser_anchor));
            }
        }
        4 | 6 => {
            let n = l[2].int();
            o.u16(1).off16(Some(ser_coverage(&l[0]))).off16(Some(ser_coverage(&l[1]))).u16(n);
            o.off16(Some(ser_mark_array(&l[3]))).off16(Some(ser_anchor_matrix(&l[4], n)));
        }
        5 => {
            let n = l[2].int();
            o.u16(1).off16(Some(ser_coverage(&l[0]))).off16(Some(ser_coverage(&l[1]))).u16(n);
            o.off16(Some(ser_mark_array(&l[3])));
            let mut la = Obj::new();
            la.u16(l[4].list().len() as i64);
            for att in l[4].list() {
                la.off16(Some(ser_anchor_matrix(att, n)));
            }
            o.off16(Some(la.finish()));
        }
        7 => return ser_context(t),
        8 => return ser_chain_context(t),
        _ => panic!("gpos lookup type {}", ty),
    }
    o.finish()
}

/// layout = (opt scripts, opt features, opt lookups) -> GPOS table bytes (extension lookup type 9)
pub fn ser_gpos(layout: &T) -> Vec<u8> {
    let l = layout.list();
    let lookups = l[2].opt().map(|lks| {
        ser_lookup_list(
            lks.list()
                .iter()
                .map(|lk| {
                    let f = lk.list();
                    let ty = f[3].int();
                    let subs = f[4].list().iter().map(|s| ser_gpos_subtable(ty, s)).collect();
                    ser_lookup(ty, f[1].int(), f[2].opt().map(|x| x.int()), subs, if f[0].int() != 0 { Some(9) } else { None })
                })
                .collect(),
        )
    });
    ser_layout_table(l[0].opt().map(ser_script_list), l[1].opt().map(ser_feature_list), lookups)
}

/// kern = ((coverage (0 (l r v) ...)) | (coverage (2 lfirst (lv ...) rfirst (rv ...) (byte ...))) ...) -> kern table v0
pub fn ser_kern(subtables: &T) -> Vec<u8> {
    let mut out: Vec<u8> = vec![];
    let push = |out: &mut Vec<u8>, v: i64| out.extend_from_slice(&(v as u16).to_be_bytes());
    push(&mut out, 0);
    push(&mut out, subtables.list().len() as i64);
    for st in subtables.list() {
        let st = st.list();
        let cov = st[0].int();
        let d = st[1].list();
        let mut body: Vec<u8> = vec![];
        let format = d[0].int();
        if format == 0 {
            let n = d.len() as i64 - 1;
            push(&mut body, n);
            push(&mut body, 0);
            push(&mut body, 0);
            push(&mut body, 0);
            for p in &d[1..] {
                for v in p.ints() {
                    push(&mut body, v);
                }
            }
        } else {
            // header: rowWidth, leftClassTable, rightClassTable, array (offsets from the subtable start)
            let (lv, rv, arr) = (d[2].ints(), d[4].ints(), d[5].ints());
            let left_off = 6 + 8;
            let right_off = left_off + 4 + 2 * lv.len() as i64;
            let arr_off = right_off + 4 + 2 * rv.len() as i64;
            // the reader takes row_width * right_table.len() bytes as the kerning array
            let row_width = if rv.is_empty() { 0 } else { arr.len() as i64 / rv.len() as i64 };
            push(&mut body, row_width);
            push(&mut body, left_off);
            push(&mut body, right_off);
            push(&mut body, arr_off);
            push(&mut body, d[1].int());
            push(&mut body, lv.len() as i64);
            for v in &lv {
                push(&mut body, *v);
            }
            push(&mut body, d[3].int());
            push(&mut body, rv.len() as i64);
            for v in &rv {
                push(&mut body, *v);
            }
            for b in &arr {
                body.push(*b as u8);
            }
        }
        push(&mut out, 0);
        push(&mut out, 6 + body.len() as i64);
        push(&mut out, (format << 8) | (cov & 0xFF));
        out.extend_from_slice(&body);
    }
    out
}

// ---------------------------------------------------------------------------------------------------
// FeatureVariations (GSUB / GPOS header version 1.1), used by c04: a structured description of the table,
// its byte serialiser, and the header that points at it.  The case format carries the BYTES (the model in
// coq/Model/FeatureVariations.v reads bytes), so these types exist only on the generator side.

/// one condition table of a condition set
#[derive(Clone, Debug)]
pub enum FvCond {
    /// format 1: axis index, filterRangeMinValue, filterRangeMaxValue (F2Dot14 raw values)
    Range { axis: i64, min: i64, max: i64 },
    /// a condition table of a format this reader does not know (8 bytes, like format 1)
    UnknownFormat(i64),
    /// the offset points beyond the end of the data
    Dangling,
}

#[derive(Clone, Debug)]
pub enum FvCondSet {
    /// conditionSetOffset = 0
    Universal,
    Set(Vec<FvCond>),
    /// the offset points beyond the end of the data
    Dangling,
    /// the same table as an earlier record's (offset reuse); falls back to Universal
    SameAs(usize),
}

#[derive(Clone, Debug)]
pub enum FvAlt {
    /// alternate feature table: lookup indices
    Table(Vec<i64>),
    Dangling,
}

#[derive(Clone, Debug)]
pub enum FvSubst {
    /// featureTableSubstitutionOffset = 0
    Null,
    /// major version, minor version, (feature index, alternate feature table) in the order given
    Table { major: i64, minor: i64, recs: Vec<(i64, FvAlt)> },
    Dangling,
    /// the same table as an earlier record's; falls back to Null
    SameAs(usize),
}

#[derive(Clone, Debug)]
pub struct FvRecord {
    pub cond: FvCondSet,
    pub subst: FvSubst,
}

const FV_DANGLING: u32 = 0x00FF_FF00;

fn be16(v: &mut Vec<u8>, x: i64) {
    v.extend_from_slice(&(x as u16).to_be_bytes());
}
fn be32(v: &mut Vec<u8>, x: u32) {
    v.extend_from_slice(&x.to_be_bytes());
}

fn ser_fv_cond_set(conds: &[FvCond]) -> Vec<u8> {
    let mut t = vec![];
    be16(&mut t, conds.len() as i64);
    let first = 2 + 4 * conds.len();
    let mut k = 0;
    for c in conds {
        match c {
            FvCond::Dangling => be32(&mut t, FV_DANGLING),
            _ => {
                be32(&mut t, (first + 8 * k) as u32);
                k += 1;
            }
        }
    }
    for c in conds {
        match c {
            FvCond::Range { axis, min, max } => {
                be16(&mut t, 1);
                be16(&mut t, *axis);
                be16(&mut t, *min);
                be16(&mut t, *max);
            }
            FvCond::UnknownFormat(f) => {
                be16(&mut t, *f);
                be16(&mut t, 0);
                be16(&mut t, 0xC000);
                be16(&mut t, 0x4000);
            }
            FvCond::Dangling => {}
        }
    }
    t
}

fn ser_fv_subst(major: i64, minor: i64, recs: &[(i64, FvAlt)]) -> Vec<u8> {
    let mut t = vec![];
    be16(&mut t, major);
    be16(&mut t, minor);
    be16(&mut t, recs.len() as i64);
    let mut at = 6 + 6 * recs.len();
    let mut tail = vec![];
    for (fi, alt) in recs {
        be16(&mut t, *fi);
        match alt {
            FvAlt::Table(li) => {
                be32(&mut t, at as u32);
                let mut f = vec![];
                be16(&mut f, 0);
                be16(&mut f, li.len() as i64);
                for l in li {
                    be16(&mut f, *l);
                }
                at += f.len();
                tail.extend(f);
            }
            FvAlt::Dangling => be32(&mut t, FV_DANGLING),
        }
    }
    t.extend(tail);
    t
}

/// FeatureVariations table: majorVersion, minorVersion, featureVariationRecordCount (`recs.len() + count_bias`),
/// the records, then the condition set and feature table substitution tables in record order
pub fn ser_feature_variations(major: i64, minor: i64, recs: &[FvRecord], count_bias: i64) -> Vec<u8> {
    let mut head = vec![];
    be16(&mut head, major);
    be16(&mut head, minor);
    be32(&mut head, (recs.len() as i64 + count_bias).max(0) as u32);
    let mut at = 8 + 8 * recs.len();
    let mut tail: Vec<u8> = vec![];
    let mut cond_at: Vec<u32> = vec![];
    let mut subst_at: Vec<u32> = vec![];
    for r in recs {
        let c = match &r.cond {
            FvCondSet::Universal => 0,
            FvCondSet::Dangling => FV_DANGLING,
            FvCondSet::SameAs(k) => cond_at.get(*k).copied().unwrap_or(0),
            FvCondSet::Set(conds) => {
                let t = ser_fv_cond_set(conds);
                let o = at as u32;
                at += t.len();
                tail.extend(t);
                o
            }
        };
        let s = match &r.subst {
            FvSubst::Null => 0,
            FvSubst::Dangling => FV_DANGLING,
            FvSubst::SameAs(k) => subst_at.get(*k).copied().unwrap_or(0),
            FvSubst::Table { major, minor, recs } => {
                let t = ser_fv_subst(*major, *minor, recs);
                let o = at as u32;
                at += t.len();
                tail.extend(t);
                o
            }
        };
        cond_at.push(c);
        subst_at.push(s);
        be32(&mut head, c);
        be32(&mut head, s);
    }
    head.extend(tail);
    head
}

/// GSUB / GPOS header 1.`minor`.  With `minor > 0` the 32-bit featureVariationsOffset follows the three list
/// offsets and `fv` is appended after everything else (also after the two padding bytes), so that the scope of
/// the FeatureVariations table is exactly `fv`.  `off_kind`: 0 = the offset of `fv`, 1 = NULL,
/// k >= 2 = (k - 2) bytes beyond the end of the table.  With `minor == 0` the header is the 1.0 header of
/// `ser_layout_table` and `fv` is not written.
pub fn ser_layout_table_v(
    scripts: Option<Vec<u8>>,
    features: Option<Vec<u8>>,
    lookups: Option<Vec<u8>>,
    minor: i64,
    off_kind: i64,
    fv: &[u8],
) -> Vec<u8> {
    let mut o = Obj::new();
    o.u16(1).u16(minor).off16(scripts).off16(features).off16(lookups);
    if minor > 0 {
        o.u32(0);
    }
    let mut v = o.finish();
    v.extend_from_slice(&[0, 0]);
    if minor > 0 {
        let pos = v.len();
        let off = match off_kind {
            0 => pos,
            1 => 0,
            k => pos + fv.len() + (k as usize - 2),
        };
        v[10..14].copy_from_slice(&(off as u32).to_be_bytes());
        v.extend_from_slice(fv);
    }
    v
}
