//! C13 correspondence: coordinate normalisation at every public entry point, on synthesised fvar/avar tables.
//! input  = N|AXES|AVAR|COORDS          FvarTable::normalize, canonical fvar (offset 16, axisSize 20, no instances)
//!        | F|SHAPE|AXES|AVAR|COORDS    FvarTable::normalize on an fvar laid out as SHAPE says
//!        | I|SHAPE|AXES|AVAR|COORDS    variations::instance on a small TrueType variable font carrying that fvar
//!                                      (+ avar); the returned tuple is the result
//!        | O|SHAPE|AXES|K              FvarTable::owned_tuple with K values -> ok:1 (Some) | ok:0 (None)
//!        | S|MAP|X                     SegmentMap::normalize(X) through AvarTable::segment_maps() (raw 16.16 in/out)
//!   AXES   = min,def,max[,tag] separated by spaces (raw 16.16 i32; tag u32, default 'wght'+i)
//!   AVAR   = `-` (no avar) or maps separated by spaces, each `f:t,f:t,...` (raw 2.14 i16) or `_` (empty map)
//!   COORDS = c1,c2,... (raw 16.16 i32) or `-`, or `@k` (F, I): the coordinates of the table's own named instance k
//!            (FvarTable::instances().nth(k)); no such instance -> err:MissingValue
//!   SHAPE  = major,off,asz,dcount,icnt,isz,trail : header majorVersion, axesArrayOffset, axisSize,
//!            axisCount = #AXES + dcount, instanceCount, instanceSize; the records are written at max(off,16),
//!            max(asz,20) bytes apart (record, then filler), followed by icnt instance records of exactly isz bytes
//!            (name id, flags, per axis one of min / default / max / midpoint, filler; cut short when isz is too
//!            small) and `trail` more bytes (negative: that many bytes cut off the end)
//! output = ok:v1,v2,... (raw 2.14; S: one raw 16.16 value) | err:E | panic
use allsorts::binary::read::ReadScope;
use allsorts::tables::variable_fonts::avar::AvarTable;
use allsorts::tables::variable_fonts::fvar::FvarTable;
use allsorts::tables::{F2Dot14, Fixed};
use allsorts::variations::{self, VariationError};
use avh::prng::Rng;
use avh::{harness_main, perr};
use std::panic::{catch_unwind, AssertUnwindSafe};

/// the C12 harness as the source of a complete TrueType variable font (head, maxp, glyf, gvar, ...) for
/// `variations::instance`; its fvar is replaced by the one under test
#[path = "c12.rs"]
#[allow(dead_code, unused_imports, unused_variables, unused_mut)]
mod c12;

fn be16(v: &mut Vec<u8>, x: u16) {
    v.extend_from_slice(&x.to_be_bytes());
}
fn be32(v: &mut Vec<u8>, x: u32) {
    v.extend_from_slice(&x.to_be_bytes());
}

/// what the fvar header says and what surrounds the axis records (see the module doc)
#[derive(Clone, Copy, Debug)]
pub struct Shape {
    pub major: i64,
    pub off: i64,
    pub asz: i64,
    pub dcount: i64,
    pub icnt: i64,
    pub isz: i64,
    pub trail: i64,
}

pub const CANONICAL: Shape = Shape { major: 1, off: 16, asz: 20, dcount: 0, icnt: 0, isz: 0, trail: 0 };

impl Shape {
    fn parse(s: &str) -> Shape {
        let p: Vec<i64> = s.split(',').map(|x| x.parse().unwrap()).collect();
        Shape { major: p[0], off: p[1], asz: p[2], dcount: p[3], icnt: p[4], isz: p[5], trail: p[6] }
    }
    fn to_line(&self) -> String {
        format!("{},{},{},{},{},{},{}", self.major, self.off, self.asz, self.dcount, self.icnt, self.isz, self.trail)
    }
}

/// deterministic non-zero filler: byte i of a gap salted with k
fn pad(v: &mut Vec<u8>, k: i64, n: i64) {
    for i in 0..n.max(0) {
        v.push((((k + i) * 37 + 165) % 256) as u8);
    }
}

pub type Axis = (i32, i32, i32, u32);

pub fn fvar_bytes_shape(sh: &Shape, axes: &[Axis]) -> Vec<u8> {
    let mut v = vec![];
    be16(&mut v, sh.major as u16);
    be16(&mut v, 0); // minor
    be16(&mut v, sh.off as u16); // axesArrayOffset
    be16(&mut v, 2); // reserved
    be16(&mut v, (axes.len() as i64 + sh.dcount) as u16);
    be16(&mut v, sh.asz as u16); // axisSize
    be16(&mut v, sh.icnt as u16); // instanceCount
    be16(&mut v, sh.isz as u16); // instanceSize
    pad(&mut v, 0, sh.off - 16);
    for (i, (mn, df, mx, tg)) in axes.iter().enumerate() {
        be32(&mut v, *tg);
        be32(&mut v, *mn as u32);
        be32(&mut v, *df as u32);
        be32(&mut v, *mx as u32);
        be16(&mut v, 0);
        be16(&mut v, 256 + i as u16);
        pad(&mut v, i as i64, sh.asz - 20);
    }
    for i in 0..sh.icnt.max(0) {
        // instance record i: subfamilyNameID, flags, one coordinate per axis (min / default / max / midpoint,
        // rotating), filler; always exactly instanceSize bytes
        let mut r = vec![];
        be16(&mut r, (300 + i) as u16);
        be16(&mut r, 0);
        for (j, (mn, df, mx, _)) in axes.iter().enumerate() {
            let c = match (i + j as i64) % 4 {
                0 => *mn,
                1 => *df,
                2 => *mx,
                _ => (*mn as i64 + *mx as i64).div_euclid(2) as i32,
            };
            be32(&mut r, c as u32);
        }
        pad(&mut r, i, sh.isz - 4 - 4 * axes.len() as i64);
        r.truncate(sh.isz.max(0) as usize);
        v.extend_from_slice(&r);
    }
    if sh.trail >= 0 {
        pad(&mut v, 3, sh.trail);
    } else {
        let keep = (v.len() as i64 + sh.trail).max(0) as usize;
        v.truncate(keep);
    }
    v
}

fn avar_bytes(maps: &[Vec<(i16, i16)>]) -> Vec<u8> {
    let mut v = vec![];
    be16(&mut v, 1);
    be16(&mut v, 0);
    be16(&mut v, 0);
    be16(&mut v, maps.len() as u16);
    for m in maps {
        be16(&mut v, m.len() as u16);
        for (f, t) in m {
            be16(&mut v, *f as u16);
            be16(&mut v, *t as u16);
        }
    }
    // data after the last segment map (a reader must stop at axisCount maps): 0-3 bytes, a function of the maps
    let pairs: usize = maps.iter().map(|m| m.len()).sum();
    pad(&mut v, 11, (pairs % 4) as i64);
    v
}

fn parse_axes(s: &str) -> Vec<Axis> {
    s.split(' ')
        .filter(|x| !x.is_empty())
        .enumerate()
        .map(|(i, a)| {
            let p: Vec<i64> = a.split(',').map(|x| x.parse().unwrap()).collect();
            (p[0] as i32, p[1] as i32, p[2] as i32, if p.len() > 3 { p[3] as u32 } else { 0x77676874 + i as u32 })
        })
        .collect()
}

fn parse_map(m: &str) -> Vec<(i16, i16)> {
    if m == "_" {
        vec![]
    } else {
        m.split(',')
            .map(|ft| {
                let p: Vec<i16> = ft.split(':').map(|x| x.parse().unwrap()).collect();
                (p[0], p[1])
            })
            .collect()
    }
}

fn parse_avar(s: &str) -> Option<Vec<Vec<(i16, i16)>>> {
    if s == "-" {
        return None;
    }
    Some(s.split(' ').filter(|x| !x.is_empty()).map(parse_map).collect())
}

/// `@k`: the user tuple is named instance k of the fvar table itself
fn named_instance(s: &str) -> Option<usize> {
    s.strip_prefix('@').map(|k| k.parse().unwrap())
}

fn parse_coords(s: &str) -> Vec<i32> {
    if s.is_empty() || s == "-" || s.starts_with('@') {
        vec![]
    } else {
        s.split(',').map(|x| x.parse().unwrap()).collect()
    }
}

fn tuple_str(t: &[F2Dot14]) -> String {
    format!("ok:{}", t.iter().map(|v| v.raw_value().to_string()).collect::<Vec<_>>().join(","))
}

/// FvarTable::normalize on the given fvar (and avar) bytes
fn run_normalize(fb: &[u8], ab: Option<&[u8]>, coords: &[i32], named: Option<usize>) -> String {
    let fvar = match ReadScope::new(fb).read::<FvarTable<'_>>() {
        Ok(f) => f,
        Err(e) => return format!("err:{}", perr(&e)),
    };
    let avar_t = match ab {
        None => None,
        Some(b) => match ReadScope::new(b).read::<AvarTable<'_>>() {
            Ok(a) => Some(a),
            Err(e) => return format!("err:avar-{}", perr(&e)),
        },
    };
    let res = match named {
        None => fvar.normalize(coords.iter().map(|c| Fixed::from_raw(*c)), avar_t.as_ref()),
        // the record's own coordinate array is the user tuple (a ReadArrayIter, not a slice iterator)
        Some(k) => match fvar.instances().nth(k) {
            None => return "err:MissingValue".to_string(),
            Some(Err(e)) => return format!("err:{}", perr(&e)),
            Some(Ok(inst)) => fvar.normalize(inst.coordinates.iter(), avar_t.as_ref()),
        },
    };
    match res {
        Ok(t) => tuple_str(&t),
        Err(e) => format!("err:{}", perr(&e)),
    }
}

/// the coordinates of named instance k, for variations::instance
fn named_coords(fb: &[u8], k: usize) -> Result<Vec<i32>, String> {
    let fvar = ReadScope::new(fb).read::<FvarTable<'_>>().map_err(|e| format!("err:{}", perr(&e)))?;
    let r = match fvar.instances().nth(k) {
        None => Err("err:MissingValue".to_string()),
        Some(Err(e)) => Err(format!("err:{}", perr(&e))),
        Some(Ok(inst)) => Ok(inst.coordinates.iter().map(|c| c.raw_value()).collect()),
    };
    r
}

/// variations::instance on a complete TrueType variable font whose fvar (and avar) are the given bytes
fn run_instance(fb: Vec<u8>, ab: Option<Vec<u8>>, naxes: usize, coords: &[i32]) -> String {
    let ac = naxes.to_string();
    // two glyphs (empty, triangle), no glyph variation data, no HVAR / MVAR
    let line = ["e2e", ac.as_str(), "-", "-", "E~0~500~0~-/S:0,0 100,0 50,100:2~0~600~0~-", "-", "-", "0"];
    let (mut tables, _) = c12::e2e::e2e_font(&line);
    let fvar_tag = u32::from_be_bytes(*b"fvar");
    for t in tables.iter_mut() {
        if t.0 == fvar_tag {
            t.1 = fb.clone();
        }
    }
    if let Some(ab) = ab {
        tables.push((u32::from_be_bytes(*b"avar"), ab));
    }
    let user: Vec<Fixed> = coords.iter().map(|c| Fixed::from_raw(*c)).collect();
    match variations::instance(&c12::e2e::Prov(tables), &user) {
        Ok((_font, tuple)) => tuple_str(&tuple),
        Err(VariationError::Parse(e)) => format!("err:{}", perr(&e)),
        Err(VariationError::Write(_)) => "err:write".to_string(),
        Err(VariationError::CFF(_)) => "err:cff".to_string(),
        Err(VariationError::NotVariableFont) => "err:not-variable".to_string(),
        Err(VariationError::NotImplemented) => "err:not-implemented".to_string(),
        Err(VariationError::NameError) => "err:name".to_string(),
        Err(VariationError::TagError) => "err:tags".to_string(),
    }
}

pub fn run(input: &str) -> String {
    let parts: Vec<&str> = input.split('|').collect();
    let res = catch_unwind(AssertUnwindSafe(|| match parts[0] {
        "S" => {
            let ab = avar_bytes(&[parse_map(parts[1])]);
            let x: i32 = parts[2].parse().unwrap();
            let avar = match ReadScope::new(&ab).read::<AvarTable<'_>>() {
                Ok(a) => a,
                Err(e) => return format!("err:avar-{}", perr(&e)),
            };
            let r = match avar.segment_maps().next() {
                Some(m) => format!("ok:{}", m.normalize(Fixed::from_raw(x)).raw_value()),
                None => "err:BadIndex".to_string(),
            };
            r
        }
        "O" => {
            let sh = Shape::parse(parts[1]);
            let fb = fvar_bytes_shape(&sh, &parse_axes(parts[2]));
            let k: usize = parts[3].parse().unwrap();
            match ReadScope::new(&fb).read::<FvarTable<'_>>() {
                Ok(f) => format!("ok:{}", f.owned_tuple(&vec![F2Dot14::from_raw(0); k]).is_some() as u8),
                Err(e) => format!("err:{}", perr(&e)),
            }
        }
        kind => {
            // N (canonical shape), F, I
            let (sh, rest) = if kind == "N" { (CANONICAL, &parts[1..]) } else { (Shape::parse(parts[1]), &parts[2..]) };
            let axes = parse_axes(rest[0]);
            let avar = parse_avar(rest[1]);
            let coords = parse_coords(rest[2]);
            let named = named_instance(rest[2]);
            let fb = fvar_bytes_shape(&sh, &axes);
            let ab = avar.as_ref().map(|m| avar_bytes(m));
            if kind == "I" {
                let coords = match named {
                    None => coords,
                    Some(k) => match named_coords(&fb, k) {
                        Ok(c) => c,
                        Err(e) => return e,
                    },
                };
                run_instance(fb, ab, axes.len(), &coords)
            } else {
                run_normalize(&fb, ab.as_deref(), &coords, named)
            }
        }
    }));
    match res {
        Ok(s) => s,
        Err(e) => avh::panic_kind(&*e).to_string(),
    }
}

fn fx(rng: &mut Rng) -> i32 {
    // a raw 16.16 value: mostly realistic axis magnitudes, sometimes extreme
    match rng.below(12) {
        0..=5 => (rng.range(-1000, 1000) as i32) << 16,
        6 | 7 => rng.range(-70_000_000, 70_000_000) as i32,
        8 => rng.range(-200, 200) as i32,
        9 => *rng.pick(&[i32::MIN, i32::MIN + 1, -1, 0, 1, i32::MAX - 1, i32::MAX, 0x7fff0000, -0x7fff0000, 0x40000000, -0x40000000]),
        _ => rng.next() as i32,
    }
}

fn gen_axis(rng: &mut Rng) -> (i32, i32, i32) {
    let mut v = [fx(rng), fx(rng), fx(rng)];
    match rng.below(20) {
        0 => {} // unsorted: malformed axis (min > max etc.)
        1 => {
            v.sort();
            v[1] = v[0]; // default = min
        }
        2 => {
            v.sort();
            v[1] = v[2]; // default = max
        }
        3 => {
            v[1] = v[0];
            v[2] = v[0]; // fully degenerate
        }
        4 => {
            // malformed with an equality: default = min and max below them (an empty span on one side
            // and a clamped coordinate on the other), or default = max and min above them
            v.sort();
            if rng.chance(1, 2) {
                v = [v[1], v[1], v[0]];
            } else {
                v = [v[2], v[1], v[1]];
            }
        }
        _ => v.sort(),
    }
    (v[0], v[1], v[2])
}

fn gen_map(rng: &mut Rng) -> Vec<(i16, i16)> {
    match rng.below(10) {
        0 => vec![],
        1 => vec![(-16384, -16384), (0, 0), (16384, 16384)],
        2 => {
            // arbitrary (possibly invalid) map
            let n = rng.below(5) as usize;
            (0..n).map(|_| (rng.range(-20000, 20000) as i16, rng.range(-20000, 20000) as i16)).collect()
        }
        _ => {
            // valid: -1 -> -1, 0 -> 0, 1 -> 1 plus sorted extra knots, monotone targets
            let nneg = rng.below(4) as usize;
            let npos = rng.below(4) as usize;
            let mut fneg: Vec<i16> = (0..nneg).map(|_| rng.range(-16383, -1) as i16).collect();
            let mut tneg: Vec<i16> = (0..nneg).map(|_| rng.range(-16383, -1) as i16).collect();
            let mut fpos: Vec<i16> = (0..npos).map(|_| rng.range(1, 16383) as i16).collect();
            let mut tpos: Vec<i16> = (0..npos).map(|_| rng.range(1, 16383) as i16).collect();
            fneg.sort();
            fneg.dedup();
            tneg.sort();
            fpos.sort();
            fpos.dedup();
            tpos.sort();
            let mut m = vec![(-16384, -16384)];
            for (i, f) in fneg.iter().enumerate() {
                m.push((*f, tneg[i]));
            }
            m.push((0, 0));
            for (i, f) in fpos.iter().enumerate() {
                m.push((*f, tpos[i]));
            }
            m.push((16384, 16384));
            m
        }
    }
}

fn map_str(m: &[(i16, i16)]) -> String {
    if m.is_empty() {
        "_".to_string()
    } else {
        m.iter().map(|(f, t)| format!("{}:{}", f, t)).collect::<Vec<_>>().join(",")
    }
}

/// AXES|AVAR|COORDS for `n` axes; `tags`: write the axis tags explicitly (registered and private ones)
fn gen_tuple_case(rng: &mut Rng, n: usize, tags: bool) -> String {
    let axes: Vec<(i32, i32, i32)> = (0..n).map(|_| gen_axis(rng)).collect();
    // wrong length on purpose: one short, one long (the boundaries), empty, two long, anything
    let ncoords = if rng.chance(1, 10) {
        match rng.below(6) {
            0 => n.saturating_sub(1),
            1 | 2 => n + 1,
            3 => 0,
            4 => n + 2,
            _ => rng.below(8) as usize,
        }
    } else {
        n
    };
    let mut maps_for: Vec<Vec<(i16, i16)>> = vec![];
    let avar = if rng.chance(1, 2) {
        let nm = if rng.chance(1, 10) { rng.below(5) as usize } else { n };
        for _ in 0..nm {
            maps_for.push(gen_map(rng));
        }
        let s: Vec<String> = maps_for.iter().map(|m| map_str(m)).collect();
        if s.is_empty() {
            "_".to_string() // an avar with... keep at least one token; `_` = one empty map
        } else {
            s.join(" ")
        }
    } else {
        "-".to_string()
    };
    let coords: Vec<String> = (0..ncoords)
        .map(|i| {
            let (mn, df, mx) = if i < axes.len() { axes[i] } else { (0, 0, 0) };
            let c: i32 = match rng.below(14) {
                0 => mn,
                1 => df,
                2 => mx,
                3 => mn.wrapping_add(rng.range(-2, 2) as i32),
                4 => df.wrapping_add(rng.range(-2, 2) as i32),
                5 => mx.wrapping_add(rng.range(-2, 2) as i32),
                6 => fx(rng),
                7 if !maps_for.is_empty() && i < maps_for.len() && !maps_for[i].is_empty() => {
                    // aim at an avar knot: pick from_k and map it back into user space approximately
                    let k = rng.below(maps_for[i].len() as u64) as usize;
                    let f = maps_for[i][k].0 as i64; // 2.14
                    let user = if f < 0 {
                        df as i64 + f * (df as i64 - mn as i64) / 16384
                    } else {
                        df as i64 + f * (mx as i64 - df as i64) / 16384
                    };
                    (user + rng.range(-1, 1)) as i32
                }
                _ => {
                    // uniformly inside [min, max] when that is an interval
                    if mn < mx {
                        (mn as i64 + (rng.next() % ((mx as i64 - mn as i64) as u64 + 1)) as i64) as i32
                    } else {
                        fx(rng)
                    }
                }
            };
            c.to_string()
        })
        .collect();
    const TAGS: [&[u8; 4]; 8] = [b"wght", b"wdth", b"ital", b"slnt", b"opsz", b"GRAD", b"XTRA", b"wght"];
    let axes_s: Vec<String> = axes
        .iter()
        .map(|(a, b, c)| {
            if tags {
                format!("{},{},{},{}", a, b, c, u32::from_be_bytes(**rng.pick(&TAGS)))
            } else {
                format!("{},{},{}", a, b, c)
            }
        })
        .collect();
    format!("{}|{}|{}", axes_s.join(" "), avar, if coords.is_empty() { "-".to_string() } else { coords.join(",") })
}

/// an fvar layout for `n` axes: mostly legal (any axesArrayOffset >= 16, any axisSize >= 20, instance records
/// of any size, trailing bytes), sometimes (`allow_bad`) one header field off or the table cut short
fn gen_shape(rng: &mut Rng, n: usize, allow_bad: bool) -> Shape {
    let mut sh = CANONICAL;
    sh.off = match rng.below(10) {
        0..=4 => 16,
        5 => 18,
        6 => 20,
        7 => 17,
        _ => 16 + rng.below(48) as i64,
    };
    sh.asz = match rng.below(10) {
        0..=2 => 20,
        3 => 21,
        4 => 22,
        5 => 24,
        6 => 28,
        7 => 40,
        _ => 20 + rng.below(60) as i64,
    };
    sh.icnt = match rng.below(6) {
        0 | 1 => 0,
        2 => 1,
        3 => 2,
        _ => rng.below(7) as i64,
    };
    sh.isz = match rng.below(6) {
        0 | 1 => 4 + 4 * n as i64,
        2 | 3 => 6 + 4 * n as i64,
        4 => 4 + 4 * n as i64 + rng.below(9) as i64,
        _ => rng.below(12) as i64,
    };
    sh.trail = if rng.chance(1, 3) { rng.below(9) as i64 } else { 0 };
    if allow_bad && rng.chance(1, 8) {
        match rng.below(6) {
            0 => sh.major = *rng.pick(&[0, 2, 256]),
            1 => sh.off = rng.below(16) as i64,
            2 => sh.asz = *rng.pick(&[0, 4, 16, 19]),
            3 => sh.dcount = *rng.pick(&[-1, 1, 1, 2]).max(&-(n as i64)),
            4 => sh.trail = -(1 + rng.below(6) as i64),
            _ => sh.trail = -(rng.below(60) as i64),
        }
    }
    sh
}

/// in 1/6 of the cases the user tuple is one of the table's own named instances: mostly an existing record that
/// holds all its coordinates (with and without postScriptNameID, or larger), sometimes one past the last
/// record or a record too small for the axis count
fn with_named_instance(rng: &mut Rng, n: usize, sh: &mut Shape) -> Option<u64> {
    if !rng.chance(1, 6) {
        return None;
    }
    if rng.chance(5, 6) {
        sh.icnt = 1 + rng.below(4) as i64;
        sh.isz = 4 + 4 * n as i64 + *rng.pick(&[0, 0, 2, 2, 3, 8]);
        Some(rng.below(sh.icnt as u64))
    } else {
        Some(rng.below(sh.icnt.max(0) as u64 + 1))
    }
}

fn named_line(line: String, named: Option<u64>) -> String {
    match named {
        None => line,
        Some(k) => format!("{}|@{}", &line[..line.rfind('|').unwrap()], k),
    }
}

fn gen_axis_count(rng: &mut Rng) -> usize {
    match rng.below(12) {
        0 => 0,
        1..=4 => 1,
        5..=7 => 2,
        8 | 9 => 3,
        10 => 1 + rng.below(5) as usize,
        _ => 4 + rng.below(6) as usize, // beyond the tuple's inline capacity of 4
    }
}

/// S|MAP|X: a segment map and a 16.16 value at / next to a knot, inside a segment, or anywhere
fn gen_segment_case(rng: &mut Rng) -> String {
    let m = gen_map(rng);
    let x: i32 = match rng.below(8) {
        0..=2 if !m.is_empty() => {
            let k = rng.below(m.len() as u64) as usize;
            (m[k].0 as i32) * 4 + rng.range(-2, 2) as i32
        }
        3 | 4 => rng.range(-65536, 65536) as i32,
        5 => *rng.pick(&[-65536, -65535, -1, 0, 1, 65535, 65536]),
        6 => rng.range(-80000, 80000) as i32,
        _ => fx(rng),
    };
    format!("S|{}|{}", map_str(&m), x)
}

pub fn gen(rng: &mut Rng) -> String {
    match rng.below(20) {
        // canonical layout: the arithmetic
        0..=7 => {
            let n = match rng.below(10) {
                0 => 0,
                1..=5 => 1,
                6 | 7 => 2,
                _ => 1 + rng.below(5) as usize,
            };
            format!("N|{}", gen_tuple_case(rng, n, false))
        }
        // any layout through FvarTable::normalize
        8..=13 => {
            let n = gen_axis_count(rng);
            let mut sh = gen_shape(rng, n, true);
            let named = with_named_instance(rng, n, &mut sh);
            let tags = rng.chance(1, 3);
            named_line(format!("F|{}|{}", sh.to_line(), gen_tuple_case(rng, n, tags)), named)
        }
        // the same through variations::instance
        14..=16 => {
            let n = gen_axis_count(rng);
            let bad = rng.chance(1, 3);
            let mut sh = if rng.chance(1, 3) { CANONICAL } else { gen_shape(rng, n, bad) };
            let named = with_named_instance(rng, n, &mut sh);
            named_line(format!("I|{}|{}", sh.to_line(), gen_tuple_case(rng, n, true)), named)
        }
        17 | 18 => gen_segment_case(rng),
        _ => {
            let n = gen_axis_count(rng);
            let sh = gen_shape(rng, n, true);
            let axes = gen_tuple_case(rng, n, false);
            let k = match rng.below(4) {
                0 => n as i64 + sh.dcount,
                1 => n as i64 + sh.dcount + 1,
                2 => (n as i64 + sh.dcount - 1).max(0),
                _ => rng.below(8) as i64,
            };
            format!("O|{}|{}|{}", sh.to_line(), axes.split('|').next().unwrap(), k)
        }
    }
}

fn main() {
    harness_main(&run, &mut gen);
}
