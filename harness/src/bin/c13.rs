//! C13 correspondence: FvarTable::normalize (+ optional avar) on synthesised fvar/avar tables.
//! input  = N|min,def,max min,def,max ...|AVAR|c1,c2,...      (all raw 16.16 i32; N = tag only)
//!          AVAR = `-` (no avar) or maps separated by spaces, each `f:t,f:t,...` (raw 2.14 i16) or `_` (empty map)
//! output = ok:v1,v2,... (raw 2.14) | err:E | panic
use allsorts::binary::read::ReadScope;
use allsorts::tables::variable_fonts::avar::AvarTable;
use allsorts::tables::variable_fonts::fvar::FvarTable;
use allsorts::tables::Fixed;
use avh::prng::Rng;
use avh::{harness_main, perr};
use std::panic::{catch_unwind, AssertUnwindSafe};

fn be16(v: &mut Vec<u8>, x: u16) {
    v.extend_from_slice(&x.to_be_bytes());
}
fn be32(v: &mut Vec<u8>, x: u32) {
    v.extend_from_slice(&x.to_be_bytes());
}

fn fvar_bytes(axes: &[(i32, i32, i32)]) -> Vec<u8> {
    let mut v = vec![];
    be16(&mut v, 1); // major
    be16(&mut v, 0); // minor
    be16(&mut v, 16); // axesArrayOffset
    be16(&mut v, 2); // reserved
    be16(&mut v, axes.len() as u16);
    be16(&mut v, 20); // axisSize
    be16(&mut v, 0); // instanceCount
    be16(&mut v, (4 + 4 * axes.len()) as u16); // instanceSize
    for (i, (mn, df, mx)) in axes.iter().enumerate() {
        be32(&mut v, 0x77676874 + i as u32);
        be32(&mut v, *mn as u32);
        be32(&mut v, *df as u32);
        be32(&mut v, *mx as u32);
        be16(&mut v, 0);
        be16(&mut v, 256 + i as u16);
    }
    v
}

fn avar_bytes(maps: &[Vec<(i16, i16)>]) -> Vec<u8> {
    let mut v = vec![];
    be16(&mut v, 1);
    be16(&mut v, 0);
    be16(&mut v, 0);
    be16(&mut v, maps.len() as u16);
    for m in maps {
        be16(&mut v, m.len() as u16);
        for (f, t) in m {
            be16(&mut v, *f as u16);
            be16(&mut v, *t as u16);
        }
    }
    v
}

fn parse_axes(s: &str) -> Vec<(i32, i32, i32)> {
    s.split(' ')
        .filter(|x| !x.is_empty())
        .map(|a| {
            let p: Vec<i32> = a.split(',').map(|x| x.parse().unwrap()).collect();
            (p[0], p[1], p[2])
        })
        .collect()
}

fn parse_avar(s: &str) -> Option<Vec<Vec<(i16, i16)>>> {
    if s == "-" {
        return None;
    }
    Some(
        s.split(' ')
            .filter(|x| !x.is_empty())
            .map(|m| {
                if m == "_" {
                    vec![]
                } else {
                    m.split(',')
                        .map(|ft| {
                            let p: Vec<i16> = ft.split(':').map(|x| x.parse().unwrap()).collect();
                            (p[0], p[1])
                        })
                        .collect()
                }
            })
            .collect(),
    )
}

pub fn run(input: &str) -> String {
    let parts: Vec<&str> = input.split('|').collect();
    let axes = parse_axes(parts[1]);
    let avar = parse_avar(parts[2]);
    let coords: Vec<i32> = if parts[3].is_empty() || parts[3] == "-" {
        vec![]
    } else {
        parts[3].split(',').map(|x| x.parse().unwrap()).collect()
    };
    let fb = fvar_bytes(&axes);
    let ab = avar.as_ref().map(|m| avar_bytes(m));
    let res = catch_unwind(AssertUnwindSafe(|| {
        let fvar = match ReadScope::new(&fb).read::<FvarTable<'_>>() {
            Ok(f) => f,
            Err(e) => return format!("err:fvar-{}", perr(&e)),
        };
        let avar_t = match &ab {
            None => None,
            Some(b) => match ReadScope::new(b).read::<AvarTable<'_>>() {
                Ok(a) => Some(a),
                Err(e) => return format!("err:avar-{}", perr(&e)),
            },
        };
        match fvar.normalize(coords.iter().map(|c| Fixed::from_raw(*c)), avar_t.as_ref()) {
            Ok(t) => format!(
                "ok:{}",
                t.iter().map(|v| v.raw_value().to_string()).collect::<Vec<_>>().join(",")
            ),
            Err(e) => format!("err:{}", perr(&e)),
        }
    }));
    match res {
        Ok(s) => s,
        Err(e) => avh::panic_kind(&*e).to_string(),
    }
}

fn fx(rng: &mut Rng) -> i32 {
    // a raw 16.16 value: mostly realistic axis magnitudes, sometimes extreme
    match rng.below(12) {
        0..=5 => (rng.range(-1000, 1000) as i32) << 16,
        6 | 7 => rng.range(-70_000_000, 70_000_000) as i32,
        8 => rng.range(-200, 200) as i32,
        9 => *rng.pick(&[i32::MIN, i32::MIN + 1, -1, 0, 1, i32::MAX - 1, i32::MAX, 0x7fff0000, -0x7fff0000, 0x40000000, -0x40000000]),
        _ => rng.next() as i32,
    }
}

fn gen_axis(rng: &mut Rng) -> (i32, i32, i32) {
    let mut v = [fx(rng), fx(rng), fx(rng)];
    match rng.below(20) {
        0 => {} // unsorted: malformed axis (min > max etc.)
        1 => {
            v.sort();
            v[1] = v[0]; // default = min
        }
        2 => {
            v.sort();
            v[1] = v[2]; // default = max
        }
        3 => {
            v[1] = v[0];
            v[2] = v[0]; // fully degenerate
        }
        _ => v.sort(),
    }
    (v[0], v[1], v[2])
}

fn gen_map(rng: &mut Rng) -> Vec<(i16, i16)> {
    match rng.below(10) {
        0 => vec![],
        1 => vec![(-16384, -16384), (0, 0), (16384, 16384)],
        2 => {
            // arbitrary (possibly invalid) map
            let n = rng.below(5) as usize;
            (0..n).map(|_| (rng.range(-20000, 20000) as i16, rng.range(-20000, 20000) as i16)).collect()
        }
        _ => {
            // valid: -1 -> -1, 0 -> 0, 1 -> 1 plus sorted extra knots, monotone targets
            let nneg = rng.below(4) as usize;
            let npos = rng.below(4) as usize;
            let mut fneg: Vec<i16> = (0..nneg).map(|_| rng.range(-16383, -1) as i16).collect();
            let mut tneg: Vec<i16> = (0..nneg).map(|_| rng.range(-16383, -1) as i16).collect();
            let mut fpos: Vec<i16> = (0..npos).map(|_| rng.range(1, 16383) as i16).collect();
            let mut tpos: Vec<i16> = (0..npos).map(|_| rng.range(1, 16383) as i16).collect();
            fneg.sort();
            fneg.dedup();
            tneg.sort();
            fpos.sort();
            fpos.dedup();
            tpos.sort();
            let mut m = vec![(-16384, -16384)];
            for (i, f) in fneg.iter().enumerate() {
                m.push((*f, tneg[i]));
            }
            m.push((0, 0));
            for (i, f) in fpos.iter().enumerate() {
                m.push((*f, tpos[i]));
            }
            m.push((16384, 16384));
            m
        }
    }
}

pub fn gen(rng: &mut Rng) -> String {
    let n = match rng.below(10) {
        0 => 0,
        1..=5 => 1,
        6 | 7 => 2,
        _ => 1 + rng.below(5) as usize,
    };
    let axes: Vec<(i32, i32, i32)> = (0..n).map(|_| gen_axis(rng)).collect();
    let ncoords = if rng.chance(1, 12) { rng.below(6) as usize } else { n };
    let mut maps_for: Vec<Vec<(i16, i16)>> = vec![];
    let avar = if rng.chance(1, 2) {
        let nm = if rng.chance(1, 10) { rng.below(5) as usize } else { n };
        for _ in 0..nm {
            maps_for.push(gen_map(rng));
        }
        let s: Vec<String> = maps_for
            .iter()
            .map(|m| {
                if m.is_empty() {
                    "_".to_string()
                } else {
                    m.iter().map(|(f, t)| format!("{}:{}", f, t)).collect::<Vec<_>>().join(",")
                }
            })
            .collect();
        if s.is_empty() {
            "_".to_string() // an avar with... keep at least one token; `_` = one empty map
        } else {
            s.join(" ")
        }
    } else {
        "-".to_string()
    };
    let coords: Vec<String> = (0..ncoords)
        .map(|i| {
            let (mn, df, mx) = if i < axes.len() { axes[i] } else { (0, 0, 0) };
            let c: i32 = match rng.below(14) {
                0 => mn,
                1 => df,
                2 => mx,
                3 => mn.wrapping_add(rng.range(-2, 2) as i32),
                4 => df.wrapping_add(rng.range(-2, 2) as i32),
                5 => mx.wrapping_add(rng.range(-2, 2) as i32),
                6 => fx(rng),
                7 if !maps_for.is_empty() && i < maps_for.len() && !maps_for[i].is_empty() => {
                    // aim at an avar knot: pick from_k and map it back into user space approximately
                    let k = rng.below(maps_for[i].len() as u64) as usize;
                    let f = maps_for[i][k].0 as i64; // 2.14
                    let user = if f < 0 {
                        df as i64 + f * (df as i64 - mn as i64) / 16384
                    } else {
                        df as i64 + f * (mx as i64 - df as i64) / 16384
                    };
                    (user + rng.range(-1, 1)) as i32
                }
                _ => {
                    // uniformly inside [min, max] when that is an interval
                    if mn < mx {
                        (mn as i64 + (rng.next() % ((mx as i64 - mn as i64) as u64 + 1)) as i64) as i32
                    } else {
                        fx(rng)
                    }
                }
            };
            c.to_string()
        })
        .collect();
    let axes_s: Vec<String> = axes.iter().map(|(a, b, c)| format!("{},{},{}", a, b, c)).collect();
    format!(
        "N|{}|{}|{}",
        axes_s.join(" "),
        avar,
        if coords.is_empty() { "-".to_string() } else { coords.join(",") }
    )
}

fn main() {
    harness_main(&run, &mut gen);
}
