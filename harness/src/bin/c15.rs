//! C15 correspondence: read(write(v)) = v, parse-write-parse stability and refusal of too-wide
//! values, on the real allsorts writers/readers.
//!
//! input  = KIND|... (see the `run_*` functions; numbers decimal, bytes hex, `-` = empty,
//!          STR = `h<hex>` | `r<len>x<byte>` | `-`)
//! output = `;`-separated `key=value` parts: w= bytes written (or err:E / panic),
//!          r= values read back, w2/r2 = the second write / parse of a parse-write-parse case
use allsorts::binary::read::{ReadArrayCow, ReadBinary, ReadBinaryDep, ReadCtxt, ReadScope};
use allsorts::binary::write::{WriteBinary, WriteBinaryDep, WriteBuffer, WriteContext};
use allsorts::binary::{U24Be, U16Be};
use allsorts::cff::{self, IndexU16, IndexU32};
use allsorts::error::{ParseError, WriteError};
use allsorts::post;
use allsorts::tables::glyf::{BoundingBox, Glyph, Point, SimpleGlyph, SimpleGlyphFlag};
use allsorts::tables::loca::{self, LocaTable};
use allsorts::tables::os2::{FsSelection, Os2, Version0, Version1, Version2to4, Version5};
use allsorts::tables::{
    owned, Fixed, HeadTable, HheaTable, HmtxTable, IndexToLocFormat, LangTagRecord, LongHorMetric,
    MacStyle, MaxpTable, MaxpVersion1SubTable, NameRecord, NameTable, TableRecord,
};
use allsorts::verif;
use avh::prng::{hex, unhex, Rng};
use avh::{build_mode, harness_main, panic_kind, perr};
use std::borrow::Cow;
use std::convert::TryFrom;
use std::panic::{catch_unwind, AssertUnwindSafe};

// composite glyphs and the cmap writers (case kinds cg, cms, cmsrd, cmapv, cmaprd, filec)
#[path = "../c15_glyfcmap.rs"]
mod gc;
#[path = "../c15_ivs.rs"]
mod ivs;
#[path = "../c15_sets.rs"]
mod sets;

fn werr(e: &WriteError) -> &'static str {
    match e {
        WriteError::BadValue => "BadValue",
        WriteError::NotImplemented => "NotImplemented",
        WriteError::PlaceholderMismatch => "OtherErr",
    }
}

fn nums(s: &str) -> Vec<i128> {
    if s.is_empty() || s == "-" || s == "." {
        return vec![];
    }
    s.split(',').map(|x| x.parse().unwrap()).collect()
}
fn join<T: std::fmt::Display>(v: &[T]) -> String {
    if v.is_empty() {
        return "-".to_string();
    }
    v.iter().map(|x| x.to_string()).collect::<Vec<_>>().join(",")
}
/// STR = h<hex> | r<len>x<byte> | -
fn parse_str(s: &str) -> Vec<u8> {
    if s == "-" {
        vec![]
    } else if let Some(h) = s.strip_prefix('h') {
        unhex(h)
    } else if let Some(r) = s.strip_prefix('r') {
        let (l, b) = r.split_once('x').unwrap();
        vec![b.parse::<u8>().unwrap(); l.parse::<usize>().unwrap()]
    } else {
        panic!("STR {}", s)
    }
}
fn str_list(s: &str) -> Vec<Vec<u8>> {
    if s == "." {
        vec![]
    } else {
        s.split('+').map(parse_str).collect()
    }
}
fn hex_list(v: &[Vec<u8>]) -> String {
    if v.is_empty() {
        ".".to_string()
    } else {
        v.iter().map(|b| hex(b)).collect::<Vec<_>>().join("+")
    }
}

// ---------------------------------------------------------------- straight-line tables
fn head_from(v: &[i128]) -> HeadTable {
    HeadTable {
        major_version: v[0] as u16,
        minor_version: v[1] as u16,
        font_revision: Fixed::from_raw(v[2] as i32),
        check_sum_adjustment: v[3] as u32,
        magic_number: v[4] as u32,
        flags: v[5] as u16,
        units_per_em: v[6] as u16,
        created: v[7] as i64,
        modified: v[8] as i64,
        x_min: v[9] as i16,
        y_min: v[10] as i16,
        x_max: v[11] as i16,
        y_max: v[12] as i16,
        mac_style: MacStyle::from_bits_truncate(v[13] as u16),
        lowest_rec_ppem: v[14] as u16,
        font_direction_hint: v[15] as i16,
        index_to_loc_format: if v[16] == 0 { IndexToLocFormat::Short } else { IndexToLocFormat::Long },
        glyph_data_format: v[17] as i16,
    }
}
fn head_vals(h: &HeadTable) -> Vec<i128> {
    vec![
        h.major_version as i128,
        h.minor_version as i128,
        h.font_revision.raw_value() as i128,
        h.check_sum_adjustment as i128,
        h.magic_number as i128,
        h.flags as i128,
        h.units_per_em as i128,
        h.created as i128,
        h.modified as i128,
        h.x_min as i128,
        h.y_min as i128,
        h.x_max as i128,
        h.y_max as i128,
        h.mac_style.bits() as i128,
        h.lowest_rec_ppem as i128,
        h.font_direction_hint as i128,
        match h.index_to_loc_format {
            IndexToLocFormat::Short => 0,
            IndexToLocFormat::Long => 1,
        },
        h.glyph_data_format as i128,
    ]
}
fn head_write(h: &HeadTable, fill: bool) -> Result<Vec<u8>, WriteError> {
    let mut b = WriteBuffer::new();
    let ph = HeadTable::write(&mut b, h)?;
    if fill {
        b.write_placeholder(ph, h.check_sum_adjustment)?;
    }
    Ok(b.into_inner())
}
fn hhea_from(v: &[i128]) -> HheaTable {
    HheaTable {
        ascender: v[0] as i16,
        descender: v[1] as i16,
        line_gap: v[2] as i16,
        advance_width_max: v[3] as u16,
        min_left_side_bearing: v[4] as i16,
        min_right_side_bearing: v[5] as i16,
        x_max_extent: v[6] as i16,
        caret_slope_rise: v[7] as i16,
        caret_slope_run: v[8] as i16,
        caret_offset: v[9] as i16,
        num_h_metrics: v[10] as u16,
    }
}
fn hhea_vals(h: &HheaTable) -> Vec<i128> {
    vec![
        h.ascender as i128,
        h.descender as i128,
        h.line_gap as i128,
        h.advance_width_max as i128,
        h.min_left_side_bearing as i128,
        h.min_right_side_bearing as i128,
        h.x_max_extent as i128,
        h.caret_slope_rise as i128,
        h.caret_slope_run as i128,
        h.caret_offset as i128,
        h.num_h_metrics as i128,
    ]
}
fn maxp1_from(v: &[i128]) -> MaxpVersion1SubTable {
    MaxpVersion1SubTable {
        max_points: v[0] as u16,
        max_contours: v[1] as u16,
        max_composite_points: v[2] as u16,
        max_composite_contours: v[3] as u16,
        max_zones: v[4] as u16,
        max_twilight_points: v[5] as u16,
        max_storage: v[6] as u16,
        max_function_defs: v[7] as u16,
        max_instruction_defs: v[8] as u16,
        max_stack_elements: v[9] as u16,
        max_size_of_instructions: v[10] as u16,
        max_component_elements: v[11] as u16,
        max_component_depth: v[12] as u16,
    }
}
fn maxp1_vals(s: &MaxpVersion1SubTable) -> Vec<i128> {
    vec![
        s.max_points as i128,
        s.max_contours as i128,
        s.max_composite_points as i128,
        s.max_composite_contours as i128,
        s.max_zones as i128,
        s.max_twilight_points as i128,
        s.max_storage as i128,
        s.max_function_defs as i128,
        s.max_instruction_defs as i128,
        s.max_stack_elements as i128,
        s.max_size_of_instructions as i128,
        s.max_component_elements as i128,
        s.max_component_depth as i128,
    ]
}
fn posthdr_from(v: &[i128]) -> post::Header {
    post::Header {
        version: v[0] as i32,
        italic_angle: v[1] as i32,
        underline_position: v[2] as i16,
        underline_thickness: v[3] as i16,
        is_fixed_pitch: v[4] as u32,
        min_mem_type_42: v[5] as u32,
        max_mem_type_42: v[6] as u32,
        min_mem_type_1: v[7] as u32,
        max_mem_type_1: v[8] as u32,
    }
}
fn posthdr_vals(h: &post::Header) -> Vec<i128> {
    vec![
        h.version as i128,
        h.italic_angle as i128,
        h.underline_position as i128,
        h.underline_thickness as i128,
        h.is_fixed_pitch as i128,
        h.min_mem_type_42 as i128,
        h.max_mem_type_42 as i128,
        h.min_mem_type_1 as i128,
        h.max_mem_type_1 as i128,
    ]
}

fn wbuf<F: FnOnce(&mut WriteBuffer) -> Result<(), WriteError>>(f: F) -> Result<Vec<u8>, WriteError> {
    let mut b = WriteBuffer::new();
    f(&mut b)?;
    Ok(b.into_inner())
}

/// write the struct built from `v`
fn lay_write(name: &str, fill: bool, v: &[i128]) -> Result<Vec<u8>, WriteError> {
    match name {
        "head" => head_write(&head_from(v), fill),
        "hhea" => wbuf(|b| HheaTable::write(b, &hhea_from(v))),
        "maxp_v1" => wbuf(|b| MaxpVersion1SubTable::write(b, &maxp1_from(v))),
        "posthdr" => wbuf(|b| post::Header::write(b, &posthdr_from(v))),
        "lhm" => wbuf(|b| LongHorMetric::write(b, LongHorMetric { advance_width: v[0] as u16, lsb: v[1] as i16 })),
        "namerec" => wbuf(|b| {
            NameRecord::write(
                b,
                NameRecord {
                    platform_id: v[0] as u16,
                    encoding_id: v[1] as u16,
                    language_id: v[2] as u16,
                    name_id: v[3] as u16,
                    length: v[4] as u16,
                    offset: v[5] as u16,
                },
            )
        }),
        "langtag" => wbuf(|b| LangTagRecord::write(b, LangTagRecord { length: v[0] as u16, offset: v[1] as u16 })),
        "tablerec" => wbuf(|b| {
            TableRecord::write(
                b,
                &TableRecord { table_tag: v[0] as u32, checksum: v[1] as u32, offset: v[2] as u32, length: v[3] as u32 },
            )
        }),
        "bbox" => wbuf(|b| {
            BoundingBox::write(b, BoundingBox { x_min: v[0] as i16, y_min: v[1] as i16, x_max: v[2] as i16, y_max: v[3] as i16 })
        }),
        _ => panic!("layout {}", name),
    }
}

/// parse the struct and list its field values
fn lay_read(name: &str, d: &[u8]) -> Result<Vec<i128>, ParseError> {
    let s = ReadScope::new(d);
    Ok(match name {
        "head" => head_vals(&s.read::<HeadTable>()?),
        "hhea" => hhea_vals(&s.read::<HheaTable>()?),
        "maxp_v1" => maxp1_vals(&s.read::<MaxpVersion1SubTable>()?),
        "posthdr" => posthdr_vals(&s.read::<post::Header>()?),
        "lhm" => {
            let m = s.read::<LongHorMetric>()?;
            vec![m.advance_width as i128, m.lsb as i128]
        }
        "namerec" => {
            let r = s.read::<NameRecord>()?;
            vec![r.platform_id as i128, r.encoding_id as i128, r.language_id as i128, r.name_id as i128, r.length as i128, r.offset as i128]
        }
        "langtag" => {
            let r = s.read::<LangTagRecord>()?;
            vec![r.length as i128, r.offset as i128]
        }
        "tablerec" => {
            let r = s.read::<TableRecord>()?;
            vec![r.table_tag as i128, r.checksum as i128, r.offset as i128, r.length as i128]
        }
        "bbox" => {
            let r = s.read::<BoundingBox>()?;
            vec![r.x_min as i128, r.y_min as i128, r.x_max as i128, r.y_max as i128]
        }
        _ => panic!("layout {}", name),
    })
}

fn rres(r: &Result<Vec<i128>, ParseError>) -> String {
    match r {
        Ok(v) => format!("ok:{}", join(v)),
        Err(e) => format!("err:{}", perr(e)),
    }
}
fn wres(r: &Result<Vec<u8>, WriteError>) -> String {
    match r {
        Ok(b) => hex(b),
        Err(e) => format!("err:{}", werr(e)),
    }
}

fn run_lay(p: &[&str]) -> String {
    let (name, fill, v) = (p[1], p[2] == "1", nums(p[3]));
    let w = lay_write(name, fill, &v);
    match &w {
        Ok(b) => format!("w={};r={}", hex(b), rres(&lay_read(name, b))),
        Err(_) => format!("w={}", wres(&w)),
    }
}

// ---------------------------------------------------------------- structured tables
fn opt(v: &Option<Vec<i128>>) -> String {
    match v {
        Some(v) => join(v),
        None => "-".to_string(),
    }
}
fn maxp_show(m: &MaxpTable) -> String {
    format!("{}/{}", m.num_glyphs, opt(&m.version1_sub_table.as_ref().map(maxp1_vals)))
}
fn os2_base_vals(o: &Os2) -> Vec<i128> {
    let mut v = vec![
        o.version as i128,
        o.x_avg_char_width as i128,
        o.us_weight_class as i128,
        o.us_width_class as i128,
        o.fs_type as i128,
        o.y_subscript_x_size as i128,
        o.y_subscript_y_size as i128,
        o.y_subscript_x_offset as i128,
        o.y_subscript_y_offset as i128,
        o.y_superscript_x_size as i128,
        o.y_superscript_y_size as i128,
        o.y_superscript_x_offset as i128,
        o.y_superscript_y_offset as i128,
        o.y_strikeout_size as i128,
        o.y_strikeout_position as i128,
        o.s_family_class as i128,
    ];
    v.extend(o.panose.iter().map(|b| *b as i128));
    v.extend([
        o.ul_unicode_range1 as i128,
        o.ul_unicode_range2 as i128,
        o.ul_unicode_range3 as i128,
        o.ul_unicode_range4 as i128,
        o.ach_vend_id as i128,
        o.fs_selection.bits() as i128,
        o.us_first_char_index as i128,
        o.us_last_char_index as i128,
    ]);
    v
}
fn os2_show(o: &Os2) -> String {
    let v0 = o.version0.as_ref().map(|v| {
        vec![v.s_typo_ascender as i128, v.s_typo_descender as i128, v.s_typo_line_gap as i128, v.us_win_ascent as i128, v.us_win_descent as i128]
    });
    let v1 = o.version1.as_ref().map(|v| vec![v.ul_code_page_range1 as i128, v.ul_code_page_range2 as i128]);
    let v2 = o.version2to4.as_ref().map(|v| {
        vec![v.sx_height as i128, v.s_cap_height as i128, v.us_default_char as i128, v.us_break_char as i128, v.us_max_context as i128]
    });
    let v5 = o.version5.as_ref().map(|v| vec![v.us_lower_optical_point_size as i128, v.us_upper_optical_point_size as i128]);
    format!("{}/{}/{}/{}/{}", join(&os2_base_vals(o)), opt(&v0), opt(&v1), opt(&v2), opt(&v5))
}
fn os2_from(b: &[i128], v0: Option<Vec<i128>>, v1: Option<Vec<i128>>, v2: Option<Vec<i128>>, v5: Option<Vec<i128>>) -> Os2 {
    let mut panose = [0u8; 10];
    for i in 0..10 {
        panose[i] = b[16 + i] as u8;
    }
    Os2 {
        version: b[0] as u16,
        x_avg_char_width: b[1] as i16,
        us_weight_class: b[2] as u16,
        us_width_class: b[3] as u16,
        fs_type: b[4] as u16,
        y_subscript_x_size: b[5] as i16,
        y_subscript_y_size: b[6] as i16,
        y_subscript_x_offset: b[7] as i16,
        y_subscript_y_offset: b[8] as i16,
        y_superscript_x_size: b[9] as i16,
        y_superscript_y_size: b[10] as i16,
        y_superscript_x_offset: b[11] as i16,
        y_superscript_y_offset: b[12] as i16,
        y_strikeout_size: b[13] as i16,
        y_strikeout_position: b[14] as i16,
        s_family_class: b[15] as i16,
        panose,
        ul_unicode_range1: b[26] as u32,
        ul_unicode_range2: b[27] as u32,
        ul_unicode_range3: b[28] as u32,
        ul_unicode_range4: b[29] as u32,
        ach_vend_id: b[30] as u32,
        fs_selection: FsSelection::from_bits_truncate(b[31] as u16),
        us_first_char_index: b[32] as u16,
        us_last_char_index: b[33] as u16,
        version0: v0.map(|v| Version0 {
            s_typo_ascender: v[0] as i16,
            s_typo_descender: v[1] as i16,
            s_typo_line_gap: v[2] as i16,
            us_win_ascent: v[3] as u16,
            us_win_descent: v[4] as u16,
        }),
        version1: v1.map(|v| Version1 { ul_code_page_range1: v[0] as u32, ul_code_page_range2: v[1] as u32 }),
        version2to4: v2.map(|v| Version2to4 {
            sx_height: v[0] as i16,
            s_cap_height: v[1] as i16,
            us_default_char: v[2] as u16,
            us_break_char: v[3] as u16,
            us_max_context: v[4] as u16,
        }),
        version5: v5.map(|v| Version5 { us_lower_optical_point_size: v[0] as u16, us_upper_optical_point_size: v[1] as u16 }),
    }
}
fn optnums(s: &str) -> Option<Vec<i128>> {
    if s == "-" {
        None
    } else {
        Some(nums(s))
    }
}
fn hmtx_show(h: &HmtxTable<'_>) -> String {
    let hm: Vec<String> = h.h_metrics.iter().map(|m| format!("{}:{}", m.advance_width, m.lsb)).collect();
    let ls: Vec<i128> = h.left_side_bearings.iter().map(|x| x as i128).collect();
    format!("{}/{}", if hm.is_empty() { ".".to_string() } else { hm.join("+") }, join(&ls))
}
fn name_show(n: &NameTable<'_>) -> String {
    let recs: Vec<String> = n
        .name_records
        .iter()
        .map(|r| format!("{}:{}:{}:{}:{}:{}", r.platform_id, r.encoding_id, r.language_id, r.name_id, r.length, r.offset))
        .collect();
    let lts = match &n.opt_langtag_records {
        None => "-".to_string(),
        Some(l) => {
            let v: Vec<String> = l.iter().map(|r| format!("{}:{}", r.length, r.offset)).collect();
            if v.is_empty() {
                ".".to_string()
            } else {
                v.join("+")
            }
        }
    };
    format!("{}/{}/{}", hex(n.string_storage.data()), if recs.is_empty() { ".".to_string() } else { recs.join("+") }, lts)
}
fn owned_name_show(n: &owned::NameTable<'_>) -> String {
    let recs: Vec<String> = n
        .name_records
        .iter()
        .map(|r| format!("{}:{}:{}:{}:{}", r.platform_id, r.encoding_id, r.language_id, r.name_id, hex(&r.string)))
        .collect();
    let lts: Vec<Vec<u8>> = n.langtag_records.iter().map(|c| c.to_vec()).collect();
    format!("{}/{}", if recs.is_empty() { ".".to_string() } else { recs.join("+") }, hex_list(&lts))
}

/// rd|NAME|ARG|HEX: parse, write, parse again
fn run_rd(p: &[&str]) -> String {
    let (name, arg, d) = (p[1], p[2], unhex(p[3]));
    let s = ReadScope::new(&d);
    macro_rules! pwp {
        ($r1:expr, $show:expr, $write:expr, $reread:expr) => {{
            match $r1 {
                Err(e) => format!("r=err:{}", perr(&e)),
                Ok(t) => {
                    let r = $show(&t);
                    let w: Result<Vec<u8>, WriteError> = $write(&t);
                    match w {
                        Err(e) => format!("r=ok:{};w=err:{}", r, werr(&e)),
                        Ok(b) => {
                            let r2: Result<String, ParseError> = $reread(&b);
                            let r2 = match r2 {
                                Ok(t2) => format!("ok:{}", t2),
                                Err(e) => format!("err:{}", perr(&e)),
                            };
                            format!("r=ok:{};w={};r2={}", r, hex(&b), r2)
                        }
                    }
                }
            }
        }};
    }
    match name {
        "maxp" => pwp!(
            s.read::<MaxpTable>(),
            |t: &MaxpTable| maxp_show(t),
            |t: &MaxpTable| wbuf(|b| MaxpTable::write(b, t)),
            |b: &Vec<u8>| ReadScope::new(b).read::<MaxpTable>().map(|t| maxp_show(&t))
        ),
        "os2" => {
            let size: usize = arg.parse().unwrap();
            // the second parse is given the length actually written, as a table directory would
            pwp!(
                s.read_dep::<Os2>(size),
                |t: &Os2| os2_show(t),
                |t: &Os2| wbuf(|b| Os2::write(b, t)),
                |b: &Vec<u8>| ReadScope::new(b).read_dep::<Os2>(b.len()).map(|t| os2_show(&t))
            )
        }
        "hmtx" => {
            let (ng, nh) = arg.split_once(':').unwrap();
            let (ng, nh): (usize, usize) = (ng.parse().unwrap(), nh.parse().unwrap());
            pwp!(
                s.read_dep::<HmtxTable<'_>>((ng, nh)),
                |t: &HmtxTable<'_>| hmtx_show(t),
                |t: &HmtxTable<'_>| wbuf(|b| HmtxTable::write(b, t)),
                |b: &Vec<u8>| {
                    // Safety of lifetimes: show immediately
                    ReadScope::new(b).read_dep::<HmtxTable<'_>>((ng, nh)).map(|t| hmtx_show(&t))
                }
            )
        }
        "name" => pwp!(
            s.read::<NameTable<'_>>(),
            |t: &NameTable<'_>| name_show(t),
            |t: &NameTable<'_>| wbuf(|b| NameTable::write(b, t)),
            |b: &Vec<u8>| ReadScope::new(b).read::<NameTable<'_>>().map(|t| name_show(&t))
        ),
        "head" => {
            let fill = arg == "1";
            pwp!(
                s.read::<HeadTable>(),
                |t: &HeadTable| join(&head_vals(t)),
                |t: &HeadTable| head_write(t, fill),
                |b: &Vec<u8>| ReadScope::new(b).read::<HeadTable>().map(|t| join(&head_vals(&t)))
            )
        }
        _ => {
            // the remaining straight-line layouts
            match lay_read(name, &d) {
                Err(e) => format!("r=err:{}", perr(&e)),
                Ok(v) => match lay_write(name, false, &v) {
                    Err(e) => format!("r=ok:{};w=err:{}", join(&v), werr(&e)),
                    Ok(b) => format!("r=ok:{};w={};r2={}", join(&v), hex(&b), rres(&lay_read(name, &b))),
                },
            }
        }
    }
}

fn loca_offsets(t: &LocaTable<'_>) -> Vec<u32> {
    (0..t.offsets.len()).map(|i| t.offsets.get(i).unwrap()).collect()
}

fn run_maxpv(p: &[&str]) -> String {
    let t = MaxpTable { num_glyphs: p[1].parse().unwrap(), version1_sub_table: optnums(p[2]).map(|v| maxp1_from(&v)) };
    let b = wbuf(|b| MaxpTable::write(b, &t)).unwrap();
    let r = match ReadScope::new(&b).read::<MaxpTable>() {
        Ok(t2) => format!("ok:{}", maxp_show(&t2)),
        Err(e) => format!("err:{}", perr(&e)),
    };
    format!("w={};r={}", hex(&b), r)
}
fn run_os2v(p: &[&str]) -> String {
    let t = os2_from(&nums(p[1]), optnums(p[2]), optnums(p[3]), optnums(p[4]), optnums(p[5]));
    let b = wbuf(|b| Os2::write(b, &t)).unwrap();
    let r = match ReadScope::new(&b).read_dep::<Os2>(b.len()) {
        Ok(t2) => format!("ok:{}", os2_show(&t2)),
        Err(e) => format!("err:{}", perr(&e)),
    };
    format!("w={};r={}", hex(&b), r)
}
fn run_hmtxv(p: &[&str]) -> String {
    let hm: Vec<LongHorMetric> = if p[1] == "." {
        vec![]
    } else {
        p[1].split('+')
            .map(|m| {
                let (a, l) = m.split_once(':').unwrap();
                LongHorMetric { advance_width: a.parse().unwrap(), lsb: l.parse().unwrap() }
            })
            .collect()
    };
    let ls: Vec<i16> = nums(p[2]).iter().map(|x| *x as i16).collect();
    let (nh, nl) = (hm.len(), ls.len());
    let t = HmtxTable { h_metrics: ReadArrayCow::Owned(hm), left_side_bearings: ReadArrayCow::Owned(ls) };
    let b = wbuf(|b| HmtxTable::write(b, &t)).unwrap();
    let r = match ReadScope::new(&b).read_dep::<HmtxTable<'_>>((nh + nl, nh)) {
        Ok(t2) => format!("ok:{}", hmtx_show(&t2)),
        Err(e) => format!("err:{}", perr(&e)),
    };
    format!("w={};r={}", hex(&b), r)
}
fn run_loca(p: &[&str]) -> String {
    let fmt = if p[1] == "0" { IndexToLocFormat::Short } else { IndexToLocFormat::Long };
    let offs: Vec<u32> = nums(p[2]).iter().map(|x| *x as u32).collect();
    let n = offs.len();
    let mut b = WriteBuffer::new();
    match loca::owned::LocaTable::write_dep(&mut b, loca::owned::LocaTable { offsets: offs }, fmt) {
        Err(e) => format!("w=err:{}", werr(&e)),
        Ok(()) => {
            let b = b.into_inner();
            if n == 0 {
                return format!("w={}", hex(&b));
            }
            let r = match ReadScope::new(&b).read_dep::<LocaTable<'_>>((n - 1, fmt)) {
                Ok(t) => format!("ok:{}", join(&loca_offsets(&t))),
                Err(e) => format!("err:{}", perr(&e)),
            };
            format!("w={};r={}", hex(&b), r)
        }
    }
}
fn run_namev(p: &[&str]) -> String {
    let recs: Vec<owned::NameRecord<'_>> = if p[1] == "." {
        vec![]
    } else {
        p[1].split('+')
            .map(|r| {
                let f: Vec<&str> = r.split(':').collect();
                owned::NameRecord {
                    platform_id: f[0].parse().unwrap(),
                    encoding_id: f[1].parse().unwrap(),
                    language_id: f[2].parse().unwrap(),
                    name_id: f[3].parse().unwrap(),
                    string: Cow::from(parse_str(f[4])),
                }
            })
            .collect()
    };
    let lts: Vec<Cow<'_, [u8]>> = str_list(p[2]).into_iter().map(Cow::from).collect();
    let t = owned::NameTable { name_records: recs, langtag_records: lts };
    match wbuf(|b| owned::NameTable::write(b, &t)) {
        Err(e) => format!("w=err:{}", werr(&e)),
        Ok(b) => {
            let r = match ReadScope::new(&b).read::<NameTable<'_>>() {
                Err(e) => format!("err:{}", perr(&e)),
                Ok(n) => match owned::NameTable::try_from(&n) {
                    Err(e) => format!("err:{}", perr(&e)),
                    Ok(o) => format!("ok:{}", owned_name_show(&o)),
                },
            };
            format!("w={};r={}", hex(&b), r)
        }
    }
}

// ---------------------------------------------------------------- CFF
fn op_show(data: &[u8]) -> String {
    match verif::cff::op_read(data) {
        Err(e) => format!("err:{}", perr(&e)),
        Ok((k, n)) => match k {
            verif::cff::OpKind::Operator => format!("op:{}", n),
            verif::cff::OpKind::Integer(i) => format!("int:{}:{}", i, n),
            verif::cff::OpKind::Offset(i) => format!("offset:{}:{}", i, n),
            verif::cff::OpKind::Real(b) => format!("real:{}:{}", hex(&b), n),
        },
    }
}
fn run_cffint(p: &[&str]) -> String {
    let v: i32 = p[1].parse().unwrap();
    let b = wbuf(|b| cff::Operand::write(b, &cff::Operand::Integer(v))).unwrap();
    let o = wbuf(|b| cff::Operand::write(b, &cff::Operand::Offset(v))).unwrap();
    format!("w={};r={};wo={};ro={}", hex(&b), op_show(&b), hex(&o), op_show(&o))
}
fn run_offs(p: &[&str]) -> String {
    let offs: Vec<usize> = nums(p[1]).iter().map(|x| *x as usize).collect();
    match verif::cff::serialise_offsets(offs) {
        Ok((sz, b)) => format!("w={}:{}", sz, hex(&b)),
        Err(e) => format!("w=err:{}", werr(&e)),
    }
}
fn run_index(p: &[&str]) -> String {
    let wide = p[1] == "1";
    let objs = str_list(p[2]);
    match verif::cff::owned_index_write(objs, wide) {
        Err(e) => format!("w=err:{}", werr(&e)),
        Ok(b) => {
            let parsed = if wide { ReadScope::new(&b).read::<IndexU32>() } else { ReadScope::new(&b).read::<IndexU16>() };
            match parsed {
                Err(e) => format!("w={};r=err:{}", hex(&b), perr(&e)),
                Ok(ix) => {
                    let objs: Vec<Vec<u8>> = ix.iter().map(|o| o.to_vec()).collect();
                    let w2 = if wide { wbuf(|c| IndexU32::write(c, &ix)) } else { wbuf(|c| IndexU16::write(c, &ix)) };
                    format!("w={};r=ok:{};w2={}", hex(&b), hex_list(&objs), wres(&w2))
                }
            }
        }
    }
}
/// ixrd|wide|HEX: parse INDEX bytes, list the objects, write it back
fn run_ixrd(p: &[&str]) -> String {
    let wide = p[1] == "1";
    let d = unhex(p[2]);
    let parsed = if wide { ReadScope::new(&d).read::<IndexU32>() } else { ReadScope::new(&d).read::<IndexU16>() };
    match parsed {
        Err(e) => format!("r=err:{}", perr(&e)),
        Ok(ix) => {
            let objs: Vec<Vec<u8>> = ix.iter().map(|o| o.to_vec()).collect();
            let w2 = if wide { wbuf(|c| IndexU32::write(c, &ix)) } else { wbuf(|c| IndexU16::write(c, &ix)) };
            format!("r=ok:{};w2={}", hex_list(&objs), wres(&w2))
        }
    }
}
/// bigix|COUNT: a CFF2 INDEX (u32 count) with COUNT empty objects: parse it, write it back
fn run_bigix(p: &[&str]) -> String {
    let count: u32 = p[1].parse().unwrap();
    let mut d = count.to_be_bytes().to_vec();
    if count > 0 {
        d.push(1);
        d.extend(std::iter::repeat(1u8).take(count as usize + 1));
    }
    match ReadScope::new(&d).read::<IndexU32>() {
        Err(e) => format!("r=err:{}", perr(&e)),
        Ok(ix) => match wbuf(|c| IndexU32::write(c, &ix)) {
            Err(e) => format!("r=ok:{};w2=err:{}", ix.count, werr(&e)),
            Ok(b) => format!("r=ok:{};w2={}", ix.count, if b == d { "same" } else { "different" }),
        },
    }
}

// ---------------------------------------------------------------- glyf simple glyphs
fn glyph_show(g: &SimpleGlyph<'_>) -> String {
    let c: Vec<String> = g.coordinates.iter().map(|(f, Point(x, y))| format!("{}:{}:{}", f.bits(), x, y)).collect();
    format!(
        "{}/{}/{}/{}",
        join(&[g.bounding_box.x_min, g.bounding_box.y_min, g.bounding_box.x_max, g.bounding_box.y_max]),
        join(&g.end_pts_of_contours),
        hex(g.instructions),
        if c.is_empty() { ".".to_string() } else { c.join("+") }
    )
}
fn glyph_read_show(b: &[u8]) -> String {
    match ReadScope::new(b).read::<Glyph<'_>>() {
        Err(e) => format!("err:{}", perr(&e)),
        Ok(Glyph::Simple(g)) => format!("ok:{}", glyph_show(&g)),
        Ok(Glyph::Composite(_)) => "composite".to_string(),
        Ok(Glyph::Empty(_)) => "empty".to_string(),
    }
}
/// glyph|MODE|bbox|endpts|instrSTR|f:x:y+...
fn run_glyph(p: &[&str]) -> String {
    let bb = nums(p[2]);
    let instr = parse_str(p[4]);
    let coords: Vec<(SimpleGlyphFlag, Point)> = if p[5] == "." {
        vec![]
    } else {
        p[5].split('+')
            .map(|c| {
                let f: Vec<&str> = c.split(':').collect();
                (
                    SimpleGlyphFlag::from_bits_truncate(f[0].parse().unwrap()),
                    Point(f[1].parse().unwrap(), f[2].parse().unwrap()),
                )
            })
            .collect()
    };
    let g = SimpleGlyph {
        bounding_box: BoundingBox { x_min: bb[0] as i16, y_min: bb[1] as i16, x_max: bb[2] as i16, y_max: bb[3] as i16 },
        end_pts_of_contours: nums(p[3]).iter().map(|x| *x as u16).collect(),
        instructions: &instr,
        coordinates: coords,
        phantom_points: None,
    };
    let w = catch_unwind(AssertUnwindSafe(|| wbuf(|b| SimpleGlyph::write(b, g))));
    match w {
        Err(_) => "w=panic".to_string(),
        Ok(Err(e)) => format!("w=err:{}", werr(&e)),
        Ok(Ok(b)) => {
            let r = catch_unwind(AssertUnwindSafe(|| glyph_read_show(&b))).unwrap_or_else(|_| "panic".to_string());
            format!("w={};r={}", hex(&b), r)
        }
    }
}
/// glyphrd|MODE|HEX: parse, write, parse
fn run_glyphrd(p: &[&str]) -> String {
    let d = unhex(p[2]);
    match ReadScope::new(&d).read::<Glyph<'_>>() {
        Err(e) => format!("r=err:{}", perr(&e)),
        Ok(Glyph::Composite(g)) => gc::run_cgrd(&d, g),
        Ok(Glyph::Empty(_)) => "r=empty".to_string(),
        Ok(Glyph::Simple(g)) => {
            let r = glyph_show(&g);
            match wbuf(|b| SimpleGlyph::write(b, g)) {
                Err(e) => format!("r=ok:{};w=err:{}", r, werr(&e)),
                Ok(b) => {
                    let r2 = catch_unwind(AssertUnwindSafe(|| glyph_read_show(&b))).unwrap_or_else(|_| "panic".to_string());
                    format!("r=ok:{};w={};r2={}", r, hex(&b), r2)
                }
            }
        }
    }
}

// ---------------------------------------------------------------- small writers
fn run_u24(p: &[&str]) -> String {
    let v: u32 = p[1].parse().unwrap();
    format!("w={}", wres(&wbuf(|b| U24Be::write(b, v))))
}
fn run_pascal(p: &[&str]) -> String {
    let s = parse_str(p[1]);
    format!("w={}", wres(&wbuf(|b| post::PascalString::write(b, &post::PascalString { bytes: &s }))))
}

// ---------------------------------------------------------------- fixture fonts: parse-write-parse
/// file|PATH|TABLE: result `pwp=stable:<len>` when parse(write(parse(bytes))) shows the same as
/// parse(bytes) for that table of the fixture font
fn run_file(p: &[&str]) -> String {
    use allsorts::font_data::FontData;
    use allsorts::tables::FontTableProvider;
    use allsorts::tag;
    let root = std::env::var("VERIF_REPO").unwrap_or_else(|_| "/repo".to_string());
    let data = match std::fs::read(format!("{}/{}", root, p[1])) {
        Ok(d) => d,
        Err(_) => return "pwp=nofile".to_string(),
    };
    let fd = match ReadScope::new(&data).read::<FontData<'_>>() {
        Ok(f) => f,
        Err(e) => return format!("pwp=err:{}", perr(&e)),
    };
    let prov = match fd.table_provider(0) {
        Ok(p) => p,
        Err(_) => return "pwp=err:provider".to_string(),
    };
    let get = |t: u32| prov.table_data(t).ok().flatten().map(|c| c.into_owned());
    let maxp = get(tag::MAXP).and_then(|d| ReadScope::new(&d).read::<MaxpTable>().ok());
    let hhea = get(tag::HHEA).and_then(|d| ReadScope::new(&d).read::<HheaTable>().ok());
    let head = get(tag::HEAD).and_then(|d| ReadScope::new(&d).read::<HeadTable>().ok());
    let res = |s1: String, w: Result<Vec<u8>, WriteError>, reread: &dyn Fn(&[u8]) -> String| -> String {
        match w {
            Err(e) => format!("pwp=werr:{}", werr(&e)),
            Ok(b) => {
                let s2 = reread(&b);
                if s1 == s2 {
                    format!("pwp=stable:{}", b.len())
                } else {
                    "pwp=unstable".to_string()
                }
            }
        }
    };
    macro_rules! simple {
        ($tag:expr, $ty:ty, $show:expr, $write:expr) => {{
            let d = match get($tag) {
                Some(d) => d,
                None => return "pwp=absent".to_string(),
            };
            match ReadScope::new(&d).read::<$ty>() {
                Err(e) => format!("pwp=err:{}", perr(&e)),
                Ok(t) => {
                    let s1 = $show(&t);
                    res(s1, $write(&t), &|b: &[u8]| match ReadScope::new(b).read::<$ty>() {
                        Ok(t2) => $show(&t2),
                        Err(e) => format!("err:{}", perr(&e)),
                    })
                }
            }
        }};
    }
    match p[2] {
        "head" => simple!(tag::HEAD, HeadTable, |t: &HeadTable| join(&head_vals(t)), |t: &HeadTable| head_write(t, true)),
        "hhea" => simple!(tag::HHEA, HheaTable, |t: &HheaTable| join(&hhea_vals(t)), |t: &HheaTable| wbuf(|b| HheaTable::write(b, t))),
        "maxp" => simple!(tag::MAXP, MaxpTable, |t: &MaxpTable| maxp_show(t), |t: &MaxpTable| wbuf(|b| MaxpTable::write(b, t))),
        "name" => simple!(tag::NAME, NameTable<'_>, |t: &NameTable<'_>| name_show(t), |t: &NameTable<'_>| wbuf(|b| NameTable::write(b, t))),
        "post" => simple!(
            tag::POST,
            post::PostTable<'_>,
            |t: &post::PostTable<'_>| {
                let names: Vec<Vec<u8>> = t.opt_sub_table.as_ref().map(|s| s.names.iter().map(|n| n.bytes.to_vec()).collect()).unwrap_or_default();
                let idx: Vec<u16> = t.opt_sub_table.as_ref().map(|s| s.glyph_name_index.iter().collect()).unwrap_or_default();
                format!("{}/{}/{}", join(&posthdr_vals(&t.header)), join(&idx), hex_list(&names))
            },
            |t: &post::PostTable<'_>| wbuf(|b| post::PostTable::write(b, t))
        ),
        "os2" => {
            let d = match get(tag::OS_2) {
                Some(d) => d,
                None => return "pwp=absent".to_string(),
            };
            match ReadScope::new(&d).read_dep::<Os2>(d.len()) {
                Err(e) => format!("pwp=err:{}", perr(&e)),
                Ok(t) => {
                    // versions 2-3 are written as 4: compare with the version field normalised
                    let norm = |o: &Os2| {
                        let s = os2_show(o);
                        let (_, rest) = s.split_once(',').unwrap();
                        let ver = if o.version5.is_some() { 5 } else if o.version2to4.is_some() { 4 } else if o.version1.is_some() { 1 } else { 0 };
                        format!("{},{}", ver, rest)
                    };
                    res(norm(&t), wbuf(|b| Os2::write(b, &t)), &|b: &[u8]| match ReadScope::new(b).read_dep::<Os2>(b.len()) {
                        Ok(t2) => os2_show(&t2),
                        Err(e) => format!("err:{}", perr(&e)),
                    })
                }
            }
        }
        "hmtx" => {
            let (d, m, h) = match (get(tag::HMTX), &maxp, &hhea) {
                (Some(d), Some(m), Some(h)) => (d, m, h),
                _ => return "pwp=absent".to_string(),
            };
            let args = (usize::from(m.num_glyphs), usize::from(h.num_h_metrics));
            match ReadScope::new(&d).read_dep::<HmtxTable<'_>>(args) {
                Err(e) => format!("pwp=err:{}", perr(&e)),
                Ok(t) => res(hmtx_show(&t), wbuf(|b| HmtxTable::write(b, &t)), &|b: &[u8]| {
                    match ReadScope::new(b).read_dep::<HmtxTable<'_>>(args) {
                        Ok(t2) => hmtx_show(&t2),
                        Err(e) => format!("err:{}", perr(&e)),
                    }
                }),
            }
        }
        "loca" => {
            let (d, m, h) = match (get(tag::LOCA), &maxp, &head) {
                (Some(d), Some(m), Some(h)) => (d, m, h),
                _ => return "pwp=absent".to_string(),
            };
            let args = (usize::from(m.num_glyphs), h.index_to_loc_format);
            let show = |t: &LocaTable<'_>| join(&loca_offsets(t));
            match ReadScope::new(&d).read_dep::<LocaTable<'_>>(args) {
                Err(e) => format!("pwp=err:{}", perr(&e)),
                Ok(t) => {
                    let s1 = show(&t);
                    // through the owned writer, which is what the subsetter uses
                    let offs: Vec<u32> = loca_offsets(&t);
                    let mut b = WriteBuffer::new();
                    let w = loca::owned::LocaTable::write_dep(&mut b, loca::owned::LocaTable { offsets: offs }, h.index_to_loc_format).map(|_| b.into_inner());
                    res(s1, w, &|b: &[u8]| match ReadScope::new(b).read_dep::<LocaTable<'_>>(args) {
                        Ok(t2) => show(&t2),
                        Err(e) => format!("err:{}", perr(&e)),
                    })
                }
            }
        }
        "glyf" => {
            use allsorts::tables::glyf::GlyfTable;
            let (d, l, m, h) = match (get(tag::GLYF), get(tag::LOCA), &maxp, &head) {
                (Some(d), Some(l), Some(m), Some(h)) => (d, l, m, h),
                _ => return "pwp=absent".to_string(),
            };
            let loca = match ReadScope::new(&l).read_dep::<LocaTable<'_>>((usize::from(m.num_glyphs), h.index_to_loc_format)) {
                Ok(l) => l,
                Err(e) => return format!("pwp=err:{}", perr(&e)),
            };
            let mut glyf = match ReadScope::new(&d).read_dep::<GlyfTable<'_>>(&loca) {
                Ok(g) => g,
                Err(e) => return format!("pwp=err:{}", perr(&e)),
            };
            // per glyph: parse, write, parse, compare (simple glyphs: flags reduced to ON_CURVE)
            let n = glyf.num_glyphs();
            let mut checked = 0usize;
            for gid in 0..n {
                let g = match glyf.get_parsed_glyph(gid) {
                    Ok(g) => g.clone(),
                    Err(e) => return format!("pwp=err:{}:{}", gid, perr(&e)),
                };
                if let Glyph::Simple(sg) = g {
                    let norm = |g: &SimpleGlyph<'_>| {
                        let c: Vec<String> = g.coordinates.iter().map(|(f, Point(x, y))| format!("{}:{}:{}", f.bits() & 1, x, y)).collect();
                        format!("{:?}/{}/{}/{}", g.bounding_box, join(&g.end_pts_of_contours), hex(g.instructions), c.join("+"))
                    };
                    let s1 = norm(&sg);
                    let b = match wbuf(|b| SimpleGlyph::write(b, sg)) {
                        Ok(b) => b,
                        Err(e) => return format!("pwp=werr:{}:{}", gid, werr(&e)),
                    };
                    match ReadScope::new(&b).read::<Glyph<'_>>() {
                        Ok(Glyph::Simple(g2)) if norm(&g2) == s1 => checked += 1,
                        _ => return format!("pwp=unstable:{}", gid),
                    }
                }
            }
            format!("pwp=stable:{}", checked)
        }
        "cff" => {
            let d = match get(tag::CFF) {
                Some(d) => d,
                None => return "pwp=absent".to_string(),
            };
            match ReadScope::new(&d).read::<cff::CFF<'_>>() {
                Err(e) => format!("pwp=err:{}", perr(&e)),
                Ok(t) => match wbuf(|b| cff::CFF::write(b, &t)) {
                    Err(e) => format!("pwp=werr:{}", werr(&e)),
                    Ok(b) => match ReadScope::new(&b).read::<cff::CFF<'_>>() {
                        Err(e) => format!("pwp=unstable:err:{}", perr(&e)),
                        Ok(t2) => match wbuf(|c| cff::CFF::write(c, &t2)) {
                            // a second write of the re-parsed font must reproduce the bytes
                            Ok(b2) if b2 == b => format!("pwp=stable:{}", b.len()),
                            _ => "pwp=unstable".to_string(),
                        },
                    },
                },
            }
        }
        _ => "pwp=unknown-table".to_string(),
    }
}


// ---------------------------------------------------------------- CFF DICTs
/// ENTRIES = `.` | entry `+` entry ..; entry = CODE `:` [operand `,` operand ..];
/// operand = i<dec> (Integer) | o<dec> (Offset) | r<hex> (Real, raw nibble bytes)
fn operand_show(o: &cff::Operand) -> String {
    match o {
        cff::Operand::Integer(v) => format!("i{}", v),
        cff::Operand::Offset(v) => format!("o{}", v),
        cff::Operand::Real(r) => format!("r{}", hex(verif::cff::real_bytes(r))),
    }
}
fn entries_show<T: cff::DictDefault>(d: &cff::Dict<T>) -> String {
    let v: Vec<String> = d
        .iter()
        .map(|(op, ops)| format!("{}:{}", *op as u16, ops.iter().map(operand_show).collect::<Vec<_>>().join(",")))
        .collect();
    if v.is_empty() {
        ".".to_string()
    } else {
        v.join("+")
    }
}
fn parse_operand(s: &str) -> cff::Operand {
    match &s[..1] {
        "i" => cff::Operand::Integer(s[1..].parse().unwrap()),
        "o" => cff::Operand::Offset(s[1..].parse().unwrap()),
        "r" => cff::Operand::Real(verif::cff::real_from_bytes(&unhex(&s[1..]))),
        _ => panic!("operand {}", s),
    }
}
fn parse_entries(s: &str) -> Vec<(cff::Operator, Vec<cff::Operand>)> {
    if s == "." {
        return vec![];
    }
    s.split('+')
        .map(|e| {
            let (code, ops) = e.split_once(':').unwrap();
            let op = cff::Operator::try_from(code.parse::<u16>().unwrap()).unwrap();
            let ops = if ops.is_empty() { vec![] } else { ops.split(',').map(parse_operand).collect() };
            (op, ops)
        })
        .collect()
}
/// bytes in front of the DICT in the write buffer (the returned length must not include them)
const DICT_PREFIX: usize = 3;
fn dict_write_real<T: cff::DictDefault>(d: &cff::Dict<T>, delta: cff::DictDelta) -> Result<(Vec<u8>, usize), WriteError> {
    let mut b = WriteBuffer::new();
    b.write_bytes(&[0xAA; DICT_PREFIX])?;
    let n = cff::Dict::<T>::write_dep(&mut b, d, delta)?;
    Ok((b.into_inner()[DICT_PREFIX..].to_vec(), n))
}
fn dict_rd_show<T: cff::DictDefault>(r: &Result<cff::Dict<T>, ParseError>) -> String {
    match r {
        Ok(d) => format!("ok:{}", entries_show(d)),
        Err(e) => format!("err:{}", perr(e)),
    }
}
/// dict|KIND|HEX: bytes -> read_dep -> write_dep (no delta) -> read_dep -> write_dep
fn dict_pwp<T: cff::DictDefault>(data: &[u8], max: usize) -> String {
    let r1 = ReadScope::new(data).read_dep::<cff::Dict<T>>(max);
    let d1 = match &r1 {
        Ok(d) => d,
        Err(_) => return format!("r={}", dict_rd_show(&r1)),
    };
    let mut out = format!("r={}", dict_rd_show(&r1));
    match dict_write_real(d1, cff::DictDelta::new()) {
        Err(e) => out + &format!(";w=err:{}", werr(&e)),
        Ok((w, n)) => {
            out += &format!(";w={};n={}", hex(&w), n);
            let r2 = ReadScope::new(&w).read_dep::<cff::Dict<T>>(max);
            out += &format!(";r2={}", dict_rd_show(&r2));
            if let Ok(d2) = &r2 {
                match dict_write_real(d2, cff::DictDelta::new()) {
                    Err(e) => out += &format!(";w2=err:{}", werr(&e)),
                    Ok((w2, _)) => out += &format!(";w2={}", hex(&w2)),
                }
            }
            out
        }
    }
}
/// dictw|KIND|ENTRIES|DELTA: entries -> write_dep (with the delta) -> read_dep
fn dict_wr<T: cff::DictDefault>(entries: &str, delta: &str, max: usize) -> String {
    let d: cff::Dict<T> = verif::cff::dict_from_entries(parse_entries(entries));
    let mut dl = cff::DictDelta::new();
    for (op, ops) in parse_entries(delta) {
        dl.push(op, ops.into_iter().collect());
    }
    match dict_write_real(&d, dl) {
        Err(e) => format!("w=err:{}", werr(&e)),
        Ok((w, n)) => {
            let r = ReadScope::new(&w).read_dep::<cff::Dict<T>>(max);
            format!("w={};n={};r={}", hex(&w), n, dict_rd_show(&r))
        }
    }
}
const DICT_KINDS: [&str; 6] = ["top", "font", "priv", "top2", "font2", "priv2"];
fn dict_max(kind: &str) -> usize {
    if kind.ends_with('2') {
        cff::cff2::MAX_OPERANDS
    } else {
        cff::MAX_OPERANDS
    }
}
fn dict_pwp_kind(kind: &str, data: &[u8]) -> String {
    let max = dict_max(kind);
    match kind {
        "top" => dict_pwp::<cff::TopDictDefault>(data, max),
        "font" => dict_pwp::<cff::FontDictDefault>(data, max),
        "priv" => dict_pwp::<cff::PrivateDictDefault>(data, max),
        "top2" => dict_pwp::<cff::cff2::TopDictDefault>(data, max),
        "font2" => dict_pwp::<cff::cff2::FontDictDefault>(data, max),
        "priv2" => dict_pwp::<cff::cff2::PrivateDictDefault>(data, max),
        _ => panic!("dict kind {}", kind),
    }
}
fn run_dict(p: &[&str]) -> String {
    dict_pwp_kind(p[1], &unhex(p[2]))
}
fn run_dictw(p: &[&str]) -> String {
    let max = dict_max(p[1]);
    match p[1] {
        "top" => dict_wr::<cff::TopDictDefault>(p[2], p[3], max),
        "font" => dict_wr::<cff::FontDictDefault>(p[2], p[3], max),
        "priv" => dict_wr::<cff::PrivateDictDefault>(p[2], p[3], max),
        "top2" => dict_wr::<cff::cff2::TopDictDefault>(p[2], p[3], max),
        "font2" => dict_wr::<cff::cff2::FontDictDefault>(p[2], p[3], max),
        "priv2" => dict_wr::<cff::cff2::PrivateDictDefault>(p[2], p[3], max),
        _ => panic!("dict kind {}", p[1]),
    }
}

/// The raw bytes of every DICT of the CFF / CFF2 table of a font file, found by walking the table
/// structure with the INDEX readers only: (kind, bytes).
fn fixture_dicts(path: &str) -> Result<Vec<(&'static str, Vec<u8>)>, String> {
    use allsorts::font_data::FontData;
    use allsorts::tables::FontTableProvider;
    use allsorts::tag;
    let root = std::env::var("VERIF_REPO").unwrap_or_else(|_| "/repo".to_string());
    let data = std::fs::read(format!("{}/{}", root, path)).map_err(|_| "nofile".to_string())?;
    let fd = ReadScope::new(&data).read::<FontData<'_>>().map_err(|e| format!("err:{}", perr(&e)))?;
    let prov = fd.table_provider(0).map_err(|_| "err:provider".to_string())?;
    let get = |t: u32| prov.table_data(t).ok().flatten().map(|c| c.into_owned());
    let mut out: Vec<(&'static str, Vec<u8>)> = vec![];
    let pe = |e: ParseError| format!("err:{}", perr(&e));
    // the (size, offset) operands of the Private operator of a Top / Font DICT
    fn private_of<T: cff::DictDefault>(d: &[u8], max: usize) -> Option<(usize, usize)> {
        let dict = ReadScope::new(d).read_dep::<cff::Dict<T>>(max).ok()?;
        match dict.get(cff::Operator::Private)? {
            [cff::Operand::Offset(l), cff::Operand::Offset(o)] => Some((usize::try_from(*l).ok()?, usize::try_from(*o).ok()?)),
            _ => None,
        }
    }
    fn offset_of<T: cff::DictDefault>(d: &[u8], max: usize, op: cff::Operator) -> Option<usize> {
        let dict = ReadScope::new(d).read_dep::<cff::Dict<T>>(max).ok()?;
        match dict.get(op)? {
            [cff::Operand::Offset(o)] => usize::try_from(*o).ok(),
            _ => None,
        }
    }
    if let Some(t) = get(tag::CFF) {
        if t.len() < 4 {
            return Err("err:short".to_string());
        }
        let hdr = t[2] as usize;
        let mut c = ReadScope::new(&t).offset(hdr).ctxt();
        let _names = c.read::<IndexU16>().map_err(pe)?;
        let tops = c.read::<IndexU16>().map_err(pe)?;
        for top in tops.iter() {
            out.push(("top", top.to_vec()));
            if let Some((l, o)) = private_of::<cff::TopDictDefault>(top, cff::MAX_OPERANDS) {
                if let Some(b) = t.get(o..o + l) {
                    out.push(("priv", b.to_vec()));
                }
            }
            if let Some(o) = offset_of::<cff::TopDictDefault>(top, cff::MAX_OPERANDS, cff::Operator::FDArray) {
                let fds = ReadScope::new(&t).offset(o).read::<IndexU16>().map_err(pe)?;
                for f in fds.iter() {
                    out.push(("font", f.to_vec()));
                    if let Some((l, o)) = private_of::<cff::FontDictDefault>(f, cff::MAX_OPERANDS) {
                        if let Some(b) = t.get(o..o + l) {
                            out.push(("priv", b.to_vec()));
                        }
                    }
                }
            }
        }
    }
    if let Some(t) = get(tag::CFF2) {
        if t.len() < 5 {
            return Err("err:short".to_string());
        }
        let hdr = t[2] as usize;
        let tl = u16::from_be_bytes([t[3], t[4]]) as usize;
        let top = t.get(hdr..hdr + tl).ok_or("err:short".to_string())?;
        let m2 = cff::cff2::MAX_OPERANDS;
        out.push(("top2", top.to_vec()));
        if let Some(o) = offset_of::<cff::cff2::TopDictDefault>(top, m2, cff::Operator::FDArray) {
            let fds = ReadScope::new(&t).offset(o).read::<IndexU32>().map_err(pe)?;
            for f in fds.iter() {
                out.push(("font2", f.to_vec()));
                if let Some((l, o)) = private_of::<cff::cff2::FontDictDefault>(f, m2) {
                    if let Some(b) = t.get(o..o + l) {
                        out.push(("priv2", b.to_vec()));
                    }
                }
            }
        }
    }
    Ok(out)
}
/// filed|PATH: every DICT of the fixture font through parse-write-parse; the result lists, for each
/// DICT, `KIND HEX => <result of dict|KIND|HEX>` separated by ` ## `
fn run_filed(p: &[&str]) -> String {
    match fixture_dicts(p[1]) {
        Err(e) => format!("dicts={}", e),
        Ok(ds) => {
            let parts: Vec<String> = ds.iter().map(|(k, b)| format!("{} {} -> {}", k, hex(b), dict_pwp_kind(k, b))).collect();
            format!("dicts={}#{}", ds.len(), parts.join(" ## "))
        }
    }
}

// ---- generic array writers: `write_array` / `<&ReadArray>::write` / `ReadArrayCow::write` on packed and
// strided arrays, and whole tables that hold one (hmtx bearings, cvt)
//   arr|TY|N|STRIDE|HEX  TY = u8 | i8 | u16 | i16 | u32 ; STRIDE 0 = packed (read_array)
//   -> r=<items as read>;w=<bytes write_array wrote>;c=<bytes ReadArrayCow::write wrote>;r2=<items read back packed>
fn run_arr(p: &[&str]) -> String {
    fn go<T>(n: usize, stride: usize, d: &[u8]) -> String
    where
        T: allsorts::binary::read::ReadUnchecked + WriteBinary<<T as allsorts::binary::read::ReadUnchecked>::HostType>,
        T::HostType: Copy + std::fmt::Display,
    {
        let mut c = ReadScope::new(d).ctxt();
        let arr = match if stride == 0 { c.read_array::<T>(n) } else { c.read_array_stride::<T>(n, stride) } {
            Ok(a) => a,
            Err(e) => return format!("r=err:{}", perr(&e)),
        };
        let items: Vec<String> = arr.iter().map(|x| x.to_string()).collect();
        let mut w = WriteBuffer::new();
        let wr = w.write_array(&arr).map(|_| hex(w.bytes())).unwrap_or_else(|e| format!("err:{}", werr(&e)));
        let r2 = match ReadScope::new(w.bytes()).ctxt().read_array::<T>(n) {
            Ok(a) => join(&a.iter().map(|x| x.to_string()).collect::<Vec<_>>()),
            Err(e) => format!("err:{}", perr(&e)),
        };
        // the borrowed Cow writer consumes the array
        let mut w2 = WriteBuffer::new();
        let cow = ReadArrayCow::Borrowed(arr);
        let cr = ReadArrayCow::write(&mut w2, &cow).map(|_| hex(w2.bytes())).unwrap_or_else(|e| format!("err:{}", werr(&e)));
        format!("r={};w={};c={};r2={}", join(&items), wr, cr, r2)
    }
    let n: usize = p[2].parse().unwrap();
    let stride: usize = p[3].parse().unwrap();
    let d = unhex(p[4]);
    match p[1] {
        "u8" => go::<allsorts::binary::U8>(n, stride, &d),
        "i8" => go::<allsorts::binary::I8>(n, stride, &d),
        "u16" => go::<U16Be>(n, stride, &d),
        "i16" => go::<allsorts::binary::I16Be>(n, stride, &d),
        "u32" => go::<allsorts::binary::U32Be>(n, stride, &d),
        _ => panic!("arr type"),
    }
}

fn gen_arr(rng: &mut Rng) -> String {
    let (ty, size) = *rng.pick(&[("u8", 1usize), ("i8", 1), ("u16", 2), ("i16", 2), ("u32", 4)]);
    let n = match rng.below(6) {
        0 => 0,
        1 => 1,
        _ => 1 + rng.below(9) as usize,
    };
    // packed, stride = size, stride > size (the padding holds other data), rarely stride < size
    let stride = match rng.below(8) {
        0 | 1 => 0,
        2 => size,
        7 => size.saturating_sub(1),
        _ => size + 1 + rng.below(7) as usize,
    };
    let need = if stride == 0 { n * size } else { n * stride };
    let len = match rng.below(8) {
        0 => need.saturating_sub(1 + rng.below(3) as usize),
        1 => need + rng.below(5) as usize,
        _ => need,
    };
    format!("arr|{}|{}|{}|{}", ty, n, stride, hex(&rng.bytes(len)))
}

fn run(input: &str) -> String {
    let p: Vec<&str> = input.split('|').collect();
    let res = catch_unwind(AssertUnwindSafe(|| match p[0] {
        "lay" => run_lay(&p),
        "rd" => run_rd(&p),
        "maxpv" => run_maxpv(&p),
        "os2v" => run_os2v(&p),
        "hmtxv" => run_hmtxv(&p),
        "loca" => run_loca(&p),
        "namev" => run_namev(&p),
        "cffint" => run_cffint(&p),
        "cffrd" => format!("r={}", op_show(&unhex(p[1]))),
        "offs" => run_offs(&p),
        "index" => run_index(&p),
        "ixrd" => run_ixrd(&p),
        "bigix" => run_bigix(&p),
        "glyph" => run_glyph(&p),
        "glyphrd" => run_glyphrd(&p),
        "u24" => run_u24(&p),
        "pascal" => run_pascal(&p),
        "file" => run_file(&p),
        "dict" => run_dict(&p),
        "dictw" => run_dictw(&p),
        "filed" => run_filed(&p),
        "arr" => run_arr(&p),
        "cg" => gc::run_cg(&p),
        "cms" => gc::run_cms(&p),
        "cmsrd" => gc::run_cmsrd(&p),
        "cmapv" => gc::run_cmapv(&p),
        "cmaprd" => gc::run_cmaprd(&p),
        "set" => sets::run_set(&p),
        "setw" => sets::run_setw(&p),
        "ivd" => ivs::run_ivd(&p),
        "vrl" => ivs::run_vrl(&p),
        "ivs" => ivs::run_ivs(&p),
        "cff2f" => ivs::run_cff2f(&p, &std::env::var("VERIF_REPO").unwrap_or_else(|_| "/repo".to_string())),
        "filec" => gc::run_filec(&p, &std::env::var("VERIF_REPO").unwrap_or_else(|_| "/repo".to_string())),
        _ => panic!("kind {}", p[0]),
    }));
    match res {
        Ok(s) => s,
        Err(e) => panic_kind(&*e).to_string(),
    }
}

// ================================================================ generator
fn edge(rng: &mut Rng, bits: u32, signed: bool) -> i128 {
    let (lo, hi): (i128, i128) = if signed { (-(1i128 << (bits - 1)), (1i128 << (bits - 1)) - 1) } else { (0, (1i128 << bits) - 1) };
    match rng.below(8) {
        0 => lo,
        1 => hi,
        2 => 0,
        3 => hi - rng.below(3) as i128,
        4 => lo + rng.below(3) as i128,
        5 => (rng.below(256) as i128).min(hi),
        _ => {
            let span = (hi - lo + 1) as u128;
            lo + ((rng.next() as u128 | ((rng.next() as u128) << 64)) % span) as i128
        }
    }
}
const U16: (u32, bool) = (16, false);
const I16: (u32, bool) = (16, true);
const U32: (u32, bool) = (32, false);
const I32: (u32, bool) = (32, true);
const I64: (u32, bool) = (64, true);
const U8T: (u32, bool) = (8, false);

fn gen_vals(rng: &mut Rng, tys: &[(u32, bool)]) -> Vec<i128> {
    tys.iter().map(|(b, s)| edge(rng, *b, *s)).collect()
}
fn head_vals_gen(rng: &mut Rng) -> Vec<i128> {
    let mut v = gen_vals(rng, &[U16, U16, I32, U32, U32, U16, U16, I64, I64, I16, I16, I16, I16, U16, U16, I16, U16, I16]);
    if !rng.chance(1, 10) {
        v[4] = 0x5F0F3CF5;
    }
    v[13] &= 0x7f;
    v[16] = rng.below(2) as i128;
    v
}
const HHEA_T: [(u32, bool); 11] = [I16, I16, I16, U16, I16, I16, I16, I16, I16, I16, U16];
const POST_T: [(u32, bool); 9] = [I32, I32, I16, I16, U32, U32, U32, U32, U32];
fn os2_base_gen(rng: &mut Rng) -> Vec<i128> {
    let mut tys = vec![U16, I16, U16, U16, U16];
    tys.extend([I16; 11]);
    tys.extend([U8T; 10]);
    tys.extend([U32; 5]);
    tys.extend([U16; 3]);
    let mut v = gen_vals(rng, &tys);
    v[31] &= 0x3ff;
    v
}
fn gen_str(rng: &mut Rng, big: bool) -> String {
    if big {
        let l = *rng.pick(&[255u64, 256, 257, 65534, 65535, 65536, 65537, 70000, 1000, 30000, 32768]);
        format!("r{}x{}", l, rng.below(256))
    } else {
        match rng.below(5) {
            0 => "-".to_string(),
            1 => format!("r{}x{}", rng.below(40), rng.below(256)),
            _ => {
                let n = 1 + rng.below(12) as usize;
                format!("h{}", hex(&rng.bytes(n)))
            }
        }
    }
}

fn mutate(rng: &mut Rng, mut b: Vec<u8>) -> Vec<u8> {
    match rng.below(10) {
        0 | 1 => {
            let n = rng.below(b.len() as u64 + 1) as usize;
            b.truncate(n);
        }
        2 => {
            if !b.is_empty() {
                let i = rng.below(b.len() as u64) as usize;
                b[i] ^= 1 << rng.below(8);
            }
        }
        3 => {
            if b.len() >= 2 {
                let i = rng.below(b.len() as u64 - 1) as usize;
                let v = *rng.pick(&[0u16, 1, 2, 0xffff, 0x8000, 0x7fff]);
                b[i..i + 2].copy_from_slice(&v.to_be_bytes());
            }
        }
        4 => {
            let n = 1 + rng.below(6) as usize;
            b.extend(rng.bytes(n))
        }
        _ => {}
    }
    b
}

fn gen_glyph_coords(rng: &mut Rng, n: usize, wild: bool) -> Vec<(u8, i16, i16)> {
    let mut out = vec![];
    let (mut x, mut y) = (0i32, 0i32);
    for _ in 0..n {
        if wild {
            out.push((rng.below(64) as u8, edge(rng, 16, true) as i16, edge(rng, 16, true) as i16));
        } else {
            // deltas fit i16 and the absolute value stays legal
            let dx = rng.range(-400, 400) as i32;
            let dy = rng.range(-400, 400) as i32;
            x = (x + dx).clamp(-32768, 32767);
            y = (y + dy).clamp(-32768, 32767);
            out.push((rng.below(64) as u8, x as i16, y as i16));
        }
    }
    out
}


// ---------------------------------------------------------------- generator: CFF DICTs
#[derive(Clone, Debug, PartialEq)]
enum GOp {
    I(i32),
    O(i32),
    R(Vec<u8>),
}
fn gop_show(o: &GOp) -> String {
    match o {
        GOp::I(v) => format!("i{}", v),
        GOp::O(v) => format!("o{}", v),
        GOp::R(b) => format!("r{}", hex(b)),
    }
}
fn gentries_show(d: &[(u16, Vec<GOp>)]) -> String {
    if d.is_empty() {
        return ".".to_string();
    }
    d.iter()
        .map(|(op, ops)| format!("{}:{}", op, ops.iter().map(gop_show).collect::<Vec<_>>().join(",")))
        .collect::<Vec<_>>()
        .join("+")
}
/// every u16 that Operator::try_from accepts
fn valid_operators() -> Vec<u16> {
    (0u16..=24).chain(0x0c00..=0x0cff).filter(|v| cff::Operator::try_from(*v).is_ok()).collect()
}
fn gop_of(o: &cff::Operand) -> GOp {
    match o {
        cff::Operand::Integer(v) => GOp::I(*v),
        cff::Operand::Offset(v) => GOp::O(*v),
        cff::Operand::Real(r) => GOp::R(verif::cff::real_bytes(r).to_vec()),
    }
}
/// the crate's default for (kind, operator): guidance for the generator only, the judge has its own table
fn crate_default(kind: &str, code: u16) -> Option<Vec<GOp>> {
    use cff::DictDefault;
    let op = cff::Operator::try_from(code).ok()?;
    let d = match kind {
        "top" => cff::TopDictDefault::default(op),
        "font" => cff::FontDictDefault::default(op),
        "priv" => cff::PrivateDictDefault::default(op),
        "top2" => cff::cff2::TopDictDefault::default(op),
        "font2" => cff::cff2::FontDictDefault::default(op),
        _ => cff::cff2::PrivateDictDefault::default(op),
    }?;
    Some(d.iter().map(gop_of).collect())
}
const INT_EDGES: [i32; 34] = [
    0, 1, -1, 2, 3, 7, 6, 8, 50, 49, 51, -100, -99, -101, 8720, 8719, 8721, 107, 108, -107, -108, 1131, 1132, -1131, -1132,
    32767, 32768, -32768, -32769, i32::MAX, i32::MIN, 2147483646, -2147483647, 65536,
];
fn gen_int(rng: &mut Rng) -> i32 {
    match rng.below(10) {
        0..=3 => *rng.pick(&INT_EDGES),
        4..=6 => rng.range(-300, 300) as i32,
        7 => rng.range(-40000, 40000) as i32,
        _ => rng.next() as i32,
    }
}
const REAL_DEFAULTS: [&[u8]; 3] = [&[0x0a, 0x00, 0x1f], &[0x0a, 0x03, 0x96, 0x25, 0xff], &[0x0a, 0x06, 0xff]];
/// a real the reader can produce: no 0xF nibble before the last byte, one in the last byte
fn gen_real(rng: &mut Rng) -> Vec<u8> {
    let digit = |rng: &mut Rng| rng.below(15) as u8; // 0..=14: digits, '.', 'E', 'E-', reserved, '-'
    match rng.below(10) {
        0..=2 => REAL_DEFAULTS[rng.below(3) as usize].to_vec(),
        3 => {
            // near a default: one non-terminal nibble changed
            let mut b = REAL_DEFAULTS[rng.below(3) as usize].to_vec();
            let i = rng.below((b.len() - 1) as u64) as usize;
            b[i] = if rng.chance(1, 2) { (b[i] & 0xf0) | digit(rng) } else { (b[i] & 0x0f) | (digit(rng) << 4) };
            b
        }
        4 => vec![*rng.pick(&[0xffu8, 0x0f, 0xf0, 0xf5, 0x5f, 0xdf, 0xfd])],
        5 => {
            let n = rng.range(7, 14) as usize;
            let mut b: Vec<u8> = (0..n).map(|_| (digit(rng) << 4) | digit(rng)).collect();
            b.push(0xff);
            b
        }
        _ => {
            let n = rng.below(5) as usize;
            let mut b: Vec<u8> = (0..n).map(|_| (digit(rng) << 4) | digit(rng)).collect();
            b.push(match rng.below(3) {
                0 => 0xff,
                1 => (digit(rng) << 4) | 0x0f,
                _ => 0xf0 | rng.below(16) as u8,
            });
            b
        }
    }
}
fn gen_operand(rng: &mut Rng) -> GOp {
    if rng.chance(1, 5) {
        GOp::R(gen_real(rng))
    } else {
        GOp::I(gen_int(rng))
    }
}
const OFFSET_OPS: [u16; 8] = [15, 16, 17, 18, 19, 0x0c24, 0x0c25, 24];
/// Offset exactly where the reader puts it (Encoding only above 1, Private both operands)
fn normal_kinds(code: u16, ops: &mut [GOp]) {
    let single = [15u16, 17, 19, 0x0c24, 0x0c25, 24];
    match (code, &*ops) {
        (16, [GOp::I(v)]) if *v > 1 => ops[0] = GOp::O(*v),
        (c, [GOp::I(v)]) if single.contains(&c) => ops[0] = GOp::O(*v),
        (18, [GOp::I(l), GOp::I(o)]) => {
            let (l, o) = (*l, *o);
            ops[0] = GOp::O(l);
            ops[1] = GOp::O(o);
        }
        _ => {}
    }
}
fn gen_entry(rng: &mut Rng, kind: &str, all: &[u16], max: usize) -> (u16, Vec<GOp>) {
    let with_default: Vec<u16> = all.iter().copied().filter(|c| crate_default(kind, *c).is_some()).collect();
    let code = match rng.below(20) {
        0..=8 if !with_default.is_empty() => *rng.pick(&with_default),
        9..=13 => *rng.pick(&OFFSET_OPS),
        _ => *rng.pick(all),
    };
    let small = |rng: &mut Rng| *rng.pick(&[0i32, 1, 2, 3, 100, 1000, 70000, -1, i32::MAX]);
    let mut ops: Vec<GOp> = if let Some(dflt) = crate_default(kind, code) {
        match rng.below(12) {
            0..=3 => dflt,
            4 => dflt[..rng.below(dflt.len() as u64) as usize].to_vec(), // proper prefix (maybe empty)
            5 => {
                let mut d = dflt;
                d.push(if rng.chance(1, 2) { GOp::I(0) } else { gen_operand(rng) });
                d
            }
            6..=8 => {
                // one operand next to its default value
                let mut d = dflt;
                let i = rng.below(d.len() as u64) as usize;
                d[i] = match &d[i] {
                    GOp::I(v) | GOp::O(v) => GOp::I(v + *rng.pick(&[1, -1])),
                    GOp::R(_) => GOp::R(gen_real(rng)),
                };
                d
            }
            9 => vec![],
            _ => (0..rng.below(4)).map(|_| gen_operand(rng)).collect(),
        }
    } else if OFFSET_OPS.contains(&code) {
        let want = if code == 18 { 2 } else { 1 };
        let n = if rng.chance(1, 7) { *rng.pick(&[0usize, 1, 2, 3]) } else { want };
        (0..n).map(|_| if rng.chance(1, 12) { GOp::R(gen_real(rng)) } else { GOp::I(small(rng)) }).collect()
    } else {
        let n = match rng.below(30) {
            0..=5 => 0,
            6..=17 => 1,
            18..=24 => rng.range(2, 6) as usize,
            25..=27 => rng.range(7, 20) as usize,
            28 => max,
            _ => {
                if max < 100 {
                    max + 1
                } else {
                    3
                }
            }
        };
        (0..n).map(|_| gen_operand(rng)).collect()
    };
    // offsets written as plain integers in the byte stream; the reader decides
    for o in ops.iter_mut() {
        if let GOp::O(v) = o {
            *o = GOp::I(*v);
        }
    }
    (code, ops)
}
fn gen_entries(rng: &mut Rng, kind: &str, max: usize) -> Vec<(u16, Vec<GOp>)> {
    let all = valid_operators();
    let n = match rng.below(12) {
        0 => 0,
        1..=4 => 1,
        5..=9 => rng.range(2, 6) as usize,
        _ => rng.range(7, 15) as usize,
    };
    let mut d: Vec<(u16, Vec<GOp>)> = vec![];
    for _ in 0..n {
        if rng.chance(1, 8) {
            // blend-style: operands collected by `blend`, then an operator left without operands
            let k = rng.range(1, 4) as usize;
            let regions = rng.range(1, 3) as usize;
            let mut ops: Vec<GOp> = (0..k * (regions + 1)).map(|_| GOp::I(rng.range(-50, 50) as i32)).collect();
            ops.push(GOp::I(k as i32));
            d.push((23, ops));
            let with_default: Vec<u16> = all.iter().copied().filter(|c| crate_default(kind, *c).is_some()).collect();
            let target = if !with_default.is_empty() && rng.chance(2, 3) { *rng.pick(&with_default) } else { *rng.pick(&[6u16, 7, 8, 9, 10, 11, 0x0c09, 0x0c0a, 0x0c0b, 0x0c0c]) };
            d.push((target, vec![]));
        } else {
            d.push(gen_entry(rng, kind, &all, max));
        }
    }
    d
}
/// own encoder (independent of the crate): integers in the shortest or, when `loose`, any longer form
fn enc_int(rng: &mut Rng, v: i32, loose: bool, out: &mut Vec<u8>) {
    let form = if (-107..=107).contains(&v) {
        0
    } else if (-1131..=1131).contains(&v) {
        1
    } else if (-32768..=32767).contains(&v) {
        2
    } else {
        3
    };
    let form = if loose && rng.chance(1, 4) { (form + rng.below(3) as usize + 1).min(3).max(if form == 1 { 2 } else { form }) } else { form };
    match form {
        0 => out.push((v + 139) as u8),
        1 => {
            if v > 0 {
                let w = v - 108;
                out.push((w / 256 + 247) as u8);
                out.push((w % 256) as u8);
            } else {
                let w = -v - 108;
                out.push((w / 256 + 251) as u8);
                out.push((w % 256) as u8);
            }
        }
        2 => {
            out.push(28);
            out.extend((v as i16).to_be_bytes());
        }
        _ => {
            out.push(29);
            out.extend(v.to_be_bytes());
        }
    }
}
fn enc_entries(rng: &mut Rng, d: &[(u16, Vec<GOp>)], loose: bool) -> Vec<u8> {
    let mut out = vec![];
    for (code, ops) in d {
        for o in ops {
            match o {
                GOp::I(v) | GOp::O(v) => enc_int(rng, *v, loose, &mut out),
                GOp::R(b) => {
                    out.push(30);
                    out.extend(b);
                }
            }
        }
        if *code > 0xff {
            out.extend(code.to_be_bytes());
        } else {
            out.push(*code as u8);
        }
    }
    out
}
fn gen_dict(rng: &mut Rng) -> String {
    let kind = *rng.pick(&DICT_KINDS);
    let max = dict_max(kind);
    let mut d = gen_entries(rng, kind, max);
    if rng.chance(11, 20) {
        // bytes -> read -> write -> read
        let loose = rng.chance(1, 2);
        let mut b = enc_entries(rng, &d, loose);
        if rng.chance(1, 4) {
            match rng.below(7) {
                0 => {
                    let at = rng.below(b.len() as u64 + 1) as usize;
                    b.insert(at, *rng.pick(&[25u8, 26, 27, 31, 255]));
                }
                1 => {
                    let cut = rng.range(1, 4) as usize;
                    b.truncate(b.len().saturating_sub(cut));
                }
                2 => {
                    // operands after the last operator
                    for _ in 0..rng.range(1, 3) {
                        let v = gen_int(rng);
                        enc_int(rng, v, true, &mut b);
                    }
                }
                3 => {
                    // an undefined two-byte operator
                    b.extend([12u8, *rng.pick(&[15u8, 16, 24, 25, 29, 39, 40, 255])]);
                }
                4 => {
                    // too many operands
                    for _ in 0..=max {
                        b.push(139);
                    }
                    b.push(*rng.pick(&[6u8, 7, 14]));
                }
                5 => {
                    let n = rng.range(1, 12) as usize;
                    b = rng.bytes(n);
                }
                _ => {
                    // a real that never ends, or an operand cut short
                    b.extend(*rng.pick(&[&[30u8, 0x12, 0x34][..], &[28u8, 1][..], &[29u8, 0, 0, 1][..], &[247u8][..], &[12u8][..]]));
                }
            }
        }
        format!("dict|{}|{}", kind, hex(&b))
    } else {
        // entries -> write (delta) -> read: operand kinds as the reader would produce them, mostly
        for (code, ops) in d.iter_mut() {
            if !rng.chance(1, 12) {
                normal_kinds(*code, ops);
            }
            if rng.chance(1, 30) {
                if let Some(GOp::I(v)) = ops.first().cloned() {
                    ops[0] = GOp::O(v);
                }
            }
            if rng.chance(1, 25) {
                // an operand the reader cannot produce: a real without / beyond its end nibble
                ops.push(GOp::R(rng.pick(&[&[][..], &[0x12u8][..], &[0x1f, 0x2f][..], &[0xff, 0x00][..]]).to_vec()));
            }
        }
        let mut delta: Vec<(u16, Vec<GOp>)> = vec![];
        if rng.chance(1, 2) {
            for _ in 0..rng.range(1, 3) {
                let code = if !d.is_empty() && rng.chance(3, 4) { d[rng.below(d.len() as u64) as usize].0 } else { *rng.pick(&OFFSET_OPS) };
                let n = if code == 18 { 2 } else if rng.chance(1, 10) { 2 } else { 1 };
                let ops = (0..n).map(|_| GOp::O(*rng.pick(&[0i32, 1, 2, 5, 1000, 70000, -1, i32::MAX, i32::MIN]))).collect();
                delta.push((code, ops));
            }
        }
        format!("dictw|{}|{}|{}", kind, gentries_show(&d), gentries_show(&delta))
    }
}

fn gen(rng: &mut Rng) -> String {
    // composite glyphs and cmap: 24% of the cases
    if rng.chance(1, 25) {
        return gen_arr(rng);
    }
    // cvt, charsets, FDSelect, custom encodings: 8% of the cases
    if rng.chance(2, 25) {
        return sets::gen_sets(rng, &mut mutate);
    }
    // item variation stores: 8% of the cases
    if rng.chance(2, 25) {
        return ivs::gen_ivs(rng, &mut mutate);
    }
    let k = rng.below(100);
    if k < 24 {
        let mode = build_mode();
        return match k {
            0..=5 => gc::gen_cg(rng, mode),
            6..=9 => gc::gen_cgrd(rng, mode, &mut mutate),
            10..=15 => gc::gen_cms(rng, mode),
            16..=19 => gc::gen_cmsrd(rng, mode, &mut mutate),
            20 | 21 => gc::gen_cmapv(rng, mode),
            _ => gc::gen_cmaprd(rng, mode, &mut mutate),
        };
    }
    if rng.below(100) < 30 {
        return gen_dict(rng);
    }
    let mode = build_mode();
    match rng.below(100) {
        0..=17 => {
            // straight-line layouts from values
            let (name, v): (&str, Vec<i128>) = match rng.below(9) {
                0 => ("head", head_vals_gen(rng)),
                1 => ("hhea", gen_vals(rng, &HHEA_T)),
                2 => ("maxp_v1", gen_vals(rng, &[U16; 13])),
                3 => ("posthdr", gen_vals(rng, &POST_T)),
                4 => ("lhm", gen_vals(rng, &[U16, I16])),
                5 => ("namerec", gen_vals(rng, &[U16; 6])),
                6 => ("langtag", gen_vals(rng, &[U16; 2])),
                7 => ("tablerec", gen_vals(rng, &[U32; 4])),
                _ => ("bbox", gen_vals(rng, &[I16; 4])),
            };
            format!("lay|{}|{}|{}", name, rng.below(2), join(&v))
        }
        18..=29 => {
            // bytes -> parse -> write -> parse, straight-line layouts
            let (name, b): (&str, Vec<u8>) = match rng.below(6) {
                0 => ("head", head_write(&head_from(&head_vals_gen(rng)), true).unwrap()),
                1 => {
                    let mut b = wbuf(|b| HheaTable::write(b, &hhea_from(&gen_vals(rng, &HHEA_T)))).unwrap();
                    if rng.chance(1, 3) {
                        // minor version / reserved fields are free in a parsed table
                        b[2..4].copy_from_slice(&(rng.next() as u16).to_be_bytes());
                        b[24..26].copy_from_slice(&(rng.next() as u16).to_be_bytes());
                    }
                    ("hhea", b)
                }
                2 => ("posthdr", rng.bytes(32)),
                3 => ("namerec", rng.bytes(12)),
                4 => ("bbox", rng.bytes(8)),
                _ => ("tablerec", rng.bytes(16)),
            };
            let b = mutate(rng, b);
            let arg = if name == "head" { rng.below(2).to_string() } else { "-".to_string() };
            format!("rd|{}|{}|{}", name, arg, hex(&b))
        }
        30..=35 => {
            if rng.chance(1, 2) {
                let sub = if rng.chance(1, 2) { join(&gen_vals(rng, &[U16; 13])) } else { "-".to_string() };
                format!("maxpv|{}|{}", edge(rng, 16, false), sub)
            } else {
                let mut b = match rng.below(4) {
                    0 => 0x00010000u32.to_be_bytes().to_vec(),
                    1 => 0x00005000u32.to_be_bytes().to_vec(),
                    2 => 0x00010001u32.to_be_bytes().to_vec(),
                    _ => rng.bytes(4),
                };
                b.extend(rng.bytes(28));
                format!("rd|maxp|-|{}", hex(&mutate(rng, b)))
            }
        }
        36..=45 => {
            // OS/2
            if rng.chance(1, 2) {
                let lvl = rng.below(5); // 0: none, 1: v0, 2: +v1, 3: +v2, 4: +v5
                let odd = rng.chance(1, 12); // an "impossible" combination
                let pick = |rng: &mut Rng, want: bool, t: &[(u32, bool)]| if want { join(&gen_vals(rng, t)) } else { "-".to_string() };
                let flip: Vec<bool> = (0..4).map(|_| odd && rng.chance(1, 2)).collect();
                let v0 = pick(rng, lvl >= 1 || flip[0], &[I16, I16, I16, U16, U16]);
                let v1 = pick(rng, (lvl >= 2) ^ flip[1], &[U32, U32]);
                let v2 = pick(rng, (lvl >= 3) ^ flip[2], &[I16, I16, U16, U16, U16]);
                let v5 = pick(rng, (lvl >= 4) ^ flip[3], &[U16, U16]);
                format!("os2v|{}|{}|{}|{}|{}", join(&os2_base_gen(rng)), v0, v1, v2, v5)
            } else {
                let ver = match rng.below(8) {
                    0..=5 => rng.below(6) as u16,
                    6 => 6 + rng.below(3) as u16,
                    _ => rng.next() as u16,
                };
                let len = *rng.pick(&[68usize, 78, 86, 96, 100, 77, 79, 104]);
                let mut b = rng.bytes(len);
                b[0..2].copy_from_slice(&ver.to_be_bytes());
                let size = if rng.chance(1, 6) { *rng.pick(&[0usize, 68, 77, 78, 79, 96, 100, 1000]) } else { b.len() };
                format!("rd|os2|{}|{}", size, hex(&mutate(rng, b)))
            }
        }
        46..=52 => {
            // hmtx
            if rng.chance(1, 2) {
                let nh = rng.below(5) as usize;
                let nl = rng.below(5) as usize;
                let hm: Vec<String> = (0..nh).map(|_| format!("{}:{}", edge(rng, 16, false), edge(rng, 16, true))).collect();
                let ls = gen_vals(rng, &vec![I16; nl]);
                format!("hmtxv|{}|{}", if hm.is_empty() { ".".to_string() } else { hm.join("+") }, join(&ls))
            } else {
                let ng = rng.below(7);
                let nh = rng.below(7);
                let want = 4 * nh.min(ng.max(nh)) + 2 * ng.saturating_sub(nh);
                let extra = if rng.chance(1, 4) { rng.below(5) } else { 0 };
                let b = rng.bytes((want + extra) as usize);
                format!("rd|hmtx|{}:{}|{}", ng, nh, hex(&mutate(rng, b)))
            }
        }
        53..=60 => {
            // loca owned writer
            let n = rng.below(7) as usize;
            let fmt = rng.below(2);
            let mut offs: Vec<i128> = vec![];
            let mut cur: i128 = 0;
            let big = rng.chance(1, 5);
            for _ in 0..n {
                offs.push(cur);
                cur += match rng.below(6) {
                    0 => 0,
                    1 if rng.chance(1, 4) => 1 + 2 * rng.below(20) as i128, // odd
                    _ if big => *rng.pick(&[65534i128, 65536, 131068, 131070, 131072, 30000]),
                    _ => 2 * rng.below(300) as i128,
                };
            }
            if rng.chance(1, 8) && n > 0 {
                let i = rng.below(n as u64) as usize;
                offs[i] = *rng.pick(&[131070i128, 131071, 131072, 131074, 4294967295, 4294967294, 65535 * 2 + 2]);
            }
            format!("loca|{}|{}", fmt, join(&offs))
        }
        61..=68 => {
            // name: owned writer, and parse-write-parse of synthesised tables
            if rng.chance(2, 3) {
                let big = rng.chance(1, 60);
                let n = rng.below(5) as usize;
                let mut bigleft = if big { 1 + rng.below(2) } else { 0 };
                let recs: Vec<String> = (0..n)
                    .map(|_| {
                        let b = bigleft > 0 && rng.chance(1, 2);
                        if b {
                            bigleft -= 1;
                        }
                        format!("{}:{}:{}:{}:{}", rng.below(4), rng.below(11), edge(rng, 16, false), rng.below(26), gen_str(rng, b))
                    })
                    .collect();
                let m = if rng.chance(1, 3) { 1 + rng.below(3) as usize } else { 0 };
                let lts: Vec<String> = (0..m)
                    .map(|_| {
                        let b = big && rng.chance(1, 3);
                        gen_str(rng, b)
                    })
                    .collect();
                format!("namev|{}|{}", if recs.is_empty() { ".".to_string() } else { recs.join("+") }, if lts.is_empty() { ".".to_string() } else { lts.join("+") })
            } else {
                let format = if rng.chance(1, 10) { rng.below(4) as u16 } else { rng.below(2) as u16 };
                let n = rng.below(4) as usize;
                let m = if format >= 1 { rng.below(3) as usize } else { 0 };
                let sl = rng.below(20) as usize;
                let storage = rng.bytes(sl);
                let mut b = vec![];
                b.extend(format.to_be_bytes());
                b.extend((n as u16).to_be_bytes());
                let so = 6 + 12 * n + if format >= 1 { 2 + 4 * m } else { 0 };
                let so = if rng.chance(1, 8) { rng.below(60) as usize } else { so };
                b.extend((so as u16).to_be_bytes());
                for _ in 0..n {
                    for _ in 0..4 {
                        b.extend((rng.below(30) as u16).to_be_bytes());
                    }
                    b.extend((rng.below(storage.len() as u64 + 2) as u16).to_be_bytes());
                    b.extend((rng.below(storage.len() as u64 + 2) as u16).to_be_bytes());
                }
                if format >= 1 {
                    b.extend((m as u16).to_be_bytes());
                    for _ in 0..m {
                        b.extend((rng.below(storage.len() as u64 + 2) as u16).to_be_bytes());
                        b.extend((rng.below(storage.len() as u64 + 2) as u16).to_be_bytes());
                    }
                }
                b.extend(&storage);
                format!("rd|name|-|{}", hex(&mutate(rng, b)))
            }
        }
        69..=78 => {
            // CFF operands
            if rng.chance(2, 3) {
                let v: i128 = match rng.below(4) {
                    0 => {
                        let e = *rng.pick(&[0i128, 107, 108, -107, -108, 1131, 1132, -1131, -1132, 32767, 32768, -32768, -32769, 2147483647, -2147483648]);
                        (e + rng.range(-2, 2) as i128).clamp(-2147483648, 2147483647)
                    }
                    1 => rng.range(-1200, 1200) as i128,
                    2 => rng.range(-40000, 40000) as i128,
                    _ => edge(rng, 32, true),
                };
                format!("cffint|{}", v)
            } else {
                let b0: u8 = match rng.below(6) {
                    0 => *rng.pick(&[25u8, 26, 27, 31, 255, 28, 29, 30]),
                    1 => rng.below(12) as u8,
                    2 => 13 + rng.below(12) as u8,
                    _ => 28 + rng.below(227) as u8,
                };
                let mut b = vec![b0];
                let l = rng.below(6) as usize;
                b.extend(rng.bytes(l));
                format!("cffrd|{}", hex(&b))
            }
        }
        79..=88 => {
            // INDEX / offset arrays
            match rng.below(4) {
                0 => {
                    let n = rng.below(6) as usize;
                    let mut offs: Vec<i128> = vec![];
                    let mut cur: i128 = 1;
                    let step = *rng.pick(&[3i128, 100, 20000, 70000, 5_000_000, 900_000_000, 2_000_000_000]);
                    for _ in 0..n {
                        offs.push(cur);
                        cur += rng.below(step as u64 + 1) as i128;
                    }
                    if n > 0 && rng.chance(1, 4) {
                        let e = *rng.pick(&[255i128, 256, 65535, 65536, 16777215, 16777216, 4294967295, 4294967296, 4294967297]);
                        offs[n - 1] = e;
                        if rng.chance(1, 3) && n > 1 {
                            offs[0] = e + 5; // not monotone: the casts truncate
                        }
                    }
                    format!("offs|{}", join(&offs))
                }
                1 => {
                    // parse arbitrary INDEX bytes
                    let wide = rng.below(2);
                    let n = rng.below(4) as usize;
                    let objs: Vec<Vec<u8>> = (0..n)
                        .map(|_| {
                            let l = rng.below(5) as usize;
                            rng.bytes(l)
                        })
                        .collect();
                    let b = verif::cff::owned_index_write(objs, wide == 1).unwrap();
                    format!("ixrd|{}|{}", wide, hex(&mutate(rng, b)))
                }
                _ => {
                    let wide = rng.below(2);
                    let big = rng.chance(1, 80);
                    let n = rng.below(6) as usize;
                    let objs: Vec<String> = (0..n).map(|i| gen_str(rng, big && i == 0)).collect();
                    // sizes straddling the off_size boundaries
                    let objs = if rng.chance(1, 10) {
                        let l = *rng.pick(&[253u64, 254, 255, 256]);
                        vec![format!("r{}x{}", l, rng.below(256)), gen_str(rng, false)]
                    } else {
                        objs
                    };
                    format!("index|{}|{}", wide, if objs.is_empty() { ".".to_string() } else { objs.join("+") })
                }
            }
        }
        89..=96 => {
            // glyf simple glyphs
            let wild = rng.chance(1, 6);
            let ncont = rng.below(4) as usize;
            let mut endpts: Vec<i128> = vec![];
            let mut last: i128 = -1;
            for _ in 0..ncont {
                last += 1 + rng.below(4) as i128;
                endpts.push(last);
            }
            let npts = if rng.chance(1, 10) { rng.below(8) as usize } else { (last + 1) as usize };
            let coords = gen_glyph_coords(rng, npts, wild);
            if rng.chance(2, 3) {
                let cs: Vec<String> = coords.iter().map(|(f, x, y)| format!("{}:{}:{}", f, x, y)).collect();
                format!(
                    "glyph|{}|{}|{}|{}|{}",
                    mode,
                    join(&gen_vals(rng, &[I16; 4])),
                    join(&endpts),
                    gen_str(rng, false),
                    if cs.is_empty() { ".".to_string() } else { cs.join("+") }
                )
            } else {
                // hand-assembled glyph bytes using short vectors, repeats and same-flags
                let mut b = vec![];
                b.extend((ncont as i16).to_be_bytes());
                b.extend(rng.bytes(8));
                for e in &endpts {
                    b.extend((*e as u16).to_be_bytes());
                }
                let il = rng.below(4) as usize;
                b.extend((il as u16).to_be_bytes());
                b.extend(rng.bytes(il));
                let n = (last + 1) as usize;
                let mut flags: Vec<u8> = vec![];
                let mut i = 0;
                while i < n {
                    let f = (rng.below(64) as u8) & !8;
                    if rng.chance(1, 4) {
                        let rep = rng.below(4) as u8;
                        b.push(f | 8);
                        b.push(rep);
                        for _ in 0..=rep {
                            flags.push(f);
                        }
                        i += rep as usize + 1;
                    } else {
                        b.push(f);
                        flags.push(f);
                        i += 1;
                    }
                }
                let big = rng.chance(1, 10);
                for (short, same) in [(2u8, 16u8), (4, 32)] {
                    for f in &flags {
                        if f & short != 0 {
                            b.push(rng.next() as u8);
                        } else if f & same == 0 {
                            let d = if big { edge(rng, 16, true) as i16 } else { rng.range(-300, 300) as i16 };
                            b.extend(d.to_be_bytes());
                        }
                    }
                }
                format!("glyphrd|{}|{}", mode, hex(&mutate(rng, b)))
            }
        }
        _ => match rng.below(3) {
            0 => format!("u24|{}", *rng.pick(&[0i128, 1, 0xffff, 0x10000, 0xfffffe, 0xffffff, 0x1000000, 0x1000001, 0xffffffff]) ),
            1 => format!("pascal|{}", { let l = *rng.pick(&[0u64, 1, 254, 255, 256, 257, 1000]); format!("r{}x{}", l, rng.below(256)) }),
            _ => format!("bigix|{}", *rng.pick(&[0u32, 1, 2, 255, 256, 65534, 65535, 65536, 65537, 70000])),
        },
    }
}

fn main() {
    harness_main(&run, &mut gen)
}
