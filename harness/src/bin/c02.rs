//! C02: shaping is total and yields well-formed glyph runs.
//! input  = FIXTURE|MUTSEED|SCRIPT|LANG|FEAT|KERN|DIR|TEXT   (TEXT = comma-separated hex code points;
//!          MUTSEED 0 = pristine font, otherwise a seeded mutation of the GSUB/GPOS/GDEF/kern/morx tables;
//!          FEAT = `mask:<bits>` or `custom:tag.tag...`; DIR = l|r ; KERN = 0|1)
//!        | S|<C04 case line>   a synthetic GSUB/GDEF program run through gsub::apply (whole-run kinds only)
//!        | G|<C05 case line>   a synthetic GPOS/GDEF/kern program run through gpos::apply + glyph_positions
//! output = run:<n>:<maxgid>:<ok|err>:<flags>  where flags is a list of well-formedness violations
//!          (empty = well-formed) | panic:<file>:<fn>:<kind> | slow:<ms>
//! The judge (ocaml/c02/drv.ml) needs nothing else: the harness evaluates the run against the property's
//! clauses itself and reports each violated clause by name.
use allsorts::binary::read::ReadScope;
use allsorts::font::{Font, MatchingPresentation};
use allsorts::font_data::FontData;
use allsorts::glyph_position::{GlyphLayout, TextDirection};
use allsorts::gpos::{Info, Placement};
use allsorts::gsub::{FeatureInfo, FeatureMask, Features};
use allsorts::tables::FontTableProvider;
use avh::prng::Rng;
use std::io::Write;
use std::panic::{catch_unwind, AssertUnwindSafe};
use std::sync::Mutex;

/// the C05 harness (synthetic GPOS / GDEF / kern programs over synthetic glyph runs), reused here for
/// degenerate-but-parsable layout tables that byte mutation of fixture fonts practically never produces
#[path = "c05.rs"]
#[allow(dead_code)]
mod c05;
/// likewise the C04 harness (synthetic GSUB programs: all lookup types, nested lookups including
/// cycles, lookup flags, feature lists); only whole-run cases (gsub::apply) are used here
#[path = "c04.rs"]
#[allow(dead_code)]
mod c04;

/// the third top-level element of a C04 case tree `M (gdef layout run glyphs)` starts with the run kind:
/// 0 = gsub::apply with Features::Custom, 2 = with Features::Mask, 1 = gsub_apply_lookup on a window
fn c04_whole_run(case: &str) -> bool {
    let b = case.as_bytes();
    let (mut depth, mut elem, mut i) = (0i32, 0, 0);
    while i < b.len() {
        match b[i] {
            b'(' => {
                depth += 1;
                if depth == 2 {
                    elem += 1;
                    if elem == 3 {
                        let rest = &case[i + 1..];
                        return rest.starts_with("0 ") || rest.starts_with("2 ");
                    }
                }
            }
            b')' => depth -= 1,
            _ => {}
        }
        i += 1;
    }
    false
}

static LAST_PANIC: Mutex<String> = Mutex::new(String::new());

/// CPU time of this thread in milliseconds (wall-clock would raise false alarms on a loaded machine)
fn cpu_ms() -> u128 {
    let mut ts = libc::timespec { tv_sec: 0, tv_nsec: 0 };
    unsafe { libc::clock_gettime(libc::CLOCK_THREAD_CPUTIME_ID, &mut ts) };
    (ts.tv_sec as u128) * 1000 + (ts.tv_nsec as u128) / 1_000_000
}

fn repo() -> String {
    std::env::var("VERIF_REPO").unwrap_or_else(|_| "/repo".to_string())
}

const FONTS: &[(&str, &str)] = &[
    ("opentype/OpenSans-Regular.ttf", "latn"),
    ("opentype/Klei.otf", "latn"),
    ("opentype/SourceCodePro-Regular.otf", "latn"),
    ("opentype/NotoSans-VF.abc.ttf", "latn"),
    ("arabic/amiri-regular.ttf", "arab"),
    ("arabic/Scheherazade-Regular.ttf", "arab"),
    ("arabic/NafeesNastaleeq.ttf", "arab"),
    ("devanagari/AnnapurnaSIL-Regular.ttf", "dev2"),
    ("devanagari/lohit_hi.ttf", "deva"),
    ("bengali/Lohit-Bengali.ttf", "beng"),
    ("gujarati/lohit_gu.ttf", "gujr"),
    ("gurmukhi/Saab.ttf", "guru"),
    ("kannada/lohit_kn.ttf", "knda"),
    ("malayalam/Rachana-Regular.ttf", "mlym"),
    ("khmer/Battambang-Regular.ttf", "khmr"),
    ("myanmar/Padauk-Regular.ttf", "mym2"),
    ("syriac/SyrCOMEdessa.otf", "syrc"),
    ("syriac/SyrCOMAntioch.otf", "syrc"),
    ("noto/NotoSansSyriacEastern-Regular.ttf", "syrc"),
    ("oriya/lohit_or.ttf", "ory2"),
    ("noto/NotoSansTamil-Regular.ttf", "tml2"),
    ("noto/NotoSansTelugu-Regular.ttf", "tel2"),
    ("noto/NotoSansSinhala-Regular.ttf", "sinh"),
    ("noto/NotoSansThai-Regular.ttf", "thai"),
    ("noto/NotoSansLao-Regular.ttf", "lao "),
];

const SCRIPTS: &[&str] = &[
    "latn", "arab", "syrc", "deva", "dev2", "beng", "bng2", "gujr", "gjr2", "guru", "gur2", "knda", "knd2", "mlym",
    "mlm2", "orya", "ory2", "taml", "tml2", "telu", "tel2", "sinh", "khmr", "mymr", "mym2", "thai", "lao ", "DFLT",
    "zzzz",
];

fn tag(s: &str) -> u32 {
    let b = s.as_bytes();
    u32::from_be_bytes([b[0], b[1], b[2], b[3]])
}

fn be32(b: &[u8], at: usize) -> u32 {
    u32::from_be_bytes([b[at], b[at + 1], b[at + 2], b[at + 3]])
}

fn layout_tables(b: &[u8]) -> Vec<(usize, usize)> {
    if b.len() < 12 {
        return vec![];
    }
    let n = u16::from_be_bytes([b[4], b[5]]) as usize;
    (0..n)
        .filter(|i| 12 + 16 * i + 16 <= b.len())
        .filter_map(|i| {
            let at = 12 + 16 * i;
            let t = &b[at..at + 4];
            if [&b"GSUB"[..], b"GPOS", b"GDEF", b"kern", b"morx"].contains(&t) {
                Some((be32(b, at + 8) as usize, be32(b, at + 12) as usize))
            } else {
                None
            }
        })
        .collect()
}

fn mutate(data: &mut [u8], rng: &mut Rng) {
    let tabs = layout_tables(data);
    if tabs.is_empty() {
        return;
    }
    let n = 1 + rng.below(4);
    for _ in 0..n {
        let (o, l) = *rng.pick(&tabs);
        if l < 4 || o + l > data.len() {
            continue;
        }
        let at = o + if rng.chance(1, 2) { rng.below((l as u64).min(256)) as usize } else { rng.below(l as u64) as usize };
        if at + 2 > data.len() {
            continue;
        }
        match rng.below(5) {
            0 | 1 => {
                let v = *rng.pick(&[0u16, 1, 2, 0x7fff, 0x8000, 0xfffe, 0xffff, l as u16, (l as u16).wrapping_add(2)]);
                data[at..at + 2].copy_from_slice(&v.to_be_bytes());
            }
            2 => data[at] ^= 1 << rng.below(8),
            3 => data[at] = rng.next() as u8,
            _ => {
                let v = (u16::from_be_bytes([data[at], data[at + 1]])).wrapping_add(rng.range(-2, 2) as u16);
                data[at..at + 2].copy_from_slice(&v.to_be_bytes());
            }
        }
    }
}

fn parse_features(s: &str) -> Features {
    if let Some(bits) = s.strip_prefix("mask:") {
        Features::Mask(FeatureMask::from_bits_truncate(bits.parse().unwrap()))
    } else {
        let tags = s.strip_prefix("custom:").unwrap_or("");
        Features::Custom(
            tags.split('.')
                .filter(|t| t.len() == 4)
                .map(|t| FeatureInfo { feature_tag: tag(t), alternate: None })
                .collect(),
        )
    }
}

/// evaluate the clauses of the property on a run
fn judge_run(infos: &[Info], input: &[char], num_glyphs: u16, pristine: bool) -> (u16, Vec<&'static str>) {
    let mut flags = vec![];
    let mut maxgid = 0u16;
    for (i, info) in infos.iter().enumerate() {
        maxgid = maxgid.max(info.glyph.glyph_index);
        let attach = match info.placement {
            Placement::MarkAnchor(b, _, _) => Some(b),
            Placement::MarkOverprint(b) => Some(b),
            Placement::CursiveAnchor(b, _, _, _) => Some(b),
            _ => None,
        };
        if let Some(b) = attach {
            if b >= infos.len() && !flags.contains(&"attachment-out-of-run") {
                flags.push("attachment-out-of-run");
            }
            if b == i && !flags.contains(&"attachment-to-self") {
                flags.push("attachment-to-self");
            }
        }
        for u in info.glyph.unicodes.iter() {
            if *u != '\u{25CC}' && !input.contains(u) && !flags.contains(&"foreign-character") {
                flags.push("foreign-character");
            }
        }
        if pristine && info.glyph.glyph_index >= num_glyphs && !flags.contains(&"glyph-id-out-of-range") {
            flags.push("glyph-id-out-of-range");
        }
    }
    (maxgid, flags)
}

fn run_case(input: &str) -> String {
    if let Some(case) = input.strip_prefix("S|") {
        // synthetic substitution program over the whole run: totality only (C04 judges the glyphs)
        let r = c04::run(case);
        return if r == "panic" { format!("panic:{}", LAST_PANIC.lock().unwrap()) } else { "run:0:0:ok:".to_string() };
    }
    if let Some(case) = input.strip_prefix("G|") {
        // synthetic positioning program: only totality is judged here (C05 judges the positions)
        let r = c05::run(case);
        return if r == "panic" { format!("panic:{}", LAST_PANIC.lock().unwrap()) } else { "run:0:0:ok:".to_string() };
    }
    let p: Vec<&str> = input.split('|').collect();
    let mut data = std::fs::read(format!("{}/tests/fonts/{}", repo(), p[0])).unwrap_or_default();
    let seed: u64 = p[1].parse().unwrap();
    if seed != 0 {
        let mut rng = Rng::new(seed);
        mutate(&mut data, &mut rng);
    }
    let script = tag(p[2]);
    let lang = if p[3] == "-" { None } else { Some(tag(p[3])) };
    let features = parse_features(p[4]);
    let kerning = p[5] == "1";
    let dir = if p[6] == "r" { TextDirection::RightToLeft } else { TextDirection::LeftToRight };
    let text: String = p[7]
        .split(',')
        .filter(|s| !s.is_empty())
        .filter_map(|h| u32::from_str_radix(h, 16).ok().and_then(char::from_u32))
        .collect();
    let t0 = cpu_ms();
    let res = catch_unwind(AssertUnwindSafe(|| {
        let fd = match ReadScope::new(&data).read::<FontData<'_>>() {
            Ok(f) => f,
            Err(_) => return "noload".to_string(),
        };
        let provider = match fd.table_provider(0) {
            Ok(p) => p,
            Err(_) => return "noload".to_string(),
        };
        let _ = provider.has_table(0);
        let mut font = match Font::new(provider) {
            Ok(f) => f,
            Err(_) => return "noload".to_string(),
        };
        let num_glyphs = font.num_glyphs();
        let glyphs = font.map_glyphs(&text, script, MatchingPresentation::NotRequired);
        // the run submitted for shaping: the characters map_glyphs attributes (after preprocessing)
        let submitted: Vec<char> = glyphs.iter().flat_map(|g| g.unicodes.iter().copied()).collect();
        let (infos, status) = match font.shape(glyphs, script, lang, &features, None, kerning) {
            Ok(i) => (i, "ok"),
            Err((_, i)) => (i, "err"),
        };
        let (maxgid, mut flags) = judge_run(&infos, &submitted, num_glyphs, seed == 0);
        let mut layout = GlyphLayout::new(&mut font, &infos, dir, false);
        match layout.glyph_positions() {
            Ok(pos) => {
                if pos.len() != infos.len() {
                    flags.push("positions-length");
                }
            }
            Err(_) => {}
        }
        format!("run:{}:{}:{}:{}", infos.len(), maxgid, status, flags.join("+"))
    }));
    let ms = cpu_ms() - t0;
    match res {
        Ok(s) => {
            if ms > 5000 {
                format!("slow:{}", ms)
            } else {
                s
            }
        }
        Err(_) => format!("panic:{}", LAST_PANIC.lock().unwrap()),
    }
}

// ---- generation
const LATIN: &[u32] = &[0x41, 0x66, 0x69, 0x6c, 0x20, 0x31, 0x2f, 0x32, 0x301, 0x300, 0x327, 0xe9, 0x200d, 0x200c, 0xfe0f, 0x1f600];
const ARABIC: &[u32] = &[0x627, 0x628, 0x644, 0x645, 0x647, 0x64a, 0x64b, 0x64e, 0x650, 0x651, 0x652, 0x670, 0x6e1, 0x6d6, 0x640, 0x200d, 0x200c, 0x20, 0x661, 0x710, 0x712];
// letters (Alaph first), dotless/transparent marks, abbreviation mark, joiners, tatweel
const SYRIAC: &[u32] = &[0x710, 0x710, 0x712, 0x715, 0x717, 0x71d, 0x720, 0x722, 0x72a, 0x72c, 0x711, 0x730, 0x733, 0x736, 0x73a, 0x740, 0x70f, 0x200d, 0x200c, 0x20, 0x640, 0x628];
const DEVA: &[u32] = &[0x915, 0x937, 0x930, 0x93f, 0x940, 0x94d, 0x93c, 0x902, 0x903, 0x905, 0x906, 0x947, 0x94b, 0x200d, 0x200c, 0x25cc, 0x966, 0x20];
const BENG: &[u32] = &[0x995, 0x9af, 0x9b0, 0x9bc, 0x9bf, 0x9c7, 0x9cb, 0x9cc, 0x9cd, 0x9d7, 0x981, 0x200d, 0x200c, 0x20];
const KNDA: &[u32] = &[0xc95, 0xcb0, 0xccd, 0xcbc, 0xcbf, 0xcc6, 0xcca, 0xcd5, 0xcd6, 0x200d, 0x200c];
const MLYM: &[u32] = &[0xd15, 0xd30, 0xd4d, 0xd3f, 0xd46, 0xd4a, 0xd4b, 0xd4c, 0xd57, 0x200d, 0x200c];
const KHMR: &[u32] = &[0x1780, 0x179a, 0x17d2, 0x17b6, 0x17be, 0x17c1, 0x17c4, 0x17c6, 0x17c9, 0x17cb, 0x200c, 0x200d];
const MYMR: &[u32] = &[0x1000, 0x101b, 0x1039, 0x103a, 0x103b, 0x103c, 0x1031, 0x102d, 0x1036, 0x1037, 0x200c];
const THAI: &[u32] = &[0xe01, 0xe33, 0xe34, 0xe48, 0xe49, 0xe4d, 0xe32, 0xeb3, 0xec8];

fn alphabet(script: &str) -> &'static [u32] {
    match script {
        "arab" => ARABIC,
        "syrc" => SYRIAC,
        "deva" | "dev2" | "gujr" | "gjr2" | "guru" | "gur2" | "orya" | "ory2" | "taml" | "tml2" | "telu" | "tel2" | "sinh" => DEVA,
        "beng" | "bng2" => BENG,
        "knda" | "knd2" => KNDA,
        "mlym" | "mlm2" => MLYM,
        "khmr" => KHMR,
        "mymr" | "mym2" => MYMR,
        "thai" | "lao " => THAI,
        _ => LATIN,
    }
}

fn shift_script(cp: u32, font_script: &str) -> u32 {
    // DEVA alphabet re-based onto the font's own Indic block
    let base = match font_script {
        "gujr" | "gjr2" => 0xa80,
        "guru" | "gur2" => 0xa00,
        "orya" | "ory2" => 0xb00,
        "taml" | "tml2" => 0xb80,
        "telu" | "tel2" => 0xc00,
        "sinh" => 0xd80,
        _ => 0x900,
    };
    if (0x900..0x980).contains(&cp) {
        base + (cp - 0x900)
    } else {
        cp
    }
}

fn gen(rng: &mut Rng) -> String {
    if rng.chance(1, 8) {
        return format!("G|{}", c05::gen(rng));
    }
    if rng.chance(1, 8) {
        let case = c04::gen(rng);
        if c04_whole_run(&case) {
            return format!("S|{}", case);
        }
    }
    let (font, fscript) = *rng.pick(FONTS);
    let script = if rng.chance(3, 4) { fscript } else { *rng.pick(SCRIPTS) };
    let seed = if rng.chance(1, 3) { 1 + rng.next() % 1_000_000_007 } else { 0 };
    let lang = if rng.chance(1, 4) { *rng.pick(&["ENG ", "URD ", "HIN ", "dflt", "ZZZZ"]) } else { "-" };
    let feat = match rng.below(6) {
        0 => "mask:0".to_string(),
        1 => format!("mask:{}", rng.next() & 0xffff_ffff),
        2 => "custom:liga.kern.mark.mkmk.ccmp.rlig.calt".to_string(),
        3 => "custom:init.medi.fina.isol.rlig.liga".to_string(),
        4 => "custom:frac.numr.dnom.smcp.c2sc".to_string(),
        _ => format!("mask:{}", 0x3f),
    };
    let n = match rng.below(10) {
        0 => 0,
        1 => 1,
        2..=7 => 1 + rng.below(10) as usize,
        _ => 10 + rng.below(40) as usize,
    };
    // template class: feature-specific text shapes that random letters practically never form
    // (several digit/digit fractions in one run for FRAC, ligature chains, ...)
    if rng.chance(1, 10) {
        let t = *rng.pick(&[
            "1/2 3/4", "12/34 5/678 9/0 x", "1/2", "a1/2b3/4c", "fi ffl 1/2 3/4 ff", "1/2 3/4 5/6 7/8 9/10 11/12",
            "x 1/2", "1/2/3/4", "/1/ 2/ /3", "ffi fj ffl ft", "A\u{301}\u{300}V\u{327}A",
            // variation selectors after the dotted circle and after ordinary letters, repeated in one run
            "\u{25cc}\u{fe0e} \u{25cc}\u{fe0e}", "\u{25cc} a\u{fe0e}\u{25cc}\u{fe0f} \u{25cc}\u{fe0e}", "a\u{fe0f}a\u{fe0e}\u{25cc}\u{fe00}\u{25cc}",
        ]);
        let bits: u64 = 0x3f | (1 << 16) | (1 << 22) | (1 << 11) | (rng.next() & 0xffff_0000);
        let cps: Vec<String> = t.chars().map(|c| format!("{:x}", c as u32)).collect();
        return format!(
            "{}|{}|{}|{}|mask:{}|{}|{}|{}",
            font, seed, if rng.chance(3, 4) { "latn" } else { script }, lang, bits, rng.below(2),
            if rng.chance(1, 3) { "r" } else { "l" }, cps.join(",")
        );
    }
    let alpha = alphabet(if rng.chance(5, 6) { fscript } else { script });
    let cps: Vec<String> = (0..n)
        .map(|_| {
            let cp = match rng.below(12) {
                0 => *rng.pick(&[0x200du32, 0x200c, 0xfe0f, 0xfe0e, 0xfe00, 0x25cc, 0x25cc, 0x34f, 0x2060, 0xfffd, 0x10ffff, 0x0, 0xe0100]),
                1 => *rng.pick(LATIN),
                _ => shift_script(*rng.pick(alpha), fscript),
            };
            format!("{:x}", cp)
        })
        .collect();
    format!(
        "{}|{}|{}|{}|{}|{}|{}|{}",
        font,
        seed,
        script,
        lang,
        feat,
        rng.below(2),
        if rng.chance(1, 3) { "r" } else { "l" },
        cps.join(",")
    )
}

fn short_file(f: &str) -> String {
    match f.rfind("/src/") {
        Some(i) => f[i + 5..].to_string(),
        None => f.rsplit('/').next().unwrap_or("").to_string(),
    }
}
fn enclosing_fn(file: &str, line: u32) -> String {
    let txt = match std::fs::read_to_string(file) {
        Ok(t) => t,
        Err(_) => return format!("line{}", line),
    };
    let mut name = String::from("?");
    for (i, l) in txt.lines().enumerate() {
        if i as u32 >= line {
            break;
        }
        if let Some(p) = l.find("fn ") {
            let before = l[..p].trim();
            if before.is_empty() || before.ends_with("pub") || before.contains("pub(") || before.ends_with("unsafe") || before.ends_with("const") {
                let n: String = l[p + 3..].chars().take_while(|c| c.is_alphanumeric() || *c == '_').collect();
                if !n.is_empty() {
                    name = n;
                }
            }
        }
    }
    name
}
fn msg_class(m: &str) -> String {
    let m = m.to_lowercase();
    for (pat, cls) in [
        ("overflow", "overflow"), ("out of range", "slice-range"), ("out of bounds", "index"), ("unwrap", "unwrap"),
        ("unreachable", "unreachable"), ("assertion", "assert"), ("verif-oob", "oob"), ("ran out of glyphs", "ran-out"),
        ("divide by zero", "div0"),
    ] {
        if m.contains(pat) {
            return cls.to_string();
        }
    }
    m.split_whitespace().take(3).collect::<Vec<_>>().join("-")
}

fn main() {
    std::panic::set_hook(Box::new(|info| {
        let (file, line) = info.location().map(|l| (l.file().to_string(), l.line())).unwrap_or_default();
        let msg = if let Some(s) = info.payload().downcast_ref::<&str>() {
            s.to_string()
        } else if let Some(s) = info.payload().downcast_ref::<String>() {
            s.clone()
        } else {
            String::new()
        };
        *LAST_PANIC.lock().unwrap() = format!("{}:{}:{}", short_file(&file), enclosing_fn(&file, line), msg_class(&msg));
    }));
    let args: Vec<String> = std::env::args().collect();
    match args.get(1).map(|s| s.as_str()) {
        Some("child") => {
            let mut out = std::fs::OpenOptions::new().append(true).create(true).open(&args[2]).unwrap();
            for input in &args[3..] {
                let res = run_case(input);
                writeln!(out, "{} => {}", input, res).unwrap();
                out.flush().unwrap();
            }
        }
        Some("gen") => {
            let seed: u64 = args[2].parse().unwrap();
            let count: usize = args[3].parse().unwrap();
            let outfile = &args[4];
            let mut inputs: Vec<String> = vec![];
            if let Some(corpus) = args.get(5) {
                if let Ok(txt) = std::fs::read_to_string(corpus) {
                    inputs.extend(txt.lines().filter(|l| !l.is_empty() && !l.starts_with('#')).map(String::from));
                }
            }
            let mut rng = Rng::new(seed);
            for _ in 0..count {
                inputs.push(gen(&mut rng));
            }
            let exe = std::env::current_exe().unwrap();
            let chunks: Vec<Vec<String>> = inputs.chunks(40).map(|c| c.to_vec()).collect();
            let workers = std::thread::available_parallelism().map(|n| n.get()).unwrap_or(4).min(16);
            let queue = std::sync::Arc::new(Mutex::new(chunks));
            let results = std::sync::Arc::new(Mutex::new(Vec::<String>::new()));
            let mut handles = vec![];
            for w in 0..workers {
                let (queue, results, exe) = (queue.clone(), results.clone(), exe.clone());
                let part = format!("{}.part{}", outfile, w);
                handles.push(std::thread::spawn(move || loop {
                    let chunk = match queue.lock().unwrap().pop() {
                        Some(c) => c,
                        None => break,
                    };
                    let _ = std::fs::remove_file(&part);
                    let status = std::process::Command::new(&exe).arg("child").arg(&part).args(&chunk).stderr(std::process::Stdio::null()).status();
                    let done: Vec<String> = std::fs::read_to_string(&part).unwrap_or_default().lines().map(String::from).collect();
                    let ok = matches!(&status, Ok(s) if s.success());
                    let mut res = results.lock().unwrap();
                    res.extend(done.iter().cloned());
                    if !ok {
                        if let Some(bad) = chunk.get(done.len()) {
                            res.push(format!("{} => abort", bad));
                            let rest: Vec<String> = chunk[done.len() + 1..].to_vec();
                            if !rest.is_empty() {
                                queue.lock().unwrap().push(rest);
                            }
                        }
                    }
                    let _ = std::fs::remove_file(&part);
                }));
            }
            for h in handles {
                h.join().unwrap();
            }
            let mut res = results.lock().unwrap().clone();
            res.sort();
            let mut out = std::io::BufWriter::new(std::fs::File::create(outfile).unwrap());
            for r in res {
                writeln!(out, "{}", r).unwrap();
            }
        }
        Some("replay") => {
            let exe = std::env::current_exe().unwrap();
            let part = std::env::temp_dir().join(format!("c02-replay-{}.part", std::process::id()));
            let _ = std::fs::remove_file(&part);
            let _ = std::process::Command::new(&exe).arg("child").arg(&part).arg(&args[2]).stderr(std::process::Stdio::null()).status();
            let done = std::fs::read_to_string(&part).unwrap_or_default();
            let _ = std::fs::remove_file(&part);
            match done.lines().next() {
                Some(l) => println!("{}", l),
                None => println!("{} => abort", args[2]),
            }
        }
        _ => {
            eprintln!("usage: c02 gen <seed> <count> <out> [corpus] | replay <input>");
            std::process::exit(2);
        }
    }
}
