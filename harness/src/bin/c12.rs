//! C12 correspondence: variable-font instancing (src/variations.rs, src/tables/glyf/variation.rs,
//! src/tables/variable_fonts.rs) — unit functions through the `verif-hooks` re-exports and
//! `variations::instance` end to end on harness-built and fixture variable fonts.
//!
//! Input lines (first field = mode); f32 results cross the boundary as their IEEE bit pattern
//! (`f<u32>`), so the judge sees the exact value the implementation produced.
//!   cs|inst,start,peak,end                       calculate_scalar            -> f<bits>
//!   rs|s,p,e;s,p,e;..|t1,t2,..                   scalar(region, tuple)       -> none | f<bits>
//!   rc|HEX                                       read_count                  -> ok:count:used | err:E
//!   pp|HEX|num_points                            read_packed_point_numbers   -> ok:all:used | ok:p1,p2,..:used | err:E | panic
//!   pd|HEX|num_deltas                            packed_deltas::read         -> ok:d1,d2,..:used | err:E
//!   inf|pc,tc,nc,pd,nd                           do_infer                    -> f<bits>
//!   rd|x,y x,y ..|e1,e2,..|n,dx,dy n,dx,dy ..    one region: explicit + IUP  -> ok:fx:fy fx:fy .. | err:E | panic
//!   dm|HEX|i                                     DeltaSetIndexMap::entry     -> ok:outer,inner | err:E
//!   iv|REGIONS|IVDS|outer,inner|t1,t2,..         ItemVariationStore::adjustment -> ok:f<bits> | err:E
//!        REGIONS = axis_count:s,p,e;s,p,e;..  (all axes of all regions, flattened)
//!        IVDS    = wdc:ric:r1,r2,..:itemcount:HEX  separated by '/'
//!   vt|tag(u32)                                  is_var_table                -> 0 | 1
//!   ad|i|value|f<bits>   ad|u|value|f<bits>      add_delta_i16 / add_delta_u16 -> value
//!   gd|axis_count|tuple|SHARED|GLYPH|HEX         glyph_deltas                -> ok:none | ok:fx:fy .. | err:E | panic
//!        SHARED = t;t;..  (each csv) or -     GLYPH = S:x,y x,y ..:e1,e2 | C:n | E
//!   e2e|...                                      variations::instance on a harness-built font (see e2e_run)
//!   fx|font|gid|user coords(16.16 raw)|...       variations::instance on a fixture font (see fx_run)
//!   c2|...   c2f|font|user coords|...            variations::instance on a harness-built / fixture CFF2
//!                                                variable font (see ../c12_cff2.rs)
use allsorts::binary::read::ReadScope;
use allsorts::error::ParseError;
use allsorts::tables::glyf::{
    BoundingBox, CompositeGlyph, CompositeGlyphArgument, CompositeGlyphComponent,
    CompositeGlyphFlag, EmptyGlyph, Glyph, Point, SimpleGlyph, SimpleGlyphFlag,
};
use allsorts::tables::variable_fonts::fvar::FvarTable;
use allsorts::tables::variable_fonts::gvar::GvarTable;
use allsorts::tables::variable_fonts::{DeltaSetIndexMapEntry, ItemVariationStore, OwnedTuple};
use allsorts::tables::F2Dot14;
use allsorts::verif::c12 as hook;
use avh::prng::{hex, unhex, Rng};
use avh::{harness_main, perr};
use std::panic::{catch_unwind, AssertUnwindSafe};

pub mod e2e {
    include!("../c12_e2e.rs");
}

pub mod cff2 {
    include!("../c12_cff2.rs");
}

// ------------------------------------------------------------------ small helpers

pub fn be16(v: &mut Vec<u8>, x: u16) {
    v.extend_from_slice(&x.to_be_bytes());
}
pub fn be32(v: &mut Vec<u8>, x: u32) {
    v.extend_from_slice(&x.to_be_bytes());
}

pub fn csv_i<T: std::str::FromStr>(s: &str) -> Vec<T>
where
    T::Err: std::fmt::Debug,
{
    if s.is_empty() || s == "-" {
        return vec![];
    }
    s.split(',').map(|x| x.parse().unwrap()).collect()
}

pub fn join<T: ToString>(v: &[T], sep: &str) -> String {
    if v.is_empty() {
        return "-".to_string();
    }
    v.iter().map(|x| x.to_string()).collect::<Vec<_>>().join(sep)
}

pub fn fbits(f: f32) -> String {
    format!("f{}", f.to_bits())
}

pub fn res_str(r: Result<String, ParseError>) -> String {
    match r {
        Ok(s) => format!("ok:{}", s),
        Err(e) => format!("err:{}", perr(&e)),
    }
}

/// fvar with `n` axes, each -1 .. 0 .. +1 (so a user coordinate k/16384 normalises to raw k)
pub fn fvar_bytes(n: usize) -> Vec<u8> {
    let mut v = vec![];
    be16(&mut v, 1);
    be16(&mut v, 0);
    be16(&mut v, 16);
    be16(&mut v, 2);
    be16(&mut v, n as u16);
    be16(&mut v, 20);
    be16(&mut v, 0);
    be16(&mut v, (4 + 4 * n) as u16);
    for i in 0..n {
        be32(&mut v, 0x78780000 + 0x3030 + i as u32); // 'xx00' + i
        be32(&mut v, (-65536i32) as u32);
        be32(&mut v, 0);
        be32(&mut v, 65536);
        be16(&mut v, 0);
        be16(&mut v, 256 + i as u16);
    }
    v
}

pub fn owned_tuple(vals: &[i16]) -> OwnedTuple {
    let fb = fvar_bytes(vals.len());
    let fvar = ReadScope::new(&fb).read::<FvarTable<'_>>().unwrap();
    let t: Vec<F2Dot14> = vals.iter().map(|v| F2Dot14::from_raw(*v)).collect();
    fvar.owned_tuple(&t).unwrap()
}

/// gvar table with one glyph whose GlyphVariationData is `data`
pub fn gvar_bytes(axis_count: u16, shared: &[Vec<i16>], glyph_data: &[&[u8]]) -> Vec<u8> {
    let mut v = vec![];
    let n = glyph_data.len();
    let header = 20 + 4 * (n + 1);
    let shared_len = shared.len() * axis_count as usize * 2;
    be16(&mut v, 1);
    be16(&mut v, 0);
    be16(&mut v, axis_count);
    be16(&mut v, shared.len() as u16);
    be32(&mut v, header as u32);
    be16(&mut v, n as u16);
    be16(&mut v, 1); // long offsets
    be32(&mut v, (header + shared_len) as u32);
    let mut off = 0u32;
    be32(&mut v, 0);
    for d in glyph_data {
        off += d.len() as u32;
        be32(&mut v, off);
    }
    for t in shared {
        for i in 0..axis_count as usize {
            be16(&mut v, t.get(i).copied().unwrap_or(0) as u16);
        }
    }
    for d in glyph_data {
        v.extend_from_slice(d);
    }
    v
}

pub fn parse_points(s: &str) -> Vec<(i16, i16)> {
    if s.is_empty() || s == "-" {
        return vec![];
    }
    s.split(' ')
        .filter(|x| !x.is_empty())
        .map(|p| {
            let c: Vec<i16> = p.split(',').map(|x| x.parse().unwrap()).collect();
            (c[0], c[1])
        })
        .collect()
}

pub fn simple_glyph(points: &[(i16, i16)], endpts: &[u16]) -> SimpleGlyph<'static> {
    SimpleGlyph {
        bounding_box: BoundingBox { x_min: 0, x_max: 0, y_min: 0, y_max: 0 },
        end_pts_of_contours: endpts.to_vec(),
        instructions: &[],
        coordinates: points
            .iter()
            .map(|(x, y)| (SimpleGlyphFlag::ON_CURVE_POINT, Point(*x, *y)))
            .collect(),
        phantom_points: None,
    }
}

fn parse_glyph(s: &str) -> Glyph<'static> {
    let parts: Vec<&str> = s.split(':').collect();
    match parts[0] {
        "S" => Glyph::Simple(simple_glyph(&parse_points(parts[1]), &csv_i::<u16>(parts[2]))),
        "C" => {
            let n: usize = parts[1].parse().unwrap();
            Glyph::Composite(CompositeGlyph {
                bounding_box: BoundingBox { x_min: 0, x_max: 0, y_min: 0, y_max: 0 },
                glyphs: (0..n)
                    .map(|_| CompositeGlyphComponent {
                        flags: CompositeGlyphFlag::ARGS_ARE_XY_VALUES,
                        glyph_index: 0,
                        argument1: CompositeGlyphArgument::I16(0),
                        argument2: CompositeGlyphArgument::I16(0),
                        scale: None,
                    })
                    .collect(),
                instructions: &[],
                phantom_points: None,
            })
        }
        _ => Glyph::Empty(EmptyGlyph::new()),
    }
}

fn parse_shared(s: &str) -> Vec<Vec<i16>> {
    if s == "-" || s.is_empty() {
        return vec![];
    }
    s.split(';').map(|t| csv_i::<i16>(t)).collect()
}

fn fpairs(v: &[(f32, f32)]) -> String {
    if v.is_empty() {
        return "-".to_string();
    }
    v.iter().map(|(x, y)| format!("{}:{}", fbits(*x), fbits(*y))).collect::<Vec<_>>().join(" ")
}

// ------------------------------------------------------------------ ItemVariationStore bytes

pub struct Ivd {
    pub wdc: u16,
    pub ric: u16,
    pub regions: Vec<u16>,
    pub item_count: u16,
    pub data: Vec<u8>,
}

pub fn ivs_bytes(axis_count: u16, regions: &[(i16, i16, i16)], ivds: &[Ivd]) -> Vec<u8> {
    let mut v = vec![];
    be16(&mut v, 1);
    let header = 8 + 4 * ivds.len();
    be32(&mut v, header as u32);
    be16(&mut v, ivds.len() as u16);
    let nreg = if axis_count == 0 { 0 } else { regions.len() / axis_count as usize };
    let rl_len = 4 + nreg * axis_count as usize * 6;
    let mut off = header + rl_len;
    let mut bodies = vec![];
    for d in ivds {
        be32(&mut v, off as u32);
        let mut b = vec![];
        be16(&mut b, d.item_count);
        be16(&mut b, d.wdc);
        be16(&mut b, d.ric);
        for r in &d.regions {
            be16(&mut b, *r);
        }
        b.extend_from_slice(&d.data);
        off += b.len();
        bodies.push(b);
    }
    be16(&mut v, axis_count);
    be16(&mut v, nreg as u16);
    for (s, p, e) in regions.iter().take(nreg * axis_count as usize) {
        be16(&mut v, *s as u16);
        be16(&mut v, *p as u16);
        be16(&mut v, *e as u16);
    }
    for b in bodies {
        v.extend_from_slice(&b);
    }
    v
}

pub fn parse_regions(s: &str) -> (u16, Vec<(i16, i16, i16)>) {
    let (ac, rest) = s.split_once(':').unwrap();
    let ac: u16 = ac.parse().unwrap();
    let regs = if rest.is_empty() || rest == "-" {
        vec![]
    } else {
        rest.split(';')
            .map(|t| {
                let c = csv_i::<i16>(t);
                (c[0], c[1], c[2])
            })
            .collect()
    };
    (ac, regs)
}

pub fn parse_ivds(s: &str) -> Vec<Ivd> {
    if s == "-" || s.is_empty() {
        return vec![];
    }
    s.split('/')
        .map(|d| {
            let p: Vec<&str> = d.split(':').collect();
            Ivd {
                wdc: p[0].parse().unwrap(),
                ric: p[1].parse().unwrap(),
                regions: csv_i::<u16>(p[2]),
                item_count: p[3].parse().unwrap(),
                data: unhex(p[4]),
            }
        })
        .collect()
}

// ------------------------------------------------------------------ run

fn run_inner(input: &str) -> String {
    let p: Vec<&str> = input.split('|').collect();
    match p[0] {
        "cs" => {
            let c = csv_i::<i16>(p[1]);
            fbits(hook::calculate_scalar(c[0], c[1], c[2], c[3]))
        }
        "rs" => {
            let (_, regs) = parse_regions(&format!("0:{}", p[1]));
            let t = csv_i::<i16>(p[2]);
            match hook::scalar(&regs, &t) {
                None => "none".to_string(),
                Some(f) => fbits(f),
            }
        }
        "rc" => res_str(hook::read_count(&unhex(p[1])).map(|(c, u)| format!("{}:{}", c, u))),
        "pp" => {
            let n: u32 = p[2].parse().unwrap();
            res_str(hook::read_packed_point_numbers(&unhex(p[1]), n).map(|(v, used)| match v {
                None => format!("all:{}", used),
                Some(v) => format!("{}:{}", join(&v, ","), used),
            }))
        }
        "pd" => {
            let n: u32 = p[2].parse().unwrap();
            res_str(hook::read_packed_deltas(&unhex(p[1]), n).map(|(v, used)| format!("{}:{}", join(&v, ","), used)))
        }
        "inf" => {
            let c = csv_i::<i16>(p[1]);
            fbits(hook::do_infer(c[0], c[1], c[2], c[3], c[4]))
        }
        "rd" => {
            let pts = parse_points(p[1]);
            let endpts = csv_i::<u16>(p[2]);
            let g = simple_glyph(&pts, &endpts);
            let explicit: Vec<(u32, (i16, i16))> = if p[3] == "-" || p[3].is_empty() {
                vec![]
            } else {
                p[3].split(' ')
                    .map(|e| {
                        let c = csv_i::<i64>(e);
                        (c[0] as u32, (c[1] as i16, c[2] as i16))
                    })
                    .collect()
            };
            res_str(hook::region_deltas(&g, pts.len() + 4, &explicit).map(|v| fpairs(&v)))
        }
        "dm" => {
            let i: u32 = p[2].parse().unwrap();
            res_str(hook::delta_set_index_map_entry(&unhex(p[1]), i).map(|(o, n)| format!("{},{}", o, n)))
        }
        "iv" => {
            let (ac, regs) = parse_regions(p[1]);
            let ivds = parse_ivds(p[2]);
            let oi = csv_i::<u16>(p[3]);
            let t = csv_i::<i16>(p[4]);
            let bytes = ivs_bytes(ac, &regs, &ivds);
            let store = match ReadScope::new(&bytes).read::<ItemVariationStore<'_>>() {
                Ok(s) => s,
                Err(e) => return format!("err:parse-{}", perr(&e)),
            };
            let inst = owned_tuple(&t);
            res_str(
                store
                    .adjustment(DeltaSetIndexMapEntry { outer_index: oi[0], inner_index: oi[1] }, &inst)
                    .map(fbits),
            )
        }
        "vt" => {
            let t: u32 = p[1].parse().unwrap();
            (hook::is_var_table(t) as u8).to_string()
        }
        "ad" => {
            let f = f32::from_bits(p[3][1..].parse::<u32>().unwrap());
            if p[1] == "i" {
                hook::add_delta_i16(p[2].parse().unwrap(), f).to_string()
            } else {
                hook::add_delta_u16(p[2].parse().unwrap(), f).to_string()
            }
        }
        "gd" => {
            let ac: u16 = p[1].parse().unwrap();
            let t = csv_i::<i16>(p[2]);
            let shared = parse_shared(p[3]);
            let glyph = parse_glyph(p[4]);
            let data = unhex(p[5]);
            let gb = gvar_bytes(ac, &shared, &[&data]);
            let gvar = match ReadScope::new(&gb).read::<GvarTable<'_>>() {
                Ok(g) => g,
                Err(e) => return format!("err:gvar-{}", perr(&e)),
            };
            let inst = owned_tuple(&t);
            res_str(hook::glyph_deltas(&glyph, 0, &inst, &gvar).map(|d| match d {
                None => "none".to_string(),
                Some(v) => fpairs(&v),
            }))
        }
        "e2e" => e2e::e2e_run(&p),
        "fx" => e2e::fx_run(&p),
        "c2" => cff2::c2_run(&p),
        "c2f" => cff2::c2f_run(&p),
        _ => "badmode".to_string(),
    }
}

pub fn run(input: &str) -> String {
    let input = input.to_string();
    match catch_unwind(AssertUnwindSafe(|| run_inner(&input))) {
        Ok(s) => s,
        Err(e) => avh::panic_kind(&*e).to_string(),
    }
}

// ------------------------------------------------------------------ generators

pub fn f2(rng: &mut Rng) -> i16 {
    match rng.below(12) {
        0 => 0,
        1 => 16384,
        2 => -16384,
        3 => 8192,
        4 => -8192,
        5 => *rng.pick(&[1, -1, 16383, -16383, 32767, -32768, 20000, -20000]),
        _ => rng.range(-16384, 16384) as i16,
    }
}

/// a region axis: mostly valid (start <= peak <= end, same sign), sometimes arbitrary
pub fn gen_axis(rng: &mut Rng) -> (i16, i16, i16) {
    match rng.below(16) {
        0 => (f2(rng), f2(rng), f2(rng)),
        1 => (f2(rng), 0, f2(rng)),
        2 => (0, 0, 0),
        3 => (-16384, -16384, 0),
        4 => (0, 16384, 16384),
        _ => {
            let neg = rng.chance(1, 2);
            let mut v = [rng.range(0, 16384) as i16, rng.range(0, 16384) as i16, rng.range(0, 16384) as i16];
            if rng.chance(1, 4) {
                v[1] = v[0];
            }
            if rng.chance(1, 4) {
                v[2] = v[1];
            }
            v.sort();
            if neg {
                (-v[2], -v[1], -v[0])
            } else {
                (v[0], v[1], v[2])
            }
        }
    }
}

/// an instance coordinate aimed at the interesting places of an axis triple
pub fn gen_coord(rng: &mut Rng, a: (i16, i16, i16)) -> i16 {
    let base = match rng.below(10) {
        0 => a.0,
        1 => a.1,
        2 => a.2,
        3 => 0,
        4 => return f2(rng),
        5 => return rng.range(-16384, 16384) as i16,
        _ => {
            let lo = a.0.min(a.2) as i64;
            let hi = a.0.max(a.2) as i64;
            return rng.range(lo, hi) as i16;
        }
    };
    base.saturating_add(rng.range(-1, 1) as i16)
}

/// packed point numbers with random run structure
pub fn enc_points(points: &[u16], rng: &mut Rng) -> Vec<u8> {
    let mut v = vec![];
    let n = points.len();
    if n < 128 && !rng.chance(1, 8) {
        v.push(n as u8);
        if n == 0 {
            return v;
        }
    } else {
        v.push(0x80 | (n >> 8) as u8);
        v.push(n as u8);
    }
    let mut i = 0;
    let mut prev = 0u16;
    while i < n {
        let cap = if rng.chance(1, 3) { 128 } else { 8 };
        let run = (1 + rng.below(cap) as usize).min(n - i);
        let diffs: Vec<u16> = (i..i + run)
            .map(|k| {
                let d = points[k].wrapping_sub(prev);
                prev = points[k];
                d
            })
            .collect();
        let words = diffs.iter().any(|d| *d > 255) || rng.chance(1, 5);
        if words {
            v.push(0x80 | (run - 1) as u8);
            for d in diffs {
                be16(&mut v, d);
            }
        } else {
            v.push((run - 1) as u8);
            for d in diffs {
                v.push(d as u8);
            }
        }
        i += run;
    }
    v
}

/// packed deltas with random run structure
pub fn enc_deltas(deltas: &[i16], rng: &mut Rng) -> Vec<u8> {
    let mut v = vec![];
    let n = deltas.len();
    let mut i = 0;
    while i < n {
        let cap = if rng.chance(1, 3) { 64 } else { 6 };
        let run = (1 + rng.below(cap) as usize).min(n - i);
        let s = &deltas[i..i + run];
        if s.iter().all(|d| *d == 0) && !rng.chance(1, 6) {
            v.push(0x80 | (run - 1) as u8);
        } else if s.iter().all(|d| *d >= -128 && *d <= 127) && !rng.chance(1, 6) {
            v.push((run - 1) as u8);
            for d in s {
                v.push(*d as u8);
            }
        } else {
            v.push(0x40 | (run - 1) as u8);
            for d in s {
                be16(&mut v, *d as u16);
            }
        }
        i += run;
    }
    v
}

pub fn gen_delta(rng: &mut Rng) -> i16 {
    match rng.below(10) {
        0 | 1 => 0,
        2..=6 => rng.range(-120, 120) as i16,
        7 | 8 => rng.range(-2000, 2000) as i16,
        _ => *rng.pick(&[127, 128, -128, -129, 32767, -32768, 255, 256]),
    }
}

fn mangle(v: &mut Vec<u8>, rng: &mut Rng) {
    if v.is_empty() {
        return;
    }
    match rng.below(4) {
        0 => {
            let n = rng.below(v.len() as u64) as usize;
            v.truncate(n);
        }
        1 => {
            let i = rng.below(v.len() as u64) as usize;
            v[i] = rng.next() as u8;
        }
        2 => {
            let k = rng.below(4) as usize + 1;
            let extra = rng.bytes(k);
            v.extend_from_slice(&extra);
        }
        _ => {
            let i = rng.below(v.len() as u64) as usize;
            v[i] ^= 1 << rng.below(8);
        }
    }
}

pub fn gen_point_list(rng: &mut Rng, num_points: usize) -> Vec<u16> {
    // a sorted subset (sometimes with repeats, sometimes out of range)
    let mut v: Vec<u16> = vec![];
    if num_points == 0 {
        return v;
    }
    let density = 1 + rng.below(4);
    for i in 0..num_points {
        if rng.below(4) < density {
            v.push(i as u16);
            if rng.chance(1, 30) {
                v.push(i as u16);
            }
        }
    }
    if rng.chance(1, 40) {
        v.push((num_points + rng.below(3) as usize) as u16);
    }
    v
}

/// glyph geometry with many coincident coordinates (small grid) so the IUP special cases occur
pub fn gen_outline(rng: &mut Rng) -> (Vec<(i16, i16)>, Vec<u16>) {
    let ncont = match rng.below(8) {
        0 => 0,
        1..=4 => 1,
        5 | 6 => 2,
        _ => 3,
    };
    let mut pts = vec![];
    let mut ends = vec![];
    let grid: i64 = *rng.pick(&[3, 6, 50, 1000, 30000]);
    for _ in 0..ncont {
        let cap = if rng.chance(1, 5) { 12 } else { 6 };
        let n = 1 + rng.below(cap) as usize;
        for _ in 0..n {
            pts.push((rng.range(-grid, grid) as i16, rng.range(-grid, grid) as i16));
        }
        ends.push((pts.len() - 1) as u16);
    }
    (pts, ends)
}

fn gen_pp(rng: &mut Rng) -> String {
    let np = rng.below(300) as usize;
    let mut bytes = if rng.chance(1, 12) {
        vec![0]
    } else {
        let mut pts: Vec<u16> = vec![];
        let mut cur = 0u32;
        let n = match rng.below(10) {
            0 => 0,
            1 => 127 + rng.below(4) as usize,
            2 => 200 + rng.below(200) as usize,
            _ => rng.below(20) as usize,
        };
        let big = rng.chance(1, 6);
        for _ in 0..n {
            cur += if big { rng.below(3000) as u32 } else { rng.below(300) as u32 };
            pts.push(cur as u16); // may wrap: an encoding whose running sum overflows u16
        }
        enc_points(&pts, rng)
    };
    if rng.chance(1, 5) {
        mangle(&mut bytes, rng);
    }
    if rng.chance(1, 3) {
        let k = rng.below(5) as usize;
        let extra = rng.bytes(k);
        bytes.extend_from_slice(&extra);
    }
    format!("pp|{}|{}", hex(&bytes), np)
}

fn gen_pd(rng: &mut Rng) -> String {
    let n = match rng.below(8) {
        0 => 0,
        1 => 60 + rng.below(10) as usize,
        2 => 100 + rng.below(200) as usize,
        _ => rng.below(20) as usize,
    };
    let d: Vec<i16> = (0..n).map(|_| gen_delta(rng)).collect();
    let mut bytes = enc_deltas(&d, rng);
    if rng.chance(1, 5) {
        mangle(&mut bytes, rng);
    }
    if rng.chance(1, 3) {
        let k = rng.below(5) as usize;
        let extra = rng.bytes(k);
        bytes.extend_from_slice(&extra);
    }
    let ask = if rng.chance(1, 6) { n + rng.below(5) as usize } else if rng.chance(1, 8) { n.saturating_sub(rng.below(5) as usize) } else { n };
    format!("pd|{}|{}", hex(&bytes), ask)
}

fn gen_rd(rng: &mut Rng) -> String {
    let (pts, mut ends) = gen_outline(rng);
    let np = pts.len() + 4;
    let list = gen_point_list(rng, np);
    let mut expl: Vec<String> = vec![];
    let same = rng.chance(1, 4);
    let d0 = (gen_delta(rng), gen_delta(rng));
    for n in &list {
        let d = if same { d0 } else { (gen_delta(rng), gen_delta(rng)) };
        expl.push(format!("{},{},{}", n, d.0, d.1));
    }
    if rng.chance(1, 25) && !ends.is_empty() {
        // malformed contour ends: non-monotone / repeated / out of range
        let i = rng.below(ends.len() as u64) as usize;
        ends[i] = match rng.below(3) {
            0 => ends[i].wrapping_sub(rng.below(4) as u16),
            1 => ends[i] + rng.below(6) as u16,
            _ => rng.below(12) as u16,
        };
    }
    let ps: Vec<String> = pts.iter().map(|(x, y)| format!("{},{}", x, y)).collect();
    format!("rd|{}|{}|{}", join(&ps, " "), join(&ends, ","), join(&expl, " "))
}

fn gen_dm(rng: &mut Rng) -> String {
    let fmt: u8 = if rng.chance(1, 10) { rng.next() as u8 } else { (rng.below(4) as u8) << 4 | rng.below(16) as u8 };
    let esize = (((fmt & 0x30) >> 4) + 1) as usize;
    let count = rng.below(6) as usize;
    let mut v = vec![];
    let format1 = rng.chance(1, 3);
    v.push(if rng.chance(1, 30) { 2 } else { format1 as u8 });
    v.push(fmt);
    if v[0] == 1 {
        be32(&mut v, count as u32);
    } else {
        be16(&mut v, count as u16);
    }
    let body = rng.bytes(count * esize);
    v.extend_from_slice(&body);
    if rng.chance(1, 8) {
        mangle(&mut v, rng);
    }
    let i = if rng.chance(1, 5) { rng.next() as u32 } else { rng.below(count as u64 + 2) as u32 };
    format!("dm|{}|{}", hex(&v), i)
}

pub fn gen_ivs(rng: &mut Rng, ac: usize, min_items: usize, clean: bool) -> (String, String, Vec<(i16, i16, i16)>, usize) {
    let nreg = if clean { 1 + rng.below(4) as usize } else { rng.below(5) as usize };
    let mut regs = vec![];
    for _ in 0..nreg * ac {
        regs.push(gen_axis(rng));
    }
    let nivd = 1 + rng.below(3) as usize;
    let mut ivds = vec![];
    for _ in 0..nivd {
        let ric = rng.below(nreg as u64 + 1) as usize + if !clean && rng.chance(1, 30) { 1 } else { 0 };
        let long = rng.chance(1, 6);
        let wc = if !clean && rng.chance(1, 25) { ric + 1 } else { rng.below(ric as u64 + 1) as usize };
        let wdc = (wc as u16) | if long { 0x8000 } else { 0 };
        let regions: Vec<u16> = (0..ric)
            .map(|_| if !clean && rng.chance(1, 40) { nreg as u16 + rng.below(2) as u16 } else { rng.below(nreg.max(1) as u64) as u16 })
            .collect();
        let items = min_items + rng.below(4) as usize;
        let row = (ric + wc) * if long { 2 } else { 1 };
        let mut data: Vec<u8> = vec![];
        for _ in 0..items * row {
            data.push(if rng.chance(1, 3) { 0 } else if rng.chance(1, 2) { 0xff } else { rng.next() as u8 });
        }
        ivds.push(format!("{}:{}:{}:{}:{}", wdc, ric, join(&regions, ","), items, hex(&data)));
    }
    let rs: Vec<String> = regs.iter().map(|(s, p, e)| format!("{},{},{}", s, p, e)).collect();
    (format!("{}:{}", ac, join(&rs, ";")), ivds.join("/"), regs, nivd)
}

fn gen_iv(rng: &mut Rng) -> String {
    let ac = 1 + rng.below(3) as usize;
    let (rs, ivds, regs, nivd) = gen_ivs(rng, ac, 0, false);
    let outer = rng.below(nivd as u64 + 1);
    let inner = rng.below(5);
    let t: Vec<i16> = (0..ac)
        .map(|i| if regs.is_empty() { f2(rng) } else { let k = rng.below((regs.len() / ac) as u64) as usize; gen_coord(rng, regs[k * ac + i]) })
        .collect();
    format!("iv|{}|{}|{},{}|{}", rs, ivds, outer, inner, join(&t, ","))
}

pub fn tag_of(s: &[u8; 4]) -> u32 {
    u32::from_be_bytes(*s)
}

fn gen_vt(rng: &mut Rng) -> String {
    let known: [[u8; 4]; 24] = [
        *b"fvar", *b"gvar", *b"avar", *b"cvar", *b"HVAR", *b"MVAR", *b"VVAR", *b"STAT", *b"glyf", *b"head", *b"loca", *b"GPOS", *b"GSUB", *b"cvt ",
        *b"SVG ", *b"OS/2", *b"name", *b"hmtx", *b"_wcs", *b"\x7f\x7f\x7f\x7f", *b"XVAR", *b"xvar", *b"Avar", *b"vaR ",
    ];
    let t = match rng.below(4) {
        0 => tag_of(rng.pick(&known)),
        1 => rng.next() as u32,
        2 => (rng.next() as u32 & 0xff000000) | if rng.chance(1, 2) { 0x00766172 } else { 0x00564152 },
        _ => {
            // printable ASCII
            let b = [rng.range(32, 126) as u8, rng.range(32, 126) as u8, rng.range(32, 126) as u8, rng.range(32, 126) as u8];
            u32::from_be_bytes(b)
        }
    };
    format!("vt|{}", t)
}

fn gen_ad(rng: &mut Rng) -> String {
    let signed = rng.chance(1, 2);
    let value: i64 = if signed {
        *rng.pick(&[0i64, 1, -1, 32767, -32768, 1000, -1000, 700])
    } else {
        *rng.pick(&[0i64, 1, 65535, 40000, 1000, 700])
    };
    let delta: f32 = match rng.below(6) {
        0 => rng.range(-70000, 70000) as f32,
        1 => rng.range(-4000, 4000) as f32 / 2.0,
        2 => 0.0,
        _ => rng.range(-2000000, 2000000) as f32 / 1024.0,
    };
    format!("ad|{}|{}|{}", if signed { "i" } else { "u" }, value, fbits(delta))
}

/// one tuple variation of a glyph, serialised: (header bytes, data bytes)
pub struct TupleSpec {
    pub peak: Vec<i16>,
    pub shared_index: Option<u16>,
    pub inter: Option<(Vec<i16>, Vec<i16>)>,
    pub private_points: Option<Option<Vec<u16>>>, // Some(None) = private "all points"
    pub dx: Vec<i16>,
    pub dy: Vec<i16>,
}

pub fn tuple_bytes(t: &TupleSpec, rng: &mut Rng) -> (Vec<u8>, Vec<u8>) {
    let mut data = vec![];
    if let Some(pp) = &t.private_points {
        match pp {
            None => data.push(0),
            Some(p) => data.extend_from_slice(&enc_points(p, rng)),
        }
    }
    let mut all = t.dx.clone();
    all.extend_from_slice(&t.dy);
    data.extend_from_slice(&enc_deltas(&all, rng));
    let mut h = vec![];
    be16(&mut h, data.len() as u16);
    let mut flags = 0u16;
    if t.shared_index.is_none() {
        flags |= 0x8000;
    }
    if t.inter.is_some() {
        flags |= 0x4000;
    }
    if t.private_points.is_some() {
        flags |= 0x2000;
    }
    be16(&mut h, flags | t.shared_index.unwrap_or(0));
    if t.shared_index.is_none() {
        for v in &t.peak {
            be16(&mut h, *v as u16);
        }
    }
    if let Some((s, e)) = &t.inter {
        for v in s {
            be16(&mut h, *v as u16);
        }
        for v in e {
            be16(&mut h, *v as u16);
        }
    }
    (h, data)
}

/// a complete GlyphVariationData block for a glyph with `np` points (incl. phantom), plus the
/// shared tuples it refers to and a coordinate tuple aimed at its regions
pub fn gen_glyph_variation(rng: &mut Rng, ac: usize, np: usize) -> (Vec<u8>, Vec<Vec<i16>>, Vec<i16>) {
    let nshared = rng.below(3) as usize;
    let shared: Vec<Vec<i16>> = (0..nshared).map(|_| (0..ac).map(|_| gen_axis(rng).1).collect()).collect();
    let ntuples = match rng.below(6) {
        0 => 0,
        1 | 2 => 1,
        3 | 4 => 2,
        _ => 3 + rng.below(3) as usize,
    };
    let shared_points: Option<Option<Vec<u16>>> = if rng.chance(1, 2) {
        Some(if rng.chance(1, 4) { None } else { Some(gen_point_list(rng, np)) })
    } else {
        None
    };
    let mut headers = vec![];
    let mut datas = vec![];
    let mut axes_seen: Vec<Vec<(i16, i16, i16)>> = vec![];
    for _ in 0..ntuples {
        let axes: Vec<(i16, i16, i16)> = (0..ac).map(|_| gen_axis(rng)).collect();
        let use_shared = nshared > 0 && rng.chance(1, 3);
        let shared_index = if use_shared {
            Some(if rng.chance(1, 30) { nshared as u16 } else { rng.below(nshared as u64) as u16 })
        } else {
            None
        };
        let inter = if rng.chance(1, 3) {
            Some((axes.iter().map(|a| a.0).collect(), axes.iter().map(|a| a.2).collect()))
        } else {
            None
        };
        let private = if shared_points.is_none() || rng.chance(1, 2) {
            if rng.chance(1, 30) && shared_points.is_none() {
                None // neither shared nor private: MissingValue
            } else {
                Some(if rng.chance(1, 4) { None } else { Some(gen_point_list(rng, np)) })
            }
        } else {
            None
        };
        let npts = match (&private, &shared_points) {
            (Some(None), _) => np,
            (Some(Some(p)), _) => p.len(),
            (None, Some(None)) => np,
            (None, Some(Some(p))) => p.len(),
            (None, None) => 0,
        };
        let t = TupleSpec {
            peak: axes.iter().map(|a| a.1).collect(),
            shared_index,
            inter,
            private_points: private,
            dx: (0..npts).map(|_| gen_delta(rng)).collect(),
            dy: (0..npts).map(|_| gen_delta(rng)).collect(),
        };
        let (h, d) = tuple_bytes(&t, rng);
        headers.push(h);
        datas.push(d);
        axes_seen.push(match shared_index {
            Some(i) if (i as usize) < nshared => (0..ac).map(|k| (0.min(shared[i as usize][k]), shared[i as usize][k], 0.max(shared[i as usize][k]))).collect(),
            _ => axes,
        });
    }
    let mut sp = vec![];
    if let Some(p) = &shared_points {
        match p {
            None => sp.push(0),
            Some(p) => sp.extend_from_slice(&enc_points(p, rng)),
        }
    }
    let hlen: usize = 4 + headers.iter().map(|h| h.len()).sum::<usize>();
    let mut v = vec![];
    be16(&mut v, ntuples as u16 | if shared_points.is_some() { 0x8000 } else { 0 });
    be16(&mut v, hlen as u16);
    for h in &headers {
        v.extend_from_slice(h);
    }
    v.extend_from_slice(&sp);
    for d in &datas {
        v.extend_from_slice(d);
    }
    if rng.chance(1, 12) {
        mangle(&mut v, rng);
    }
    let coords: Vec<i16> = (0..ac)
        .map(|k| {
            if axes_seen.is_empty() || rng.chance(1, 8) {
                f2(rng)
            } else {
                let t = rng.below(axes_seen.len() as u64) as usize;
                gen_coord(rng, axes_seen[t][k])
            }
        })
        .collect();
    let coords = if rng.chance(1, 10) { vec![0; ac] } else { coords };
    (v, shared, coords)
}

fn gen_gd(rng: &mut Rng) -> String {
    let ac = 1 + rng.below(3) as usize;
    let (glyph, np) = match rng.below(8) {
        0 => ("E".to_string(), 4),
        1 => {
            let n = 1 + rng.below(4) as usize;
            (format!("C:{}", n), n + 4)
        }
        _ => {
            let (pts, ends) = gen_outline(rng);
            let ps: Vec<String> = pts.iter().map(|(x, y)| format!("{},{}", x, y)).collect();
            (format!("S:{}:{}", join(&ps, " "), join(&ends, ",")), pts.len() + 4)
        }
    };
    let (data, shared, coords) = gen_glyph_variation(rng, ac, np);
    let sh: Vec<String> = shared.iter().map(|t| join(t, ",")).collect();
    format!("gd|{}|{}|{}|{}|{}", ac, join(&coords, ","), if sh.is_empty() { "-".to_string() } else { sh.join(";") }, glyph, hex(&data))
}

pub fn gen(rng: &mut Rng) -> String {
    match rng.below(45) {
        0..=3 => {
            let a = gen_axis(rng);
            format!("cs|{},{},{},{}", gen_coord(rng, a), a.0, a.1, a.2)
        }
        4..=6 => {
            let n = 1 + rng.below(3) as usize;
            let axes: Vec<(i16, i16, i16)> = (0..n).map(|_| gen_axis(rng)).collect();
            let nt = if rng.chance(1, 10) { rng.below(5) as usize } else { n };
            let t: Vec<i16> = (0..nt).map(|i| if i < n { gen_coord(rng, axes[i]) } else { f2(rng) }).collect();
            let rs: Vec<String> = axes.iter().map(|(s, p, e)| format!("{},{},{}", s, p, e)).collect();
            format!("rs|{}|{}", rs.join(";"), join(&t, ","))
        }
        7 => {
            let k = rng.below(4) as usize;
            format!("rc|{}", hex(&rng.bytes(k)))
        }
        8..=11 => gen_pp(rng),
        12..=15 => gen_pd(rng),
        16 | 17 => {
            let g: i64 = *rng.pick(&[3, 10, 1000, 32767]);
            format!(
                "inf|{},{},{},{},{}",
                rng.range(-g, g),
                rng.range(-g, g),
                rng.range(-g, g),
                gen_delta(rng),
                gen_delta(rng)
            )
        }
        18..=22 => gen_rd(rng),
        23 | 24 => gen_dm(rng),
        25..=27 => gen_iv(rng),
        28 => gen_vt(rng),
        29 => gen_ad(rng),
        30..=35 => gen_gd(rng),
        36..=38 => e2e::gen_e2e(rng),
        39 => e2e::gen_fx(rng),
        40..=43 => cff2::gen_c2(rng),
        _ => cff2::gen_c2f(rng),
    }
}

fn main() {
    harness_main(&run, &mut gen);
}
