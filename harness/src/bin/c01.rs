//! C01: untrusted font data must be rejected with an error, never a crash.
//! Structured mutation of fixture fonts crossed with every public entry point, each entry under
//! catch_unwind with a wall-clock measurement; whole cases run in child processes so that aborts
//! (stack overflow, allocation failure under an address-space limit) are observed too.
//!
//! input  = FIXTURE|MUTSEED|NMUT          (MUTSEED 0 = the unmodified fixture)
//! output = ok | panic:<entry>:<file:line or message class> | slow:<entry>:<ms> | abort:<signal or exit code>
use allsorts::binary::read::ReadScope;
use allsorts::bitmap::BitDepth;
use allsorts::cff::cff2::CFF2;
use allsorts::cff::outline::CFF2Outlines;
use allsorts::cff::CFF;
use allsorts::font::{Font, MatchingPresentation};
use allsorts::font_data::FontData;
use allsorts::gsub::{FeatureMask, Features};
use allsorts::outline::{OutlineBuilder, OutlineSink};
use allsorts::pathfinder_geometry::line_segment::LineSegment2F;
use allsorts::pathfinder_geometry::vector::Vector2F;
use allsorts::subset;
use allsorts::tables::cmap::{Cmap, CmapSubtable};
use allsorts::tables::glyf::GlyfTable;
use allsorts::tables::loca::LocaTable;
use allsorts::tables::{Fixed, FontTableProvider, HeadTable, MaxpTable};
use allsorts::tag;
use allsorts::variations;
use avh::prng::Rng;
use std::panic::{catch_unwind, AssertUnwindSafe};
use std::sync::Mutex;

static LAST_PANIC: Mutex<String> = Mutex::new(String::new());

/// allocator wrapper recording the largest single request: a size field of the font must not be
/// able to drive an allocation out of proportion to the input ("exhausts memory through a size field")
struct TrackingAlloc;
static MAX_REQUEST: std::sync::atomic::AtomicUsize = std::sync::atomic::AtomicUsize::new(0);
static ABORT_ON_HUGE: std::sync::atomic::AtomicBool = std::sync::atomic::AtomicBool::new(false);
unsafe impl std::alloc::GlobalAlloc for TrackingAlloc {
    unsafe fn alloc(&self, l: std::alloc::Layout) -> *mut u8 {
        if l.size() > (1 << 30) && ABORT_ON_HUGE.load(std::sync::atomic::Ordering::Relaxed) {
            std::process::abort(); // debugging aid: run under gdb with C01_ABORT_ON_HUGE=1 to see who asks
        }
        MAX_REQUEST.fetch_max(l.size(), std::sync::atomic::Ordering::Relaxed);
        std::alloc::System.alloc(l)
    }
    unsafe fn dealloc(&self, p: *mut u8, l: std::alloc::Layout) {
        std::alloc::System.dealloc(p, l)
    }
    unsafe fn realloc(&self, p: *mut u8, l: std::alloc::Layout, n: usize) -> *mut u8 {
        MAX_REQUEST.fetch_max(n, std::sync::atomic::Ordering::Relaxed);
        std::alloc::System.realloc(p, l, n)
    }
    unsafe fn alloc_zeroed(&self, l: std::alloc::Layout) -> *mut u8 {
        MAX_REQUEST.fetch_max(l.size(), std::sync::atomic::Ordering::Relaxed);
        std::alloc::System.alloc_zeroed(l)
    }
}
#[global_allocator]
static GLOBAL: TrackingAlloc = TrackingAlloc;

/// CPU time of this thread in milliseconds (wall-clock would raise false alarms on a loaded machine)
fn cpu_ms() -> u128 {
    let mut ts = libc::timespec { tv_sec: 0, tv_nsec: 0 };
    unsafe { libc::clock_gettime(libc::CLOCK_THREAD_CPUTIME_ID, &mut ts) };
    (ts.tv_sec as u128) * 1000 + (ts.tv_nsec as u128) / 1_000_000
}

struct NullSink(u64);
impl OutlineSink for NullSink {
    fn move_to(&mut self, _: Vector2F) {
        self.0 += 1;
    }
    fn line_to(&mut self, _: Vector2F) {
        self.0 += 1;
    }
    fn quadratic_curve_to(&mut self, _: Vector2F, _: Vector2F) {
        self.0 += 1;
    }
    fn cubic_curve_to(&mut self, _: LineSegment2F, _: Vector2F) {
        self.0 += 1;
    }
    fn close(&mut self) {
        self.0 += 1;
    }
}

fn repo() -> String {
    std::env::var("VERIF_REPO").unwrap_or_else(|_| "/repo".to_string())
}

pub const FIXTURES: &[&str] = &[
    "opentype/test-font.ttf",
    "opentype/SFNT-TTF-Composite.ttf",
    "opentype/Klei.otf",
    "opentype/SourceCodePro-Regular.otf",
    "opentype/OpenSans-Regular.ttf",
    "opentype/TerminusTTF-4.47.0.ttf",
    "opentype/NotoSans-VF.abc.ttf",
    "opentype/SymbolTest-Regular.ttf",
    "opentype/Ubuntu Mono with Numderline.ttf",
    "opentype/cff2/SourceSansVariable-Roman.abc.otf",
    "variable/UnderlineTest-VF.ttf",
    "variable/Inter[slnt,wght].abc.ttf",
    "woff1/valid-001.woff",
    "woff2/test-font.woff2",
    "woff2/SFNT-TTF-Composite.woff2",
    "sbix/sbix-dupe.ttf",
    "svg/gzipped.ttf",
    "woff1/valid-005.woff",
    "woff2/roundtrip-hmtx-lsb-001.woff2",
    "woff2/roundtrip-offset-tables-001.woff2",
    "woff2/test_glyf_loca_null_transforms.woff2",
];

fn be32(b: &[u8], at: usize) -> u32 {
    u32::from_be_bytes([b[at], b[at + 1], b[at + 2], b[at + 3]])
}

/// table directory of a bare sfnt: (tag, offset, length); empty for other containers
fn directory(b: &[u8]) -> Vec<(u32, usize, usize)> {
    if b.len() < 12 {
        return vec![];
    }
    let magic = be32(b, 0);
    if !(magic == 0x00010000 || magic == 0x4F54544F || magic == 0x74727565) {
        return vec![];
    }
    let n = u16::from_be_bytes([b[4], b[5]]) as usize;
    (0..n)
        .filter(|i| 12 + 16 * i + 16 <= b.len())
        .map(|i| {
            let at = 12 + 16 * i;
            (be32(b, at), be32(b, at + 8) as usize, be32(b, at + 12) as usize)
        })
        .collect()
}

fn mutate(data: &mut Vec<u8>, rng: &mut Rng, nmut: usize) {
    for _ in 0..nmut {
        let dir = directory(data);
        let len = data.len();
        if len < 8 {
            return;
        }
        // choose where: inside a table (structure-aware) or anywhere
        let (lo, hi) = if !dir.is_empty() && rng.chance(4, 5) {
            let (_, o, l) = *rng.pick(&dir);
            if o < len && l > 0 {
                (o, (o + l).min(len))
            } else {
                (0, len)
            }
        } else {
            (0, len)
        };
        if hi <= lo {
            continue;
        }
        let span = (hi - lo) as u64;
        // bias towards the beginning of the table, where headers/counts/offsets live
        let at = lo + if rng.chance(2, 3) { rng.below(span.min(64)) as usize } else { rng.below(span) as usize };
        match rng.below(13) {
            0..=3 if at + 2 <= len => {
                let v = *rng.pick(&[0u16, 1, 2, 0x7fff, 0x8000, 0xfffe, 0xffff, (hi - lo) as u16, ((hi - lo) as u16).wrapping_add(1)]);
                data[at..at + 2].copy_from_slice(&v.to_be_bytes());
            }
            4..=6 if at + 4 <= len => {
                let v = *rng.pick(&[0u32, 1, 0x7fffffff, 0x80000000, 0xffffffff, 0xfffffffe, len as u32, (len as u32).wrapping_sub(1), (len as u32) + 1, (hi - lo) as u32]);
                data[at..at + 4].copy_from_slice(&v.to_be_bytes());
            }
            7 => data[at] ^= 1 << rng.below(8),
            8 => data[at] = rng.next() as u8,
            9 => {
                // truncate at a table boundary +-k or anywhere
                let cut = if !dir.is_empty() && rng.chance(1, 2) {
                    let (_, o, l) = *rng.pick(&dir);
                    (o + l).wrapping_sub(rng.below(4) as usize).min(len)
                } else {
                    rng.below(len as u64) as usize
                };
                data.truncate(cut.max(4));
            }
            10 if dir.len() >= 2 => {
                // swap two directory entries' offsets/lengths (cross-table contradiction)
                let i = rng.below(dir.len() as u64) as usize;
                let j = rng.below(dir.len() as u64) as usize;
                for k in 8..16 {
                    data.swap(12 + 16 * i + k, 12 + 16 * j + k);
                }
            }
            11 => {
                // a 4-letter tag followed by a 16-bit reference (sbix `dupe` records, script / feature / langsys
                // records, ...): re-point the reference at a small index or a neighbour, which is how reference
                // cycles and self-references come about
                let mut hits = vec![];
                let end = hi.min(len);
                let mut i = lo;
                // records whose reference is a glyph id that is followed at run time (sbix `dupe`)
                let dupes: Vec<usize> = data.windows(4).enumerate().filter(|(_, w)| *w == b"dupe").map(|(k, _)| k).filter(|k| k + 6 <= len).collect();
                if !dupes.is_empty() && rng.chance(1, 2) {
                    hits = dupes;
                    i = end;
                }
                while i + 6 <= end && hits.len() < 4096 {
                    if data[i..i + 4].iter().all(|b| b.is_ascii_alphanumeric() || *b == b' ') {
                        hits.push(i);
                        i += 4;
                    } else {
                        i += 1;
                    }
                }
                if !hits.is_empty() {
                    let h = *rng.pick(&hits);
                    let old = u16::from_be_bytes([data[h + 4], data[h + 5]]);
                    let v = match rng.below(4) {
                        0 => rng.below(8) as u16,
                        1 => old.wrapping_add(1),
                        2 => old.wrapping_sub(1),
                        _ => old.wrapping_add(rng.range(-3, 3) as u16),
                    };
                    data[h + 4..h + 6].copy_from_slice(&v.to_be_bytes());
                }
            }
            _ => {
                // remove a table from the directory by renaming its tag
                if !dir.is_empty() {
                    let i = rng.below(dir.len() as u64) as usize;
                    data[12 + 16 * i] = b'~';
                }
            }
        }
    }
}

fn short_file(f: &str) -> String {
    if f.starts_with("src/") {
        return format!("HARNESS/{}", f);
    }
    match f.rfind("/src/") {
        Some(i) if f.contains("repo") || f.starts_with("/repo") => f[i + 5..].to_string(),
        _ => f.rsplit('/').take(2).collect::<Vec<_>>().into_iter().rev().collect::<Vec<_>>().join("/"),
    }
}

/// name of the function whose body contains `line` (nearest preceding `fn name`), so that a known
/// finding stays identifiable when unrelated edits shift line numbers
fn enclosing_fn(file: &str, line: u32) -> String {
    let txt = match std::fs::read_to_string(file) {
        Ok(t) => t,
        Err(_) => return format!("line{}", line),
    };
    let mut name = String::from("?");
    for (i, l) in txt.lines().enumerate() {
        if i as u32 >= line {
            break;
        }
        if let Some(p) = l.find("fn ") {
            let before = &l[..p];
            if before.trim().is_empty() || before.trim_end().ends_with("pub") || before.contains("pub(") || before.trim_end().ends_with("unsafe") || before.trim_end().ends_with("const") {
                let rest = &l[p + 3..];
                let n: String = rest.chars().take_while(|c| c.is_alphanumeric() || *c == '_').collect();
                if !n.is_empty() {
                    name = n;
                }
            }
        }
    }
    name
}

fn msg_class(m: &str) -> String {
    let m = m.to_lowercase();
    for (pat, cls) in [
        ("overflow", "overflow"),
        ("out of range", "slice-range"),
        ("out of bounds", "index"),
        ("starts at", "slice-range"),
        ("unwrap", "unwrap"),
        ("unreachable", "unreachable"),
        ("assertion", "assert"),
        ("verif-oob", "oob"),
        ("divide by zero", "div0"),
        ("capacity", "capacity"),
        ("range start", "range"),
    ] {
        if m.contains(pat) {
            return cls.to_string();
        }
    }
    m.split_whitespace().take(3).collect::<Vec<_>>().join("-")
}

struct Report {
    bad: Option<String>,
}

fn guard<F: FnOnce()>(rep: &mut Report, entry: &str, size: usize, f: F) {
    if rep.bad.is_some() {
        return;
    }
    let t = cpu_ms();
    MAX_REQUEST.store(0, std::sync::atomic::Ordering::Relaxed);
    let r = catch_unwind(AssertUnwindSafe(f));
    let ms = cpu_ms() - t;
    let max_req = MAX_REQUEST.load(std::sync::atomic::Ordering::Relaxed);
    if r.is_err() {
        let loc = LAST_PANIC.lock().unwrap().clone();
        rep.bad = Some(format!("panic:{}:{}", entry, loc));
    } else if ms > 4000 + (size as u128) / 100 {
        rep.bad = Some(format!("slow:{}:{}", entry, ms));
    } else if max_req > (256 << 20) + 64 * size {
        // a single allocation request far beyond anything the input's size justifies
        rep.bad = Some(format!("alloc:{}:{}MiB", entry, max_req >> 20));
    }
}

fn exercise(data: &[u8], rng: &mut Rng) -> String {
    let mut rep = Report { bad: None };
    let size = data.len();
    let fd = match catch_unwind(AssertUnwindSafe(|| ReadScope::new(data).read::<FontData<'_>>())) {
        Ok(Ok(fd)) => fd,
        Ok(Err(_)) => return "ok".to_string(),
        Err(_) => return format!("panic:FontData::read:{}", LAST_PANIC.lock().unwrap()),
    };
    for index in [0usize, 1, 7] {
        let provider = match catch_unwind(AssertUnwindSafe(|| fd.table_provider(index))) {
            Ok(Ok(p)) => p,
            Ok(Err(_)) => continue,
            Err(_) => return format!("panic:table_provider:{}", LAST_PANIC.lock().unwrap()),
        };
        let gids: Vec<u16> = vec![0, 1, 2, 3, rng.below(40) as u16, rng.below(2000) as u16, 0xffff];
        guard(&mut rep, "table_access", size, || {
            if let Some(tags) = provider.table_tags() {
                for t in tags {
                    let _ = provider.table_data(t);
                    let _ = provider.has_table(t);
                }
            }
        });
        guard(&mut rep, "cmap", size, || {
            if let Ok(Some(d)) = provider.table_data(tag::CMAP) {
                if let Ok(cmap) = ReadScope::new(&d).read::<Cmap<'_>>() {
                    for rec in cmap.encoding_records() {
                        if let Ok(sub) = cmap.scope.offset(rec.offset as usize).read::<CmapSubtable<'_>>() {
                            for ch in [0u32, 0x20, 0x41, 0xff, 0x100, 0xfffe, 0xffff, 0x10000, 0x1f600, 0x10ffff, u32::MAX] {
                                let _ = sub.map_glyph(ch);
                            }
                            let mut n = 0u64;
                            let _ = sub.mappings_fn(|_, _| n += 1);
                        }
                    }
                }
            }
        });
        guard(&mut rep, "outline_glyf", size, || {
            let head = provider.table_data(tag::HEAD).ok().flatten().and_then(|d| ReadScope::new(&d).read::<HeadTable>().ok());
            let maxp = provider.table_data(tag::MAXP).ok().flatten().and_then(|d| ReadScope::new(&d).read::<MaxpTable>().ok());
            if let (Some(head), Some(maxp)) = (head, maxp) {
                if let (Ok(Some(ld)), Ok(Some(gd))) = (provider.table_data(tag::LOCA), provider.table_data(tag::GLYF)) {
                    if let Ok(loca) = ReadScope::new(&ld).read_dep::<LocaTable<'_>>((usize::from(maxp.num_glyphs), head.index_to_loc_format)) {
                        if let Ok(mut glyf) = ReadScope::new(&gd).read_dep::<GlyfTable<'_>>(&loca) {
                            let mut sink = NullSink(0);
                            for g in &gids {
                                let _ = glyf.visit(*g, &mut sink);
                            }
                        }
                    }
                }
            }
        });
        guard(&mut rep, "outline_cff", size, || {
            if let Ok(Some(d)) = provider.table_data(tag::CFF) {
                if let Ok(mut cff) = ReadScope::new(&d).read::<CFF<'_>>() {
                    let mut sink = NullSink(0);
                    for g in &gids {
                        let _ = cff.visit(*g, &mut sink);
                    }
                }
            }
            if let Ok(Some(d)) = provider.table_data(tag::CFF2) {
                if let Ok(cff2) = ReadScope::new(&d).read::<CFF2<'_>>() {
                    let mut sink = NullSink(0);
                    let mut o = CFF2Outlines { table: &cff2, tuple: None };
                    for g in &gids {
                        let _ = o.visit(*g, &mut sink);
                    }
                }
            }
        });
        guard(&mut rep, "subset", size, || {
            let _ = subset::subset(&provider, &[0, 1, 2]);
            let _ = subset::subset(&provider, &[0, gids[4]]);
        });
        guard(&mut rep, "prince_subset", size, || {
            let _ = subset::prince::subset(&provider, &[0, 1, 3], subset::prince::PrinceCmapTarget::MacRoman, true);
            let _ = subset::prince::subset(&provider, &[0, 2], subset::prince::PrinceCmapTarget::Unrestricted, false);
        });
        guard(&mut rep, "whole_font", size, || {
            if let Some(tags) = provider.table_tags() {
                let _ = subset::whole_font(&provider, &tags);
            }
        });
        guard(&mut rep, "instance", size, || {
            let coords: Vec<Fixed> = (0..rng.below(4)).map(|_| Fixed::from_raw((rng.range(-100, 1000) as i32) << 16)).collect();
            let _ = variations::instance(&provider, &coords);
            let _ = variations::instance(&provider, &[]);
        });
        // Font-level API (consumes the provider)
        if rep.bad.is_none() {
            let font = catch_unwind(AssertUnwindSafe(|| Font::new(provider)));
            match font {
                Err(_) => {
                    rep.bad = Some(format!("panic:Font::new:{}", LAST_PANIC.lock().unwrap()));
                }
                Ok(Err(_)) => {}
                Ok(Ok(mut font)) => {
                    guard(&mut rep, "font_queries", size, || {
                        if std::env::var("C01_DEBUG").is_ok() {
                            eprintln!("font loaded: {} glyphs", font.num_glyphs());
                        }
                        for ch in ['A', ' ', 'é', '\u{1F600}', '\u{FFFF}', '\u{F020}'] {
                            let _ = font.lookup_glyph_index(ch, MatchingPresentation::NotRequired, None);
                        }
                        let _ = font.glyph_names(&gids);
                        for g in &gids {
                            let _ = font.horizontal_advance(*g);
                            let _ = font.vertical_advance(*g);
                            let _ = font.lookup_glyph_image(*g, 16, BitDepth::ThirtyTwo);
                        }
                        let _ = font.axis_names();
                        let _ = font.variation_axes();
                        let _ = font.os2_table();
                        let _ = font.has_embedded_images();
                    });
                    guard(&mut rep, "shape", size, || {
                        for (text, script) in [("Affix fi 1/2", tag::LATN), ("\u{0915}\u{094D}\u{0937}\u{093F}", tag::DEVA), ("\u{0644}\u{0627}\u{0651}", tag::ARAB)] {
                            let glyphs = font.map_glyphs(text, script, MatchingPresentation::NotRequired);
                            let _ = font.shape(glyphs, script, None, &Features::Mask(FeatureMask::default()), None, true);
                        }
                    });
                }
            }
        }
        if rep.bad.is_some() {
            break;
        }
    }
    rep.bad.unwrap_or_else(|| "ok".to_string())
}

// ---- the other properties' harnesses as sources of structured untrusted input -------------------------
// Byte mutation of fixture fonts rarely produces e.g. a cmap group spanning 2^32 code points or a cycle of
// nested lookups; the generators of the per-property harnesses build such tables on purpose.  Their
// `run` functions drive the crate's parsers / interpreters on the synthesised bytes; here only totality is
// observed: any panic raised inside the crate (even one the component catches), the CPU time and the
// largest single allocation request.
macro_rules! component {
    ($name:ident, $file:literal) => {
        #[path = $file]
        #[allow(dead_code, unused_imports, unused_variables, unused_mut)]
        mod $name;
    };
}
component!(c04, "c04.rs");
component!(c05, "c05.rs");
component!(c06, "c06.rs");
component!(c07, "c07.rs");
component!(c09, "c09.rs");
component!(c10, "c10.rs");
component!(c11, "c11.rs");
component!(c12, "c12.rs");
component!(c13, "c13.rs");
component!(c16, "c16.rs");
component!(c18, "c18.rs");

type RunFn = fn(&str) -> String;
type GenFn = fn(&mut Rng) -> String;
const COMPONENTS: &[(&str, RunFn, GenFn)] = &[
    ("c04", c04::run, c04::gen),
    ("c05", c05::run, c05::gen),
    ("c06", c06::run, c06::gen),
    ("c07", c07::run, c07::gen),
    ("c09", c09::run, c09::gen),
    ("c10", c10::run, c10::gen),
    ("c11", c11::run_case, c11::gen_case),
    ("c12", c12::run, c12::gen),
    ("c13", c13::run, c13::gen),
    ("c16", c16::run, c16::gen),
    ("c18", c18::run, c18::gen),
];

/// C04 case trees `M (gdef layout run glyphs)`: run kinds 0 / 2 are gsub::apply over the whole run; kind 1
/// is gsub_apply_lookup on a caller-chosen window, where an out-of-range window is a caller error
fn c04_whole_run(case: &str) -> bool {
    let b = case.as_bytes();
    let (mut depth, mut elem) = (0i32, 0);
    for i in 0..b.len() {
        match b[i] {
            b'(' => {
                depth += 1;
                if depth == 2 {
                    elem += 1;
                    if elem == 3 {
                        let rest = &case[i + 1..];
                        return rest.starts_with("0 ") || rest.starts_with("2 ");
                    }
                }
            }
            b')' => depth -= 1,
            _ => {}
        }
    }
    false
}

fn gen_component(rng: &mut Rng) -> String {
    loop {
        let (name, _, g) = *rng.pick(COMPONENTS);
        let line = g(rng);
        if name == "c04" && !c04_whole_run(&line) {
            continue;
        }
        return format!("X:{}:{}", name, line);
    }
}

fn run_component(name: &str, line: &str) -> String {
    let run = match COMPONENTS.iter().find(|c| c.0 == name) {
        Some(c) => c.1,
        None => return "ok".to_string(),
    };
    *LAST_PANIC.lock().unwrap() = String::new();
    MAX_REQUEST.store(0, std::sync::atomic::Ordering::Relaxed);
    let t = cpu_ms();
    let r = catch_unwind(AssertUnwindSafe(|| run(line)));
    let ms = cpu_ms() - t;
    let max_req = MAX_REQUEST.load(std::sync::atomic::Ordering::Relaxed);
    let loc = LAST_PANIC.lock().unwrap().clone();
    // panics located in the harness sources themselves (relative path src/...) are not the crate's
    if (r.is_err() || !loc.is_empty()) && !loc.starts_with("HARNESS") {
        format!("panic:{}:{}", name, loc)
    } else if ms > 1500 + (line.len() as u128) / 50 {
        // CPU time of this thread: a synthetic component input is processed in micro- to milliseconds
        format!("slow:{}:{}", name, ms)
    } else if max_req > (256 << 20) + 64 * line.len() {
        format!("alloc:{}:{}MiB", name, max_req >> 20)
    } else {
        "ok".to_string()
    }
}

fn run_case(input: &str) -> String {
    if let Some(rest) = input.strip_prefix("X:") {
        if let Some((name, line)) = rest.split_once(':') {
            return run_component(name, line);
        }
    }
    let parts: Vec<&str> = input.split('|').collect();
    let mut data = std::fs::read(format!("{}/tests/fonts/{}", repo(), parts[0])).unwrap_or_default();
    let seed: u64 = parts[1].parse().unwrap();
    let nmut: usize = parts[2].parse().unwrap();
    let mut rng = Rng::new(seed);
    if seed != 0 {
        mutate(&mut data, &mut rng, nmut);
    }
    exercise(&data, &mut rng)
}

fn gen(rng: &mut Rng) -> String {
    if rng.chance(1, 4) {
        return gen_component(rng);
    }
    let f = rng.pick(FIXTURES);
    let many = rng.chance(1, 4);
    let nmut = 1 + rng.below(if many { 12 } else { 3 }) as usize;
    format!("{}|{}|{}", f, 1 + rng.next() % 1_000_000_007, nmut)
}

fn main() {
    std::panic::set_hook(Box::new(|info| {
        let (file, line) = info.location().map(|l| (l.file().to_string(), l.line())).unwrap_or_default();
        let msg = if let Some(s) = info.payload().downcast_ref::<&str>() {
            s.to_string()
        } else if let Some(s) = info.payload().downcast_ref::<String>() {
            s.clone()
        } else {
            String::new()
        };
        *LAST_PANIC.lock().unwrap() = format!("{}:{}:{}", short_file(&file), enclosing_fn(&file, line), msg_class(&msg));
    }));
    if std::env::var("C01_ABORT_ON_HUGE").is_ok() {
        ABORT_ON_HUGE.store(true, std::sync::atomic::Ordering::Relaxed);
    }
    // cases run in child processes (avh::harness_main): an abort, a kill by the address-space limit or an
    // endless loop is attributed to the one input that caused it
    let mut k = 0usize;
    let mut gen_all = |rng: &mut Rng| -> String {
        // the pristine fixtures first, then mutated fixtures and synthetic component inputs
        if k < FIXTURES.len() {
            k += 1;
            return format!("{}|0|0", FIXTURES[k - 1]);
        }
        gen(rng)
    };
    avh::harness_main_keep_hook(&run_case, &mut gen_all);
}
