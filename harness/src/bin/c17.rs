//! C17 correspondence: `allsorts::scripts::preprocess_text` on generated code point sequences.
//!
//! input line  = TAG|CPS|CLASSES          (a text case)
//!             | T|CP|CCC                 (a class-table case: canonical class CCC of CP is Unicode data
//!                                         typed by hand below; the implementation returns the modified class)
//!   TAG     = four ASCII characters ('_' stands for a space: `lao_`) or eight hex digits (any u32)
//!   CPS     = comma separated hex code points, `-` when empty
//!   CLASSES = comma separated `cp:class` (hex:decimal), the *modified* combining class the implementation
//!             assigns (`unicode::mcc::modified_combining_class`) to every distinct character of the input
//!             and of the implementation's output; `-` when empty.  The model receives the class function
//!             as this table (characters not listed have class 0).
//! result      = ok:CPS | panic          (text case)      mcc:N (table case)
use allsorts::scripts::preprocess_text;
use allsorts::unicode::mcc::modified_combining_class;
use avh::harness_main;
use avh::prng::Rng;
use std::collections::BTreeSet;
use std::panic::{catch_unwind, AssertUnwindSafe};

fn parse_tag(s: &str) -> u32 {
    let b = s.as_bytes();
    if b.len() == 4 {
        let mut v = 0u32;
        for &c in b {
            v = (v << 8) | (if c == b'_' { b' ' } else { c }) as u32;
        }
        v
    } else {
        u32::from_str_radix(s, 16).expect("tag")
    }
}

fn show_tag(t: u32) -> String {
    let bs = t.to_be_bytes();
    if bs.iter().all(|&c| c.is_ascii_alphanumeric() || c == b' ') && !bs.iter().all(|c| c.is_ascii_hexdigit()) {
        bs.iter().map(|&c| if c == b' ' { '_' } else { c as char }).collect()
    } else {
        format!("{:08x}", t)
    }
}

fn parse_cps(s: &str) -> Vec<char> {
    if s == "-" || s.is_empty() {
        return vec![];
    }
    s.split(',')
        .map(|x| char::from_u32(u32::from_str_radix(x, 16).expect("cp")).expect("scalar value"))
        .collect()
}

fn show_cps(cs: &[char]) -> String {
    if cs.is_empty() {
        return "-".to_string();
    }
    cs.iter().map(|&c| format!("{:x}", c as u32)).collect::<Vec<_>>().join(",")
}

fn run_impl(tag: u32, cs: &[char]) -> Option<Vec<char>> {
    let mut v = cs.to_vec();
    match catch_unwind(AssertUnwindSafe(|| {
        preprocess_text(&mut v, tag);
        v
    })) {
        Ok(v) => Some(v),
        Err(_) => None,
    }
}

fn class_table(cs: &[char], out: Option<&Vec<char>>) -> String {
    let mut set: BTreeSet<char> = cs.iter().cloned().collect();
    if let Some(o) = out {
        set.extend(o.iter().cloned());
    }
    if set.is_empty() {
        return "-".to_string();
    }
    set.iter()
        .map(|&c| format!("{:x}:{}", c as u32, modified_combining_class(c) as u8))
        .collect::<Vec<_>>()
        .join(",")
}

/// canonical input line of a text case
fn line(tag: u32, cs: &[char]) -> String {
    let out = run_impl(tag, cs);
    format!("{}|{}|{}", show_tag(tag), show_cps(cs), class_table(cs, out.as_ref()))
}

fn run(input: &str) -> String {
    let f: Vec<&str> = input.split('|').collect();
    if f[0] == "T" {
        let c = parse_cps(f[1])[0];
        return format!("mcc:{}", modified_combining_class(c) as u8);
    }
    let tag = parse_tag(f[0]);
    let cs = parse_cps(f[1]);
    match run_impl(tag, &cs) {
        Some(v) => format!("ok:{}", show_cps(&v)),
        None => "panic".to_string(),
    }
}

// ---------------------------------------------------------------------------------------------
// Unicode data typed by hand (UnicodeData.txt field 3): one or more characters per canonical
// combining class value in use.  Only used for the `T` cases.
const CCC_SAMPLES: &[(u32, u8)] = &[
    (0x0041, 0), (0x0301, 230), (0x0334, 1), (0x16FF0, 6), (0x093C, 7), (0x3099, 8), (0x094D, 9),
    (0x05B0, 10), (0x05B1, 11), (0x05B2, 12), (0x05B3, 13), (0x05B4, 14), (0x05B5, 15), (0x05B6, 16),
    (0x05B7, 17), (0x05B8, 18), (0x05B9, 19), (0x05BB, 20), (0x05BC, 21), (0x05BD, 22), (0x05BF, 23),
    (0x05C1, 24), (0x05C2, 25), (0xFB1E, 26), (0x064B, 27), (0x064C, 28), (0x064D, 29), (0x064E, 30),
    (0x064F, 31), (0x0650, 32), (0x0651, 33), (0x0652, 34), (0x0670, 35), (0x0711, 36), (0x0C55, 84),
    (0x0C56, 91), (0x0E38, 103), (0x0E39, 103), (0x0E48, 107), (0x0EB8, 118), (0x0EC8, 122), (0x0F71, 129),
    (0x0F72, 130), (0x0F74, 132), (0x0321, 202), (0x1DCE, 214), (0x031B, 216), (0x302A, 218), (0x0323, 220),
    (0x302D, 222), (0x302E, 224), (0x1D16D, 226), (0x05AE, 228), (0x0315, 232), (0x035C, 233), (0x0361, 234),
    (0x0345, 240), (0x0E3A, 9), (0x0EBA, 9), (0x17D2, 9), (0x17DD, 230), (0x0DCA, 9), (0x09BC, 7),
    (0x00B7, 0), (0x02FF, 0), (0x0300, 230), (0x05C7, 18), (0x0618, 30), (0x0619, 31), (0x061A, 32),
    (0x0654, 230), (0x0655, 220), (0x06DC, 230), (0x08D3, 220), (0x08F3, 230), (0x1037, 7), (0x1039, 9),
];

// ---------------------------------------------------------------------------------------------
// alphabets
struct Alpha {
    tags: &'static [&'static str],
    bases: &'static [u32],
    marks: &'static [u32],    // non-zero combining class (mostly)
    special: &'static [u32],  // characters the script-specific rules look at
    seqs: &'static [&'static [u32]], // sequences the rules look at
}

const ZW: &[u32] = &[0x200C, 0x200D, 0x034F, 0x25CC, 0xFE0F, 0x0020];

const DEFAULT_A: Alpha = Alpha {
    tags: &["latn", "cyrl", "grek", "hebr", "DFLT", "dev2", "bng2", "knd2", "tibt", "hang"],
    bases: &[0x61, 0x65, 0x6F, 0x41, 0x3B1, 0x43E, 0x5D0, 0x5D1, 0x5E9, 0xE9, 0x2B0, 0x2FF, 0x1F600, 0x0F40],
    marks: &[
        0x301, 0x300, 0x302, 0x308, 0x323, 0x324, 0x327, 0x328, 0x31B, 0x345, 0x35C, 0x361, 0x334, 0x338, 0x315,
        0x321, 0x3099, 0x309A, 0x302A, 0x302B, 0x302C, 0x302D, 0x302E, 0x302F, 0x1D165, 0x1D16D, 0x5AE, 0x93C,
        0x94D, 0x16FF0, 0x5B0, 0x5B1, 0x5B2, 0x5B3, 0x5B4, 0x5B5, 0x5B6, 0x5B7, 0x5B8, 0x5B9, 0x5BB, 0x5BC,
        0x5BD, 0x5BF, 0x5C1, 0x5C2, 0xFB1E, 0x591, 0x5A1, 0x5C4, 0x5C5, 0x5C7, 0xF71, 0xF72, 0xF74, 0xF39,
        0x1DCE, 0xC55, 0xC56, 0xE38, 0xE3A,
    ],
    special: &[0x34F, 0x200D],
    seqs: &[],
};

const ARABIC_A: Alpha = Alpha {
    tags: &["arab"],
    bases: &[0x627, 0x628, 0x640, 0x649, 0x6C6, 0x647, 0x635, 0x644],
    marks: &[
        0x64B, 0x64C, 0x64D, 0x64E, 0x64F, 0x650, 0x651, 0x652, 0x670, 0x653, 0x654, 0x655, 0x656, 0x657, 0x658,
        0x65C, 0x6DC, 0x6E3, 0x6E7, 0x6E8, 0x8CA, 0x8CB, 0x8CD, 0x8CE, 0x8CF, 0x8D3, 0x8F3, 0x618, 0x619, 0x61A,
        0x6E1, 0x6ED, 0x610, 0x6D6, 0x6EA, 0x8E4, 0x8E9, 0x8F0, 0x8F1, 0x8F2,
    ],
    special: &[0x651, 0x651, 0x651, 0x654, 0x655, 0x658, 0x6DC, 0x6E3, 0x6E7, 0x6E8, 0x8CF, 0x8D3, 0x8F3, 0x34F],
    seqs: &[],
};

const SYRIAC_A: Alpha = Alpha {
    tags: &["syrc"],
    bases: &[0x710, 0x712, 0x715, 0x71D, 0x72C],
    marks: &[0x711, 0x730, 0x731, 0x732, 0x733, 0x734, 0x735, 0x736, 0x737, 0x738, 0x739, 0x73A, 0x73B, 0x73C,
             0x73D, 0x73E, 0x73F, 0x740, 0x741, 0x742, 0x743, 0x744, 0x745, 0x746, 0x747, 0x748, 0x749, 0x74A, 0x651],
    special: &[0x70F],
    seqs: &[],
};

const THAI_A: Alpha = Alpha {
    tags: &["thai", "lao_"],
    bases: &[0xE01, 0xE19, 0xE2D, 0xE32, 0xE40, 0xE81, 0xE99, 0xEAD, 0xEB2, 0xEC0],
    marks: &[0xE38, 0xE39, 0xE3A, 0xE48, 0xE49, 0xE4A, 0xE4B, 0xEB8, 0xEB9, 0xEBA, 0xEC8, 0xEC9, 0xECA, 0xECB],
    special: &[
        0xE33, 0xE33, 0xE33, 0xEB3, 0xEB3, 0xEB3, 0xE31, 0xE34, 0xE35, 0xE36, 0xE37, 0xE47, 0xE48, 0xE49, 0xE4A,
        0xE4B, 0xE4C, 0xE4D, 0xE4E, 0xE4F, 0xE46, 0xE30, 0xE3A, 0xEB1, 0xEB4, 0xEB5, 0xEB6, 0xEB7, 0xEBB, 0xEBC,
        0xEBA, 0xEC8, 0xEC9, 0xECA, 0xECB, 0xECC, 0xECD, 0xECE, 0xEC7, 0xEB0, 0xEB8,
    ],
    seqs: &[&[0xE19, 0xE49, 0xE33], &[0xE49, 0xE33, 0xE33], &[0xE33, 0xE33], &[0xEC9, 0xEB3], &[0xE19, 0xE3A, 0xE38]],
};

const KHMER_A: Alpha = Alpha {
    tags: &["khmr"],
    bases: &[0x1780, 0x1781, 0x1798, 0x179A, 0x17A2, 0x17B6, 0x17C1],
    marks: &[0x17D2, 0x17DD, 0x17D2],
    special: &[0x17BE, 0x17BF, 0x17C0, 0x17C4, 0x17C5, 0x17C1, 0x17C2, 0x17C3, 0x17BD, 0x17C6, 0x17CB, 0x17D0, 0x17D1],
    seqs: &[&[0x1780, 0x17D2, 0x1798, 0x17C4], &[0x17BE, 0x17BE], &[0x17C1, 0x17C4]],
};

const MYANMAR_A: Alpha = Alpha {
    tags: &["mymr", "mym2"],
    bases: &[0x1000, 0x1001, 0x101B, 0x1031, 0x102B, 0x103B],
    marks: &[0x1037, 0x1039, 0x103A, 0x108D],
    special: &[0x1031, 0x103C, 0x1036],
    seqs: &[],
};

/// the ten Indic1 tags with the offset of their Unicode block
const INDIC: &[(&str, u32)] = &[
    ("deva", 0x0900), ("beng", 0x0980), ("guru", 0x0A00), ("gujr", 0x0A80), ("orya", 0x0B00),
    ("taml", 0x0B80), ("telu", 0x0C00), ("knda", 0x0C80), ("mlym", 0x0D00), ("sinh", 0x0D80),
];

/// sequences the Indic rules look at (typed from the Microsoft USE vowel-constraint list and the
/// Unicode canonical decompositions; deliberately not copied from the allsorts tables)
const INDIC_SEQS: &[&[u32]] = &[
    &[0x0905, 0x093E], &[0x0905, 0x0946], &[0x0909, 0x0941], &[0x090F, 0x0945], &[0x0906, 0x0948],
    &[0x0930, 0x094D, 0x0907], &[0x0930, 0x094D, 0x0908], &[0x0930, 0x094D], &[0x0905, 0x0930, 0x094D, 0x0907],
    &[0x0905, 0x0905, 0x093E], &[0x0905, 0x093E, 0x093E], &[0x0905, 0x0930, 0x094D],
    &[0x0985, 0x09BE], &[0x098B, 0x09C3], &[0x098C, 0x09E2], &[0x09AF, 0x09BC], &[0x09AF, 0x09BC, 0x09BC],
    &[0x09AF, 0x09AF, 0x09BC], &[0x09AF, 0x09CD, 0x09BC], &[0x09AF, 0x09BC, 0x09AF, 0x09BC], &[0x0995, 0x09CB],
    &[0x0995, 0x09CC], &[0x09AF, 0x09CB, 0x09BC], &[0x09AF, 0x0301, 0x09BC],
    &[0x0A05, 0x0A3E], &[0x0A72, 0x0A3F], &[0x0A73, 0x0A4B], &[0x0A85, 0x0ABE, 0x0AC5], &[0x0AC5, 0x0ABE],
    &[0x0B05, 0x0B3E], &[0x0B0F, 0x0B57], &[0x0B15, 0x0B48], &[0x0B15, 0x0B4B], &[0x0B15, 0x0B4C],
    &[0x0B95, 0x0BCA], &[0x0B95, 0x0BCB], &[0x0B95, 0x0BCC],
    &[0x0C12, 0x0C55], &[0x0C3F, 0x0C55], &[0x0C15, 0x0C48], &[0x0C15, 0x0C4D, 0x0C56], &[0x0C12, 0x0C4C],
    &[0x0CB0, 0x0CCD, 0x200D], &[0x0CB0, 0x0CCD, 0x200D, 0x0C95], &[0x0C95, 0x0CB0, 0x0CCD, 0x200D],
    &[0x0CB0, 0x0CCD, 0x200C], &[0x0CB0, 0x0CBC, 0x0CCD, 0x200D], &[0x0CB0, 0x0CCD, 0x0CBC, 0x200D],
    &[0x0C95, 0x0CC0], &[0x0C95, 0x0CC7], &[0x0C95, 0x0CC8], &[0x0C95, 0x0CCA], &[0x0C95, 0x0CCB],
    &[0x0C89, 0x0CBE], &[0x0C92, 0x0CCC],
    &[0x0D15, 0x0D4A], &[0x0D15, 0x0D4B], &[0x0D15, 0x0D4C], &[0x0D12, 0x0D3E], &[0x0D07, 0x0D57],
    &[0x0D9A, 0x0DDA], &[0x0D9A, 0x0DDC], &[0x0D9A, 0x0DDD], &[0x0D9A, 0x0DDE], &[0x0D85, 0x0DCF],
    &[0x0D91, 0x0DCA], &[0x0D91, 0x0DDA], &[0x0D91, 0x0DDC], &[0x0D94, 0x0DDF],
];

fn ch(v: u32) -> char {
    char::from_u32(v).unwrap_or('\u{FFFD}')
}

fn random_cp(rng: &mut Rng) -> char {
    let v = match rng.below(6) {
        0 => rng.below(0x300) as u32,
        1 => 0x300 + rng.below(0x70) as u32,
        2 => rng.below(0x3000) as u32,
        3 => rng.below(0x11_0000) as u32,
        4 => 0x1D100 + rng.below(0x100) as u32,
        _ => *rng.pick(&[0u32, 0xD7FF, 0xE000, 0xFFFF, 0x10000, 0x10FFFF, 0x2FF, 0x300, 0x25CC]),
    };
    ch(v)
}

/// a random string over an alphabet: clusters of a base followed by 0..k marks
fn gen_alpha(rng: &mut Rng, a: &Alpha, long: bool) -> Vec<char> {
    let mut cs = vec![];
    let clusters = if long { rng.range(1, 3) } else { rng.range(0, 8) };
    let mut long_left = long;
    for _ in 0..clusters {
        match rng.below(12) {
            0 => {}
            1 => cs.push(random_cp(rng)),
            2 if !a.seqs.is_empty() => cs.extend(rng.pick(a.seqs).iter().map(|&v| ch(v))),
            3 if !a.special.is_empty() => cs.push(ch(*rng.pick(a.special))),
            _ => cs.push(ch(*rng.pick(a.bases))),
        }
        let nmarks = if long_left {
            long_left = false;
            { let hi = if rng.chance(1, 3) { 300 } else { 70 }; rng.range(21, hi) }
        } else {
            match rng.below(8) {
                0 => 0,
                1 | 2 => 1,
                3 | 4 => 2,
                5 => 3,
                6 => rng.range(4, 8),
                _ => rng.range(8, 20),
            }
        };
        // a run draws from a small sub-pool so that equal classes and repeated marks are frequent
        let pool: Vec<u32> = (0..rng.range(1, 6)).map(|_| *rng.pick(a.marks)).collect();
        for _ in 0..nmarks {
            let v = match rng.below(16) {
                0 => *rng.pick(a.marks),
                1 | 2 | 3 if !a.special.is_empty() => *rng.pick(a.special),
                4 if !long => *rng.pick(ZW),
                _ => *rng.pick(&pool),
            };
            cs.push(ch(v));
        }
    }
    cs
}

fn gen_indic(rng: &mut Rng, base: u32, long: bool) -> Vec<char> {
    let mut cs = vec![];
    let n = if long { rng.range(1, 3) } else { rng.range(0, 10) };
    let mut long_left = long;
    for _ in 0..n {
        match rng.below(14) {
            0 => cs.push(random_cp(rng)),
            1 => cs.push(ch(*rng.pick(ZW))),
            2 | 3 => {
                // independent vowel + dependent vowel of the block
                cs.push(ch(base + 0x05 + rng.below(0x10) as u32));
                cs.push(ch(base + 0x3A + rng.below(0x1E) as u32));
            }
            4 | 5 => {
                // a sequence of the same block, if any
                let cands: Vec<&&[u32]> = INDIC_SEQS.iter().filter(|s| s[0] & !0x7F == base).collect();
                if !cands.is_empty() {
                    cs.extend(rng.pick(&cands).iter().map(|&v| ch(v)));
                } else {
                    cs.extend(rng.pick(INDIC_SEQS).iter().map(|&v| ch(v)));
                }
            }
            6 => cs.extend(rng.pick(INDIC_SEQS).iter().map(|&v| ch(v))),
            7 | 8 => {
                // consonant + matra / sign
                cs.push(ch(base + 0x15 + rng.below(0x25) as u32));
                cs.push(ch(base + 0x3C + rng.below(0x1C) as u32));
            }
            9 => {
                // consonant, nukta / halant / marks in any order
                cs.push(ch(base + 0x15 + rng.below(0x25) as u32));
                for _ in 0..rng.range(1, 4) {
                    cs.push(ch(base + *rng.pick(&[0x3Cu32, 0x4D, 0x4D, 0x3C, 0x01, 0x02, 0x55, 0x56, 0x4A])));
                }
            }
            _ => cs.push(ch(base + rng.below(0x80) as u32)),
        }
        if long_left {
            long_left = false;
            let pool = [base + 0x3C, base + 0x4D, 0x0951, 0x0952, 0x1CD0, 0x1CD5, base + 0x55, base + 0x56, 0x0301];
            for _ in 0..rng.range(21, 200) {
                cs.push(ch(*rng.pick(&pool)));
            }
        }
    }
    cs
}

fn gen(rng: &mut Rng) -> String {
    // 1 in 40: a class-table case
    if rng.chance(1, 40) {
        let (cp, ccc) = *rng.pick(CCC_SAMPLES);
        return format!("T|{:x}|{}", cp, ccc);
    }
    let long = rng.chance(1, 25);
    let (tag, mut cs) = match rng.below(20) {
        0..=4 => (parse_tag(*rng.pick(ARABIC_A.tags)), gen_alpha(rng, &ARABIC_A, long)),
        5..=6 => (parse_tag(*rng.pick(DEFAULT_A.tags)), gen_alpha(rng, &DEFAULT_A, long)),
        7 => (parse_tag(*rng.pick(SYRIAC_A.tags)), gen_alpha(rng, &SYRIAC_A, long)),
        8..=10 => (parse_tag(*rng.pick(THAI_A.tags)), gen_alpha(rng, &THAI_A, long)),
        11 => (parse_tag(*rng.pick(KHMER_A.tags)), gen_alpha(rng, &KHMER_A, long)),
        12 => (parse_tag(*rng.pick(MYANMAR_A.tags)), gen_alpha(rng, &MYANMAR_A, long)),
        13..=18 => {
            let &(t, base) = rng.pick(INDIC);
            (parse_tag(t), gen_indic(rng, base, long))
        }
        _ => {
            // any tag with any alphabet (unknown tags take the default path)
            let tag = if rng.chance(1, 2) {
                rng.next() as u32
            } else {
                parse_tag(*rng.pick(&[
                    "arab", "latn", "deva", "beng", "knda", "khmr", "mymr", "syrc", "thai", "lao_", "sinh", "zzzz",
                    "DFLT", "hebr",
                ]))
            };
            let cs = match rng.below(5) {
                0 => gen_alpha(rng, &ARABIC_A, long),
                1 => gen_alpha(rng, &THAI_A, long),
                2 => { let b = rng.pick(INDIC).1; gen_indic(rng, b, long) }
                3 => gen_alpha(rng, &KHMER_A, long),
                _ => gen_alpha(rng, &DEFAULT_A, long),
            };
            (tag, cs)
        }
    };
    // aliases of a character of the run: the same low 16 (or 8) bits on another plane (block), and the
    // immediate neighbours of its block position -- what a truncating cast or an off-by-one range admits
    if rng.chance(1, 8) && !cs.is_empty() {
        let at = rng.below(cs.len() as u64) as usize;
        let c = cs[at] as u32;
        let alias = match rng.below(5) {
            0 | 1 => (c & 0xFFFF) + 0x10000 * (1 + rng.below(16) as u32),
            2 => (c & 0xFF) | (0x100 * (1 + rng.below(0x2FF) as u32)),
            3 => c.wrapping_add(1 + rng.below(2) as u32),
            _ => c.wrapping_sub(1 + rng.below(2) as u32),
        };
        if let Some(alias) = char::from_u32(alias) {
            if rng.chance(1, 2) {
                cs[at] = alias;
            } else {
                cs.insert(at, alias);
            }
        }
    }
    // occasional cross-script noise
    if rng.chance(1, 10) && !cs.is_empty() {
        let at = rng.below(cs.len() as u64 + 1) as usize;
        cs.insert(at, random_cp(rng));
    }
    line(tag, &cs)
}

fn main() {
    // `c17 line TAG CPS` prints the canonical input line (with the class table) for a hand-written case
    let args: Vec<String> = std::env::args().collect();
    if args.len() == 4 && args[1] == "line" {
        std::panic::set_hook(Box::new(|_| {}));
        println!("{}", line(parse_tag(&args[2]), &parse_cps(&args[3])));
        return;
    }
    harness_main(&run, &mut gen)
}
