//! C06 correspondence: cmap sub-tables / cmap tables / Mac Roman conversions, synthesised from the
//! seeded Rng, run through the real allsorts code and printed in the line format that the OCaml
//! model driver (ocaml/c06/drv.ml) produces.
//!
//!   S|<subtable hex>|<code,code,...>     CmapSubtable::read, map_glyph, owned map_glyph, mappings_fn
//!   F|<cmap hex>|<os2>|<char,char,...>   Cmap::read + find_good_cmap_subtable, Font::new +
//!                                        lookup_glyph_index (os2: - = no OS/2 table, x = truncated
//!                                        OS/2 table, N = usFirstCharIndex)
//!   B|c|lo|hi  /  B|b|lo|hi              Big5 conversions over a whole range of scalar values / codes
//!   M|<byte,...>|<char,...>              macroman_to_char / char_to_macroman and the way back
use allsorts::binary::read::ReadScope;
use allsorts::error::ParseError;
use allsorts::font::{find_good_cmap_subtable, Encoding, MatchingPresentation};
use allsorts::big5::{big5_to_unicode, unicode_to_big5};
use allsorts::macroman::{char_to_macroman, macroman_to_char};
use allsorts::tables::cmap::{Cmap, CmapSubtable};
use allsorts::tables::FontTableProvider;
use allsorts::{tag, Font};
use avh::prng::{hex, unhex, Rng};
use avh::{harness_main, perr};
use std::borrow::Cow;
use std::collections::HashMap;
use std::panic::{catch_unwind, AssertUnwindSafe};

// ------------------------------------------------------------------------------------------------
// running the implementation

fn res_str(r: Result<Option<u16>, ParseError>) -> String {
    match r {
        Ok(Some(g)) => format!("s{}", g),
        Ok(None) => "n".to_string(),
        Err(e) => format!("e{}", perr(&e)),
    }
}

fn guarded<F: FnOnce() -> String>(f: F) -> String {
    match catch_unwind(AssertUnwindSafe(f)) {
        Ok(s) => s,
        Err(_) => "p".to_string(),
    }
}

fn parse_list(s: &str) -> Vec<u32> {
    if s.is_empty() || s == "-" {
        return vec![];
    }
    s.split(',').map(|x| x.parse::<u32>().unwrap()).collect()
}

fn format_name(st: &CmapSubtable<'_>) -> &'static str {
    match st {
        CmapSubtable::Format0 { .. } => "fmt0",
        CmapSubtable::Format2 { .. } => "fmt2",
        CmapSubtable::Format4(_) => "fmt4",
        CmapSubtable::Format6 { .. } => "fmt6",
        CmapSubtable::Format10 { .. } => "fmt10",
        CmapSubtable::Format12 { .. } => "fmt12",
    }
}

fn run_subtable(bytes: &[u8], probes: &[u32]) -> String {
    let parsed = catch_unwind(AssertUnwindSafe(|| ReadScope::new(bytes).read::<CmapSubtable<'_>>()));
    let st = match parsed {
        Err(_) => return "parse:p".to_string(),
        Ok(Err(e)) => return format!("parse:e{}", perr(&e)),
        Ok(Ok(st)) => st,
    };
    let m: Vec<String> = probes
        .iter()
        .map(|&ch| guarded(|| res_str(st.map_glyph(ch))))
        .collect();
    let o = match catch_unwind(AssertUnwindSafe(|| st.to_owned())) {
        Err(_) => "p".to_string(),
        Ok(None) => "-".to_string(),
        Ok(Some(owned)) => probes
            .iter()
            .map(|&ch| guarded(|| res_str(owned.map_glyph(ch))))
            .collect::<Vec<_>>()
            .join(","),
    };
    let mut raw: Vec<(u32, u16)> = Vec::new();
    let status = match catch_unwind(AssertUnwindSafe(|| {
        st.mappings_fn(|ch, gid| raw.push((ch, gid)))
    })) {
        Err(_) => "p".to_string(),
        Ok(Ok(())) => "ok".to_string(),
        Ok(Err(e)) => format!("e{}", perr(&e)),
    };
    format!(
        "{};m={};o={};e={}:{}",
        format_name(&st),
        m.join(","),
        o,
        status,
        rle(&raw)
    )
}

/// the callback sequence, run-length encoded: `c:g*n` stands for (c,g),(c+1,g+1),..,(c+n-1,g+n-1)
fn rle(raw: &[(u32, u16)]) -> String {
    let mut out: Vec<String> = Vec::new();
    let mut i = 0;
    while i < raw.len() {
        let (c, g) = raw[i];
        let mut n: u64 = 1;
        while i + (n as usize) < raw.len() {
            let (c2, g2) = raw[i + n as usize];
            if c2 as u64 == c as u64 + n && g2 as u64 == g as u64 + n {
                n += 1;
            } else {
                break;
            }
        }
        out.push(if n == 1 { format!("{}:{}", c, g) } else { format!("{}:{}*{}", c, g, n) });
        i += n as usize;
    }
    out.join(" ")
}

struct Provider(HashMap<u32, Vec<u8>>);

impl FontTableProvider for Provider {
    fn table_data(&self, tag: u32) -> Result<Option<Cow<'_, [u8]>>, ParseError> {
        Ok(self.0.get(&tag).map(|v| Cow::Borrowed(v.as_slice())))
    }
    fn has_table(&self, tag: u32) -> bool {
        self.0.contains_key(&tag)
    }
    fn table_tags(&self) -> Option<Vec<u32>> {
        Some(self.0.keys().copied().collect())
    }
}

fn minimal_tables(cmap: &[u8], os2: &str) -> HashMap<u32, Vec<u8>> {
    let mut t = HashMap::new();
    let mut head = vec![0u8; 54];
    head[0..4].copy_from_slice(&[0, 1, 0, 0]);
    head[12..16].copy_from_slice(&0x5F0F3CF5u32.to_be_bytes());
    head[18..20].copy_from_slice(&1000u16.to_be_bytes());
    t.insert(tag::HEAD, head);
    let mut maxp = vec![0u8; 6];
    maxp[0..4].copy_from_slice(&0x00005000u32.to_be_bytes());
    maxp[4..6].copy_from_slice(&0xFFFFu16.to_be_bytes());
    t.insert(tag::MAXP, maxp);
    let mut hhea = vec![0u8; 36];
    hhea[0..2].copy_from_slice(&1u16.to_be_bytes());
    hhea[34..36].copy_from_slice(&1u16.to_be_bytes());
    t.insert(tag::HHEA, hhea);
    t.insert(tag::HMTX, vec![0u8; 4]);
    t.insert(tag::CMAP, cmap.to_vec());
    match os2 {
        "-" => {}
        "x" => {
            t.insert(tag::OS_2, vec![0u8; 10]);
        }
        n => {
            let first: u16 = n.parse().unwrap();
            let mut os2t = vec![0u8; 68];
            os2t[64..66].copy_from_slice(&first.to_be_bytes());
            os2t[66..68].copy_from_slice(&0xFFFFu16.to_be_bytes());
            t.insert(tag::OS_2, os2t);
        }
    }
    t
}

fn enc_name(e: Encoding) -> &'static str {
    match e {
        Encoding::Unicode => "Unicode",
        Encoding::Symbol => "Symbol",
        Encoding::AppleRoman => "AppleRoman",
        Encoding::Big5 => "Big5",
    }
}

fn run_font(cmap: &[u8], os2: &str, probes: &[u32]) -> String {
    // selection at the cmap level
    let sel = guarded(|| match ReadScope::new(cmap).read::<Cmap<'_>>() {
        Err(e) => format!("e{}", perr(&e)),
        Ok(c) => match find_good_cmap_subtable(&c) {
            None => "none".to_string(),
            Some((enc, rec)) => format!("{}@{}", enc_name(enc), rec.offset),
        },
    });
    let font = catch_unwind(AssertUnwindSafe(|| Font::new(Provider(minimal_tables(cmap, os2)))));
    let mut font = match font {
        Err(_) => return format!("sel={};new:p", sel),
        Ok(Err(e)) => return format!("sel={};new:e{}", sel, perr(&e)),
        Ok(Ok(f)) => f,
    };
    let enc = enc_name(font.cmap_subtable_encoding);
    let g: Vec<String> = probes
        .iter()
        .map(|&cp| match char::from_u32(cp) {
            None => "x".to_string(),
            Some(ch) => guarded(|| {
                let (gid, _) = font.lookup_glyph_index(ch, MatchingPresentation::NotRequired, None);
                gid.to_string()
            }),
        })
        .collect();
    format!("sel={};enc={};g={}", sel, enc, g.join(","))
}

fn run_macroman(bytes: &[u32], chars: &[u32]) -> String {
    let b: Vec<String> = bytes
        .iter()
        .map(|&b| {
            guarded(|| match macroman_to_char(b as u8) {
                None => "n/-".to_string(),
                Some(c) => match char_to_macroman(c) {
                    None => format!("{}/n", c as u32),
                    Some(b2) => format!("{}/{}", c as u32, b2),
                },
            })
        })
        .collect();
    let c: Vec<String> = chars
        .iter()
        .map(|&cp| match char::from_u32(cp) {
            None => "x".to_string(),
            Some(ch) => guarded(|| match char_to_macroman(ch) {
                None => "n/-".to_string(),
                Some(b) => match macroman_to_char(b) {
                    None => format!("{}/n", b),
                    Some(c2) => format!("{}/{}", b, c2 as u32),
                },
            }),
        })
        .collect();
    format!("b={};c={}", b.join(","), c.join(","))
}

/// Big5: the two conversions over a whole range, reported as counts and the first few failures.
///   B|c|lo|hi : every scalar value in [lo, hi): unicode_to_big5(c) = Some(b)  =>  big5_to_unicode(b) = Some(c)
///   B|b|lo|hi : every code in [lo, hi): big5_to_unicode(b) = Some(c) and unicode_to_big5(c) = Some(b2)  =>  big5_to_unicode(b2) = Some(c)
fn run_big5(dir: &str, lo: u32, hi: u32) -> String {
    let (mut mapped, mut bad) = (0u32, vec![]);
    for v in lo..hi {
        let ok = guarded(|| {
            if dir == "c" {
                match char::from_u32(v).and_then(|c| unicode_to_big5(c).map(|b| (c, b))) {
                    None => "skip".to_string(),
                    Some((c, b)) => if big5_to_unicode(b) == Some(c) { "ok".to_string() } else { format!("{:x}>{:x}>{:x}", v, b, big5_to_unicode(b).map_or(0xffff_ffff, |x| x as u32)) },
                }
            } else {
                match big5_to_unicode(v as u16).and_then(|c| unicode_to_big5(c).map(|b2| (c, b2))) {
                    None => "skip".to_string(),
                    Some((c, b2)) => if big5_to_unicode(b2) == Some(c) { "ok".to_string() } else { format!("{:x}>{:x}>{:x}", v, c as u32, b2) },
                }
            }
        });
        if ok == "ok" {
            mapped += 1;
        } else if ok != "skip" {
            if bad.len() < 8 {
                bad.push(ok);
            } else {
                bad[7] = "more".to_string();
            }
        }
    }
    format!("mapped={};bad={}", mapped, bad.join(","))
}

pub fn run(input: &str) -> String {
    let parts: Vec<&str> = input.split('|').collect();
    match parts.as_slice() {
        ["S", h, p] => run_subtable(&unhex(h), &parse_list(p)),
        ["F", h, os2, p] => run_font(&unhex(h), os2, &parse_list(p)),
        ["M", b, c] => run_macroman(&parse_list(b), &parse_list(c)),
        ["B", d, lo, hi] => run_big5(d, lo.parse().unwrap_or(0), hi.parse().unwrap_or(0)),
        _ => "badinput".to_string(),
    }
}

// ------------------------------------------------------------------------------------------------
// generating inputs

fn w16(v: &mut Vec<u8>, x: u32) {
    v.extend_from_slice(&(x as u16).to_be_bytes());
}
fn w32(v: &mut Vec<u8>, x: u32) {
    v.extend_from_slice(&x.to_be_bytes());
}

fn around(p: &mut Vec<u32>, x: u32) {
    p.push(x.wrapping_sub(1));
    p.push(x);
    p.push(x.wrapping_add(1));
}

fn common_probes(rng: &mut Rng, p: &mut Vec<u32>) {
    for &x in &[0u32, 0xFFFF, 0x10000, 0x10FFFF] {
        if rng.chance(1, 2) {
            p.push(x);
        }
    }
    if rng.chance(1, 4) {
        p.push(0xFFFF_FFFF);
    }
    if rng.chance(1, 2) {
        p.push(rng.below(0x11_0000) as u32);
    }
    if rng.chance(1, 2) {
        p.push(rng.below(0x300) as u32);
    }
}

fn gen_format0(rng: &mut Rng, p: &mut Vec<u32>) -> Vec<u8> {
    let mut v = vec![];
    w16(&mut v, 0);
    let length = match rng.below(10) {
        0 => 261,
        1 => rng.below(0x10000) as u32,
        _ => 262,
    };
    w16(&mut v, length);
    w16(&mut v, rng.below(3) as u32);
    let sparse = rng.chance(1, 2);
    for _ in 0..256 {
        v.push(if sparse && rng.chance(3, 4) { 0 } else { rng.next() as u8 });
    }
    for _ in 0..4 {
        p.push(rng.below(256) as u32);
    }
    around(p, 255);
    v
}

/// format 4 with `nseg` segments; mostly sorted and disjoint, ending with the 0xFFFF segment
fn gen_format4(rng: &mut Rng, p: &mut Vec<u32>) -> Vec<u8> {
    gen_format4_at(rng, p, None)
}

/// `base`: where the first segment starts (the symbol area for (3,0) sub-tables), gaps stay small
fn gen_format4_at(rng: &mut Rng, p: &mut Vec<u32>, base: Option<u32>) -> Vec<u8> {
    let nseg = 1 + rng.below(7) as usize;
    let malformed_layout = rng.chance(1, 8);
    let mut starts = vec![];
    let mut ends = vec![];
    let mut cur: u32 = base.unwrap_or(rng.below(0x200) as u32);
    for i in 0..nseg {
        let last = i + 1 == nseg;
        if last && rng.chance(4, 5) {
            starts.push(0xFFFF);
            ends.push(0xFFFF);
            break;
        }
        let gap = match rng.below(4) {
            0 => 0,
            1 => 1,
            2 => rng.below(50) as u32,
            _ if base.is_some() => rng.below(12) as u32,
            _ => rng.below(0x3000) as u32,
        };
        let size = match rng.below(16) {
            0 | 1 => 1,
            2 | 3 => 2,
            4 | 5 => 1 + rng.below(600) as u32,
            // boundary: segments as long as a u16 count can (not) express, up to the whole code space
            6 => *rng.pick(&[0x10000u32, 0xFFFF, 0x8000, 0x8001, 0x7FFF, 0x100, 0xFF]),
            _ => 1 + rng.below(24) as u32,
        };
        if size >= 0x7FFF && rng.chance(1, 2) {
            cur = 0;
        }
        let s = if size >= 0x7FFF { cur.min(0xFFFF) } else { (cur + gap).min(0xFFFF) };
        let e = (s + size - 1).min(0xFFFF);
        starts.push(s);
        ends.push(e);
        cur = (e + 1).min(0xFFFF);
    }
    let nseg = starts.len();
    if malformed_layout {
        // overlapping / unsorted / inverted segments
        for _ in 0..1 + rng.below(2) {
            let i = rng.below(nseg as u64) as usize;
            match rng.below(4) {
                0 => {
                    let j = rng.below(nseg as u64) as usize;
                    starts.swap(i, j);
                    ends.swap(i, j);
                }
                1 => starts[i] = starts[i].saturating_sub(rng.below(40) as u32),
                2 => ends[i] = (ends[i] + rng.below(40) as u32).min(0xFFFF),
                _ => {
                    let t = starts[i];
                    starts[i] = ends[i];
                    ends[i] = t;
                }
            }
        }
    }
    // glyph id array and the per-segment idRangeOffset / idDelta
    let mut gids: Vec<u32> = vec![];
    let mut ros = vec![];
    let mut deltas = vec![];
    for i in 0..nseg {
        let size = ends[i].saturating_sub(starts[i]) + 1;
        let delta: u32 = match rng.below(6) {
            0 => 0,
            1 => 1,
            2 => 0x10000 - starts[i].min(0xFFFF), // maps start to glyph 0 modulo 65536
            3 => 0x8000,
            4 => 0xFFFF,
            _ => rng.below(0x10000) as u32,
        } & 0xFFFF;
        let use_array = size <= 700 && rng.chance(2, 5);
        if use_array {
            // idRangeOffset[i] is relative to its own address: 2*(nseg - i) reaches glyphIdArray[0]
            let at = if !gids.is_empty() && rng.chance(1, 4) {
                rng.below(gids.len() as u64) as u32 // share part of an earlier run
            } else {
                gids.len() as u32
            };
            let need = at + size;
            while (gids.len() as u32) < need {
                let g = match rng.below(5) {
                    0 => 0, // missing glyph inside the array
                    1 => rng.below(0x10000) as u32,
                    _ => 1 + rng.below(500) as u32,
                };
                gids.push(g);
            }
            let mut ro = 2 * (nseg as u32 - i as u32) + 2 * at;
            match rng.below(24) {
                0 => ro += 1,                             // odd
                1 => ro = ro.saturating_sub(2 * (1 + rng.below(4) as u32)).max(1), // into idRangeOffsets
                2 => ro += 2 * (gids.len() as u32),       // past the end
                _ => {}
            }
            ros.push(ro & 0xFFFF);
            // with an array, realistic fonts use delta 0; keep others to exercise modulo
            deltas.push(if rng.chance(1, 2) { 0 } else { delta });
        } else {
            ros.push(if rng.chance(1, 12) { 0xFFFF } else { 0 });
            deltas.push(delta);
        }
    }
    if rng.chance(1, 3) {
        for _ in 0..rng.below(4) {
            gids.push(rng.below(0x10000) as u32);
        }
    }
    let mut length = 16 + 8 * nseg as u32 + 2 * gids.len() as u32;
    let mut segx2 = 2 * nseg as u32;
    match rng.below(40) {
        0 => length += 1,
        1 => length = length.saturating_sub(2 * (1 + rng.below(3) as u32)),
        2 => length = rng.below(0x10000) as u32,
        3 => segx2 += 1,
        4 => length = 16 + 8 * nseg as u32 - 2,
        _ => {}
    }
    let mut v = vec![];
    w16(&mut v, 4);
    w16(&mut v, length);
    w16(&mut v, 0);
    w16(&mut v, segx2);
    w16(&mut v, rng.below(0x10000) as u32);
    w16(&mut v, rng.below(0x10000) as u32);
    w16(&mut v, rng.below(0x10000) as u32);
    for &e in &ends {
        w16(&mut v, e);
    }
    w16(&mut v, if rng.chance(1, 10) { 7 } else { 0 });
    for &s in &starts {
        w16(&mut v, s);
    }
    for &d in &deltas {
        w16(&mut v, d);
    }
    for &r in &ros {
        w16(&mut v, r);
    }
    for &g in &gids {
        w16(&mut v, g);
    }
    // trailing bytes (another sub-table follows in a real cmap)
    for _ in 0..rng.below(3) {
        v.push(rng.next() as u8);
    }
    for i in 0..nseg {
        if rng.chance(3, 4) {
            around(p, starts[i]);
            around(p, ends[i]);
        }
        if ends[i] > starts[i] {
            p.push(starts[i] + rng.below((ends[i] - starts[i]) as u64 + 1) as u32);
        }
    }
    v
}

fn gen_format6(rng: &mut Rng, p: &mut Vec<u32>) -> Vec<u8> {
    let first = match rng.below(4) {
        0 => 0,
        1 => 0xFFFF - rng.below(20) as u32,
        _ => rng.below(0x10000) as u32,
    };
    let count = match rng.below(5) {
        0 => 0,
        1 => 1,
        _ => rng.below(40) as u32,
    };
    let mut v = vec![];
    w16(&mut v, 6);
    w16(&mut v, 10 + 2 * count);
    w16(&mut v, 0);
    w16(&mut v, first);
    w16(&mut v, if rng.chance(1, 20) { count + 1 + rng.below(3) as u32 } else { count });
    for _ in 0..count {
        w16(&mut v, if rng.chance(1, 4) { 0 } else { rng.below(0x10000) as u32 });
    }
    around(p, first);
    around(p, first + count);
    if count > 0 {
        p.push(first + rng.below(count as u64) as u32);
    }
    v
}

fn gen_format10(rng: &mut Rng, p: &mut Vec<u32>) -> Vec<u8> {
    let count = match rng.below(5) {
        0 => 0,
        1 => 1,
        _ => rng.below(40) as u32,
    };
    let start = match rng.below(5) {
        0 => 0,
        1 => 0xFFFF_FFFF - rng.below(count as u64 + 3) as u32, // start + index leaves u32
        2 => 0x10000 + rng.below(0x100000) as u32,
        _ => rng.below(0x11_0000) as u32,
    };
    let mut v = vec![];
    w16(&mut v, 10);
    w16(&mut v, if rng.chance(1, 20) { 1 } else { 0 });
    w32(&mut v, 20 + 2 * count);
    w32(&mut v, 0);
    w32(&mut v, start);
    w32(&mut v, match rng.below(20) {
        0 => count + 1,
        1 => 0xFFFF_FFFF,
        _ => count,
    });
    for _ in 0..count {
        w16(&mut v, if rng.chance(1, 4) { 0 } else { rng.below(0x10000) as u32 });
    }
    around(p, start);
    around(p, start.wrapping_add(count));
    if count > 0 {
        p.push(start.wrapping_add(rng.below(count as u64) as u32));
    }
    v
}

fn gen_format12(rng: &mut Rng, p: &mut Vec<u32>) -> Vec<u8> {
    let n = rng.below(6) as usize;
    let mut groups: Vec<(u32, u32, u32)> = vec![];
    let mut cur: u32 = rng.below(0x400) as u32;
    for _ in 0..n {
        let gap = match rng.below(4) {
            0 => 0,
            1 => 1,
            2 => rng.below(0x100) as u32,
            _ => rng.below(0x20000) as u32,
        };
        let size = match rng.below(12) {
            0 => 1,
            1 => 1 + rng.below(700) as u32,
            2 if rng.chance(1, 4) => 65530 + rng.below(12) as u32, // around the 65536-iteration limit of mappings_fn
            3 | 4 => *rng.pick(&[65537u32, 70000, 0x11_0000, 0x100_0000, 0xFFFF_FFFF]), // far beyond it
            _ => 1 + rng.below(20) as u32,
        };
        let s = cur.saturating_add(gap);
        let e = s.saturating_add(size - 1);
        let gid = match rng.below(10) {
            0 => 0,
            1 => 65535u32.saturating_sub(size).wrapping_add(rng.below(5) as u32), // last gid near 65535
            2 => 0xFFFF_FFFF - rng.below(size as u64 + 2) as u32,                 // u32 overflow
            3 => 65536 + rng.below(10) as u32,
            4 => rng.below(0x10000) as u32,
            _ => {
                if size > 60000 {
                    // a whole-range group starting at glyph 0 must still end the enumeration after 65536 steps
                    rng.below(3) as u32
                } else {
                    rng.below(3000) as u32
                }
            }
        };
        groups.push((s, e, gid));
        cur = e.saturating_add(1);
    }
    if n > 0 && rng.chance(1, 8) {
        for _ in 0..1 + rng.below(2) {
            let i = rng.below(n as u64) as usize;
            match rng.below(4) {
                0 => {
                    let j = rng.below(n as u64) as usize;
                    groups.swap(i, j);
                }
                1 => groups[i].0 = groups[i].0.saturating_sub(rng.below(30) as u32),
                2 => groups[i].1 = groups[i].1.saturating_add(rng.below(30) as u32),
                _ => {
                    let t = groups[i].0;
                    groups[i].0 = groups[i].1;
                    groups[i].1 = t;
                }
            }
        }
    }
    let mut v = vec![];
    w16(&mut v, 12);
    w16(&mut v, if rng.chance(1, 25) { 2 } else { 0 });
    w32(&mut v, 16 + 12 * n as u32);
    w32(&mut v, 0);
    w32(&mut v, match rng.below(25) {
        0 => n as u32 + 1,
        1 => 0xFFFF_FFFF,
        _ => n as u32,
    });
    for &(s, e, g) in &groups {
        w32(&mut v, s);
        w32(&mut v, e);
        w32(&mut v, g);
    }
    for &(s, e, _) in &groups {
        if rng.chance(3, 4) {
            around(p, s);
            around(p, e);
        }
        if e > s {
            p.push(s + rng.below((e - s) as u64 + 1) as u32);
        }
    }
    v
}

/// format 2: sub-header 0 for single bytes, a few lead bytes with their own sub-headers
fn gen_format2(rng: &mut Rng, p: &mut Vec<u32>) -> Vec<u8> {
    let nsub = 1 + rng.below(4) as usize; // sub-headers 0..nsub-1
    let mut keys = vec![0u32; 256];
    let mut leads = vec![];
    for k in 1..nsub {
        let lead = 0x81 + rng.below(0x7E) as usize;
        keys[lead] = 8 * k as u32;
        leads.push(lead as u32);
    }
    if rng.chance(1, 10) {
        let i = rng.below(256) as usize;
        keys[i] = rng.below(8 * nsub as u64 + 4) as u32; // not a multiple of 8 / one past the end
    }
    // sub-headers, glyph arrays laid out after them
    let mut headers: Vec<(u32, u32, u32, u32)> = vec![];
    let mut garr: Vec<u32> = vec![];
    for k in 0..nsub {
        let (first, count) = if k == 0 {
            match rng.below(4) {
                0 => (0u32, 256u32),
                1 => (0x20, 0x60),
                _ => (rng.below(0x80) as u32, rng.below(0x80) as u32),
            }
        } else {
            match rng.below(6) {
                0 => (0x40, 0xBF),
                1 => (rng.below(0x100) as u32, 0),
                2 => (0xF0 + rng.below(0x10) as u32, 10 + rng.below(40) as u32), // runs past 0xFF
                3 => (0xFFF0 + rng.below(0x10) as u32, 0x20 + rng.below(0x20) as u32), // u16 overflow
                _ => (0x40 + rng.below(0x40) as u32, 1 + rng.below(0x40) as u32),
            }
        };
        let at = garr.len() as u32;
        for _ in 0..count {
            garr.push(match rng.below(4) {
                0 => 0,
                _ => 1 + rng.below(2000) as u32,
            });
        }
        // idRangeOffset is relative to its own position: 2 bytes before the end of sub-header k
        let mut ro = 8 * (nsub as u32 - k as u32) - 6 + 2 * at;
        match rng.below(30) {
            0 => ro += 1,
            1 => ro += 2 * garr.len() as u32 + 8,
            _ => {}
        }
        let delta = match rng.below(4) {
            0 => 0,
            1 => 0xFFFF,
            2 => 0x8000,
            _ => rng.below(0x10000) as u32,
        };
        headers.push((first, count, delta, ro & 0xFFFF));
    }
    let mut v = vec![];
    w16(&mut v, 2);
    w16(&mut v, 6 + 512 + 8 * nsub as u32 + 2 * garr.len() as u32);
    w16(&mut v, 0);
    for &k in &keys {
        w16(&mut v, k);
    }
    for &(f, c, d, r) in &headers {
        w16(&mut v, f);
        w16(&mut v, c);
        w16(&mut v, d);
        w16(&mut v, r);
    }
    for &g in &garr {
        w16(&mut v, g);
    }
    for _ in 0..3 {
        p.push(rng.below(256) as u32);
    }
    around(p, headers[0].0);
    around(p, headers[0].0 + headers[0].1);
    for (k, &lead) in leads.iter().enumerate() {
        let (f, c, _, _) = headers[k + 1];
        p.push(lead); // the lead byte alone
        around(p, (lead << 8) | (f & 0xFF));
        around(p, (lead << 8) | ((f + c) & 0xFF));
        p.push((lead << 8) | rng.below(256) as u32);
    }
    p.push(rng.below(0x10000) as u32);
    p.push(0x10000 + rng.below(0x10000) as u32);
    v
}

fn gen_any_subtable(rng: &mut Rng, p: &mut Vec<u32>) -> Vec<u8> {
    match rng.below(20) {
        0 | 1 => gen_format0(rng, p),
        2 | 3 => gen_format6(rng, p),
        4 | 5 => gen_format10(rng, p),
        6..=9 => gen_format12(rng, p),
        10 | 11 => gen_format2(rng, p),
        _ => gen_format4(rng, p),
    }
}

fn damage(rng: &mut Rng, v: &mut Vec<u8>) {
    match rng.below(4) {
        0 => {
            let n = rng.below(v.len() as u64 + 1) as usize;
            v.truncate(n);
        }
        1 => {
            if !v.is_empty() {
                let i = rng.below(v.len().min(24) as u64) as usize;
                v[i] = rng.next() as u8;
            }
        }
        2 => {
            if v.len() >= 2 {
                let f = *rng.pick(&[1u8, 3, 5, 8, 13, 14, 255]);
                v[0] = 0;
                v[1] = f;
            }
        }
        _ => {
            if !v.is_empty() {
                let i = rng.below(v.len() as u64) as usize;
                v[i] ^= 1 << rng.below(8);
            }
        }
    }
}

fn join(p: &[u32]) -> String {
    if p.is_empty() {
        return "-".to_string();
    }
    p.iter().map(|x| x.to_string()).collect::<Vec<_>>().join(",")
}

fn dedup(p: &mut Vec<u32>) {
    let mut seen = std::collections::HashSet::new();
    p.retain(|x| seen.insert(*x));
}

fn gen_s(rng: &mut Rng) -> String {
    let mut p = vec![];
    let mut v = gen_any_subtable(rng, &mut p);
    if rng.chance(1, 10) {
        damage(rng, &mut v);
    }
    common_probes(rng, &mut p);
    dedup(&mut p);
    format!("S|{}|{}", hex(&v), join(&p))
}

const MACROMAN_CHARS: &[u32] = &[
    0xC4, 0xE9, 0x2020, 0xA9, 0x2122, 0x3C0, 0x2DC, 0x2C6, 0x5E, 0x7E, 0x7F, 0x80, 0xA0, 0xFB01,
    0x2C7, 0x131, 0xA4, 0x20AC, 0xF8FF, 0x2260,
];

fn gen_f(rng: &mut Rng) -> String {
    let nrec = 1 + rng.below(4) as usize;
    const PAIRS: &[(u32, u32)] = &[
        (3, 10), (3, 1), (0, 4), (0, 3), (0, 0), (0, 6), (3, 0), (1, 0), (3, 4), (1, 1), (3, 2), (4, 0), (2, 1),
    ];
    let mut probes: Vec<u32> = vec![];
    let mut recs: Vec<(u32, u32, usize)> = vec![]; // platform, encoding, subtable number
    let mut subs: Vec<Vec<u8>> = vec![];
    let mut symbol = false;
    for _ in 0..nrec {
        let (pl, en) = if rng.chance(1, 12) {
            (rng.below(6) as u32, rng.below(12) as u32)
        } else {
            *rng.pick(PAIRS)
        };
        let k = if !subs.is_empty() && rng.chance(1, 4) {
            rng.below(subs.len() as u64) as usize
        } else {
            let mut p = vec![];
            let mut v = match (pl, en) {
                (1, 0) => match rng.below(3) {
                    0 => gen_format6(rng, &mut p),
                    _ => gen_format0(rng, &mut p),
                },
                (3, 10) | (0, 4) | (0, 6) => match rng.below(4) {
                    0 => gen_format4(rng, &mut p),
                    1 => gen_format10(rng, &mut p),
                    _ => gen_format12(rng, &mut p),
                },
                (3, 4) => gen_format2(rng, &mut p),
                (3, 0) => {
                    symbol = true;
                    let base = if rng.chance(2, 3) { 0xF020 + rng.below(0x20) as u32 } else { 0x20 + rng.below(0x20) as u32 };
                    let v = gen_format4_at(rng, &mut p, Some(base));
                    // the single-byte / private-use twin of every boundary probe
                    for x in p.clone() {
                        if (0xF000..=0xF0FF).contains(&x) {
                            p.push(x - 0xF000);
                        } else if x < 0x100 {
                            p.push(0xF000 + x);
                        }
                    }
                    v
                }
                _ => match rng.below(6) {
                    0 => gen_format12(rng, &mut p),
                    1 => gen_format6(rng, &mut p),
                    _ => gen_format4(rng, &mut p),
                },
            };
            if rng.chance(1, 12) {
                damage(rng, &mut v);
            }
            probes.extend(p);
            subs.push(v);
            subs.len() - 1
        };
        recs.push((pl, en, k));
    }
    if rng.chance(1, 2) {
        // the spec wants records sorted by platform, encoding
        recs.sort();
    }
    let header = 4 + 8 * recs.len();
    let mut offs = vec![];
    let mut pos = header;
    for s in &subs {
        offs.push(pos as u32);
        pos += s.len();
    }
    let total = pos as u32;
    let mut v = vec![];
    w16(&mut v, if rng.chance(1, 30) { 1 } else { 0 });
    w16(&mut v, if rng.chance(1, 30) { recs.len() as u32 + 1 } else { recs.len() as u32 });
    for &(pl, en, k) in &recs {
        w16(&mut v, pl);
        w16(&mut v, en);
        let off = match rng.below(30) {
            0 => total,                               // exactly at the end
            1 => total + 1 + rng.below(40) as u32,     // beyond the table
            2 => 0xFFFF_FFF0 + rng.below(16) as u32,
            3 => rng.below(total as u64 + 1) as u32,   // somewhere inside
            _ => offs[k],
        };
        w32(&mut v, off);
    }
    for s in &subs {
        v.extend_from_slice(s);
    }
    let os2 = match rng.below(8) {
        _ if symbol && rng.chance(1, 2) => "61472".to_string(),
        0 | 1 | 2 => "-".to_string(),
        3 => "x".to_string(),
        4 => "32".to_string(),
        5 => "61472".to_string(), // 0xF020
        6 => rng.below(0x40).to_string(),
        _ => rng.below(0x10000).to_string(),
    };
    // probes: what the sub-tables suggested, the symbol area, Mac Roman characters
    let mut p: Vec<u32> = probes;
    common_probes(rng, &mut p);
    for _ in 0..3 {
        p.push(*rng.pick(MACROMAN_CHARS));
    }
    p.push(0xF000 + rng.below(0x100) as u32);
    p.push(rng.below(0x40) as u32);
    p.push(0x20 + rng.below(0x60) as u32);
    if rng.chance(1, 2) {
        around(&mut p, 0xF000);
        around(&mut p, 0xF0FF);
    }
    if symbol {
        // single-byte codes and their private-use twins
        for _ in 0..2 {
            let c = 0x20 + rng.below(0xE0) as u32;
            p.insert(0, c);
            p.insert(0, 0xF000 + c);
        }
        p.insert(0, rng.below(0x20) as u32);
    }
    // keep scalar values only
    p.retain(|&c| char::from_u32(c).is_some());
    dedup(&mut p);
    p.truncate(40);
    format!("F|{}|{}|{}", hex(&v), os2, join(&p))
}

fn gen_m(rng: &mut Rng) -> String {
    let nb = 1 + rng.below(12) as usize;
    let b: Vec<u32> = (0..nb).map(|_| rng.below(256) as u32).collect();
    let nc = 1 + rng.below(12) as usize;
    let c: Vec<u32> = (0..nc)
        .map(|_| match rng.below(5) {
            0 => rng.below(0x100) as u32,
            1 => *rng.pick(MACROMAN_CHARS),
            2 => 0x2000 + rng.below(0x300) as u32,
            3 => rng.below(0x400) as u32,
            _ => rng.below(0x11_0000) as u32,
        })
        .filter(|&c| char::from_u32(c).is_some())
        .collect();
    format!("M|{}|{}", join(&b), join(&c))
}

pub fn gen(rng: &mut Rng) -> String {
    match rng.below(20) {
        0 => gen_m(rng),
        1..=6 => gen_f(rng),
        _ => gen_s(rng),
    }
}

fn main() {
    harness_main(&run, &mut gen)
}
