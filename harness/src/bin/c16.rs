//! C16 correspondence: synthesised glyf/loca tables -> LocaTable/GlyfTable -> OutlineBuilder::visit with a
//! recording OutlineSink.
//!   input  = GID|g0,g1,...[|Pcontours]   gN = the bytes of glyph N in hex ('-' = zero-length loca entry);
//!            the optional third field (ignored here, used by the judge) lists the contours glyph GID is
//!            meant to encode: points `on,x,y` separated by spaces, contours by '/'
//!   output = ok:CMD CMD ...     CMD = M:x:y | L:x:y | Q:cx:cy:x:y | C:... | Z ; numbers = f32 bits, 8 hex digits
//!          | err:Name | panic
use allsorts::binary::read::ReadScope;
use allsorts::outline::{OutlineBuilder, OutlineSink};
use allsorts::pathfinder_geometry::line_segment::LineSegment2F;
use allsorts::pathfinder_geometry::vector::Vector2F;
use allsorts::tables::glyf::GlyfTable;
use allsorts::tables::loca::LocaTable;
use allsorts::tables::IndexToLocFormat;
use avh::prng::{hex, unhex, Rng};
use avh::{harness_main, perr};
use std::panic::{catch_unwind, AssertUnwindSafe};

struct Rec(Vec<String>);
fn f(v: f32) -> String {
    format!("{:08x}", v.to_bits())
}
impl OutlineSink for Rec {
    fn move_to(&mut self, to: Vector2F) {
        self.0.push(format!("M:{}:{}", f(to.x()), f(to.y())));
    }
    fn line_to(&mut self, to: Vector2F) {
        self.0.push(format!("L:{}:{}", f(to.x()), f(to.y())));
    }
    fn quadratic_curve_to(&mut self, c: Vector2F, to: Vector2F) {
        self.0.push(format!("Q:{}:{}:{}:{}", f(c.x()), f(c.y()), f(to.x()), f(to.y())));
    }
    fn cubic_curve_to(&mut self, c: LineSegment2F, to: Vector2F) {
        self.0.push(format!(
            "C:{}:{}:{}:{}:{}:{}",
            f(c.from_x()), f(c.from_y()), f(c.to_x()), f(c.to_y()), f(to.x()), f(to.y())
        ));
    }
    fn close(&mut self) {
        self.0.push("Z".to_string());
    }
}

pub fn run(input: &str) -> String {
    let parts: Vec<&str> = input.split('|').collect();
    if parts.len() != 2 && parts.len() != 3 {
        return "badinput".to_string();
    }
    let gid: u16 = match parts[0].parse() {
        Ok(g) => g,
        Err(_) => return "badinput".to_string(),
    };
    let glyphs: Vec<Vec<u8>> = if parts[1].is_empty() { vec![] } else { parts[1].split(',').map(unhex).collect() };
    let mut glyf: Vec<u8> = vec![];
    let mut loca: Vec<u8> = vec![];
    for g in &glyphs {
        loca.extend_from_slice(&(glyf.len() as u32).to_be_bytes());
        glyf.extend_from_slice(g);
    }
    loca.extend_from_slice(&(glyf.len() as u32).to_be_bytes());
    let r = catch_unwind(AssertUnwindSafe(|| {
        let loca = match ReadScope::new(&loca).read_dep::<LocaTable<'_>>((glyphs.len(), IndexToLocFormat::Long)) {
            Ok(l) => l,
            Err(e) => return format!("err:{}", perr(&e)),
        };
        let mut table = match ReadScope::new(&glyf).read_dep::<GlyfTable<'_>>(&loca) {
            Ok(t) => t,
            Err(e) => return format!("err:{}", perr(&e)),
        };
        let mut rec = Rec(vec![]);
        match table.visit(gid, &mut rec) {
            Ok(()) => format!("ok:{}", rec.0.join(" ")),
            Err(e) => format!("err:{}", perr(&e)),
        }
    }));
    match r {
        Ok(s) => s,
        Err(_) => "panic".to_string(),
    }
}

// ---------------------------------------------------------------------------------------------
// generation

#[derive(Clone, Copy)]
struct Pt {
    on: bool,
    x: i32,
    y: i32,
}

fn be16(v: i32) -> [u8; 2] {
    (v as u16).to_be_bytes()
}

fn coord(rng: &mut Rng, style: u64, prev: i32) -> i32 {
    // absolute coordinate whose delta to `prev` fits an i16 and which is itself an i16
    for _ in 0..20 {
        let v: i32 = match style {
            0 => prev + rng.range(-12, 12) as i32,
            1 => prev + *rng.pick(&[0, 0, 0, 1, -1, 255, -255, 256, -256, 254, -254, 100, -100]),
            2 => rng.range(-1500, 1500) as i32,
            3 => *rng.pick(&[-32768, 32767, 0, 1, -1, 16384, -16384, 32766, -32767]),
            _ => rng.range(-32768, 32767) as i32,
        };
        if (-32768..=32767).contains(&v) && (-32768..=32767).contains(&(v - prev)) {
            return v;
        }
    }
    prev
}

fn gen_contours(rng: &mut Rng) -> Vec<Vec<Pt>> {
    let nc = match rng.below(10) {
        0 => 0,
        1..=5 => 1,
        6..=7 => 2,
        8 => 3,
        _ => rng.range(1, 6) as usize,
    };
    let style = *rng.pick(&[0u64, 0, 1, 1, 2, 2, 3, 4]);
    let (mut px, mut py) = (0i32, 0i32);
    let mut out = vec![];
    for _ in 0..nc {
        let np = match rng.below(12) {
            0..=1 => 1,
            2..=3 => 2,
            4..=5 => 3,
            6..=7 => 4,
            8..=9 => rng.range(5, 9) as usize,
            10 => rng.range(1, 3) as usize,
            _ => rng.range(10, 40) as usize,
        };
        let pattern = rng.below(8); // 0: all on, 1: all off, 2: first off last on, 3: first on last off, else random
        let mut c = vec![];
        for i in 0..np {
            let on = match pattern {
                0 => true,
                1 => false,
                2 => {
                    if i == 0 { false } else if i == np - 1 { true } else { rng.chance(1, 2) }
                }
                3 => {
                    if i == 0 { true } else if i == np - 1 { false } else { rng.chance(1, 2) }
                }
                4 => rng.chance(1, 4),
                _ => rng.chance(1, 2),
            };
            let st = if rng.chance(1, 8) { rng.below(5) } else { style };
            let x = coord(rng, st, px);
            let y = coord(rng, st, py);
            px = x;
            py = y;
            c.push(Pt { on, x, y });
        }
        out.push(c);
    }
    out
}

/// every legal encoding choice is reachable: short/same/long per axis, sign bit of a zero short,
/// run-length grouping (incl. count 0), reserved bits
fn encode_points(rng: &mut Rng, pts: &[Pt]) -> (Vec<u8>, Vec<u8>, Vec<u8>) {
    let compact = rng.below(4); // 0: always smallest, 1: always long, else random
    let mut flags: Vec<u8> = vec![];
    let (mut xs, mut ys) = (vec![], vec![]);
    let (mut px, mut py) = (0i32, 0i32);
    for p in pts {
        let mut fl = if p.on { 1u8 } else { 0 };
        for axis in 0..2 {
            let d = if axis == 0 { p.x - px } else { p.y - py };
            let (short_bit, same_bit) = if axis == 0 { (0x02u8, 0x10u8) } else { (0x04u8, 0x20u8) };
            let buf = if axis == 0 { &mut xs } else { &mut ys };
            // 0 = same, 1 = short, 2 = long
            let mut opts: Vec<u8> = vec![2];
            if d == 0 {
                opts.push(0);
            }
            if d.abs() <= 255 {
                opts.push(1);
            }
            let choice = match compact {
                0 => {
                    if d == 0 { 0 } else if d.abs() <= 255 { 1 } else { 2 }
                }
                1 => 2,
                _ => *rng.pick(&opts),
            };
            match choice {
                0 => fl |= same_bit,
                1 => {
                    fl |= short_bit;
                    if d > 0 || (d == 0 && rng.chance(1, 2)) {
                        fl |= same_bit;
                    }
                    buf.push(d.unsigned_abs() as u8);
                }
                _ => buf.extend_from_slice(&be16(d)),
            }
        }
        if rng.chance(1, 40) {
            fl |= *rng.pick(&[0x40u8, 0x80, 0xC0]);
        }
        flags.push(fl);
        px = p.x;
        py = p.y;
    }
    // run-length encode
    let rle = rng.below(3); // 0: never, 1: greedy, 2: random
    let mut fb = vec![];
    let mut i = 0;
    while i < flags.len() {
        let mut run = 1;
        while i + run < flags.len() && flags[i + run] == flags[i] && run < 256 {
            run += 1;
        }
        let take = match rle {
            0 => 0,
            1 => {
                if run >= 2 { run } else { 0 }
            }
            _ => {
                if rng.chance(1, 2) { rng.range(1, run as i64) as usize } else { 0 }
            }
        };
        if take == 0 {
            fb.push(flags[i]);
            i += 1;
        } else {
            fb.push(flags[i] | 0x08);
            fb.push((take - 1) as u8);
            i += take;
        }
    }
    (fb, xs, ys)
}

fn simple_glyph(rng: &mut Rng, malform: bool) -> Vec<u8> {
    simple_glyph_pts(rng, malform).0
}

fn hint(contours: &[Vec<Pt>]) -> String {
    let cs: Vec<String> = contours
        .iter()
        .map(|c| c.iter().map(|p| format!("{},{},{}", p.on as u8, p.x, p.y)).collect::<Vec<_>>().join(" "))
        .collect();
    format!("P{}", cs.join("/"))
}

/// the glyph bytes and the contours they are meant to encode
fn simple_glyph_pts(rng: &mut Rng, malform: bool) -> (Vec<u8>, Vec<Vec<Pt>>) {
    let contours = gen_contours(rng);
    let g = simple_glyph_of(rng, malform, &contours);
    (g, contours)
}

fn simple_glyph_of(rng: &mut Rng, malform: bool, contours: &[Vec<Pt>]) -> Vec<u8> {
    let pts: Vec<Pt> = contours.iter().flatten().copied().collect();
    let mut g = vec![];
    g.extend_from_slice(&be16(contours.len() as i32));
    for _ in 0..4 {
        let v = rng.range(-2000, 2000) as i32;
        g.extend_from_slice(&be16(v));
    }
    let mut ends: Vec<i32> = vec![];
    let mut n = 0i32;
    for c in contours {
        n += c.len() as i32;
        ends.push(n - 1);
    }
    let mal = if malform { rng.below(9) } else { 99 };
    if !ends.is_empty() {
        let k = rng.below(ends.len() as u64) as usize;
        match mal {
            0 if k > 0 => ends[k] = ends[k - 1],            // repeated value: empty contour (F16)
            1 if k > 0 => ends[k] = ends[k - 1] - 1,        // decreasing
            2 => ends[k] += rng.range(1, 3) as i32,         // beyond / shifted
            _ => {}
        }
    }
    for e in &ends {
        g.extend_from_slice(&be16(*e));
    }
    let ilen = if rng.chance(1, 3) { rng.range(1, 6) as usize } else { 0 };
    g.extend_from_slice(&be16(ilen as i32));
    g.extend_from_slice(&rng.bytes(ilen));
    let (mut fb, mut xs, ys) = encode_points(rng, &pts);
    match mal {
        3 if !fb.is_empty() => {
            // repeat count running past the last point
            let extra = rng.range(1, 5) as u8;
            let last = *fb.last().unwrap();
            if fb.len() >= 2 && fb[fb.len() - 2] & 0x08 != 0 && pts.len() > 1 {
                let l = fb.len();
                fb[l - 1] = fb[l - 1].saturating_add(extra);
            } else {
                fb.pop();
                fb.push(last | 0x08);
                fb.push(extra);
            }
        }
        4 if !pts.is_empty() => {
            // long x deltas, one of which takes the running sum out of the i16 range
            xs.clear();
            fb.clear();
            let mut ys2 = vec![];
            let bad = rng.below(pts.len() as u64) as usize;
            let (mut ax, mut ay) = (0i32, 0i32);
            for (i, p) in pts.iter().enumerate() {
                let mut d = p.x - ax;
                if i == bad {
                    d = if ax >= 0 { 32767 - rng.range(0, 3) as i32 } else { -32768 + rng.range(0, 3) as i32 };
                }
                fb.push(if p.on { 1 } else { 0 });
                xs.extend_from_slice(&be16(d));
                ys2.extend_from_slice(&be16(p.y - ay));
                ax = p.x;
                ay = p.y;
            }
            g.extend_from_slice(&fb);
            g.extend_from_slice(&xs);
            g.extend_from_slice(&ys2);
            return g;
        }
        _ => {}
    }
    g.extend_from_slice(&fb);
    g.extend_from_slice(&xs);
    g.extend_from_slice(&ys);
    match mal {
        5 if !g.is_empty() => {
            let cut = rng.below(g.len() as u64) as usize;
            g.truncate(cut);
        }
        6 if g.len() > 10 => {
            let i = rng.range(10, g.len() as i64 - 1) as usize;
            g[i] ^= 1 << rng.below(8);
        }
        7 => {
            let extra = rng.range(1, 4) as usize;
            g.extend_from_slice(&rng.bytes(extra));
        }
        _ => {}
    }
    g
}

fn f2dot14(rng: &mut Rng) -> i32 {
    match rng.below(8) {
        0 => 0x4000,
        1 => 0x2000,
        2 => -0x4000,
        3 => *rng.pick(&[0x7fff, -0x8000, 0, 1, -1, 0x6000, 0x1000]),
        4 | 5 => rng.range(-0x4000, 0x4000) as i32,
        _ => rng.range(-0x8000, 0x7fff) as i32,
    }
}

/// one component record; `scales`: whether scale kinds may be used
fn component(rng: &mut Rng, target: u16, more: bool, scales: bool, exotic: bool, instr: bool) -> Vec<u8> {
    let mut flags: u16 = 0;
    let words = rng.chance(1, 2);
    if words {
        flags |= 0x0001;
    }
    let xy = !(exotic && rng.chance(1, 4));
    if xy {
        flags |= 0x0002;
    }
    if rng.chance(1, 3) {
        flags |= 0x0004;
    }
    let kind = if scales { rng.below(5) } else { 0 }; // 0,1: none 2: scale 3: xy 4: 2x2
    match kind {
        2 => flags |= 0x0008,
        3 => flags |= 0x0040,
        4 => flags |= 0x0080,
        _ => {}
    }
    if scales && rng.chance(1, 30) {
        flags |= *rng.pick(&[0x0048u16, 0x0088, 0x00C0, 0x00C8]); // several scale bits: precedence
    }
    if more {
        flags |= 0x0020;
    }
    if instr {
        flags |= 0x0100;
    }
    if rng.chance(1, 4) {
        flags |= 0x0200;
    }
    if rng.chance(1, 4) {
        flags |= 0x0400;
    }
    if exotic && rng.chance(1, 4) {
        flags |= 0x0800;
    }
    if rng.chance(1, 6) {
        flags |= 0x1000;
    }
    if rng.chance(1, 30) {
        flags |= *rng.pick(&[0x0010u16, 0x2000, 0x8000, 0xE010]);
    }
    let mut b = vec![];
    b.extend_from_slice(&flags.to_be_bytes());
    b.extend_from_slice(&target.to_be_bytes());
    for _ in 0..2 {
        let v: i32 = match rng.below(6) {
            0 => 0,
            1 => *rng.pick(&[-128, 127, -1, 1, 255, 128, -32768, 32767]),
            2 | 3 => rng.range(-100, 100) as i32,
            _ => rng.range(-3000, 3000) as i32,
        };
        if words {
            b.extend_from_slice(&be16(v));
        } else {
            b.push(v as u8);
        }
    }
    let nsc = if flags & 0x0008 != 0 {
        1
    } else if flags & 0x0040 != 0 {
        2
    } else if flags & 0x0080 != 0 {
        4
    } else {
        0
    };
    for _ in 0..nsc {
        let v = f2dot14(rng);
        b.extend_from_slice(&be16(v));
    }
    b
}

fn composite_glyph(rng: &mut Rng, targets: &[u16], scales: bool, exotic: bool) -> Vec<u8> {
    let mut g = vec![0xff, 0xff];
    if rng.chance(1, 20) {
        g = vec![0x80 | rng.below(128) as u8, rng.below(256) as u8]; // any negative count
    }
    for _ in 0..4 {
        let v = rng.range(-2000, 2000) as i32;
        g.extend_from_slice(&be16(v));
    }
    let instr = rng.chance(1, 6);
    for (i, t) in targets.iter().enumerate() {
        let last = i + 1 == targets.len();
        let wi = instr && (last || rng.chance(1, 2));
        g.extend_from_slice(&component(rng, *t, !last, scales, exotic, wi));
    }
    if instr {
        let n = rng.range(0, 4) as usize;
        g.extend_from_slice(&be16(n as i32));
        g.extend_from_slice(&rng.bytes(n));
    }
    g
}

pub fn gen(rng: &mut Rng) -> String {
    let kind = rng.below(20);
    let mut glyphs: Vec<Vec<u8>> = vec![];
    let gid: u16;
    match kind {
        0..=8 => {
            // one (or a few) simple glyphs, well-formed; the intended contours of the visited glyph
            // travel with the input so that the judge can decide the outline from the specification
            let n = rng.range(1, 3) as usize;
            let mut hints = vec![];
            for _ in 0..n {
                let (g, cs) = simple_glyph_pts(rng, false);
                glyphs.push(g);
                hints.push(Some(hint(&cs)));
            }
            if rng.chance(1, 10) {
                glyphs.push(vec![]);
                hints.push(None);
            }
            gid = rng.below(glyphs.len() as u64) as u16;
            if let Some(h) = &hints[gid as usize] {
                return format!(
                    "{}|{}|{}",
                    gid,
                    glyphs.iter().map(|g| hex(g)).collect::<Vec<_>>().join(","),
                    h
                );
            }
        }
        9..=10 => {
            // malformed simple glyph
            glyphs.push(simple_glyph(rng, true));
            if rng.chance(1, 4) {
                glyphs.push(simple_glyph(rng, false));
            }
            gid = if rng.chance(1, 10) { rng.below(4) as u16 } else { 0 };
        }
        11..=16 => {
            // composite DAG: glyph i refers to glyphs with a larger index
            let n = rng.range(2, 8) as usize;
            let scales = rng.chance(1, 2);
            let exotic = rng.chance(1, 8);
            let nsimple = rng.range(1, 2.max(n as i64 / 2)) as usize;
            for i in 0..n {
                if i >= n - nsimple {
                    let bad = rng.chance(1, 30);
                    let mut g = simple_glyph(rng, bad);
                    if rng.chance(1, 12) {
                        g = vec![];
                    }
                    glyphs.push(g);
                } else {
                    let nc = match rng.below(6) {
                        0..=2 => 1,
                        3..=4 => 2,
                        _ => 3,
                    };
                    let mut ts = vec![];
                    for _ in 0..nc {
                        let t = if rng.chance(1, 40) {
                            rng.below(n as u64 + 2) as u16 // any: cycles, out of range
                        } else if rng.chance(1, 2) {
                            (i + 1) as u16
                        } else {
                            rng.range(i as i64 + 1, n as i64 - 1) as u16
                        };
                        ts.push(t);
                    }
                    let mut g = composite_glyph(rng, &ts, scales, exotic);
                    if rng.chance(1, 40) && !g.is_empty() {
                        let cut = rng.below(g.len() as u64) as usize;
                        g.truncate(cut);
                    }
                    glyphs.push(g);
                }
            }
            gid = if rng.chance(3, 4) { 0 } else { rng.below(n as u64) as u16 };
        }
        17..=18 => {
            // a chain around the nesting limit: g0 -> g1 -> ... -> gk (simple)
            let k = rng.range(4, 9) as usize;
            let scales = rng.chance(1, 3);
            for i in 0..k {
                let mut ts = vec![(i + 1) as u16];
                if rng.chance(1, 4) {
                    ts.push(k as u16);
                }
                glyphs.push(composite_glyph(rng, &ts, scales, false));
            }
            glyphs.push(simple_glyph(rng, false));
            gid = if rng.chance(2, 3) { 0 } else { rng.below(3) as u16 };
        }
        _ => {
            // cycles and self reference
            let n = rng.range(1, 3) as usize;
            for i in 0..n {
                let ts = vec![((i + 1) % n) as u16];
                glyphs.push(composite_glyph(rng, &ts, false, false));
            }
            gid = 0;
        }
    }
    format!("{}|{}", gid, glyphs.iter().map(|g| hex(g)).collect::<Vec<_>>().join(","))
}

fn main() {
    harness_main(&run, &mut gen)
}
