//! C16 correspondence: synthesised glyf/loca tables -> LocaTable/GlyfTable -> OutlineBuilder::visit with a
//! recording OutlineSink.
//!   input  = GID|g0,g1,...[|Pcontours][|Lspec]
//!            gN = the bytes of glyph N ('-' = zero-length loca entry): hex, or segments joined by '+', a
//!            segment being HEX or COUNT*HEX (HEX repeated COUNT times); `COUNT#g` stands for COUNT
//!            consecutive glyphs g.
//!            P... (ignored here, used by the judge) lists the contours glyph GID is meant to encode:
//!            points `on,x,y` (or `COUNT*on,x,y`) separated by spaces, contours by '/'.
//!            L... = the loca table: `Ll` (default) / `Ls` = the long / short loca that describes g0,g1,...
//!            laid out one after the other (short: every stored value is offset / 2, truncated to 16 bits);
//!            `Ll:N:BYTES` / `Ls:N:BYTES` = these loca bytes, read with numGlyphs = N; the glyf table is
//!            the concatenation of g0,g1,...
//!   output = ok:CMD CMD ...     CMD = M:x:y | L:x:y | Q:cx:cy:x:y | C:... | Z ; numbers = f32 bits, 8 hex digits
//!          | err:Name | panic
use allsorts::binary::read::ReadScope;
use allsorts::outline::{OutlineBuilder, OutlineSink};
use allsorts::pathfinder_geometry::line_segment::LineSegment2F;
use allsorts::pathfinder_geometry::vector::Vector2F;
use allsorts::tables::glyf::GlyfTable;
use allsorts::tables::loca::LocaTable;
use allsorts::tables::IndexToLocFormat;
use avh::prng::{hex, unhex, Rng};
use avh::{harness_main, perr};
use std::panic::{catch_unwind, AssertUnwindSafe};

struct Rec(Vec<String>);
fn f(v: f32) -> String {
    format!("{:08x}", v.to_bits())
}
impl OutlineSink for Rec {
    fn move_to(&mut self, to: Vector2F) {
        self.0.push(format!("M:{}:{}", f(to.x()), f(to.y())));
    }
    fn line_to(&mut self, to: Vector2F) {
        self.0.push(format!("L:{}:{}", f(to.x()), f(to.y())));
    }
    fn quadratic_curve_to(&mut self, c: Vector2F, to: Vector2F) {
        self.0.push(format!("Q:{}:{}:{}:{}", f(c.x()), f(c.y()), f(to.x()), f(to.y())));
    }
    fn cubic_curve_to(&mut self, c: LineSegment2F, to: Vector2F) {
        self.0.push(format!(
            "C:{}:{}:{}:{}:{}:{}",
            f(c.from_x()), f(c.from_y()), f(c.to_x()), f(c.to_y()), f(to.x()), f(to.y())
        ));
    }
    fn close(&mut self) {
        self.0.push("Z".to_string());
    }
}

/// the bytes a glyph entry / loca field stands for: segments joined by '+', a segment is HEX or COUNT*HEX
fn expand(s: &str) -> Option<Vec<u8>> {
    if s == "-" || s.is_empty() {
        return Some(vec![]);
    }
    let mut out = vec![];
    for seg in s.split('+') {
        if let Some((n, h)) = seg.split_once('*') {
            let n: usize = n.parse().ok()?;
            let b = unhex(h);
            if n.saturating_mul(b.len()) > (1 << 26) {
                return None;
            }
            for _ in 0..n {
                out.extend_from_slice(&b);
            }
        } else {
            out.extend_from_slice(&unhex(seg));
        }
    }
    Some(out)
}

struct Case {
    gid: u16,
    num_glyphs: usize,
    format: IndexToLocFormat,
    loca: Vec<u8>,
    glyf: Vec<u8>,
}

fn parse_case(input: &str) -> Option<Case> {
    let parts: Vec<&str> = input.split('|').collect();
    if parts.len() < 2 || parts.len() > 4 {
        return None;
    }
    let gid: u16 = parts[0].parse().ok()?;
    let mut glyphs: Vec<Vec<u8>> = vec![];
    if !parts[1].is_empty() {
        for e in parts[1].split(',') {
            if let Some((n, g)) = e.split_once('#') {
                let n: usize = n.parse().ok()?;
                if n > (1 << 17) {
                    return None;
                }
                let g = expand(g)?;
                for _ in 0..n {
                    glyphs.push(g.clone());
                }
            } else {
                glyphs.push(expand(e)?);
            }
        }
    }
    let mut lspec = "Ll";
    for p in &parts[2..] {
        match p.chars().next() {
            Some('P') => {}
            Some('L') => lspec = p,
            _ => return None,
        }
    }
    let format = match lspec.as_bytes().get(1) {
        Some(b'l') => IndexToLocFormat::Long,
        Some(b's') => IndexToLocFormat::Short,
        _ => return None,
    };
    let mut glyf: Vec<u8> = vec![];
    let mut offsets: Vec<usize> = vec![];
    for g in &glyphs {
        offsets.push(glyf.len());
        glyf.extend_from_slice(g);
    }
    offsets.push(glyf.len());
    if lspec.len() > 2 {
        // explicit loca bytes
        let rest: Vec<&str> = lspec[2..].split(':').collect();
        if rest.len() != 3 || !rest[0].is_empty() {
            return None;
        }
        let num_glyphs: usize = rest[1].parse().ok()?;
        if num_glyphs > (1 << 17) {
            return None;
        }
        return Some(Case { gid, num_glyphs, format, loca: expand(rest[2])?, glyf });
    }
    let mut loca: Vec<u8> = vec![];
    for o in offsets {
        match format {
            IndexToLocFormat::Long => loca.extend_from_slice(&(o as u32).to_be_bytes()),
            IndexToLocFormat::Short => loca.extend_from_slice(&((o / 2) as u16).to_be_bytes()),
        }
    }
    Some(Case { gid, num_glyphs: glyphs.len(), format, loca, glyf })
}

pub fn run(input: &str) -> String {
    let case = match parse_case(input) {
        Some(c) => c,
        None => return "badinput".to_string(),
    };
    let r = catch_unwind(AssertUnwindSafe(|| {
        let loca = match ReadScope::new(&case.loca).read_dep::<LocaTable<'_>>((case.num_glyphs, case.format)) {
            Ok(l) => l,
            Err(e) => return format!("err:{}", perr(&e)),
        };
        let mut table = match ReadScope::new(&case.glyf).read_dep::<GlyfTable<'_>>(&loca) {
            Ok(t) => t,
            Err(e) => return format!("err:{}", perr(&e)),
        };
        let mut rec = Rec(vec![]);
        match table.visit(case.gid, &mut rec) {
            Ok(()) => format!("ok:{}", rec.0.join(" ")),
            Err(e) => format!("err:{}", perr(&e)),
        }
    }));
    match r {
        Ok(s) => s,
        Err(_) => "panic".to_string(),
    }
}

// ---------------------------------------------------------------------------------------------
// generation

#[derive(Clone, Copy)]
struct Pt {
    on: bool,
    x: i32,
    y: i32,
}

fn be16(v: i32) -> [u8; 2] {
    (v as u16).to_be_bytes()
}

fn coord(rng: &mut Rng, style: u64, prev: i32) -> i32 {
    // absolute coordinate whose delta to `prev` fits an i16 and which is itself an i16
    for _ in 0..20 {
        let v: i32 = match style {
            0 => prev + rng.range(-12, 12) as i32,
            1 => prev + *rng.pick(&[0, 0, 0, 1, -1, 255, -255, 256, -256, 254, -254, 100, -100]),
            2 => rng.range(-1500, 1500) as i32,
            3 => *rng.pick(&[-32768, 32767, 0, 1, -1, 16384, -16384, 32766, -32767]),
            _ => rng.range(-32768, 32767) as i32,
        };
        if (-32768..=32767).contains(&v) && (-32768..=32767).contains(&(v - prev)) {
            return v;
        }
    }
    prev
}

fn gen_contours(rng: &mut Rng) -> Vec<Vec<Pt>> {
    let nc = match rng.below(10) {
        0 => 0,
        1..=5 => 1,
        6..=7 => 2,
        8 => 3,
        _ => rng.range(1, 6) as usize,
    };
    let style = *rng.pick(&[0u64, 0, 1, 1, 2, 2, 3, 4]);
    let (mut px, mut py) = (0i32, 0i32);
    let mut out = vec![];
    for _ in 0..nc {
        let np = match rng.below(12) {
            0..=1 => 1,
            2..=3 => 2,
            4..=5 => 3,
            6..=7 => 4,
            8..=9 => rng.range(5, 9) as usize,
            10 => rng.range(1, 3) as usize,
            _ => rng.range(10, 40) as usize,
        };
        let pattern = rng.below(8); // 0: all on, 1: all off, 2: first off last on, 3: first on last off, else random
        let mut c = vec![];
        for i in 0..np {
            let on = match pattern {
                0 => true,
                1 => false,
                2 => {
                    if i == 0 { false } else if i == np - 1 { true } else { rng.chance(1, 2) }
                }
                3 => {
                    if i == 0 { true } else if i == np - 1 { false } else { rng.chance(1, 2) }
                }
                4 => rng.chance(1, 4),
                _ => rng.chance(1, 2),
            };
            let st = if rng.chance(1, 8) { rng.below(5) } else { style };
            let x = coord(rng, st, px);
            let y = coord(rng, st, py);
            px = x;
            py = y;
            c.push(Pt { on, x, y });
        }
        out.push(c);
    }
    out
}

/// every legal encoding choice is reachable: short/same/long per axis, sign bit of a zero short,
/// run-length grouping (incl. count 0), reserved bits
fn encode_points(rng: &mut Rng, pts: &[Pt]) -> (Vec<u8>, Vec<u8>, Vec<u8>) {
    let compact = rng.below(4); // 0: always smallest, 1: always long, else random
    let rle = rng.below(3); // 0: never, 1: greedy, 2: random
    encode_points_as(rng, pts, compact, rle)
}

fn encode_points_as(rng: &mut Rng, pts: &[Pt], compact: u64, rle: u64) -> (Vec<u8>, Vec<u8>, Vec<u8>) {
    let mut flags: Vec<u8> = vec![];
    let (mut xs, mut ys) = (vec![], vec![]);
    let (mut px, mut py) = (0i32, 0i32);
    for p in pts {
        let mut fl = if p.on { 1u8 } else { 0 };
        for axis in 0..2 {
            let d = if axis == 0 { p.x - px } else { p.y - py };
            let (short_bit, same_bit) = if axis == 0 { (0x02u8, 0x10u8) } else { (0x04u8, 0x20u8) };
            let buf = if axis == 0 { &mut xs } else { &mut ys };
            // 0 = same, 1 = short, 2 = long
            let mut opts: Vec<u8> = vec![2];
            if d == 0 {
                opts.push(0);
            }
            if d.abs() <= 255 {
                opts.push(1);
            }
            let choice = match compact {
                0 => {
                    if d == 0 { 0 } else if d.abs() <= 255 { 1 } else { 2 }
                }
                1 => 2,
                _ => *rng.pick(&opts),
            };
            match choice {
                0 => fl |= same_bit,
                1 => {
                    fl |= short_bit;
                    if d > 0 || (d == 0 && rng.chance(1, 2)) {
                        fl |= same_bit;
                    }
                    buf.push(d.unsigned_abs() as u8);
                }
                _ => buf.extend_from_slice(&be16(d)),
            }
        }
        if rng.chance(1, 40) {
            fl |= *rng.pick(&[0x40u8, 0x80, 0xC0]);
        }
        flags.push(fl);
        px = p.x;
        py = p.y;
    }
    // run-length encode
    let mut fb = vec![];
    let mut i = 0;
    while i < flags.len() {
        let mut run = 1;
        while i + run < flags.len() && flags[i + run] == flags[i] && run < 256 {
            run += 1;
        }
        let take = match rle {
            0 => 0,
            1 => {
                if run >= 2 { run } else { 0 }
            }
            _ => {
                if rng.chance(1, 2) { rng.range(1, run as i64) as usize } else { 0 }
            }
        };
        if take == 0 {
            fb.push(flags[i]);
            i += 1;
        } else {
            fb.push(flags[i] | 0x08);
            fb.push((take - 1) as u8);
            i += take;
        }
    }
    (fb, xs, ys)
}

fn simple_glyph(rng: &mut Rng, malform: bool) -> Vec<u8> {
    simple_glyph_pts(rng, malform).0
}

fn hint(contours: &[Vec<Pt>]) -> String {
    let cs: Vec<String> = contours
        .iter()
        .map(|c| {
            // COUNT*on,x,y for four or more identical consecutive points
            let mut toks: Vec<String> = vec![];
            let mut i = 0;
            while i < c.len() {
                let mut run = 1;
                while i + run < c.len() && c[i + run].on == c[i].on && c[i + run].x == c[i].x && c[i + run].y == c[i].y {
                    run += 1;
                }
                let one = format!("{},{},{}", c[i].on as u8, c[i].x, c[i].y);
                if run >= 4 {
                    toks.push(format!("{}*{}", run, one));
                } else {
                    for _ in 0..run {
                        toks.push(one.clone());
                    }
                }
                i += run;
            }
            toks.join(" ")
        })
        .collect();
    format!("P{}", cs.join("/"))
}

/// compact text of a byte string: a pattern of up to 64 bytes repeated over at least 48 bytes becomes COUNT*HEX
fn chex(b: &[u8]) -> String {
    if b.len() < 96 {
        return hex(b);
    }
    let mut segs: Vec<String> = vec![];
    let (mut lit, mut i) = (0usize, 0usize);
    while i < b.len() {
        let mut best: Option<(usize, usize)> = None;
        if b.len() - i >= 48 {
            for p in 1..=64usize {
                if i + 2 * p > b.len() {
                    break;
                }
                if b[i..i + p] != b[i + p..i + 2 * p] {
                    continue;
                }
                let mut reps = 2;
                while i + (reps + 1) * p <= b.len() && b[i + reps * p..i + (reps + 1) * p] == b[i..i + p] {
                    reps += 1;
                }
                if reps * p >= 48 {
                    best = Some((p, reps));
                    break;
                }
            }
        }
        match best {
            Some((p, reps)) => {
                if lit < i {
                    segs.push(hex(&b[lit..i]));
                }
                segs.push(format!("{}*{}", reps, hex(&b[i..i + p])));
                i += reps * p;
                lit = i;
            }
            None => i += 1,
        }
    }
    if lit < b.len() {
        segs.push(hex(&b[lit..]));
    }
    segs.join("+")
}

fn glyph_list(glyphs: &[Vec<u8>]) -> String {
    glyphs.iter().map(|g| chex(g)).collect::<Vec<_>>().join(",")
}

/// instruction bytes used to make a glyph (and so the glyf table) large: one short pattern repeated
fn filler(rng: &mut Rng, n: usize) -> Vec<u8> {
    let pat: Vec<u8> = match rng.below(5) {
        0 => vec![0],
        1 => vec![0x4f],
        2 => rng.bytes(3),
        // the bytes of a small glyph: whatever is read from a wrong place inside parses as an outline
        3 => unhex("000100000000006400640003000001010101000000640000ff9c0000000000640000"),
        _ => {
            let cs = gen_contours(rng);
            let mut g = simple_glyph_as(rng, false, &cs, Some(vec![]));
            if g.len() % 2 == 1 {
                g.push(0);
            }
            g.truncate(64);
            g
        }
    };
    let mut out = Vec::with_capacity(n);
    while out.len() < n {
        let k = pat.len().min(n - out.len());
        out.extend_from_slice(&pat[..k]);
    }
    out
}

/// the glyph bytes and the contours they are meant to encode
fn simple_glyph_pts(rng: &mut Rng, malform: bool) -> (Vec<u8>, Vec<Vec<Pt>>) {
    let contours = gen_contours(rng);
    let g = simple_glyph_of(rng, malform, &contours);
    (g, contours)
}

fn simple_glyph_of(rng: &mut Rng, malform: bool, contours: &[Vec<Pt>]) -> Vec<u8> {
    simple_glyph_as(rng, malform, contours, None)
}

/// `instr`: the instruction bytes to use (None: a few random ones, or none)
fn simple_glyph_as(rng: &mut Rng, malform: bool, contours: &[Vec<Pt>], instr: Option<Vec<u8>>) -> Vec<u8> {
    let pts: Vec<Pt> = contours.iter().flatten().copied().collect();
    let mut g = vec![];
    g.extend_from_slice(&be16(contours.len() as i32));
    for _ in 0..4 {
        let v = rng.range(-2000, 2000) as i32;
        g.extend_from_slice(&be16(v));
    }
    let mut ends: Vec<i32> = vec![];
    let mut n = 0i32;
    for c in contours {
        n += c.len() as i32;
        ends.push(n - 1);
    }
    let mal = if malform { rng.below(9) } else { 99 };
    if !ends.is_empty() {
        let k = rng.below(ends.len() as u64) as usize;
        match mal {
            0 if k > 0 => ends[k] = ends[k - 1],            // repeated value: empty contour (F16)
            1 if k > 0 => ends[k] = ends[k - 1] - 1,        // decreasing
            2 => ends[k] += rng.range(1, 3) as i32,         // beyond / shifted
            _ => {}
        }
    }
    for e in &ends {
        g.extend_from_slice(&be16(*e));
    }
    let instr = match instr {
        Some(i) => i,
        None => {
            let ilen = if rng.chance(1, 3) { rng.range(1, 6) as usize } else { 0 };
            rng.bytes(ilen)
        }
    };
    g.extend_from_slice(&be16(instr.len() as i32));
    g.extend_from_slice(&instr);
    // many points: the smallest encoding with greedy repeat records (a few hundred bytes for 65536 points)
    let (mut fb, mut xs, ys) = if pts.len() > 2000 {
        let rle = if rng.chance(1, 4) { 2 } else { 1 };
        encode_points_as(rng, &pts, 0, rle)
    } else {
        encode_points(rng, &pts)
    };
    match mal {
        3 if !fb.is_empty() => {
            // repeat count running past the last point
            let extra = rng.range(1, 5) as u8;
            let last = *fb.last().unwrap();
            if fb.len() >= 2 && fb[fb.len() - 2] & 0x08 != 0 && pts.len() > 1 {
                let l = fb.len();
                fb[l - 1] = fb[l - 1].saturating_add(extra);
            } else {
                fb.pop();
                fb.push(last | 0x08);
                fb.push(extra);
            }
        }
        4 if !pts.is_empty() => {
            // long x deltas, one of which takes the running sum out of the i16 range
            xs.clear();
            fb.clear();
            let mut ys2 = vec![];
            let bad = rng.below(pts.len() as u64) as usize;
            let (mut ax, mut ay) = (0i32, 0i32);
            for (i, p) in pts.iter().enumerate() {
                let mut d = p.x - ax;
                if i == bad {
                    d = if ax >= 0 { 32767 - rng.range(0, 3) as i32 } else { -32768 + rng.range(0, 3) as i32 };
                }
                fb.push(if p.on { 1 } else { 0 });
                xs.extend_from_slice(&be16(d));
                ys2.extend_from_slice(&be16(p.y - ay));
                ax = p.x;
                ay = p.y;
            }
            g.extend_from_slice(&fb);
            g.extend_from_slice(&xs);
            g.extend_from_slice(&ys2);
            return g;
        }
        _ => {}
    }
    g.extend_from_slice(&fb);
    g.extend_from_slice(&xs);
    g.extend_from_slice(&ys);
    match mal {
        5 if !g.is_empty() => {
            let cut = rng.below(g.len() as u64) as usize;
            g.truncate(cut);
        }
        6 if g.len() > 10 => {
            let i = rng.range(10, g.len() as i64 - 1) as usize;
            g[i] ^= 1 << rng.below(8);
        }
        7 => {
            let extra = rng.range(1, 4) as usize;
            g.extend_from_slice(&rng.bytes(extra));
        }
        _ => {}
    }
    g
}

fn f2dot14(rng: &mut Rng) -> i32 {
    match rng.below(8) {
        0 => 0x4000,
        1 => 0x2000,
        2 => -0x4000,
        3 => *rng.pick(&[0x7fff, -0x8000, 0, 1, -1, 0x6000, 0x1000]),
        4 | 5 => rng.range(-0x4000, 0x4000) as i32,
        _ => rng.range(-0x8000, 0x7fff) as i32,
    }
}

/// one component record; `scales`: whether scale kinds may be used
fn component(rng: &mut Rng, target: u16, more: bool, scales: bool, exotic: bool, instr: bool) -> Vec<u8> {
    let mut flags: u16 = 0;
    let words = rng.chance(1, 2);
    if words {
        flags |= 0x0001;
    }
    let xy = !(exotic && rng.chance(1, 4));
    if xy {
        flags |= 0x0002;
    }
    if rng.chance(1, 3) {
        flags |= 0x0004;
    }
    let kind = if scales { rng.below(5) } else { 0 }; // 0,1: none 2: scale 3: xy 4: 2x2
    match kind {
        2 => flags |= 0x0008,
        3 => flags |= 0x0040,
        4 => flags |= 0x0080,
        _ => {}
    }
    if scales && rng.chance(1, 30) {
        flags |= *rng.pick(&[0x0048u16, 0x0088, 0x00C0, 0x00C8]); // several scale bits: precedence
    }
    if more {
        flags |= 0x0020;
    }
    if instr {
        flags |= 0x0100;
    }
    if rng.chance(1, 4) {
        flags |= 0x0200;
    }
    if rng.chance(1, 4) {
        flags |= 0x0400;
    }
    if exotic && rng.chance(1, 4) {
        flags |= 0x0800;
    }
    if rng.chance(1, 6) {
        flags |= 0x1000;
    }
    if rng.chance(1, 30) {
        flags |= *rng.pick(&[0x0010u16, 0x2000, 0x8000, 0xE010]);
    }
    let mut b = vec![];
    b.extend_from_slice(&flags.to_be_bytes());
    b.extend_from_slice(&target.to_be_bytes());
    for _ in 0..2 {
        let v: i32 = match rng.below(6) {
            0 => 0,
            1 => *rng.pick(&[-128, 127, -1, 1, 255, 128, -32768, 32767]),
            2 | 3 => rng.range(-100, 100) as i32,
            _ => rng.range(-3000, 3000) as i32,
        };
        if words {
            b.extend_from_slice(&be16(v));
        } else {
            b.push(v as u8);
        }
    }
    let nsc = if flags & 0x0008 != 0 {
        1
    } else if flags & 0x0040 != 0 {
        2
    } else if flags & 0x0080 != 0 {
        4
    } else {
        0
    };
    for _ in 0..nsc {
        let v = f2dot14(rng);
        b.extend_from_slice(&be16(v));
    }
    b
}

fn composite_glyph(rng: &mut Rng, targets: &[u16], scales: bool, exotic: bool) -> Vec<u8> {
    composite_glyph_as(rng, targets, scales, exotic, None)
}

fn composite_glyph_as(rng: &mut Rng, targets: &[u16], scales: bool, exotic: bool, fill: Option<Vec<u8>>) -> Vec<u8> {
    let mut g = vec![0xff, 0xff];
    if rng.chance(1, 20) {
        g = vec![0x80 | rng.below(128) as u8, rng.below(256) as u8]; // any negative count
    }
    for _ in 0..4 {
        let v = rng.range(-2000, 2000) as i32;
        g.extend_from_slice(&be16(v));
    }
    let instr = fill.is_some() || rng.chance(1, 6);
    for (i, t) in targets.iter().enumerate() {
        let last = i + 1 == targets.len();
        let wi = instr && (last || rng.chance(1, 2));
        g.extend_from_slice(&component(rng, *t, !last, scales, exotic, wi));
    }
    if let Some(fill) = fill {
        g.extend_from_slice(&be16(fill.len() as i32));
        g.extend_from_slice(&fill);
    } else if instr {
        let n = rng.range(0, 4) as usize;
        g.extend_from_slice(&be16(n as i32));
        g.extend_from_slice(&rng.bytes(n));
    }
    g
}

/// contours adding up to exactly `total` points: a few random contours among runs of points that share one
/// flag byte (coincident, or one unit apart), so that the packed encoding stays small.  No contour has
/// more than 200 points.
fn boundary_contours(rng: &mut Rng, total: usize) -> Vec<Vec<Pt>> {
    let mut out: Vec<Vec<Pt>> = vec![];
    let mut left = total;
    let (mut px, mut py) = (0i32, 0i32);
    let real_rate = if total > 10000 { *rng.pick(&[40u64, 200]) } else { *rng.pick(&[10u64, 40, 200]) };
    let all_on = rng.chance(2, 3);
    // no jump between the runs: one flag byte for hundreds of points across contours, so that repeat
    // records reach the largest count (255) and span contours
    let still = rng.chance(1, 3);
    while left > 0 {
        let mut c = vec![];
        if rng.chance(1, real_rate) || (left <= 12 && rng.chance(1, 2)) {
            let np = (rng.range(1, 12) as usize).min(left);
            for _ in 0..np {
                let x = coord(rng, 0, px);
                let y = coord(rng, 0, py);
                px = x;
                py = y;
                c.push(Pt { on: rng.chance(1, 2), x, y });
            }
        } else {
            // (the model's cost grows with contours x points: mostly long runs when there are many points)
            let np = match rng.below(if total > 10000 { 24 } else { 8 }) {
                0 => 1,
                1 => 2,
                2 => *rng.pick(&[127usize, 128, 129]),
                3 => rng.range(3, 40) as usize,
                4..=7 => rng.range(100, 200) as usize,
                _ => rng.range(170, 200) as usize,
            }
            .min(left);
            let on = all_on || (!still && rng.chance(1, 2));
            let (sx, sy) = if still {
                (0, 0)
            } else {
                *rng.pick(&[(0i32, 0i32), (0, 0), (0, 0), (1, 0), (0, 1), (-1, 0), (1, 1), (0, -1)])
            };
            if px.abs() > 20000 || py.abs() > 20000 {
                px = 0;
                py = 0;
            }
            if !still || rng.chance(1, 20) {
                px += rng.range(-200, 200) as i32;
                py += rng.range(-200, 200) as i32;
            }
            for k in 0..np {
                if k > 0 {
                    px += sx;
                    py += sy;
                }
                c.push(Pt { on, x: px, y: py });
            }
        }
        left -= c.len();
        out.push(c);
    }
    out
}

/// a simple glyph whose number of points sits on a width boundary of the format (point numbers are
/// uint16, repeat counts uint8, the contour count int16): (bytes, contours)
fn boundary_glyph(rng: &mut Rng, huge: bool) -> (Vec<u8>, Vec<Vec<Pt>>) {
    let total: usize = if huge {
        *rng.pick(&[65536usize, 65536, 65536, 65535, 65535, 65534, 32767, 32768, 32769, 65536 - 256, 65536 - 255])
    } else {
        match rng.below(4) {
            0 => *rng.pick(&[255usize, 256, 257, 511, 512, 513]),
            1 => rng.range(250, 520) as usize,
            2 => *rng.pick(&[1023usize, 1024, 4095, 4096, 4097]),
            _ => rng.range(300, 3000) as usize,
        }
    };
    let contours = boundary_contours(rng, total);
    let g = simple_glyph_as(rng, false, &contours, None);
    (g, contours)
}

/// a composite DAG: glyph i refers to glyphs with a larger index.  `fill(rng, i)`: instruction bytes for glyph i
fn dag_glyphs(rng: &mut Rng, n: usize, wild: bool, fill: &mut dyn FnMut(&mut Rng, usize) -> Option<Vec<u8>>) -> Vec<Vec<u8>> {
    let mut glyphs: Vec<Vec<u8>> = vec![];
    let scales = rng.chance(1, 2);
    let exotic = wild && rng.chance(1, 8);
    let nsimple = rng.range(1, 2.max(n as i64 / 2)) as usize;
    for i in 0..n {
        let fl = fill(rng, i);
        if i >= n - nsimple {
            let bad = wild && rng.chance(1, 30);
            let cs = gen_contours(rng);
            let mut g = simple_glyph_as(rng, bad, &cs, fl);
            if wild && rng.chance(1, 12) {
                g = vec![];
            }
            glyphs.push(g);
        } else {
            let nc = match rng.below(6) {
                0..=2 => 1,
                3..=4 => 2,
                _ => 3,
            };
            let mut ts = vec![];
            for _ in 0..nc {
                let t = if wild && rng.chance(1, 40) {
                    rng.below(n as u64 + 2) as u16 // any: cycles, out of range
                } else if rng.chance(1, 2) {
                    (i + 1) as u16
                } else {
                    rng.range(i as i64 + 1, n as i64 - 1) as u16
                };
                ts.push(t);
            }
            let mut g = composite_glyph_as(rng, &ts, scales, exotic, fl);
            if wild && rng.chance(1, 40) && !g.is_empty() {
                let cut = rng.below(g.len() as u64) as usize;
                g.truncate(cut);
            }
            glyphs.push(g);
        }
    }
    glyphs
}

/// table level: glyph records laid out behind each other and addressed by a short or a long loca;
/// glyph data beyond 64 KiB / up to the largest offset the short format can express / beyond it (long),
/// records that start exactly on such a boundary or span it, first / last / empty glyphs, many glyphs
fn gen_table(rng: &mut Rng) -> String {
    let mut short = rng.chance(2, 3);
    // which glyphs are made large, and by how much
    let n = rng.range(2, 9) as usize;
    let size_class = rng.below(8); // 0: small table, 1..: large
    let nbig = if size_class == 0 { 0 } else { rng.range(1, 3) as usize };
    let mut plan: Vec<usize> = vec![0; n];
    let budget: usize = match size_class {
        0 => 0,
        1..=4 => rng.range(60000, 125000) as usize,
        5 => rng.range(129000, 131000) as usize,
        6 => rng.range(64000, 67000) as usize,
        _ => rng.range(100000, 200000) as usize,
    };
    for k in 0..nbig {
        let i = if rng.chance(2, 3) { rng.below(n.min(3) as u64) as usize } else { rng.below(n as u64) as usize };
        let share = if k + 1 == nbig { budget / nbig } else { rng.range(1000, (budget / nbig) as i64) as usize };
        plan[i] = (plan[i] + share).min(65535);
    }
    let mut hints: Vec<Option<String>> = vec![None; n];
    let mut glyphs: Vec<Vec<u8>> = match rng.below(3) {
        0 => {
            let mut fill = |rng: &mut Rng, i: usize| if plan[i] > 0 { Some(filler(rng, plan[i])) } else { None };
            dag_glyphs(rng, n, false, &mut fill)
        }
        _ => {
            let mut gs = vec![];
            for i in 0..n {
                if rng.chance(1, 8) {
                    gs.push(vec![]);
                    continue;
                }
                let cs = gen_contours(rng);
                let fl = if plan[i] > 0 { Some(filler(rng, plan[i])) } else { None };
                gs.push(simple_glyph_as(rng, false, &cs, fl));
                hints[i] = Some(hint(&cs));
            }
            gs
        }
    };
    // padding: the short format needs even record lengths; compilers align to 2 or 4
    let align = if short { *rng.pick(&[2usize, 2, 4]) } else { *rng.pick(&[1usize, 1, 2, 4]) };
    for g in glyphs.iter_mut() {
        while !g.is_empty() && g.len() % align != 0 {
            g.push(0);
        }
    }
    // a record that starts exactly on / next to a boundary of the offset encodings
    if size_class != 0 && rng.chance(1, 2) {
        let t = *rng.pick(&[65534usize, 65536, 65536, 65538, 65540, 131068, 131070, 131072]);
        let t = t - t % align;
        let j = rng.range(1, n as i64) as usize; // n: the end of the table
        let off: usize = glyphs[..j].iter().map(|g| g.len()).sum();
        if off < t && t - off < 70000 {
            let k = (0..j).rev().find(|k| !glyphs[*k].is_empty()).unwrap_or(0);
            if !glyphs[k].is_empty() {
                let pad = if rng.chance(1, 2) { vec![0u8; t - off] } else { filler(rng, t - off) };
                glyphs[k].extend_from_slice(&pad);
            }
        }
    }
    let mut prefix = String::new();
    let mut first = 0usize;
    if rng.chance(1, 40) {
        // many glyphs: the visited ones have large glyph ids
        first = *rng.pick(&[255usize, 256, 32767, 32768, 65535 - n, 65534 - n, 1000]);
        prefix = format!("{}#-,", first);
    }
    let total: usize = glyphs.iter().map(|g| g.len()).sum();
    if short && (total > 131070 || glyphs.iter().any(|g| g.len() % 2 == 1)) {
        short = false;
    }
    // visit a glyph stored high up more often than the others
    let mut offs = vec![0usize];
    for g in &glyphs {
        offs.push(offs.last().unwrap() + g.len());
    }
    let high: Vec<usize> = (0..n).filter(|i| offs[i + 1] > 65536 && !glyphs[*i].is_empty()).collect();
    let gi = if !high.is_empty() && rng.chance(3, 4) {
        *rng.pick(&high)
    } else if rng.chance(1, 3) {
        *rng.pick(&[0, n - 1])
    } else {
        rng.below(n as u64) as usize
    };
    let gid = first + gi;
    let mut line = format!("{}|{}{}", gid, prefix, glyph_list(&glyphs));
    let explicit = first == 0 && rng.chance(1, 6);
    if first == 0 && !explicit {
        if let Some(h) = &hints[gi] {
            line = format!("{}|{}", line, h);
        }
    }
    if explicit {
        // explicit loca bytes, damaged or unusual (modelled as coded; the glyph ids no longer address
        // the glyphs generated above, so the intended contours do not travel with the input)
        let num = n;
        let mut vals: Vec<usize> = offs.clone();
        let k = rng.below(vals.len() as u64) as usize;
        match rng.below(7) {
            0 if k > 0 => vals[k] = vals[k - 1].saturating_sub(if short { 2 } else { 1 }), // decreasing
            1 => *vals.last_mut().unwrap() += if short { 2 } else { rng.range(1, 4) as usize }, // past the end
            2 => vals[k] += 100000,                                                             // far past the end
            3 => {
                vals.pop(); // one entry short for numGlyphs
            }
            4 => vals.push(total), // one entry more than needed
            5 if k > 0 && k + 1 < vals.len() => vals[k] = vals[k + 1], // glyph k-1 swallows glyph k
            _ => {}
        }
        let mut loca = vec![];
        for v in vals {
            if short {
                loca.extend_from_slice(&((v / 2) as u16).to_be_bytes());
            } else {
                loca.extend_from_slice(&(v as u32).to_be_bytes());
            }
        }
        let num = if rng.chance(1, 10) { rng.below(num as u64 + 2) as usize } else { num };
        return format!("{}|L{}:{}:{}", line, if short { 's' } else { 'l' }, num, chex(&loca));
    }
    format!("{}|L{}", line, if short { 's' } else { 'l' })
}

pub fn gen(rng: &mut Rng) -> String {
    // rare, large cases first: width boundaries of the point numbers and of the loca offsets
    let rare = rng.below(400);
    match rare {
        0 | 1..=4 => {
            let (g, cs) = boundary_glyph(rng, rare == 0);
            if rng.chance(1, 5) {
                // ... reached through a composite
                let dx = rng.range(-50, 50) as i32;
                let mut c = vec![0xff, 0xff, 0, 0, 0, 0, 0, 0, 0, 0, 0x00, 0x03, 0x00, 0x01];
                c.extend_from_slice(&be16(dx));
                c.extend_from_slice(&be16(0));
                return format!("0|{},{}", hex(&c), chex(&g));
            }
            let mut glyphs = vec![g];
            let mut gid = 0;
            if rng.chance(1, 3) {
                glyphs.insert(0, simple_glyph(rng, false));
                gid = 1;
            }
            let l = match rng.below(4) {
                0 if glyphs.iter().all(|g| g.len() % 2 == 0) => "|Ls",
                1 => "|Ll",
                _ => "",
            };
            return format!("{}|{}|{}{}", gid, glyph_list(&glyphs), hint(&cs), l);
        }
        5..=12 => return gen_table(rng),
        _ => {}
    }
    let kind = rng.below(20);
    let mut glyphs: Vec<Vec<u8>> = vec![];
    let gid: u16;
    match kind {
        0..=8 => {
            // one (or a few) simple glyphs, well-formed; the intended contours of the visited glyph
            // travel with the input so that the judge can decide the outline from the specification
            let n = rng.range(1, 3) as usize;
            let mut hints = vec![];
            for _ in 0..n {
                let (g, cs) = simple_glyph_pts(rng, false);
                glyphs.push(g);
                hints.push(Some(hint(&cs)));
            }
            if rng.chance(1, 10) {
                glyphs.push(vec![]);
                hints.push(None);
            }
            gid = rng.below(glyphs.len() as u64) as u16;
            if let Some(h) = &hints[gid as usize] {
                return format!(
                    "{}|{}|{}",
                    gid,
                    glyphs.iter().map(|g| hex(g)).collect::<Vec<_>>().join(","),
                    h
                );
            }
        }
        9..=10 => {
            // malformed simple glyph
            glyphs.push(simple_glyph(rng, true));
            if rng.chance(1, 4) {
                glyphs.push(simple_glyph(rng, false));
            }
            gid = if rng.chance(1, 10) { rng.below(4) as u16 } else { 0 };
        }
        11..=16 => {
            // composite DAG: glyph i refers to glyphs with a larger index
            let n = rng.range(2, 8) as usize;
            glyphs = dag_glyphs(rng, n, true, &mut |_, _| None);
            gid = if rng.chance(3, 4) { 0 } else { rng.below(n as u64) as u16 };
        }
        17..=18 => {
            // a chain around the nesting limit: g0 -> g1 -> ... -> gk (simple)
            let k = rng.range(4, 9) as usize;
            let scales = rng.chance(1, 3);
            for i in 0..k {
                let mut ts = vec![(i + 1) as u16];
                if rng.chance(1, 4) {
                    ts.push(k as u16);
                }
                glyphs.push(composite_glyph(rng, &ts, scales, false));
            }
            glyphs.push(simple_glyph(rng, false));
            gid = if rng.chance(2, 3) { 0 } else { rng.below(3) as u16 };
        }
        _ => {
            // cycles and self reference
            let n = rng.range(1, 3) as usize;
            for i in 0..n {
                let ts = vec![((i + 1) % n) as u16];
                glyphs.push(composite_glyph(rng, &ts, false, false));
            }
            gid = 0;
        }
    }
    format!("{}|{}", gid, glyphs.iter().map(|g| hex(g)).collect::<Vec<_>>().join(","))
}

fn main() {
    harness_main(&run, &mut gen)
}
