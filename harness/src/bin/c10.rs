//! C10 correspondence: bare sfnt, TrueType collections and WOFF files through FontData /
//! FontTableProvider.
//! input  = KIND|FILEHEX|index|tag,tag,...|ORACLE|EXPECT
//!          ORACLE = `-` or `comphex=orighex;...` (`comphex=!` when zlib rejects it): the zlib
//!                   decoder's behaviour on the compressed WOFF entries, handed to the model
//!          EXPECT = `?` (malformed file: nothing is promised) or `ver:V;tags:t,t;tag=hex;tag=hex;...`
//!                   the flavour, directory tags and stored tables the generator wrapped
//! output = err:E | ver=V;tags=t,t,...;T:some:HEX;T:none;T:err:E;...
use allsorts::binary::read::ReadScope;
use allsorts::font_data::FontData;
use allsorts::tables::{FontTableProvider, SfntVersion};
use avh::prng::{hex, unhex, Rng};
use avh::{harness_main, perr};
use std::io::{Read, Write};
use std::panic::{catch_unwind, AssertUnwindSafe};

fn be16(v: &mut Vec<u8>, x: u16) {
    v.extend_from_slice(&x.to_be_bytes());
}
fn be32(v: &mut Vec<u8>, x: u32) {
    v.extend_from_slice(&x.to_be_bytes());
}
fn put32(v: &mut [u8], at: usize, x: u32) {
    v[at..at + 4].copy_from_slice(&x.to_be_bytes());
}

pub fn run(input: &str) -> String {
    let parts: Vec<&str> = input.split('|').collect();
    let file = unhex(parts[1]);
    let index: usize = parts[2].parse().unwrap();
    let tags: Vec<u32> = if parts[3].is_empty() { vec![] } else { parts[3].split(',').map(|t| t.parse().unwrap()).collect() };
    let res = catch_unwind(AssertUnwindSafe(|| {
        let fd = match ReadScope::new(&file).read::<FontData<'_>>() {
            Ok(f) => f,
            Err(e) => return format!("err:{}", perr(&e)),
        };
        if let FontData::Woff2(_) = fd {
            return "err:NotImplemented".to_string(); // C11's business
        }
        let p = match fd.table_provider(index) {
            Ok(p) => p,
            Err(allsorts::error::ReadWriteError::Read(e)) => return format!("err:{}", perr(&e)),
            Err(_) => return "err:OtherErr".to_string(),
        };
        let mut out = vec![format!("ver={}", p.sfnt_version())];
        out.push(format!(
            "tags={}",
            p.table_tags().unwrap_or_default().iter().map(|t| t.to_string()).collect::<Vec<_>>().join(",")
        ));
        for t in &tags {
            let has = p.has_table(*t);
            let s = match p.table_data(*t) {
                Ok(Some(d)) => {
                    assert!(has, "has_table false but table_data Some");
                    format!("{}:some:{}", t, hex(&d))
                }
                Ok(None) => {
                    assert!(!has, "has_table true but table_data None");
                    format!("{}:none", t)
                }
                Err(e) => format!("{}:err:{}", t, perr(&e)),
            };
            out.push(s);
        }
        out.join(";")
    }));
    match res {
        Ok(s) => s,
        Err(e) => avh::panic_kind(&*e).to_string(),
    }
}

fn zlib(data: &[u8], level: u32) -> Vec<u8> {
    let mut e = flate2::write::ZlibEncoder::new(Vec::new(), flate2::Compression::new(level));
    e.write_all(data).unwrap();
    e.finish().unwrap()
}
fn unzlib(data: &[u8]) -> Option<Vec<u8>> {
    let mut z = flate2::bufread::ZlibDecoder::new(data);
    let mut out = Vec::new();
    match z.read_to_end(&mut out) {
        Ok(_) => Some(out),
        Err(_) => None,
    }
}

const TAGS: &[u32] = &[0x68656164, 0x676c7966, 0x6c6f6361, 0x636d6170, 0x43464620, 0x6e616d65, 0x4f532f32, 0x00000000, 0xffffffff, 0x41424344];
const VERSIONS: &[u32] = &[0x00010000, 0x74727565, 0x4f54544f];

type Tables = Vec<(u32, Vec<u8>)>;

fn gen_tables(rng: &mut Rng) -> Tables {
    let n = match rng.below(8) {
        0 => 0,
        1 => 1,
        _ => 1 + rng.below(6) as usize,
    };
    let mut t = vec![];
    for _ in 0..n {
        let tag = if rng.chance(1, 8) { rng.next() as u32 } else { *rng.pick(TAGS) };
        let len = match rng.below(6) {
            0 => 0,
            1 => 1 + rng.below(3) as usize,
            _ => rng.below(28) as usize,
        };
        let data = if rng.chance(1, 3) { vec![rng.next() as u8; len] } else { rng.bytes(len) };
        t.push((tag, data));
    }
    t
}

/// lay the table bodies out after `start`, in random order with gaps; returns (offset,len) per table
fn place(rng: &mut Rng, file: &mut Vec<u8>, bodies: &[Vec<u8>]) -> Vec<(u32, u32)> {
    let mut order: Vec<usize> = (0..bodies.len()).collect();
    for i in (1..order.len()).rev() {
        order.swap(i, rng.below(i as u64 + 1) as usize);
    }
    let mut pos = vec![(0u32, 0u32); bodies.len()];
    for &i in &order {
        // sometimes share the bytes of an identical earlier body, sometimes overlap a prefix
        let gap = rng.below(4) as usize;
        file.extend(std::iter::repeat(0xAAu8).take(gap));
        pos[i] = (file.len() as u32, bodies[i].len() as u32);
        file.extend_from_slice(&bodies[i]);
    }
    pos
}

fn sfnt_directory(version: u32, recs: &[(u32, u32, u32)], rng: &mut Rng) -> Vec<u8> {
    let mut v = vec![];
    be32(&mut v, version);
    be16(&mut v, recs.len() as u16);
    be16(&mut v, rng.next() as u16);
    be16(&mut v, rng.next() as u16);
    be16(&mut v, rng.next() as u16);
    for (tag, off, len) in recs {
        be32(&mut v, *tag);
        be32(&mut v, rng.next() as u32);
        be32(&mut v, *off);
        be32(&mut v, *len);
    }
    v
}

struct Built {
    kind: &'static str,
    file: Vec<u8>,
    index: usize,
    expect: Option<(u32, Tables)>,
}

fn build_sfnt(rng: &mut Rng) -> Built {
    let tables = gen_tables(rng);
    let version = *rng.pick(VERSIONS);
    let dir_len = 12 + 16 * tables.len();
    let mut file = vec![0u8; dir_len];
    let bodies: Vec<Vec<u8>> = tables.iter().map(|t| t.1.clone()).collect();
    let pos = place(rng, &mut file, &bodies);
    let recs: Vec<(u32, u32, u32)> = tables.iter().zip(&pos).map(|(t, p)| (t.0, p.0, p.1)).collect();
    let dir = sfnt_directory(version, &recs, rng);
    file[..dir_len].copy_from_slice(&dir);
    Built { kind: "sfnt", file, index: rng.below(3) as usize, expect: Some((version, tables)) }
}

fn build_ttc(rng: &mut Rng) -> Built {
    let nfonts = 1 + rng.below(4) as usize;
    let pool = gen_tables(rng);
    // each member uses a subset of the pool (sharing), plus its own tables
    let mut members: Vec<(u32, Tables)> = vec![];
    for _ in 0..nfonts {
        let mut t: Tables = pool.iter().filter(|_| rng.chance(1, 2)).cloned().collect();
        if rng.chance(1, 2) {
            t.extend(gen_tables(rng).into_iter().take(2));
        }
        members.push((*rng.pick(VERSIONS), t));
    }
    let major: u16 = if rng.chance(1, 12) { *rng.pick(&[0u16, 3, 0xffff]) } else { 1 + rng.below(2) as u16 };
    let hdr_len = 12 + 4 * nfonts;
    let mut file = vec![0u8; hdr_len];
    // pool bodies are stored once and shared
    let mut stored: Vec<(Vec<u8>, u32)> = vec![];
    let mut dirs: Vec<(usize, Vec<(u32, u32, u32)>)> = vec![];
    for (_, t) in &members {
        let mut recs = vec![];
        for (tag, body) in t {
            let off = match stored.iter().find(|(b, _)| b == body && !body.is_empty() && rng.chance(3, 4)) {
                Some((_, off)) => *off,
                None => {
                    file.extend(std::iter::repeat(0u8).take(rng.below(4) as usize));
                    let off = file.len() as u32;
                    file.extend_from_slice(body);
                    stored.push((body.clone(), off));
                    off
                }
            };
            recs.push((*tag, off, body.len() as u32));
        }
        dirs.push((0, recs));
    }
    for (i, (ver, _)) in members.iter().enumerate() {
        file.extend(std::iter::repeat(0u8).take(rng.below(4) as usize));
        dirs[i].0 = file.len();
        let d = sfnt_directory(*ver, &dirs[i].1, rng);
        file.extend_from_slice(&d);
    }
    let mut hdr = vec![];
    be32(&mut hdr, 0x74746366);
    be16(&mut hdr, major);
    be16(&mut hdr, rng.below(2) as u16);
    be32(&mut hdr, nfonts as u32);
    for d in &dirs {
        be32(&mut hdr, d.0 as u32);
    }
    file[..hdr_len].copy_from_slice(&hdr);
    // member index: in range, just beyond, and usize values that alias a valid index modulo 2^32 / 2^16
    let index = match rng.below(8) {
        0 => ((1 + rng.below(3)) << 32) as usize + rng.below(nfonts as u64) as usize,
        1 => *rng.pick(&[usize::MAX, 1usize << 31, (1usize << 32) - 1, 1usize << 16, (1usize << 16) + 1, 1usize << 63]),
        _ => rng.below(nfonts as u64 + 2) as usize,
    };
    let expect = if major == 1 || major == 2 {
        if index < nfonts {
            Some(members[index].clone())
        } else {
            Some((u32::MAX, vec![])) // marker: index beyond the end => must be an error
        }
    } else {
        None
    };
    Built { kind: "ttc", file, index, expect }
}

fn build_woff(rng: &mut Rng) -> Built {
    let tables = gen_tables(rng);
    let flavor = *rng.pick(VERSIONS);
    let hdr_len = 44 + 20 * tables.len();
    let mut file = vec![0u8; hdr_len];
    let mut bodies = vec![];
    for (_, d) in &tables {
        let want_comp = rng.chance(2, 3);
        let c = zlib(d, rng.below(10) as u32);
        if want_comp && c.len() != d.len() {
            bodies.push(c); // any compressed form is allowed as long as its length differs from the original
        } else {
            bodies.push(d.clone());
        }
    }
    let pos = place(rng, &mut file, &bodies);
    let mut hdr = vec![];
    be32(&mut hdr, 0x774F4646);
    be32(&mut hdr, flavor);
    be32(&mut hdr, file.len() as u32);
    be16(&mut hdr, tables.len() as u16);
    be16(&mut hdr, if rng.chance(1, 15) { 1 } else { 0 });
    let reserved_bad = hdr[15] != 0;
    be32(&mut hdr, rng.next() as u32);
    be16(&mut hdr, 1);
    be16(&mut hdr, 0);
    for _ in 0..5 {
        be32(&mut hdr, 0);
    }
    for (i, (tag, d)) in tables.iter().enumerate() {
        be32(&mut hdr, *tag);
        be32(&mut hdr, pos[i].0);
        be32(&mut hdr, pos[i].1);
        be32(&mut hdr, d.len() as u32);
        be32(&mut hdr, rng.next() as u32);
    }
    file[..hdr_len].copy_from_slice(&hdr);
    Built { kind: "woff", file, index: rng.below(2) as usize, expect: if reserved_bad { None } else { Some((flavor, tables)) } }
}

fn mutate(rng: &mut Rng, b: &mut Built) {
    b.expect = None;
    b.kind = "mut";
    match rng.below(5) {
        0 => {
            let keep = rng.below(b.file.len() as u64 + 1) as usize;
            b.file.truncate(keep);
        }
        1 | 2 if b.file.len() >= 4 => {
            // overwrite an aligned u32 with a boundary value
            let at = (rng.below((b.file.len() / 4) as u64) * 4) as usize;
            let len = b.file.len() as u32;
            let v = *rng.pick(&[0u32, 1, len, len - 1, len + 1, 0xffff_ffff, 0x8000_0000, 0x7fff_ffff]);
            put32(&mut b.file, at, v);
        }
        3 if !b.file.is_empty() => {
            let at = rng.below(b.file.len() as u64) as usize;
            b.file[at] ^= 1 << rng.below(8);
        }
        _ => {
            let n = rng.below(64) as usize;
            b.file = rng.bytes(n);
        }
    }
}

/// the zlib decoder's verdict on every compressed entry of whatever WOFF directory the file has
fn oracle(file: &[u8]) -> String {
    if file.len() < 44 || file[0..4] != [0x77, 0x4F, 0x46, 0x46] {
        return "-".to_string();
    }
    let n = u16::from_be_bytes([file[12], file[13]]) as usize;
    let mut pairs = vec![];
    for i in 0..n {
        let at = 44 + 20 * i;
        if at + 20 > file.len() {
            break;
        }
        let g = |k: usize| u32::from_be_bytes([file[at + k], file[at + k + 1], file[at + k + 2], file[at + k + 3]]) as usize;
        let (off, comp, orig) = (g(4), g(8), g(12));
        if comp != orig && off.checked_add(comp).map_or(false, |e| e <= file.len()) && (off < file.len() || comp == 0) {
            let c = &file[off..off + comp];
            let s = match unzlib(c) {
                Some(o) => format!("{}={}", hex(c), hex(&o)),
                None => format!("{}=!", hex(c)),
            };
            if !pairs.contains(&s) {
                pairs.push(s);
            }
        }
    }
    if pairs.is_empty() {
        "-".to_string()
    } else {
        pairs.join(";")
    }
}

pub fn gen(rng: &mut Rng) -> String {
    let mut b = match rng.below(10) {
        0..=3 => build_sfnt(rng),
        4..=6 => build_ttc(rng),
        _ => build_woff(rng),
    };
    if rng.chance(1, 4) {
        mutate(rng, &mut b);
    }
    let mut tags: Vec<u32> = vec![];
    if let Some((_, t)) = &b.expect {
        for (tag, _) in t {
            if !tags.contains(tag) {
                tags.push(*tag);
            }
        }
    } else {
        tags.extend(TAGS.iter().take(4));
    }
    tags.push(*rng.pick(TAGS));
    tags.push(0x7a7a7a7a);
    let expect = match &b.expect {
        None => "?".to_string(),
        Some((ver, t)) => {
            let mut s = vec![format!("ver:{}", ver), format!("tags:{}", t.iter().map(|x| x.0.to_string()).collect::<Vec<_>>().join(","))];
            for (tag, d) in t {
                s.push(format!("{}={}", tag, hex(d)));
            }
            s.join(";")
        }
    };
    format!(
        "{}|{}|{}|{}|{}|{}",
        b.kind,
        hex(&b.file),
        b.index,
        tags.iter().map(|t| t.to_string()).collect::<Vec<_>>().join(","),
        oracle(&b.file),
        expect
    )
}

fn main() {
    harness_main(&run, &mut gen);
}
