//! C03 correspondence: results depend only on the arguments, not on earlier calls.
//!
//! input kinds (first field):
//!  L|GSUBSPEC|op;op;...          layout-cache layer on a synthesised GSUB (modelled in Coq, Model/Cache.v):
//!        op = li/SCRIPT/LANG/TUPLE/MASK   gsub::get_lookups_cache_index + cached_lookups[index]
//!           | sf/SCRIPT/LANG/MASK         gsub::features_supported
//!        output  h=r;r;...#f=r;r;...   (h: the ops in order on ONE LayoutCache; f: each op on a fresh cache)
//!        r = ok:IDX.TAG,IDX.TAG,... (`ok:` alone = empty list) | ok:0 | ok:1 | err:E | panic
//!  G|FONTSPEC|op;op;...          glyph-lookup layer of Font on a synthesised font (modelled in Coq):
//!        op = lg/CP/MP/VS   Font::lookup_glyph_index            -> GID.VS
//!           | ef/FLAGS      Font::set_embedded_image_filter     -> -
//!           | hi            Font::has_embedded_images           -> 0|1
//!           | gi            Font::lookup_glyph_image(3, 20, 32) -> none | err:E   (the synthesised image tables are empty)
//!           | dc            Font::shape(no glyphs) (performs the dotted-circle lookup) -> -
//!        output  h=...#f=...   (f: each op on a fresh Font configured with the last preceding `ef`)
//!  F|FONT|op;op;...|probe        history on a real Font (fixture path under tests/fonts, or syn:GSUBSPEC), judged
//!        output  D1 D2           digest of the probe after the history / on a fresh Font (same configuration)
//!  P|what|FONT|args              pure operation run twice in-process (P2: second run in a child process)
//!        what = subset | instance | decode (every table) | tags (provider.table_tags()) | whole (whole_font, sorted
//!               tags) | wholeu (whole_font with the tags in the order table_tags reports them)
//!        output  D1 D2
//! GSUBSPEC = FEATURES!SCRIPTS!FVRECORDS!NLOOKUPS!NAXES      (tags are decimal u32; `_` = empty list)
//!   FEATURES  = tag/l.l.l , ...
//!   SCRIPTS   = tag/DEFAULT/ls+ls+...  , ...    DEFAULT = x (absent) | i.i.i | _ ;  ls = tag=i.i.i ; no records: `_`
//!   FVRECORDS = CONDS/SUBSTS , ...  (`_`: no FeatureVariations table; `0`: a table with no records)
//!       CONDS = u (offset 0: universal) | e (empty set) | axis:min:max+axis:min:max...
//!       SUBSTS = n (offset 0) | e (empty table) | fidx=l.l.l+fidx=l.l.l
use allsorts::binary::read::ReadScope;
use allsorts::bitmap::{Bitmap, BitDepth, BitmapGlyph};
use allsorts::error::ParseError;
use allsorts::font::{GlyphTableFlags, MatchingPresentation};
use allsorts::font_data::FontData;
use allsorts::gsub::{self, FeatureInfo, FeatureMask, Features};
use allsorts::layout::{new_layout_cache, LayoutTable, GSUB};
use allsorts::tables::variable_fonts::fvar::Tuple;
use allsorts::tables::{F2Dot14, Fixed, FontTableProvider, SfntVersion};
use allsorts::unicode::VariationSelector;
use allsorts::{subset, tag, variations, Font};
use avh::prng::Rng;
use avh::{harness_main, panic_kind, perr};
use std::borrow::Cow;
use std::collections::HashMap;
use std::panic::{catch_unwind, AssertUnwindSafe};

// ------------------------------------------------------------------------------------------------
// small helpers

/// C03_DEBUG=1: to stderr; C03_DEBUG=/path: appended to that file (cases run in child processes without stderr)
macro_rules! t_debug {
    ($($a:tt)*) => {{
        let line = format!($($a)*);
        match std::env::var("C03_DEBUG") {
            Ok(p) if p.contains('/') => {
                use std::io::Write;
                if let Ok(mut f) = std::fs::OpenOptions::new().create(true).append(true).open(&p) {
                    let _ = writeln!(f, "{}", line);
                }
            }
            _ => eprintln!("{}", line),
        }
    }};
}

fn be16(v: &mut Vec<u8>, x: u16) {
    v.extend_from_slice(&x.to_be_bytes());
}
fn be32(v: &mut Vec<u8>, x: u32) {
    v.extend_from_slice(&x.to_be_bytes());
}
fn t4(s: &str) -> u32 {
    let b = s.as_bytes();
    u32::from_be_bytes([b[0], b[1], b[2], b[3]])
}
fn fnv(data: &[u8]) -> u64 {
    let mut h: u64 = 0xcbf29ce484222325;
    for b in data {
        h ^= *b as u64;
        h = h.wrapping_mul(0x100000001b3);
    }
    h
}
fn dig(s: &str) -> String {
    format!("{:016x}", fnv(s.as_bytes()))
}

#[derive(Clone)]
struct MapProvider {
    tables: HashMap<u32, Vec<u8>>,
}
impl FontTableProvider for MapProvider {
    fn table_data(&self, tag: u32) -> Result<Option<Cow<'_, [u8]>>, ParseError> {
        Ok(self.tables.get(&tag).map(|v| Cow::Borrowed(v.as_slice())))
    }
    fn has_table(&self, tag: u32) -> bool {
        self.tables.contains_key(&tag)
    }
    fn table_tags(&self) -> Option<Vec<u32>> {
        let mut t: Vec<u32> = self.tables.keys().copied().collect();
        t.sort();
        Some(t)
    }
}
impl SfntVersion for MapProvider {
    fn sfnt_version(&self) -> u32 {
        0x00010000
    }
}

fn fixture(path: &str) -> &'static [u8] {
    use std::sync::Mutex;
    static CACHE: Mutex<Option<HashMap<String, &'static [u8]>>> = Mutex::new(None);
    let mut g = CACHE.lock().unwrap();
    let m = g.get_or_insert_with(HashMap::new);
    if let Some(b) = m.get(path) {
        return b;
    }
    let repo = std::env::var("VERIF_REPO").unwrap_or_else(|_| "/repo".to_string());
    let data = std::fs::read(format!("{}/tests/fonts/{}", repo, path)).unwrap_or_default();
    let leaked: &'static [u8] = Box::leak(data.into_boxed_slice());
    m.insert(path.to_string(), leaked);
    leaked
}

// ------------------------------------------------------------------------------------------------
// GSUB spec

#[derive(Clone, Debug, Default)]
struct Script {
    tag: u32,
    default: Option<Vec<u16>>,
    langs: Vec<(u32, Vec<u16>)>,
}
#[derive(Clone, Debug)]
enum Conds {
    Universal,
    Set(Vec<(u16, i16, i16)>),
}
#[derive(Clone, Debug)]
enum Substs {
    None,
    Table(Vec<(u16, Vec<u16>)>),
}
#[derive(Clone, Debug, Default)]
struct GsubSpec {
    features: Vec<(u32, Vec<u16>)>,
    scripts: Vec<Script>,
    fv: Option<Vec<(Conds, Substs)>>,
    nlookups: u16,
    naxes: u16,
    /// `NLOOKUPSxSTRIDE`: every lookup is an Extension lookup (type 7, Offset32) whose SingleSubst subtable (and
    /// its Coverage) lies STRIDE bytes after the previous one: a layout table larger than 64 KiB
    ext: Option<u32>,
}

fn plist<T: std::str::FromStr>(s: &str) -> Vec<T>
where
    T::Err: std::fmt::Debug,
{
    if s == "_" || s.is_empty() {
        vec![]
    } else {
        s.split('.').map(|x| x.parse().unwrap()).collect()
    }
}
fn slist<T: ToString>(l: &[T]) -> String {
    if l.is_empty() {
        "_".to_string()
    } else {
        l.iter().map(|x| x.to_string()).collect::<Vec<_>>().join(".")
    }
}

fn parse_spec(s: &str) -> GsubSpec {
    let p: Vec<&str> = s.split('!').collect();
    let mut g = GsubSpec::default();
    if p[0] != "_" {
        for f in p[0].split(',') {
            let (t, l) = f.split_once('/').unwrap();
            g.features.push((t.parse().unwrap(), plist(l)));
        }
    }
    if p[1] != "_" {
        for sc in p[1].split(',') {
            let q: Vec<&str> = sc.split('/').collect();
            let mut scr = Script { tag: q[0].parse().unwrap(), default: None, langs: vec![] };
            if q[1] != "x" {
                scr.default = Some(plist(q[1]));
            }
            if q[2] != "_" {
                for ls in q[2].split('+') {
                    let (t, l) = ls.split_once('=').unwrap();
                    scr.langs.push((t.parse().unwrap(), plist(l)));
                }
            }
            g.scripts.push(scr);
        }
    }
    if p[2] == "0" {
        g.fv = Some(vec![]);
    } else if p[2] != "_" {
        let mut recs = vec![];
        for r in p[2].split(',') {
            let (c, su) = r.split_once('/').unwrap();
            let conds = match c {
                "u" => Conds::Universal,
                "e" => Conds::Set(vec![]),
                _ => Conds::Set(
                    c.split('+')
                        .map(|x| {
                            let v: Vec<&str> = x.split(':').collect();
                            (v[0].parse().unwrap(), v[1].parse().unwrap(), v[2].parse().unwrap())
                        })
                        .collect(),
                ),
            };
            let substs = match su {
                "n" => Substs::None,
                "e" => Substs::Table(vec![]),
                _ => Substs::Table(
                    su.split('+')
                        .map(|x| {
                            let (i, l) = x.split_once('=').unwrap();
                            (i.parse().unwrap(), plist(l))
                        })
                        .collect(),
                ),
            };
            recs.push((conds, substs));
        }
        g.fv = Some(recs);
    }
    match p[3].split_once('x') {
        Some((n, st)) => {
            g.nlookups = n.parse().unwrap();
            g.ext = Some(st.parse::<u32>().unwrap().clamp(12, 1 << 20));
        }
        None => g.nlookups = p[3].parse().unwrap(),
    }
    g.naxes = p[4].parse().unwrap();
    g
}

fn show_spec(g: &GsubSpec) -> String {
    let f = if g.features.is_empty() {
        "_".to_string()
    } else {
        g.features.iter().map(|(t, l)| format!("{}/{}", t, slist(l))).collect::<Vec<_>>().join(",")
    };
    let s = if g.scripts.is_empty() {
        "_".to_string()
    } else {
        g.scripts
            .iter()
            .map(|sc| {
                let d = match &sc.default {
                    None => "x".to_string(),
                    Some(l) => slist(l),
                };
                let ls = if sc.langs.is_empty() {
                    "_".to_string()
                } else {
                    sc.langs.iter().map(|(t, l)| format!("{}={}", t, slist(l))).collect::<Vec<_>>().join("+")
                };
                format!("{}/{}/{}", sc.tag, d, ls)
            })
            .collect::<Vec<_>>()
            .join(",")
    };
    let v = match &g.fv {
        None => "_".to_string(),
        Some(recs) if recs.is_empty() => "0".to_string(),
        Some(recs) => recs
            .iter()
            .map(|(c, su)| {
                let cs = match c {
                    Conds::Universal => "u".to_string(),
                    Conds::Set(l) if l.is_empty() => "e".to_string(),
                    Conds::Set(l) => {
                        l.iter().map(|(a, mn, mx)| format!("{}:{}:{}", a, mn, mx)).collect::<Vec<_>>().join("+")
                    }
                };
                let ss = match su {
                    Substs::None => "n".to_string(),
                    Substs::Table(l) if l.is_empty() => "e".to_string(),
                    Substs::Table(l) => {
                        l.iter().map(|(i, lk)| format!("{}={}", i, slist(lk))).collect::<Vec<_>>().join("+")
                    }
                };
                format!("{}/{}", cs, ss)
            })
            .collect::<Vec<_>>()
            .join(","),
    };
    let nl = match g.ext {
        Some(st) => format!("{}x{}", g.nlookups, st),
        None => g.nlookups.to_string(),
    };
    format!("{}!{}!{}!{}!{}", f, s, v, nl, g.naxes)
}

fn feature_table(lookups: &[u16]) -> Vec<u8> {
    let mut v = vec![];
    be16(&mut v, 0);
    be16(&mut v, lookups.len() as u16);
    for l in lookups {
        be16(&mut v, *l);
    }
    v
}
fn langsys_table(idx: &[u16]) -> Vec<u8> {
    let mut v = vec![];
    be16(&mut v, 0);
    be16(&mut v, 0xFFFF);
    be16(&mut v, idx.len() as u16);
    for i in idx {
        be16(&mut v, *i);
    }
    v
}

/// GSUB 1.1 bytes.  Lookup i is a SingleSubst format 1 covering glyph i+1 with delta +40, so shaping the text
/// "abcdefgh..." (glyph k for the k-th letter) shows exactly which lookups were applied.
fn gsub_bytes(g: &GsubSpec) -> Vec<u8> {
    // script list
    let mut sl = vec![];
    be16(&mut sl, g.scripts.len() as u16);
    let mut bodies: Vec<Vec<u8>> = vec![];
    for sc in &g.scripts {
        let mut st = vec![];
        let hdr = 4 + 6 * sc.langs.len();
        let mut tables: Vec<u8> = vec![];
        match &sc.default {
            None => be16(&mut st, 0),
            Some(l) => {
                be16(&mut st, hdr as u16);
                tables.extend(langsys_table(l));
            }
        }
        be16(&mut st, sc.langs.len() as u16);
        for (t, l) in &sc.langs {
            be32(&mut st, *t);
            be16(&mut st, (hdr + tables.len()) as u16);
            tables.extend(langsys_table(l));
        }
        st.extend(tables);
        bodies.push(st);
    }
    let mut off = 2 + 6 * g.scripts.len();
    for (sc, b) in g.scripts.iter().zip(&bodies) {
        be32(&mut sl, sc.tag);
        be16(&mut sl, off as u16);
        off += b.len();
    }
    for b in bodies {
        sl.extend(b);
    }
    // feature list
    let mut fl = vec![];
    be16(&mut fl, g.features.len() as u16);
    let mut off = 2 + 6 * g.features.len();
    let mut fbodies = vec![];
    for (t, l) in &g.features {
        be32(&mut fl, *t);
        be16(&mut fl, off as u16);
        let b = feature_table(l);
        off += b.len();
        fbodies.push(b);
    }
    for b in fbodies {
        fl.extend(b);
    }
    // lookup list
    let mut ll = vec![];
    be16(&mut ll, g.nlookups);
    let single = |ll: &mut Vec<u8>, i: u16| {
        be16(ll, 1); // format 1
        be16(ll, 6); // coverage offset
        be16(ll, 40); // delta
        be16(ll, 1); // coverage format 1
        be16(ll, 1); // count
        be16(ll, i + 1); // glyph
    };
    if let Some(stride) = g.ext {
        let n = g.nlookups as usize;
        for i in 0..n {
            be16(&mut ll, (2 + 2 * n + 16 * i) as u16);
        }
        let p0 = 2 + 2 * n + 16 * n + 6;
        for i in 0..n {
            be16(&mut ll, 7); // type: extension
            be16(&mut ll, 0); // flag
            be16(&mut ll, 1); // subtable count
            be16(&mut ll, 8); // subtable offset
            be16(&mut ll, 1); // format 1
            be16(&mut ll, 1); // extension lookup type: single
            let ext_pos = 2 + 2 * n + 16 * i + 8;
            be32(&mut ll, (p0 + i * stride as usize - ext_pos) as u32);
        }
        for i in 0..n {
            ll.resize(p0 + i * stride as usize, 0);
            single(&mut ll, i as u16);
        }
    } else {
        for i in 0..g.nlookups as usize {
            be16(&mut ll, (2 + 2 * g.nlookups as usize + 20 * i) as u16);
        }
        for i in 0..g.nlookups {
            be16(&mut ll, 1); // type: single
            be16(&mut ll, 0); // flag
            be16(&mut ll, 1); // subtable count
            be16(&mut ll, 8); // subtable offset
            single(&mut ll, i);
        }
    }
    // feature variations
    let mut fv = vec![];
    if let Some(recs) = &g.fv {
        be16(&mut fv, 1);
        be16(&mut fv, 0);
        be32(&mut fv, recs.len() as u32);
        let mut off = 8 + 8 * recs.len();
        let mut tail: Vec<u8> = vec![];
        for (c, su) in recs {
            match c {
                Conds::Universal => be32(&mut fv, 0),
                Conds::Set(l) => {
                    be32(&mut fv, (off + tail.len()) as u32);
                    let mut cs = vec![];
                    be16(&mut cs, l.len() as u16);
                    for i in 0..l.len() {
                        be32(&mut cs, (2 + 4 * l.len() + 8 * i) as u32);
                    }
                    for (a, mn, mx) in l {
                        be16(&mut cs, 1);
                        be16(&mut cs, *a);
                        be16(&mut cs, *mn as u16);
                        be16(&mut cs, *mx as u16);
                    }
                    tail.extend(cs);
                }
            }
            match su {
                Substs::None => be32(&mut fv, 0),
                Substs::Table(l) => {
                    be32(&mut fv, (off + tail.len()) as u32);
                    let mut ts = vec![];
                    be16(&mut ts, 1);
                    be16(&mut ts, 0);
                    be16(&mut ts, l.len() as u16);
                    let mut o2 = 6 + 6 * l.len();
                    let mut alts = vec![];
                    for (i, lk) in l {
                        be16(&mut ts, *i);
                        be32(&mut ts, o2 as u32);
                        let b = feature_table(lk);
                        o2 += b.len();
                        alts.extend(b);
                    }
                    ts.extend(alts);
                    tail.extend(ts);
                }
            }
        }
        off = 0;
        let _ = off;
        fv.extend(tail);
    }
    let mut v = vec![];
    be16(&mut v, 1);
    be16(&mut v, 1);
    let o_sl = 14usize;
    let o_fl = o_sl + sl.len();
    let o_ll = o_fl + fl.len();
    let o_fv = o_ll + ll.len();
    be16(&mut v, o_sl as u16);
    be16(&mut v, o_fl as u16);
    be16(&mut v, o_ll as u16);
    be32(&mut v, if g.fv.is_some() { o_fv as u32 } else { 0 });
    v.extend(sl);
    v.extend(fl);
    v.extend(ll);
    v.extend(fv);
    v
}

// ------------------------------------------------------------------------------------------------
// synthesised fonts

const NGLYPHS: u16 = 120;

fn cmap12(pairs: &[(u32, u16)]) -> Vec<u8> {
    let mut p = pairs.to_vec();
    p.sort();
    p.dedup_by_key(|x| x.0);
    let mut v = vec![];
    be16(&mut v, 0);
    be16(&mut v, 1);
    be16(&mut v, 3);
    be16(&mut v, 10);
    be32(&mut v, 12);
    be16(&mut v, 12);
    be16(&mut v, 0);
    be32(&mut v, (16 + 12 * p.len()) as u32);
    be32(&mut v, 0);
    be32(&mut v, p.len() as u32);
    for (c, g) in p {
        be32(&mut v, c);
        be32(&mut v, c);
        be32(&mut v, g as u32);
    }
    v
}

fn base_tables(pairs: &[(u32, u16)], naxes: u16) -> HashMap<u32, Vec<u8>> {
    let mut m = HashMap::new();
    m.insert(tag::CMAP, cmap12(pairs));
    let mut head = vec![];
    be32(&mut head, 0x00010000);
    be32(&mut head, 0x00010000);
    be32(&mut head, 0);
    be32(&mut head, 0x5F0F3CF5);
    be16(&mut head, 0);
    be16(&mut head, 1000);
    head.extend_from_slice(&[0; 16]);
    for _ in 0..4 {
        be16(&mut head, 0);
    }
    be16(&mut head, 0);
    be16(&mut head, 8);
    be16(&mut head, 2);
    be16(&mut head, 0);
    be16(&mut head, 0);
    m.insert(tag::HEAD, head);
    let mut maxp = vec![];
    be32(&mut maxp, 0x00005000);
    be16(&mut maxp, NGLYPHS);
    m.insert(tag::MAXP, maxp);
    let mut hhea = vec![];
    be32(&mut hhea, 0x00010000);
    for _ in 0..15 {
        be16(&mut hhea, 0);
    }
    be16(&mut hhea, NGLYPHS);
    m.insert(tag::HHEA, hhea);
    let mut hmtx = vec![];
    for g in 0..NGLYPHS {
        be16(&mut hmtx, 500 + g);
        be16(&mut hmtx, 0);
    }
    m.insert(tag::HMTX, hmtx);
    if naxes > 0 {
        let mut fvar = vec![];
        be16(&mut fvar, 1);
        be16(&mut fvar, 0);
        be16(&mut fvar, 16);
        be16(&mut fvar, 2);
        be16(&mut fvar, naxes);
        be16(&mut fvar, 20);
        be16(&mut fvar, 0);
        be16(&mut fvar, 4 + 4 * naxes);
        for i in 0..naxes {
            be32(&mut fvar, 0x77676874 + i as u32);
            be32(&mut fvar, 0);
            be32(&mut fvar, 0x00010000);
            be32(&mut fvar, 0x00020000);
            be16(&mut fvar, 0);
            be16(&mut fvar, 256 + i);
        }
        m.insert(tag::FVAR, fvar);
    }
    m
}

/// the letters a..z are glyphs 1..26, U+25CC is 30, U+1F600 is 31, U+2764 is 32
fn syn_pairs() -> Vec<(u32, u16)> {
    let mut p: Vec<(u32, u16)> = (0..26).map(|i| (0x61 + i as u32, 1 + i as u16)).collect();
    p.push((0x25CC, 30));
    p.push((0x1F600, 31));
    p.push((0x2764, 32));
    p
}

fn syn_font(spec: &GsubSpec) -> MapProvider {
    let mut m = base_tables(&syn_pairs(), spec.naxes);
    m.insert(tag::GSUB, gsub_bytes(spec));
    m.insert(tag::GLYF, vec![0; 4]);
    MapProvider { tables: m }
}

// ------------------------------------------------------------------------------------------------
// L: layout cache layer

fn parse_lang(s: &str) -> Option<u32> {
    if s == "-" {
        None
    } else {
        Some(s.parse().unwrap())
    }
}
fn parse_tuple(s: &str) -> Option<Vec<F2Dot14>> {
    if s == "-" {
        None
    } else if s == "_" {
        Some(vec![])
    } else {
        Some(s.split('.').map(|x| F2Dot14::from_raw(x.parse::<i16>().unwrap())).collect())
    }
}
fn as_tuple(v: &[F2Dot14]) -> Tuple<'_> {
    // SAFETY: a live slice; the length need not equal the axis count for the layout code (it uses `get`)
    unsafe { Tuple::from_raw_parts(v.as_ptr(), v.len()) }
}

fn l_op(cache: &allsorts::layout::LayoutCache<GSUB>, op: &str) -> String {
    let r = catch_unwind(AssertUnwindSafe(|| {
        let f: Vec<&str> = op.split('/').collect();
        match f[0] {
            "li" => {
                let script: u32 = f[1].parse().unwrap();
                let lang = parse_lang(f[2]);
                let tv = parse_tuple(f[3]);
                let mask = FeatureMask::from_bits_truncate(f[4].parse::<u64>().unwrap());
                let fvs = match cache.layout_table.feature_variations(tv.as_deref().map(as_tuple)) {
                    Ok(x) => x,
                    Err(e) => return format!("err:fv-{}", perr(&e)),
                };
                match gsub::get_lookups_cache_index(cache, script, lang, fvs.as_ref(), mask) {
                    Ok(idx) => {
                        let cl = cache.cached_lookups.borrow();
                        match cl.get(idx) {
                            Some(l) => format!(
                                "ok:{}",
                                l.iter().map(|(i, t)| format!("{}.{}", i, t)).collect::<Vec<_>>().join(",")
                            ),
                            None => "badindex".to_string(),
                        }
                    }
                    Err(e) => format!("err:{}", perr(&e)),
                }
            }
            "sf" => {
                let script: u32 = f[1].parse().unwrap();
                let lang = parse_lang(f[2]);
                let mask = FeatureMask::from_bits_truncate(f[3].parse::<u64>().unwrap());
                match gsub::features_supported(cache, script, lang, mask) {
                    Ok(b) => format!("ok:{}", b as u8),
                    Err(allsorts::error::ShapingError::Parse(e)) => format!("err:{}", perr(&e)),
                    Err(_) => "err:ComplexScript".to_string(),
                }
            }
            _ => "badop".to_string(),
        }
    }));
    r.unwrap_or_else(|e| panic_kind(&*e).to_string())
}

fn run_l(spec: &str, ops: &str) -> String {
    let g = parse_spec(spec);
    let bytes = gsub_bytes(&g);
    let mk = || ReadScope::new(&bytes).read::<LayoutTable<GSUB>>().map(new_layout_cache::<GSUB>);
    let cache = match mk() {
        Ok(c) => c,
        Err(e) => return format!("err:gsub-{}", perr(&e)),
    };
    let ops: Vec<&str> = ops.split(';').filter(|s| !s.is_empty()).collect();
    let h: Vec<String> = ops.iter().map(|op| l_op(&cache, op)).collect();
    let f: Vec<String> = ops.iter().map(|op| l_op(&mk().unwrap(), op)).collect();
    format!("h={}#f={}", h.join(";"), f.join(";"))
}

// ------------------------------------------------------------------------------------------------
// G: glyph lookup layer

fn parse_mp(s: &str) -> MatchingPresentation {
    if s == "r" {
        MatchingPresentation::Required
    } else {
        MatchingPresentation::NotRequired
    }
}
fn parse_vs(s: &str) -> Option<VariationSelector> {
    match s {
        "1" => Some(VariationSelector::VS01),
        "2" => Some(VariationSelector::VS02),
        "3" => Some(VariationSelector::VS03),
        "15" => Some(VariationSelector::VS15),
        "16" => Some(VariationSelector::VS16),
        _ => None,
    }
}
fn vs_num(v: VariationSelector) -> u8 {
    v as u8
}

/// FONTSPEC = PAIRS!TABLES!EMOJI   PAIRS = cp/gid,...
///   TABLES: letters g (glyf) c (CFF ) S/s (SVG valid/invalid) X/x (sbix) B/b (CBDT+CBLC) E/e (EBDT+EBLC), or `_`
///   EMOJI: the characters (of those a case may query) that have Emoji_Presentation, cp.cp...; the harness checks
///          the list against allsorts::unicode::bool_prop_emoji_presentation
fn g_font(spec: &str) -> MapProvider {
    let parts: Vec<&str> = spec.split('!').collect();
    let (pairs, tabs) = (parts[0], parts[1]);
    let mut p = vec![];
    if pairs != "_" {
        for x in pairs.split(',') {
            let f: Vec<&str> = x.split('/').collect();
            p.push((f[0].parse::<u32>().unwrap(), f[1].parse::<u16>().unwrap()));
        }
    }
    let mut m = base_tables(&p, 0);
    for c in tabs.chars() {
        match c {
            'g' => {
                m.insert(tag::GLYF, vec![0; 4]);
            }
            'c' => {
                m.insert(tag::CFF, vec![0; 4]);
            }
            'S' | 's' => {
                // SVG table: version 0, offset to document list 10, reserved; list with 0 entries
                let mut v = vec![];
                be16(&mut v, 0);
                be32(&mut v, 10);
                be32(&mut v, 0);
                be16(&mut v, 0);
                if c == 's' {
                    v.truncate(3);
                }
                m.insert(tag::SVG, v);
            }
            'X' | 'x' => {
                // sbix: version 1, flags 1, numStrikes 0
                let mut v = vec![];
                be16(&mut v, 1);
                be16(&mut v, 1);
                be32(&mut v, 0);
                if c == 'x' {
                    v.truncate(3);
                }
                m.insert(tag::SBIX, v);
            }
            'B' | 'b' | 'E' | 'e' => {
                // CBLC/EBLC: version 2.0 (3.0 for CBLC), numSizes 0;  CBDT/EBDT: version only
                let color = c == 'B' || c == 'b';
                let mut loc = vec![];
                be16(&mut loc, if color { 3 } else { 2 });
                be16(&mut loc, 0);
                be32(&mut loc, 0);
                let mut dat = vec![];
                be16(&mut dat, if color { 3 } else { 2 });
                be16(&mut dat, 0);
                if c == 'b' || c == 'e' {
                    loc.truncate(3);
                }
                if color {
                    m.insert(tag::CBLC, loc);
                    m.insert(tag::CBDT, dat);
                } else {
                    m.insert(tag::EBLC, loc);
                    m.insert(tag::EBDT, dat);
                }
            }
            _ => {}
        }
    }
    MapProvider { tables: m }
}

fn g_op(font: &mut Font<MapProvider>, op: &str) -> String {
    let r = catch_unwind(AssertUnwindSafe(|| {
        let f: Vec<&str> = op.split('/').collect();
        match f[0] {
            "lg" => {
                let ch = char::from_u32(f[1].parse().unwrap()).unwrap_or('\u{FFFD}');
                let (g, v) = font.lookup_glyph_index(ch, parse_mp(f[2]), parse_vs(f[3]));
                format!("{}.{}", g, vs_num(v))
            }
            "ef" => {
                font.set_embedded_image_filter(GlyphTableFlags::from_bits_truncate(f[1].parse().unwrap()));
                "-".to_string()
            }
            "hi" => format!("{}", font.has_embedded_images() as u8),
            "gi" => match font.lookup_glyph_image(3, 20, BitDepth::ThirtyTwo) {
                Ok(None) => "none".to_string(),
                Ok(Some(_)) => "some".to_string(),
                Err(e) => format!("err:{}", perr(&e)),
            },
            "dc" => {
                let _ = font.shape(vec![], tag::LATN, None, &Features::Mask(FeatureMask::empty()), None, false);
                "-".to_string()
            }
            _ => "badop".to_string(),
        }
    }));
    r.unwrap_or_else(|e| panic_kind(&*e).to_string())
}

fn run_g(spec: &str, ops: &str) -> String {
    let provider = g_font(spec);
    let emoji: Vec<u32> = plist(spec.split('!').nth(2).unwrap_or("_"));
    let ops_all: Vec<&str> = ops.split(';').filter(|s| !s.is_empty()).collect();
    for op in &ops_all {
        if let Some(rest) = op.strip_prefix("lg/") {
            let cp: u32 = rest.split('/').next().unwrap().parse().unwrap();
            let e = char::from_u32(cp).map(allsorts::unicode::bool_prop_emoji_presentation).unwrap_or(false);
            if e != emoji.contains(&cp) {
                return format!("badspec:emoji-flag-of-{}", cp);
            }
        }
    }
    let mut font = match Font::new(provider.clone()) {
        Ok(f) => f,
        Err(e) => return format!("err:font-{}", perr(&e)),
    };
    let ops: Vec<&str> = ops.split(';').filter(|s| !s.is_empty()).collect();
    let mut h = vec![];
    let mut f = vec![];
    let mut last_ef: Option<&str> = None;
    for op in &ops {
        h.push(g_op(&mut font, op));
        let mut fresh = Font::new(provider.clone()).unwrap();
        if let Some(ef) = last_ef {
            g_op(&mut fresh, ef);
        }
        f.push(g_op(&mut fresh, op));
        if op.starts_with("ef/") {
            last_ef = Some(op);
        }
    }
    format!("h={}#f={}", h.join(";"), f.join(";"))
}

// ------------------------------------------------------------------------------------------------
// F: histories on a real Font

fn parse_cps(s: &str) -> String {
    if s == "_" {
        return String::new();
    }
    s.split('.').filter_map(|x| u32::from_str_radix(x, 16).ok().and_then(char::from_u32)).collect()
}
fn parse_features(s: &str) -> Features {
    if let Some(m) = s.strip_prefix('m') {
        Features::Mask(FeatureMask::from_bits_truncate(m.parse::<u64>().unwrap()))
    } else {
        let body = &s[1..];
        let l = if body.is_empty() || body == "_" {
            vec![]
        } else {
            body.split('.')
                .map(|x| {
                    let (t, a) = match x.split_once('~') {
                        Some((t, a)) => (t, Some(a.parse::<usize>().unwrap())),
                        None => (x, None),
                    };
                    FeatureInfo { feature_tag: t.parse().unwrap(), alternate: a }
                })
                .collect()
        };
        Features::Custom(l)
    }
}

fn image_digest(r: Result<Option<BitmapGlyph>, ParseError>) -> String {
    match r {
        Err(e) => format!("err:{}", perr(&e)),
        Ok(None) => "none".to_string(),
        Ok(Some(b)) => {
            let (kind, data) = match &b.bitmap {
                Bitmap::Embedded(e) => (format!("emb{}x{}", e.width, e.height), e.data.clone()),
                Bitmap::Encapsulated(e) => ("enc".to_string(), e.data.clone()),
            };
            format!("img:{:?}:{:?}:{:?}:{}:{:016x}", b.ppem_x, b.ppem_y, b.metrics, kind, fnv(&data))
        }
    }
}

/// one API call; the full result is rendered to text (callers digest it)
fn f_op<T: FontTableProvider>(font: &mut Font<T>, op: &str) -> String {
    let r = catch_unwind(AssertUnwindSafe(|| {
        let f: Vec<&str> = op.split(':').collect();
        match f[0] {
            "sh" => {
                // sh:script:lang:features:tuple:kern:mp:cps
                let script: u32 = f[1].parse().unwrap();
                let lang = parse_lang(f[2]);
                let feats = parse_features(f[3]);
                let tv = parse_tuple(f[4]);
                let kern = f[5] == "1";
                let text = parse_cps(f[7]);
                let glyphs = font.map_glyphs(&text, script, parse_mp(f[6]));
                match font.shape(glyphs, script, lang, &feats, tv.as_deref().map(as_tuple), kern) {
                    Ok(infos) => format!("ok:{:?}", infos),
                    Err((e, infos)) => format!("err:{:?}:{:?}", e, infos),
                }
            }
            "mg" => {
                let script: u32 = f[1].parse().unwrap();
                let text = parse_cps(f[3]);
                format!("{:?}", font.map_glyphs(&text, script, parse_mp(f[2])))
            }
            "lg" => {
                let ch = u32::from_str_radix(f[1], 16).ok().and_then(char::from_u32).unwrap_or('\u{FFFD}');
                format!("{:?}", font.lookup_glyph_index(ch, parse_mp(f[2]), parse_vs(f[3])))
            }
            "ha" => format!("{:?}", font.horizontal_advance(f[1].parse().unwrap())),
            "va" => format!("{:?}", font.vertical_advance(f[1].parse().unwrap())),
            "gn" => {
                let ids: Vec<u16> = plist(f[1]);
                format!("{:?}", font.glyph_names(&ids))
            }
            "im" => {
                let depth = match f[3] {
                    "1" => BitDepth::One,
                    "2" => BitDepth::Two,
                    "4" => BitDepth::Four,
                    "8" => BitDepth::Eight,
                    _ => BitDepth::ThirtyTwo,
                };
                image_digest(font.lookup_glyph_image(f[1].parse().unwrap(), f[2].parse().unwrap(), depth))
            }
            "ef" => {
                font.set_embedded_image_filter(GlyphTableFlags::from_bits_truncate(f[1].parse().unwrap()));
                "-".to_string()
            }
            "hi" => format!("{}", font.has_embedded_images()),
            "tb" => format!(
                "{:?}",
                (
                    font.gdef_table().map(|x| x.is_some()).map_err(|e| perr(&e)),
                    font.morx_table().map(|x| x.is_some()).map_err(|e| perr(&e)),
                    font.kern_table().map(|x| x.is_some()).map_err(|e| perr(&e)),
                    font.vhea_table().map(|x| x.is_some()).map_err(|e| perr(&e)),
                    font.gsub_cache().map(|x| x.is_some()).map_err(|e| perr(&e)),
                    font.gpos_cache().map(|x| x.is_some()).map_err(|e| perr(&e)),
                )
            ),
            _ => "badop".to_string(),
        }
    }));
    r.unwrap_or_else(|e| {
        let msg = e.downcast_ref::<String>().cloned().or_else(|| e.downcast_ref::<&str>().map(|s| s.to_string()));
        format!("{}:{}!", panic_kind(&*e), msg.unwrap_or_default())
    })
}

fn f_history<T: FontTableProvider>(mk: &dyn Fn() -> Option<Font<T>>, hist: &str, probe: &str) -> String {
    let mut font = match mk() {
        Some(f) => f,
        None => return "nofont nofont".to_string(),
    };
    let debug = std::env::var("C03_DEBUG").is_ok();
    let mut cfg: Vec<&str> = vec![];
    for op in hist.split(';').filter(|s| !s.is_empty()) {
        // a panicking call is a result like any other (RefCell guards are released while unwinding)
        let r = f_op(&mut font, op);
        if debug {
            t_debug!("history {} -> {}", op, r);
        }
        if op.starts_with("ef:") {
            cfg = vec![op];
        }
    }
    let a = f_op(&mut font, probe);
    let mut fresh = mk().unwrap();
    for op in cfg {
        f_op(&mut fresh, op);
    }
    let b = f_op(&mut fresh, probe);
    // a second probe on the same object must also agree (a cache filled by the probe itself)
    let c = f_op(&mut font, probe);
    if debug {
        t_debug!("probe {} -> after history: {}\n fresh: {}\n again: {}", probe, a, b, c);
    }
    if c != a {
        return format!("{} {}", dig(&c), dig(&b));
    }
    format!("{} {}", dig(&a), dig(&b))
}

fn run_f(fontname: &str, hist: &str, probe: &str) -> String {
    if let Some(spec) = fontname.strip_prefix("syn:") {
        let g = parse_spec(spec);
        let provider = syn_font(&g);
        f_history(&|| Font::new(provider.clone()).ok(), hist, probe)
    } else {
        let data = fixture(fontname);
        f_history(
            &|| {
                let fd = ReadScope::new(data).read::<FontData<'_>>().ok()?;
                let p = fd.table_provider(0).ok()?;
                Font::new(p).ok()
            },
            hist,
            probe,
        )
    }
}

// ------------------------------------------------------------------------------------------------
// T: object histories on ONE lazily parsed, memoising GlyfTable (visit / subset / write / get_parsed_glyph)
//
//  T|MODE!g,g,g,...|op;op;...|probe
//     MODE = p (records stay `Present` until first use) | r (every record that parses is parsed up front)
//     g    = e (empty) | sN (simple glyph, N points, the encoding the writer itself produces)
//          | qN (simple glyph in a compact encoding: short vectors, REPEAT, Y_IS_SAME)
//          | cI.J.K (composite of glyphs I, J, K; indices may be >= numGlyphs or refer upwards)
//          | kI.J (composite with WE_HAVE_A_SCALE) | tN (simple glyph cut off after endPtsOfContours)
//          | uI (composite cut off after its first component, MORE_COMPONENTS set)
//     op   = v:G (OutlineBuilder::visit, recording sink) | s:I.J.K (GlyfTable::subset -> write_dep Long)
//          | w:0 / w:1 (write_dep of a copy of the records, Short / Long) | g:G (get_parsed_glyph)
//          | n:G (records()[G]: number_of_contours, number_of_points, is_composite)
//     output D1 D2 : digest of (every op of the history and the probe, the probe once more) on the one table /
//                    of the same ops each on a freshly read table
use allsorts::binary::write::{WriteBinaryDep, WriteBuffer};
use allsorts::outline::{OutlineBuilder, OutlineSink};
use allsorts::pathfinder_geometry::line_segment::LineSegment2F;
use allsorts::pathfinder_geometry::vector::Vector2F;
use allsorts::tables::glyf::{GlyfTable, Glyph};
use allsorts::tables::loca::LocaTable;
use allsorts::tables::IndexToLocFormat;

#[derive(Default)]
struct RecSink(String);
impl OutlineSink for RecSink {
    fn move_to(&mut self, to: Vector2F) {
        self.0.push_str(&format!("M{},{} ", to.x(), to.y()));
    }
    fn line_to(&mut self, to: Vector2F) {
        self.0.push_str(&format!("L{},{} ", to.x(), to.y()));
    }
    fn quadratic_curve_to(&mut self, c: Vector2F, to: Vector2F) {
        self.0.push_str(&format!("Q{},{},{},{} ", c.x(), c.y(), to.x(), to.y()));
    }
    fn cubic_curve_to(&mut self, c: LineSegment2F, to: Vector2F) {
        self.0.push_str(&format!("C{},{},{},{},{},{} ", c.from_x(), c.from_y(), c.to_x(), c.to_y(), to.x(), to.y()));
    }
    fn close(&mut self) {
        self.0.push_str("Z ");
    }
}

fn bei16(v: &mut Vec<u8>, x: i16) {
    v.extend_from_slice(&x.to_be_bytes());
}

fn t_glyph_bytes(idx: usize, g: &str) -> Vec<u8> {
    let mut v = vec![];
    let (k, rest) = g.split_at(1);
    let header = |v: &mut Vec<u8>, nc: i16| {
        bei16(v, nc);
        for b in [0i16, 0, 100, 100] {
            bei16(v, b);
        }
    };
    match k {
        "s" | "q" | "t" => {
            let n: usize = rest.parse::<usize>().unwrap_or(1).clamp(1, 40);
            header(&mut v, 1);
            be16(&mut v, (n - 1) as u16);
            if k == "t" {
                return v;
            }
            be16(&mut v, 0);
            let xs: Vec<i16> = (0..n).map(|j| ((idx * 7 + j * 13) % 100) as i16).collect();
            let ys: Vec<i16> = (0..n).map(|j| ((j * 29 + idx * 3) % 100) as i16).collect();
            if k == "s" {
                for j in 0..n {
                    v.push(if (j + idx) % 3 != 1 { 1 } else { 0 });
                }
                let mut prev = 0i16;
                for x in &xs {
                    bei16(&mut v, x - prev);
                    prev = *x;
                }
                prev = 0;
                for y in &ys {
                    bei16(&mut v, y - prev);
                    prev = *y;
                }
            } else {
                // ON_CURVE | X_SHORT | X_POSITIVE | Y_IS_SAME, repeated; x deltas as single bytes, no y data
                let f = 0x01 | 0x02 | 0x10 | 0x20;
                if n > 1 {
                    v.push(f | 0x08);
                    v.push((n - 1) as u8);
                } else {
                    v.push(f);
                }
                for j in 0..n {
                    v.push(((idx + j * 5) % 50) as u8);
                }
            }
        }
        "c" | "k" | "u" => {
            let comps: Vec<u16> = plist(rest);
            header(&mut v, -1);
            let m = comps.len();
            for (j, c) in comps.iter().enumerate() {
                let more = j + 1 < m || k == "u";
                let mut flags: u16 = 0x0001 | 0x0002;
                if more {
                    flags |= 0x0020;
                }
                if k == "k" {
                    flags |= 0x0008;
                }
                be16(&mut v, flags);
                be16(&mut v, *c);
                bei16(&mut v, 10 * (j as i16 + 1));
                bei16(&mut v, (idx % 7) as i16);
                if k == "k" {
                    be16(&mut v, 0x2000);
                }
                if k == "u" {
                    break;
                }
            }
        }
        _ => {}
    }
    v
}

fn t_tables(spec: &str) -> (bool, Vec<u8>, Vec<u8>, usize) {
    let (mode, glyphs) = spec.split_once('!').unwrap_or(("p", spec));
    let gs: Vec<&str> = glyphs.split(',').filter(|s| !s.is_empty()).collect();
    let mut glyf = vec![];
    let mut loca = vec![];
    for (i, g) in gs.iter().enumerate() {
        be32(&mut loca, glyf.len() as u32);
        glyf.extend(t_glyph_bytes(i, g));
    }
    be32(&mut loca, glyf.len() as u32);
    (mode == "r", glyf, loca, gs.len())
}

fn t_load<'a>(pre: bool, glyf: &'a [u8], loca: &'a LocaTable<'a>) -> Result<GlyfTable<'a>, ParseError> {
    let mut t = ReadScope::new(glyf).read_dep::<GlyfTable<'_>>(loca)?;
    if pre {
        for r in t.records_mut() {
            let _ = r.parse();
        }
    }
    Ok(t)
}

/// the glyphs of a written table, re-read one by one: what the bytes mean (a record written from its raw bytes
/// and the same record written from its parsed form may legitimately differ in encoding)
fn t_written(bytes: &[u8], offsets: &[u32], exact: bool) -> String {
    let mut s = String::new();
    for w in offsets.windows(2) {
        let (a, b) = (w[0] as usize, w[1] as usize);
        if a == b {
            s.push_str("E;");
        } else if a > b || b > bytes.len() {
            s.push_str("badloca;");
        } else {
            match ReadScope::new(&bytes[a..b]).read::<Glyph<'_>>() {
                // of the flags of a point only ON_CURVE_POINT is meaning; the others describe the encoding
                Ok(Glyph::Simple(g)) => s.push_str(&format!(
                    "S{:?}{:?}{:?}{:?}{:?};",
                    g.bounding_box,
                    g.end_pts_of_contours,
                    g.instructions,
                    g.coordinates.iter().map(|(f, p)| (f.is_on_curve(), p.0, p.1)).collect::<Vec<_>>(),
                    g.phantom_points
                )),
                Ok(g) => s.push_str(&format!("{:?};", g)),
                Err(e) => s.push_str(&format!("err-{}:{:016x};", perr(&e), fnv(&bytes[a..b]))),
            }
        }
    }
    if exact {
        s.push_str(&format!("bytes:{}:{:016x}", bytes.len(), fnv(bytes)));
    }
    format!("ok:{}:{}", offsets.len(), dig(&s))
}

fn t_op(t: &mut GlyfTable<'_>, op: &str, exact: bool) -> String {
    let r = catch_unwind(AssertUnwindSafe(|| {
        let (k, a) = op.split_once(':').unwrap_or((op, ""));
        match k {
            "v" => {
                let mut sink = RecSink::default();
                match t.visit(a.parse().unwrap_or(0), &mut sink) {
                    Ok(()) => format!("ok:{}", sink.0),
                    Err(e) => format!("err:{}", perr(&e)),
                }
            }
            "s" => {
                let ids: Vec<u16> = plist(a);
                match t.subset(&ids) {
                    Ok(sub) => {
                        let mut buf = WriteBuffer::new();
                        match GlyfTable::write_dep(&mut buf, GlyfTable::from(sub), IndexToLocFormat::Long) {
                            Ok(loca) => t_written(buf.bytes(), &loca.offsets, exact),
                            Err(e) => format!("werr:{:?}", e),
                        }
                    }
                    Err(e) => format!("err:{}", perr(&e)),
                }
            }
            "w" => {
                let fmt = if a == "0" { IndexToLocFormat::Short } else { IndexToLocFormat::Long };
                match GlyfTable::new(t.records().to_vec()) {
                    Ok(copy) => {
                        let mut buf = WriteBuffer::new();
                        match GlyfTable::write_dep(&mut buf, copy, fmt) {
                            Ok(loca) => t_written(buf.bytes(), &loca.offsets, exact),
                            Err(e) => format!("werr:{:?}", e),
                        }
                    }
                    Err(e) => format!("err:{}", perr(&e)),
                }
            }
            "g" => match t.get_parsed_glyph(a.parse().unwrap_or(0)) {
                Ok(g) => format!("ok:{:?}", g),
                Err(e) => format!("err:{}", perr(&e)),
            },
            "n" => match t.records().get(a.parse::<usize>().unwrap_or(0)) {
                Some(r) => format!(
                    "ok:{}:{}:{}",
                    r.number_of_contours(),
                    match r.number_of_points() {
                        Ok(n) => n.to_string(),
                        Err(e) => format!("err-{}", perr(&e)),
                    },
                    r.is_composite()
                ),
                None => "none".to_string(),
            },
            _ => "badop".to_string(),
        }
    }));
    r.unwrap_or_else(|e| panic_kind(&*e).to_string())
}

fn run_t(spec: &str, hist: &str, probe: &str) -> String {
    let (pre, glyf, loca_bytes, n) = t_tables(spec);
    // byte-exact comparison of written tables only when every glyph is in the writer's own encoding
    let exact = !spec.contains('q');
    let loca = match ReadScope::new(&loca_bytes).read_dep::<LocaTable<'_>>((n, IndexToLocFormat::Long)) {
        Ok(l) => l,
        Err(_) => return "nofont nofont -".to_string(),
    };
    let mut used = match t_load(pre, &glyf, &loca) {
        Ok(t) => t,
        Err(_) => return "nofont nofont -".to_string(),
    };
    let debug = std::env::var("C03_DEBUG").is_ok();
    let mut ops: Vec<&str> = hist.split(';').filter(|s| !s.is_empty()).collect();
    ops.push(probe);
    let (mut a, mut b) = (String::new(), String::new());
    let mut status: Vec<String> = vec![];
    for op in &ops {
        let ra = t_op(&mut used, op, exact);
        let rb = match t_load(pre, &glyf, &loca) {
            Ok(mut fresh) => t_op(&mut fresh, op, exact),
            Err(_) => "noload".to_string(),
        };
        if debug {
            t_debug!("{} -> one table: {}\n      fresh table: {}", op, ra, rb);
        }
        status.push(t_status(op, &rb));
        a.push_str(&ra);
        a.push('\n');
        b.push_str(&rb);
        b.push('\n');
    }
    // the probe once more on the same object (a state change made by the probe itself)
    let rc = t_op(&mut used, probe, exact);
    let rb = t_op(&mut t_load(pre, &glyf, &loca).unwrap(), probe, exact);
    if debug {
        t_debug!("{} (again) -> one table: {}\n      fresh table: {}", probe, rc, rb);
    }
    a.push_str(&rc);
    b.push_str(&rb);
    format!("{} {} {}", dig(&a), dig(&b), status.join(","))
}

/// what the extracted model predicts of a call on a freshly read table: visit -> ok:<simple glyphs drawn> (every
/// synthesised simple glyph has one contour, i.e. one move_to) | err:E; get_parsed_glyph -> ok:E | ok:S |
/// ok:C<component indices> | err:E; other calls are not modelled (`-`)
fn t_status(op: &str, res: &str) -> String {
    if res == "panic" || res == "oob" {
        return res.to_string();
    }
    if let Some(e) = res.strip_prefix("err:") {
        return if op.starts_with("v:") || op.starts_with("g:") { format!("err:{}", e) } else { "-".to_string() };
    }
    if op.starts_with("v:") {
        format!("ok:{}", res.matches('M').count())
    } else if op.starts_with("g:") {
        let r = res.strip_prefix("ok:").unwrap_or(res);
        if r.starts_with("Empty") {
            "ok:E".to_string()
        } else if r.starts_with("Simple") {
            "ok:S".to_string()
        } else {
            let mut ids = vec![];
            let mut rest = r;
            while let Some(i) = rest.find("glyph_index: ") {
                rest = &rest[i + 13..];
                let end = rest.find(|c: char| !c.is_ascii_digit()).unwrap_or(rest.len());
                ids.push(rest[..end].to_string());
            }
            format!("ok:C{}", ids.join("."))
        }
    } else {
        "-".to_string()
    }
}

// ------------------------------------------------------------------------------------------------
// P: pure operations

fn pure_once(what: &str, fontname: &str, args: &str) -> String {
    let r = catch_unwind(AssertUnwindSafe(|| {
        let data = fixture(fontname);
        let fd = match ReadScope::new(data).read::<FontData<'_>>() {
            Ok(f) => f,
            Err(e) => return format!("err:fontdata-{}", perr(&e)),
        };
        let provider = match fd.table_provider(0) {
            Ok(p) => p,
            Err(e) => return format!("err:provider-{:?}", e),
        };
        match what {
            "subset" => {
                let ids: Vec<u16> = plist(args);
                match subset::subset(&provider, &ids) {
                    Ok(b) => format!("ok:{}:{:016x}", b.len(), fnv(&b)),
                    Err(e) => format!("err:{:?}", e),
                }
            }
            "instance" => {
                let cs: Vec<Fixed> = plist::<i32>(args).into_iter().map(Fixed::from_raw).collect();
                match variations::instance(&provider, &cs) {
                    Ok((b, t)) => format!("ok:{}:{:016x}:{:?}", b.len(), fnv(&b), t),
                    Err(e) => format!("err:{:?}", e),
                }
            }
            "decode" => {
                // every table of a (WOFF/WOFF2/OpenType) file, in tag order, plus the order table_tags reports
                let tags = provider.table_tags().unwrap_or_default();
                let mut sorted = tags.clone();
                sorted.sort();
                let mut h = String::new();
                for t in &sorted {
                    match provider.table_data(*t) {
                        Ok(Some(d)) => h.push_str(&format!("{:08x}:{}:{:016x},", t, d.len(), fnv(&d))),
                        Ok(None) => h.push_str(&format!("{:08x}:none,", t)),
                        Err(e) => h.push_str(&format!("{:08x}:err-{},", t, perr(&e))),
                    }
                }
                format!("ok:{}:{}", sorted.len(), dig(&h))
            }
            "tags" => format!("ok:{:?}", provider.table_tags()),
            "wholeu" => {
                // the natural use: hand whole_font the tags in the order the provider reports them
                let tags = provider.table_tags().unwrap_or_default();
                match subset::whole_font(&provider, &tags) {
                    Ok(b) => format!("ok:{}:{:016x}", b.len(), fnv(&b)),
                    Err(e) => format!("err:{:?}", e),
                }
            }
            "whole" => {
                let mut tags = provider.table_tags().unwrap_or_default();
                tags.sort();
                match subset::whole_font(&provider, &tags) {
                    Ok(b) => format!("ok:{}:{:016x}", b.len(), fnv(&b)),
                    Err(e) => format!("err:{:?}", e),
                }
            }
            _ => "badop".to_string(),
        }
    }));
    r.unwrap_or_else(|e| panic_kind(&*e).to_string())
}

fn run_p(kind: &str, what: &str, fontname: &str, args: &str) -> String {
    let a = pure_once(what, fontname, args);
    let b = if kind == "P2" {
        let exe = std::env::current_exe().unwrap();
        let out = std::process::Command::new(exe)
            .arg("replay")
            .arg(format!("P1|{}|{}|{}", what, fontname, args))
            .output();
        match out {
            Ok(o) => {
                let s = String::from_utf8_lossy(&o.stdout).to_string();
                s.trim().rsplit(" => ").next().unwrap_or("").to_string()
            }
            Err(_) => "child-failed".to_string(),
        }
    } else if kind == "P1" {
        return a;
    } else {
        pure_once(what, fontname, args)
    };
    format!("{} {}", a.replace(' ', "_"), b.replace(' ', "_"))
}

fn run(input: &str) -> String {
    match catch_unwind(AssertUnwindSafe(|| run_inner(input))) {
        Ok(s) => s,
        Err(e) => {
            let msg = e.downcast_ref::<String>().cloned().or_else(|| e.downcast_ref::<&str>().map(|s| s.to_string()));
            format!("harness-panic:{}", msg.unwrap_or_default().replace('\n', " "))
        }
    }
}

fn run_inner(input: &str) -> String {
    let p: Vec<&str> = input.split('|').collect();
    match p[0] {
        "L" if p.len() == 3 => run_l(p[1], p[2]),
        "G" if p.len() == 3 => run_g(p[1], p[2]),
        "F" if p.len() == 4 => run_f(p[1], p[2], p[3]),
        "T" if p.len() == 4 => run_t(p[1], p[2], p[3]),
        "P" | "P1" | "P2" if p.len() == 4 => run_p(p[0], p[1], p[2], p[3]),
        _ => "badinput".to_string(),
    }
}

// ------------------------------------------------------------------------------------------------
// generators

const TAGS_F: &[&str] = &["rvrn", "liga", "calt", "ccmp", "locl", "frac", "smcp", "vert", "vrt2", "clig", "zzzz"];
const SCRIPTS_L: &[&str] = &["latn", "DFLT", "cyrl", "grek"];
const LANGS_L: &[&str] = &["DFLT", "ENG ", "URD ", "dflt"];

fn pk(rng: &mut Rng, xs: &[&'static str]) -> &'static str {
    xs[rng.below(xs.len() as u64) as usize]
}

fn mask_of(t: &str) -> u64 {
    FeatureMask::from_tag(t4(t)).bits()
}

fn gen_mask(rng: &mut Rng) -> u64 {
    match rng.below(8) {
        0 => FeatureMask::default().bits(),
        1 => mask_of("rvrn"),
        2 => 0,
        3 => rng.next() & ((1u64 << 46) - 1),
        _ => {
            let mut m = 0;
            for _ in 0..1 + rng.below(3) {
                m |= mask_of(pk(rng, TAGS_F));
            }
            m
        }
    }
}

fn gen_idx_list(rng: &mut Rng, n: u64, bound: u64, bad: bool) -> Vec<u16> {
    (0..n)
        .map(|_| if bad && rng.chance(1, 12) { (bound + rng.below(3)) as u16 } else { rng.below(bound.max(1)) as u16 })
        .collect()
}

fn gen_spec(rng: &mut Rng) -> GsubSpec {
    let nlookups = 2 + rng.below(7) as u16;
    let naxes = rng.below(3) as u16;
    let malformed = rng.chance(1, 8);
    let nfeat = 1 + rng.below(7);
    let mut features = vec![];
    for _ in 0..nfeat {
        let t = t4(pk(rng, TAGS_F));
        let n = rng.below(4);
        features.push((t, gen_idx_list(rng, n, nlookups as u64, malformed)));
    }
    let nscripts = rng.below(4);
    let mut scripts = vec![];
    let mut used = vec![];
    for _ in 0..nscripts {
        let t = t4(pk(rng, SCRIPTS_L));
        if used.contains(&t) && rng.chance(3, 4) {
            continue;
        }
        used.push(t);
        let default = if rng.chance(1, 5) {
            None
        } else {
            let n = rng.below(5);
            Some(gen_idx_list(rng, n, nfeat, malformed))
        };
        let mut langs = vec![];
        for _ in 0..rng.below(3) {
            let n = rng.below(5);
            langs.push((t4(pk(rng, LANGS_L)), gen_idx_list(rng, n, nfeat, malformed)));
        }
        scripts.push(Script { tag: t, default, langs });
    }
    let fv = if rng.chance(1, 4) {
        None
    } else {
        let mut recs = vec![];
        for _ in 0..rng.below(4) {
            let c = match rng.below(6) {
                0 => Conds::Universal,
                1 => Conds::Set(vec![]),
                _ => Conds::Set(
                    (0..1 + rng.below(2))
                        .map(|_| {
                            let a = rng.below(3) as u16;
                            let lo = *rng.pick(&[-16384i16, -8192, 0, 1, 4096]);
                            let hi = *rng.pick(&[-1i16, 0, 8192, 16384]);
                            (a, lo, hi)
                        })
                        .collect(),
                ),
            };
            let s = match rng.below(6) {
                0 => Substs::None,
                1 => Substs::Table(vec![]),
                _ => {
                    let mut l: Vec<(u16, Vec<u16>)> = (0..1 + rng.below(3))
                        .map(|_| {
                            let n = rng.below(4);
                            (rng.below(nfeat + 1) as u16, gen_idx_list(rng, n, nlookups as u64, malformed))
                        })
                        .collect();
                    if rng.chance(7, 8) {
                        l.sort();
                    }
                    Substs::Table(l)
                }
            };
            recs.push((c, s));
        }
        Some(recs)
    };
    GsubSpec { features, scripts, fv, nlookups, naxes, ext: None }
}

/// a GSUB shaped like real variable fonts: `rvrn` (and one more feature) in every LangSys, FeatureVariations
/// records with axis-range conditions that replace the feature tables of those features
fn gen_spec_rvrn(rng: &mut Rng) -> GsubSpec {
    let nlookups = 4 + rng.below(5) as u16;
    let naxes = 1 + rng.below(2) as u16;
    let other = t4(pk(rng, &["liga", "calt", "ccmp", "locl"]));
    let features = vec![
        (t4("rvrn"), vec![rng.below(nlookups as u64) as u16]),
        (other, vec![rng.below(nlookups as u64) as u16]),
        (t4("liga"), gen_idx_list(rng, 2, nlookups as u64, false)),
    ];
    let mut scripts = vec![];
    for s in ["DFLT", "latn"] {
        if rng.chance(4, 5) {
            let mut langs = vec![];
            if rng.chance(1, 2) {
                langs.push((t4(pk(rng, LANGS_L)), vec![0, 2]));
            }
            scripts.push(Script { tag: t4(s), default: Some(vec![0, 1]), langs });
        }
    }
    let mut recs = vec![];
    for _ in 0..1 + rng.below(3) {
        let lo = *rng.pick(&[-16384i16, 0, 1, 4096]);
        let hi = *rng.pick(&[0i16, 8192, 16384]);
        let n0 = 1 + rng.below(2);
        let mut l = vec![(0u16, gen_idx_list(rng, n0, nlookups as u64, false))];
        if rng.chance(1, 2) {
            l.push((1, gen_idx_list(rng, 1, nlookups as u64, false)));
        }
        recs.push((Conds::Set(vec![(rng.below(naxes as u64) as u16, lo, hi)]), Substs::Table(l)));
    }
    GsubSpec { features, scripts, fv: Some(recs), nlookups, naxes, ext: None }
}

fn gen_tuple_str(rng: &mut Rng, naxes: u16) -> String {
    if rng.chance(1, 3) {
        return "-".to_string();
    }
    let n = if rng.chance(1, 10) { rng.below(4) as u16 } else { naxes };
    if n == 0 {
        return "_".to_string();
    }
    (0..n)
        .map(|_| rng.pick(&[-16384i32, -8192, -1, 0, 1, 4096, 8192, 16384]).to_string())
        .collect::<Vec<_>>()
        .join(".")
}

fn gen_l(rng: &mut Rng) -> String {
    let g = if rng.chance(1, 3) { gen_spec_rvrn(rng) } else { gen_spec(rng) };
    let nops = 1 + rng.below(8);
    let mut ops = vec![];
    // a small pool of arguments so that keys repeat
    let scripts: Vec<u32> = (0..2).map(|_| t4(pk(rng, SCRIPTS_L))).collect();
    let langs: Vec<String> =
        (0..2).map(|_| if rng.chance(1, 3) { "-".to_string() } else { t4(pk(rng, LANGS_L)).to_string() }).collect();
    let masks: Vec<u64> = (0..2).map(|_| gen_mask(rng)).collect();
    let tuples: Vec<String> = (0..3).map(|_| gen_tuple_str(rng, g.naxes)).collect();
    for _ in 0..nops {
        if rng.chance(1, 4) {
            ops.push(format!("sf/{}/{}/{}", rng.pick(&scripts), rng.pick(&langs), rng.pick(&masks)));
        } else {
            ops.push(format!(
                "li/{}/{}/{}/{}",
                rng.pick(&scripts),
                rng.pick(&langs),
                rng.pick(&tuples),
                rng.pick(&masks)
            ));
        }
    }
    format!("L|{}|{}", show_spec(&g), ops.join(";"))
}

const G_CHARS: &[(u32, bool)] =
    &[(0x25CC, false), (0x41, false), (0x1F600, true), (0x2764, false), (0x231A, true), (0x263A, false)];

fn gen_g(rng: &mut Rng) -> String {
    let mut pairs = vec![];
    for (i, (c, _)) in G_CHARS.iter().enumerate() {
        if rng.chance(5, 6) {
            pairs.push(format!("{}/{}", c, 3 + i));
        }
    }
    let emoji: Vec<u32> = G_CHARS.iter().filter(|x| x.1).map(|x| x.0).collect();
    let mut tabs = String::new();
    for c in ["g", "c", "S", "s", "X", "x", "B", "b", "E", "e"] {
        if rng.chance(1, 4) {
            let lower = c.to_lowercase();
            if !tabs.to_lowercase().contains(&lower) {
                tabs.push_str(c);
            }
        }
    }
    if tabs.is_empty() {
        tabs.push('_');
    }
    let ps = if pairs.is_empty() { "_".to_string() } else { pairs.join(",") };
    let mut ops = vec![];
    for _ in 0..1 + rng.below(8) {
        match rng.below(11) {
            0 => ops.push("hi".to_string()),
            1 => ops.push("dc".to_string()),
            10 => ops.push("gi".to_string()),
            2 => ops.push(format!("ef/{}", rng.pick(&[0u8, 4, 8, 16, 32, 28, 60, 127, 36]))),
            _ => {
                let c = if rng.chance(1, 2) { 0x25CC } else { G_CHARS[rng.below(G_CHARS.len() as u64) as usize].0 };
                ops.push(format!(
                    "lg/{}/{}/{}",
                    c,
                    rng.pick(&["r", "n"]),
                    rng.pick(&["-", "-", "15", "16", "1"])
                ));
            }
        }
    }
    format!("G|{}!{}!{}|{}", ps, tabs, slist(&emoji), ops.join(";"))
}

struct Fx {
    path: &'static str,
    scripts: &'static [&'static str],
    langs: &'static [&'static str],
    cps: &'static [u32],
    axes: u16,
    nglyphs: u16,
}

const FIXTURES: &[Fx] = &[
    Fx { path: "opentype/OpenSans-Regular.ttf", scripts: &["latn", "cyrl"], langs: &["ENG ", "ROM "], cps: &[0x66, 0x69, 0x66, 0x6c, 0x41, 0x56, 0x54, 0x6f, 0x20, 0x31, 0x2f, 0x32], axes: 0, nglyphs: 900 },
    Fx { path: "opentype/Klei.otf", scripts: &["latn"], langs: &["ENG "], cps: &[0x66, 0x66, 0x69, 0x6a, 0x79, 0x20, 0x54, 0x65], axes: 0, nglyphs: 300 },
    Fx { path: "opentype/SourceCodePro-Regular.otf", scripts: &["latn", "grek"], langs: &["ENG ", "NLD "], cps: &[0x30, 0x31, 0x2f, 0x32, 0x61, 0x69, 0x6a, 0x3b1], axes: 0, nglyphs: 1500 },
    Fx { path: "noto/NotoNaskhArabic-Regular.ttf", scripts: &["arab"], langs: &["URD ", "ARA ", "SND "], cps: &[0x628, 0x633, 0x645, 0x20, 0x627, 0x644, 0x644, 0x647, 0x64e, 0x651, 0x6cc], axes: 0, nglyphs: 1000 },
    Fx { path: "arabic/Scheherazade-Regular.ttf", scripts: &["arab"], langs: &["URD ", "KUR "], cps: &[0x628, 0x633, 0x645, 0x20, 0x627, 0x644, 0x647, 0x64e, 0x6be], axes: 0, nglyphs: 1500 },
    Fx { path: "noto/NotoSansDevanagari-Regular.ttf", scripts: &["dev2", "deva"], langs: &["MAR ", "NEP "], cps: &[0x915, 0x94d, 0x937, 0x93f, 0x930, 0x93e, 0x902, 0x924, 0x25cc, 0x94d], axes: 0, nglyphs: 800 },
    Fx { path: "devanagari/lohit_hi.ttf", scripts: &["deva", "dev2"], langs: &["HIN "], cps: &[0x915, 0x94d, 0x937, 0x93f, 0x930, 0x93e, 0x902, 0x924, 0x93c], axes: 0, nglyphs: 500 },
    Fx { path: "noto/NotoSansTamil-Regular.ttf", scripts: &["tml2", "taml"], langs: &["TAM "], cps: &[0xb95, 0xbcd, 0xbb7, 0xbca, 0xbb0, 0xbbf, 0xb9f], axes: 0, nglyphs: 200 },
    Fx { path: "noto/NotoSansBengali-Regular.ttf", scripts: &["bng2", "beng"], langs: &["BEN "], cps: &[0x995, 0x9cd, 0x9b7, 0x9bf, 0x9b0, 0x9cb, 0x9a4], axes: 0, nglyphs: 600 },
    Fx { path: "noto/NotoSansKhmer-Regular.ttf", scripts: &["khmr"], langs: &["KHM "], cps: &[0x1780, 0x17d2, 0x1798, 0x17c2, 0x179a, 0x17b6, 0x17c6], axes: 0, nglyphs: 300 },
    Fx { path: "myanmar/Padauk-Regular.ttf", scripts: &["mym2", "mymr"], langs: &["BRM "], cps: &[0x1000, 0x1039, 0x1019, 0x103c, 0x1031, 0x102c, 0x1036, 0x1004, 0x103a], axes: 0, nglyphs: 1000 },
    Fx { path: "noto/NotoSansSyriacEastern-Regular.ttf", scripts: &["syrc"], langs: &["SYR "], cps: &[0x710, 0x712, 0x713, 0x715, 0x20, 0x720, 0x721, 0x730], axes: 0, nglyphs: 200 },
    Fx { path: "noto/NotoSansThai-Regular.ttf", scripts: &["thai"], langs: &["THA "], cps: &[0xe01, 0xe33, 0xe48, 0xe35, 0xe1b, 0xe31, 0xe49], axes: 0, nglyphs: 140 },
    Fx { path: "noto/NotoSansLao-Regular.ttf", scripts: &["lao "], langs: &["LAO "], cps: &[0xe81, 0xeb3, 0xec8, 0xeb5, 0xe9b], axes: 0, nglyphs: 110 },
    Fx { path: "variable/Zycon.ttf", scripts: &["latn", "DFLT"], langs: &["ENG "], cps: &[0x61, 0x62, 0x63, 0x1f408, 0x1f6b4, 0x41], axes: 6, nglyphs: 60 },
    Fx { path: "variable/Inter[slnt,wght].abc.ttf", scripts: &["latn"], langs: &["ENG "], cps: &[0x61, 0x62, 0x63], axes: 2, nglyphs: 10 },
    Fx { path: "opentype/NotoSans-VF.abc.ttf", scripts: &["latn"], langs: &["ENG "], cps: &[0x61, 0x62, 0x63], axes: 3, nglyphs: 8 },
    Fx { path: "variable/UnderlineTest-VF.ttf", scripts: &["latn"], langs: &["ENG "], cps: &[0x61, 0x62, 0x5f, 0x41], axes: 2, nglyphs: 8 },
    Fx { path: "sbix/sbix-dupe.ttf", scripts: &["latn"], langs: &["ENG "], cps: &[0x41, 0x42, 0x43, 0x58], axes: 0, nglyphs: 6 },
    Fx { path: "svg/gzipped.ttf", scripts: &["latn"], langs: &["ENG "], cps: &[0x41, 0x42, 0x43], axes: 0, nglyphs: 6 },
    Fx { path: "opentype/SymbolTest-Regular.ttf", scripts: &["latn", "DFLT"], langs: &["ENG "], cps: &[0x41, 0x42, 0xf041, 0xf020, 0x20, 0x61], axes: 0, nglyphs: 6 },
    Fx { path: "noto/NotoSansJP-Regular.otf", scripts: &["kana", "hani", "latn"], langs: &["JAN "], cps: &[0x3042, 0x30fc, 0x3001, 0x4e00, 0x28, 0x41], axes: 0, nglyphs: 17000 },
];

const COMMON_CPS: &[u32] = &[0x25cc, 0xfe0f, 0xfe0e, 0x1f600, 0x200d, 0x200c, 0x20, 0x2764, 0x41];
const FEAT_F: &[&str] = &["liga", "calt", "ccmp", "locl", "frac", "smcp", "vert", "vrt2", "clig", "rlig", "rvrn", "kern", "init", "fina", "dlig", "c2sc", "onum", "zero"];

fn gen_text(rng: &mut Rng, fx_cps: &[u32]) -> String {
    let n = rng.below(9);
    if n == 0 {
        return "_".to_string();
    }
    (0..n)
        .map(|_| {
            let c = if rng.chance(1, 7) { *rng.pick(COMMON_CPS) } else { *rng.pick(fx_cps) };
            format!("{:x}", c)
        })
        .collect::<Vec<_>>()
        .join(".")
}

fn gen_features_str(rng: &mut Rng) -> String {
    if rng.chance(2, 3) {
        let mut m = FeatureMask::default().bits();
        match rng.below(5) {
            0 => {}
            1 => m = 0,
            2 => m |= mask_of(pk(rng, FEAT_F)),
            3 => m = mask_of(pk(rng, FEAT_F)) | mask_of(pk(rng, FEAT_F)),
            _ => m |= mask_of("frac") | mask_of(pk(rng, FEAT_F)),
        }
        format!("m{}", m)
    } else {
        let n = rng.below(4);
        if n == 0 {
            return "c_".to_string();
        }
        format!(
            "c{}",
            (0..n)
                .map(|_| {
                    let t = t4(pk(rng, FEAT_F));
                    if rng.chance(1, 8) {
                        format!("{}~{}", t, rng.below(3))
                    } else {
                        t.to_string()
                    }
                })
                .collect::<Vec<_>>()
                .join(".")
        )
    }
}

fn gen_f_op(rng: &mut Rng, scripts: &[String], langs: &[String], feats: &[String], tuples: &[String], cps: &[u32], nglyphs: u16, probe: bool) -> String {
    let gid = |rng: &mut Rng| {
        if rng.chance(1, 10) {
            rng.below(70000).min(65535)
        } else {
            rng.below(nglyphs as u64 + 2)
        }
    };
    match rng.below(if probe { 19 } else { 20 }) {
        0..=8 => {
            format!(
                "sh:{}:{}:{}:{}:{}:{}:{}",
                rng.pick(scripts),
                rng.pick(langs),
                rng.pick(feats),
                rng.pick(tuples),
                rng.below(2),
                rng.pick(&["n", "n", "r"]),
                gen_text(rng, cps)
            )
        }
        9 | 10 => format!("mg:{}:{}:{}", rng.pick(scripts), rng.pick(&["n", "r"]), gen_text(rng, cps)),
        11 | 12 => {
            let c = if rng.chance(1, 2) { 0x25cc } else if rng.chance(1, 2) { *rng.pick(COMMON_CPS) } else { *rng.pick(cps) };
            format!("lg:{:x}:{}:{}", c, rng.pick(&["n", "r"]), rng.pick(&["-", "-", "15", "16", "1"]))
        }
        13 => format!("ha:{}", gid(rng)),
        14 => format!("va:{}", rng.below(nglyphs as u64)),
        15 => format!("gn:{}", slist(&(0..1 + rng.below(4)).map(|_| gid(rng)).collect::<Vec<_>>())),
        16 => format!("im:{}:{}:{}", gid(rng), rng.pick(&[0u16, 16, 20, 128, 300, 1000]), rng.pick(&[1, 8, 32])),
        17 => "hi".to_string(),
        18 => "tb".to_string(),
        _ => format!("ef:{}", rng.pick(&[0u8, 4, 8, 16, 32, 28, 60, 127])),
    }
}

/// a long history on one Font that visits many distinct cache keys (every language tag, script and feature
/// set is a key of the layout caches) and then repeats its first query: bounded caches, eviction and
/// index bookkeeping only show after dozens of distinct keys
fn gen_f_long(rng: &mut Rng) -> String {
    let fx = &FIXTURES[rng.below(FIXTURES.len() as u64) as usize];
    let scripts: Vec<String> = fx.scripts.iter().map(|s| t4(s).to_string()).collect();
    let mut langs: Vec<String> = fx.langs.iter().map(|s| t4(s).to_string()).collect();
    langs.push("-".to_string());
    let cps = fx.cps.to_vec();
    let tuple = if fx.axes == 0 { "-".to_string() } else { gen_tuple_str(rng, fx.axes) };
    let text = gen_text(rng, &cps);
    let feat0 = gen_features_str(rng);
    let script0 = rng.pick(&scripts).clone();
    let first = format!("sh:{}:{}:{}:{}:{}:n:{}", script0, rng.pick(&langs), feat0, tuple, rng.below(2), text);
    let n = 60 + rng.below(90);
    let mut hist = vec![first.clone()];
    for k in 0..n {
        // mostly new language tags (unknown tags fall back to the default LangSys but are distinct keys),
        // sometimes another script / feature set / one of the other operations
        let lang = format!("{}", 0x41414141u32 + (k as u32) * 0x01030507 % 0x19191919);
        let op = match rng.below(10) {
            0 => gen_f_op(rng, &scripts, &langs, &[feat0.clone()], &[tuple.clone()], &cps, fx.nglyphs, false),
            1 => format!("sh:{}:{}:{}:{}:{}:n:{}", rng.pick(&scripts), lang, gen_features_str(rng), tuple, rng.below(2), text),
            _ => format!("sh:{}:{}:{}:{}:{}:n:{}", script0, lang, feat0, tuple, rng.below(2), text),
        };
        hist.push(op);
    }
    let probe = if rng.chance(3, 4) { first } else { hist[rng.below(hist.len() as u64) as usize].clone() };
    format!("F|{}|{}|{}", fx.path, hist.join(";"), probe)
}

/// a layout table larger than 64 KiB: every lookup is an Extension lookup, the subtables (and their Coverage
/// tables) lie STRIDE bytes apart - exactly, nearly or not at all a multiple of 2^16 / 2^8; each feature selects
/// one lookup, the history shapes with some features, the probe with another one (lookups are parsed lazily,
/// their Coverage objects are memoised by position)
fn gen_f_ext(rng: &mut Rng) -> String {
    const FT: &[&str] = &["liga", "ccmp", "calt", "locl", "smcp", "frac", "clig"];
    let n = 2 + rng.below(5) as usize;
    let features: Vec<(u32, Vec<u16>)> = (0..n).map(|i| (t4(FT[i]), vec![i as u16])).collect();
    let all: Vec<u16> = (0..n as u16).collect();
    let latn = Script { tag: t4("latn"), default: Some(all.clone()), langs: vec![] };
    let stride = *rng.pick(&[65536u32, 65536, 65536, 131072, 196608, 65534, 65538, 32768, 256, 4096, 16, 12]);
    let g = GsubSpec { features, scripts: vec![latn], fv: None, nlookups: n as u16, naxes: 0, ext: Some(stride) };
    let text = "61.62.63.64.65.66.67.68";
    let shape = |rng: &mut Rng| {
        let mut m = mask_of(FT[rng.below(n as u64) as usize]);
        if rng.chance(1, 4) {
            m |= mask_of(FT[rng.below(n as u64) as usize]);
        }
        format!("sh:{}:-:m{}:-:0:n:{}", t4("latn"), m, text)
    };
    let h = 1 + rng.below(3);
    let hist: Vec<String> = (0..h).map(|_| shape(rng)).collect();
    format!("F|syn:{}|{}|{}", show_spec(&g), hist.join(";"), shape(rng))
}

fn gen_f(rng: &mut Rng) -> String {
    if rng.chance(1, 25) {
        return gen_f_long(rng);
    }
    if rng.chance(1, 16) {
        return gen_f_ext(rng);
    }
    let (name, mut scripts, mut langs, cps, axes, nglyphs): (String, Vec<String>, Vec<String>, Vec<u32>, u16, u16) =
        if rng.chance(1, 4) {
            let mut g = if rng.chance(1, 2) { gen_spec_rvrn(rng) } else { gen_spec(rng) };
            if rng.chance(1, 3) {
                // a layout table larger than 64 KiB: Extension lookups whose subtables (and Coverage tables) lie
                // exactly / nearly a multiple of 2^16, 2^8 bytes apart
                g.ext = Some(*rng.pick(&[65536u32, 65536, 131072, 65534, 65538, 32768, 256, 12]));
            }
            let sc: Vec<String> = SCRIPTS_L.iter().map(|s| t4(s).to_string()).collect();
            let la: Vec<String> = LANGS_L.iter().map(|s| t4(s).to_string()).collect();
            (format!("syn:{}", show_spec(&g)), sc, la, (0x61..0x6b).collect(), g.naxes.max(1), NGLYPHS)
        } else {
            let fx = &FIXTURES[rng.below(FIXTURES.len() as u64) as usize];
            (
                fx.path.to_string(),
                fx.scripts.iter().map(|s| t4(s).to_string()).collect(),
                fx.langs.iter().map(|s| t4(s).to_string()).collect(),
                fx.cps.to_vec(),
                fx.axes,
                fx.nglyphs,
            )
        };
    if rng.chance(1, 3) {
        scripts.push(t4(pk(rng, &["latn", "arab", "deva", "DFLT", "khmr", "mym2", "syrc", "thai", "zzzz"])).to_string());
    }
    langs.push("-".to_string());
    langs.push(t4("DFLT").to_string());
    // restrict the argument pools of one case so that histories revisit cache keys with one argument changed
    let pick_n = |rng: &mut Rng, v: &Vec<String>, n: usize| -> Vec<String> { (0..n).map(|_| rng.pick(v).clone()).collect() };
    let scripts = pick_n(rng, &scripts, 2);
    let langs = pick_n(rng, &langs, 2);
    let feats: Vec<String> = (0..2).map(|_| gen_features_str(rng)).collect();
    let tuples: Vec<String> = (0..3)
        .map(|_| if axes == 0 && rng.chance(9, 10) { "-".to_string() } else { gen_tuple_str(rng, axes) })
        .collect();
    let n = rng.below(6);
    let hist: Vec<String> =
        (0..n).map(|_| gen_f_op(rng, &scripts, &langs, &feats, &tuples, &cps, nglyphs, false)).collect();
    let probe = gen_f_op(rng, &scripts, &langs, &feats, &tuples, &cps, nglyphs, true);
    format!("F|{}|{}|{}", name, hist.join(";"), probe)
}

const SUBSET_FONTS: &[(&str, u16)] = &[
    ("opentype/test-font.ttf", 4),
    ("opentype/SFNT-TTF-Composite.ttf", 4),
    ("opentype/Klei.otf", 300),
    ("opentype/SourceCodePro-Regular.otf", 1500),
    ("opentype/OpenSans-Regular.ttf", 900),
    ("woff2/test-font.woff2", 4),
    ("woff1/valid-005.woff", 2),
    ("opentype/cff2/SourceSansVariable-Roman.abc.otf", 4),
];
const VAR_FONTS: &[(&str, usize)] = &[
    ("opentype/NotoSans-VF.abc.ttf", 3),
    ("variable/UnderlineTest-VF.ttf", 2),
    ("variable/Inter[slnt,wght].abc.ttf", 2),
    ("opentype/cff2/SourceSansVariable-Roman.abc.otf", 1),
];
const DECODE_FONTS: &[&str] = &[
    "woff2/test-font.woff2",
    "woff2/SFNT-TTF-Composite.woff2",
    "woff2/TestSVGgzip.woff2",
    "woff2/roundtrip-hmtx-lsb-001.woff2",
    "woff2/roundtrip-offset-tables-001.woff2",
    "woff2/test_glyf_loca_null_transforms.woff2",
    "woff1/valid-001.woff",
    "woff1/valid-002.woff",
    "woff1/valid-005.woff",
    "woff1/valid-006.woff",
    "woff1/chromacheck-sbix.woff",
    "opentype/test-font.ttf",
];

fn gen_p(rng: &mut Rng) -> String {
    let kind = if rng.chance(1, 12) { "P2" } else { "P" };
    match rng.below(4) {
        0 | 1 => {
            let (f, n) = *rng.pick(SUBSET_FONTS);
            let mut ids: Vec<u16> = vec![0];
            for _ in 0..rng.below(6) {
                ids.push(1 + rng.below(n as u64 - 1) as u16);
            }
            ids.sort();
            ids.dedup();
            format!("{}|subset|{}|{}", kind, f, slist(&ids))
        }
        2 => {
            let (f, n) = *rng.pick(VAR_FONTS);
            let cs: Vec<i32> = (0..n).map(|_| (rng.range(-200, 1000) as i32) << 16).collect();
            format!("{}|instance|{}|{}", kind, f, slist(&cs))
        }
        _ => format!("{}|{}|{}|_", kind, rng.pick(&["decode", "decode", "whole", "wholeu", "tags"]), rng.pick(DECODE_FONTS)),
    }
}

/// a glyf table with composite glyphs on purpose: chains whose nesting straddles the recursion limit of the
/// outline code (6), DAGs with shared components, component indices at and past numGlyphs, upward / self
/// references, glyphs whose data does not parse; histories with failing queries followed by probes that succeed
/// on a fresh table
fn gen_t(rng: &mut Rng) -> String {
    let mut gs: Vec<String> = vec!["e".to_string()];
    let simple = |rng: &mut Rng| format!("{}{}", if rng.chance(1, 4) { "q" } else { "s" }, 1 + rng.below(6));
    let shape = rng.below(4);
    if shape <= 1 {
        // chain: glyph k is made of glyph k-1 (and sometimes of a second, shallow glyph)
        gs.push(simple(rng));
        if rng.chance(1, 2) {
            gs.push(simple(rng));
        }
        let base = gs.len();
        let len = 4 + rng.below(7) as usize; // deepest glyph nests 4..10 levels: limit 6 is in the middle
        for k in 0..len {
            let prev = base + k - 1;
            let mut c = format!("{}{}", if rng.chance(1, 8) { "k" } else { "c" }, prev);
            if rng.chance(1, 4) {
                c.push_str(&format!(".{}", 1 + rng.below(base as u64 - 1)));
            }
            gs.push(c);
        }
        if shape == 1 {
            // the bottom of the chain is not drawable
            gs[base - 1] = match rng.below(3) {
                0 => format!("t{}", 1 + rng.below(4)),
                1 => "u1".to_string(),
                _ => format!("c{}", gs.len() + rng.below(3) as usize),
            };
        }
    } else {
        let n = 3 + rng.below(10) as usize;
        for i in 1..n {
            let g = match rng.below(12) {
                0..=3 => simple(rng),
                4 => "e".to_string(),
                5 => format!("t{}", 1 + rng.below(4)),
                6 if i > 1 => format!("u{}", rng.below(i as u64)),
                _ if i > 1 => {
                    let m = 1 + rng.below(3);
                    let comps: Vec<u16> = (0..m)
                        .map(|_| match rng.below(16) {
                            0 => *rng.pick(&[n as u16, n as u16 + 1, 65535]),
                            1 => i as u16,                                    // itself
                            2 => (i as u64 + rng.below((n - i) as u64)) as u16, // upwards
                            _ => rng.below(i as u64) as u16,
                        })
                        .collect();
                    format!("{}{}", if rng.chance(1, 8) { "k" } else { "c" }, slist(&comps))
                }
                _ => simple(rng),
            };
            gs.push(g);
        }
    }
    let n = gs.len() as u64;
    let gid = |rng: &mut Rng| -> u64 {
        match rng.below(10) {
            0 => n + rng.below(2),
            1..=4 => n - 1 - rng.below(n.min(3)),
            _ => rng.below(n),
        }
    };
    let op = |rng: &mut Rng, probe: bool| -> String {
        match rng.below(if probe { 8 } else { 10 }) {
            0..=2 => format!("v:{}", gid(rng)),
            3 | 4 => {
                let mut ids: Vec<u64> = vec![0];
                for _ in 0..1 + rng.below(3) {
                    let g = gid(rng).min(n - 1).max(1);
                    if !ids.contains(&g) {
                        ids.push(g);
                    }
                }
                format!("s:{}", slist(&ids))
            }
            5 => format!("w:{}", rng.below(2)),
            6 => format!("g:{}", gid(rng)),
            7 => format!("n:{}", gid(rng)),
            _ => format!("v:{}", gid(rng)),
        }
    };
    let h = 1 + rng.below(5);
    let hist: Vec<String> = (0..h).map(|_| op(rng, false)).collect();
    let probe = if rng.chance(1, 4) { hist[0].clone() } else { op(rng, true) };
    format!("T|{}!{}|{}|{}", if rng.chance(1, 4) { "r" } else { "p" }, gs.join(","), hist.join(";"), probe)
}

fn gen(rng: &mut Rng) -> String {
    match rng.below(20) {
        0..=5 => gen_l(rng),
        6..=9 => gen_g(rng),
        10..=16 => gen_f(rng),
        17..=18 => gen_t(rng),
        _ => gen_p(rng),
    }
}

fn main() {
    for (c, e) in G_CHARS {
        let ch = char::from_u32(*c).unwrap();
        assert_eq!(allsorts::unicode::bool_prop_emoji_presentation(ch), *e, "emoji presentation flag of U+{:X}", c);
    }
    let mut gen_checked = |rng: &mut Rng| match catch_unwind(AssertUnwindSafe(|| gen(rng))) {
        Ok(s) => s,
        Err(e) => {
            let msg = e.downcast_ref::<String>().cloned().or_else(|| e.downcast_ref::<&str>().map(|s| s.to_string()));
            eprintln!("c03: generator panicked: {:?}", msg);
            std::process::exit(3)
        }
    };
    harness_main(&run, &mut gen_checked)
}
