//! C04 correspondence: random abstract GSUB lookup programs (every lookup type 1-8, every subtable /
//! coverage / classdef format, extension wrapping, all lookup-flag combinations, GDEF classes, mark
//! attachment classes, mark filtering sets) x random glyph strings.  The program is serialised to GSUB and
//! GDEF bytes, parsed by the real `LayoutTable::<GSUB>` / `GDEFTable` readers and run through
//! `gsub::apply` (Features::Custom) or `gsub::gsub_apply_lookup`; the result is printed in the format of
//! the OCaml model driver (ocaml/c04/drv.ml, which also documents the case grammar).
#[path = "../layoutser.rs"]
mod layoutser;

use allsorts::binary::read::ReadScope;
use allsorts::error::{ParseError, ShapingError};
use allsorts::gpos::Info;
use allsorts::tables::FontTableProvider;
use allsorts::Font;
use std::borrow::Cow;
use std::collections::HashMap;
use allsorts::gsub::{self, FeatureInfo, Features, GlyphOrigin, RawGlyph, RawGlyphFlags};
use allsorts::layout::{new_layout_cache, GDEFTable, LayoutTable, GSUB};
use allsorts::tables::variable_fonts::fvar::Tuple;
use allsorts::tables::F2Dot14;
use allsorts::tinyvec::TinyVec;
use allsorts::unicode::VariationSelector;
use avh::prng::Rng;
use avh::{build_mode, harness_main};
use layoutser::*;
use std::panic::{catch_unwind, AssertUnwindSafe};

// ---------------------------------------------------------------------------------------------------
// serialisation of GSUB subtables from the case tree

fn ser_recs(o: &mut Obj, recs: &T) {
    for r in recs.list() {
        o.u16s(&r.ints());
    }
}

fn ser_opt_sets(o: &mut Obj, sets: &T, rule: &dyn Fn(&T) -> Vec<u8>) {
    o.u16(sets.list().len() as i64);
    for s in sets.list() {
        o.off16(s.opt().map(|rules| {
            let mut so = Obj::new();
            so.u16(rules.list().len() as i64);
            for r in rules.list() {
                so.off16(Some(rule(r)));
            }
            so.finish()
        }));
    }
}

fn ser_rule(r: &T) -> Vec<u8> {
    let r = r.list();
    let input = r[0].ints();
    let mut o = Obj::new();
    o.u16(input.len() as i64 + 1).u16(r[1].list().len() as i64).u16s(&input);
    ser_recs(&mut o, &r[1]);
    o.finish()
}

fn ser_crule(r: &T) -> Vec<u8> {
    let r = r.list();
    let (b, i, l) = (r[0].ints(), r[1].ints(), r[2].ints());
    let mut o = Obj::new();
    o.u16(b.len() as i64).u16s(&b);
    o.u16(i.len() as i64 + 1).u16s(&i);
    o.u16(l.len() as i64).u16s(&l);
    o.u16(r[3].list().len() as i64);
    ser_recs(&mut o, &r[3]);
    o.finish()
}

fn ser_cov_array(o: &mut Obj, covs: &T) {
    o.u16(covs.list().len() as i64);
    for c in covs.list() {
        o.off16(Some(ser_coverage(c)));
    }
}

fn ser_subtable(ty: i64, t: &T) -> Vec<u8> {
    let l = t.list();
    let mut o = Obj::new();
    match ty {
        1 => match l[0].int() {
            1 => {
                o.u16(1).off16(Some(ser_coverage(&l[1]))).u16(l[2].int());
            }
            _ => {
                let g = l[2].ints();
                o.u16(2).off16(Some(ser_coverage(&l[1]))).u16(g.len() as i64).u16s(&g);
            }
        },
        2 | 3 => {
            o.u16(1).off16(Some(ser_coverage(&l[0]))).u16(l[1].list().len() as i64);
            for s in l[1].list() {
                let g = s.ints();
                let mut so = Obj::new();
                so.u16(g.len() as i64).u16s(&g);
                o.off16(Some(so.finish()));
            }
        }
        4 => {
            o.u16(1).off16(Some(ser_coverage(&l[0]))).u16(l[1].list().len() as i64);
            for set in l[1].list() {
                let mut so = Obj::new();
                so.u16(set.list().len() as i64);
                for lig in set.list() {
                    let v = lig.ints();
                    let mut lo = Obj::new();
                    lo.u16(v[0]).u16(v.len() as i64).u16s(&v[1..]);
                    so.off16(Some(lo.finish()));
                }
                o.off16(Some(so.finish()));
            }
        }
        5 => match l[0].int() {
            1 => {
                o.u16(1).off16(Some(ser_coverage(&l[1])));
                ser_opt_sets(&mut o, &l[2], &ser_rule);
            }
            2 => {
                o.u16(2).off16(Some(ser_coverage(&l[1]))).off16(Some(ser_classdef(&l[2])));
                ser_opt_sets(&mut o, &l[3], &ser_rule);
            }
            _ => {
                o.u16(3).u16(l[1].list().len() as i64).u16(l[2].list().len() as i64);
                for c in l[1].list() {
                    o.off16(Some(ser_coverage(c)));
                }
                ser_recs(&mut o, &l[2]);
            }
        },
        6 => match l[0].int() {
            1 => {
                o.u16(1).off16(Some(ser_coverage(&l[1])));
                ser_opt_sets(&mut o, &l[2], &ser_crule);
            }
            2 => {
                o.u16(2).off16(Some(ser_coverage(&l[1])));
                o.off16(Some(ser_classdef(&l[2]))).off16(Some(ser_classdef(&l[3]))).off16(Some(ser_classdef(&l[4])));
                ser_opt_sets(&mut o, &l[5], &ser_crule);
            }
            _ => {
                o.u16(3);
                ser_cov_array(&mut o, &l[1]);
                ser_cov_array(&mut o, &l[2]);
                ser_cov_array(&mut o, &l[3]);
                o.u16(l[4].list().len() as i64);
                ser_recs(&mut o, &l[4]);
            }
        },
        8 => {
            o.u16(1).off16(Some(ser_coverage(&l[0])));
            ser_cov_array(&mut o, &l[1]);
            ser_cov_array(&mut o, &l[2]);
            let g = l[3].ints();
            o.u16(g.len() as i64).u16s(&g);
        }
        _ => panic!("lookup type {}", ty),
    }
    o.finish()
}

fn ser_gsub(layout: &T, fvx: Option<&T>) -> Vec<u8> {
    let l = layout.list();
    let lookups = l[2].opt().map(|lks| {
        ser_lookup_list(
            lks.list()
                .iter()
                .map(|lk| {
                    let f = lk.list();
                    let ty = f[3].int();
                    let subs = f[4].list().iter().map(|s| ser_subtable(ty, s)).collect();
                    ser_lookup(ty, f[1].int(), f[2].opt().map(|x| x.int()), subs, if f[0].int() != 0 { Some(7) } else { None })
                })
                .collect(),
        )
    });
    let (scripts, features) = (l[0].opt().map(ser_script_list), l[1].opt().map(ser_feature_list));
    match fvx {
        // old case lines: the version 1.0 header, byte for byte as before
        None => ser_layout_table(scripts, features, lookups),
        Some(x) => {
            let x = x.list();
            let fv: Vec<u8> = x[2].ints().iter().map(|b| *b as u8).collect();
            ser_layout_table_v(scripts, features, lookups, x[0].int(), x[1].int(), &fv)
        }
    }
}

/// the variation tuple of the optional fifth element: F2Dot14 raw values
fn tuple_of(fvx: Option<&T>) -> Option<Vec<F2Dot14>> {
    fvx.and_then(|x| x.list()[3].opt().map(|t| t.ints().iter().map(|v| F2Dot14::from_raw(*v as i16)).collect()))
}

fn as_tuple(v: &[F2Dot14]) -> Tuple<'_> {
    // SAFETY: pointer and length of a live slice; the values are what the case prescribes
    unsafe { Tuple::from_raw_parts(v.as_ptr(), v.len()) }
}

// ---------------------------------------------------------------------------------------------------
// glyphs

const VS: [Option<VariationSelector>; 6] = [
    None,
    Some(VariationSelector::VS01),
    Some(VariationSelector::VS02),
    Some(VariationSelector::VS03),
    Some(VariationSelector::VS15),
    Some(VariationSelector::VS16),
];

fn mk_glyph(t: &T) -> RawGlyph<()> {
    let f = t.list();
    let rest = f[7].int();
    let mut flags = RawGlyphFlags::empty();
    flags.set(RawGlyphFlags::LIGATURE, f[4].int() != 0);
    flags.set(RawGlyphFlags::MULTI_SUBST_DUP, f[5].int() != 0);
    flags.set(RawGlyphFlags::IS_VERT_ALT, f[6].int() != 0);
    flags.set(RawGlyphFlags::SMALL_CAPS, rest & 1 != 0);
    flags.set(RawGlyphFlags::FAKE_BOLD, rest & 2 != 0);
    flags.set(RawGlyphFlags::FAKE_ITALIC, rest & 4 != 0);
    let mut unicodes: TinyVec<[char; 1]> = TinyVec::new();
    for c in f[1].ints() {
        unicodes.push(char::from_u32(c as u32).unwrap());
    }
    RawGlyph {
        unicodes,
        glyph_index: f[0].int() as u16,
        liga_component_pos: f[2].int() as u16,
        glyph_origin: match f[3].opt() {
            Some(c) => GlyphOrigin::Char(char::from_u32(c.int() as u32).unwrap()),
            None => GlyphOrigin::Direct,
        },
        flags,
        variation: VS[((rest >> 3) as usize) % 6],
        extra_data: (),
    }
}

fn fmt_glyph(g: &RawGlyph<()>) -> String {
    let chars = if g.unicodes.is_empty() {
        "-".to_string()
    } else {
        g.unicodes.iter().map(|c| (*c as u32).to_string()).collect::<Vec<_>>().join(".")
    };
    let origin = match g.glyph_origin {
        GlyphOrigin::Char(c) => (c as u32).to_string(),
        GlyphOrigin::Direct => "-".to_string(),
    };
    let mut rest = 0;
    if g.flags.contains(RawGlyphFlags::SMALL_CAPS) {
        rest |= 1;
    }
    if g.flags.contains(RawGlyphFlags::FAKE_BOLD) {
        rest |= 2;
    }
    if g.flags.contains(RawGlyphFlags::FAKE_ITALIC) {
        rest |= 4;
    }
    rest |= VS.iter().position(|v| *v == g.variation).unwrap() << 3;
    format!(
        "{}:{}:{}:{}:{}{}{}:{}",
        g.glyph_index,
        chars,
        g.liga_component_pos,
        origin,
        g.ligature() as u8,
        g.multi_subst_dup() as u8,
        g.is_vert_alt() as u8,
        rest
    )
}

fn fmt_glyphs(gs: &[RawGlyph<()>]) -> String {
    gs.iter().map(fmt_glyph).collect::<Vec<_>>().join(",")
}

// ---------------------------------------------------------------------------------------------------
// run one case on the real code

// ---------------------------------------------------------------------------------------------------
// Font::shape on a synthetic font (the optional sixth element of a case)

struct MapProvider(HashMap<u32, Vec<u8>>);

impl FontTableProvider for MapProvider {
    fn table_data(&self, tag: u32) -> Result<Option<Cow<'_, [u8]>>, ParseError> {
        Ok(self.0.get(&tag).map(|v| Cow::Borrowed(v.as_slice())))
    }
    fn has_table(&self, tag: u32) -> bool {
        self.0.contains_key(&tag)
    }
    fn table_tags(&self) -> Option<Vec<u32>> {
        Some(self.0.keys().copied().collect())
    }
}

/// glyph id the synthetic cmap gives U+25CC (what Font::shape hands to gsub::apply as dotted_circle_index)
const DOTTED_CIRCLE_GLYPH: u16 = 7;

/// cmap (format 4: U+25CC -> DOTTED_CIRCLE_GLYPH, nothing else) + head + maxp (num_glyphs) + hhea + hmtx, plus the
/// layout tables the case prescribes
fn synthetic_font(num_glyphs: u16, extra: Vec<(u32, Vec<u8>)>) -> Font<MapProvider> {
    let mut t = HashMap::new();
    let be16 = |v: i64| (v as u16).to_be_bytes().to_vec();
    let mut cmap = vec![];
    let delta = (DOTTED_CIRCLE_GLYPH as i64 - 0x25CC) & 0xFFFF;
    for v in [0i64, 1, 3, 1, 0, 12, 4, 32, 0, 4, 4, 1, 0, 0x25CC, 0xFFFF, 0, 0x25CC, 0xFFFF, delta, 1, 0, 0] {
        cmap.extend(be16(v));
    }
    t.insert(allsorts::tag::CMAP, cmap);
    let mut head = vec![];
    for v in [1i64, 0, 1, 0, 0, 0, 0x5F0F, 0x3CF5, 0, 1000] {
        head.extend(be16(v));
    }
    head.extend(vec![0u8; 16]);
    for v in [0i64, 0, 0, 0, 0, 8, 2, 0, 0] {
        head.extend(be16(v));
    }
    t.insert(allsorts::tag::HEAD, head);
    let mut maxp = vec![0, 0, 0x50, 0];
    maxp.extend(be16(num_glyphs as i64));
    t.insert(allsorts::tag::MAXP, maxp);
    let mut hhea = vec![];
    for v in [1i64, 0, 800, -200, 0, 1000, 0, 0, 0, 1, 0, 0, 0, 0, 0, 0, 0, 1] {
        hhea.extend(be16(v));
    }
    t.insert(allsorts::tag::HHEA, hhea);
    t.insert(allsorts::tag::HMTX, vec![1, 244, 0, 0]);
    for (tg, data) in extra {
        t.insert(tg, data);
    }
    Font::new(MapProvider(t)).expect("synthetic font")
}

fn fmt_shaping_err(e: &ShapingError) -> String {
    match e {
        ShapingError::Parse(e) => avh::perr(e).to_string(),
        e => format!("{:?}", e),
    }
}

fn fmt_infos(infos: &[Info]) -> String {
    infos.iter().map(|i| fmt_glyph(&i.glyph)).collect::<Vec<_>>().join(",")
}

/// the tables of the font envelope `(gpos gdef kern kerning morx)`; see ocaml/c04/drv.ml
fn envelope_tables(font: &[i64], gsub: &[u8], gdef: Option<&Vec<u8>>) -> Vec<(u32, Vec<u8>)> {
    let mut v = vec![(allsorts::tag::GSUB, gsub.to_vec())];
    let words = |w: &[u16]| -> Vec<u8> { w.iter().flat_map(|x| x.to_be_bytes()).collect() };
    match font[0] {
        0 => {}
        // GPOS 1.0 without lists (NULL offsets)
        1 => v.push((allsorts::tag::GPOS, ser_layout_table(None, None, None))),
        // truncated after the version
        2 => v.push((allsorts::tag::GPOS, words(&[1, 0, 10]))),
        // GPOS 1.0 with an empty script list, feature list and lookup list
        _ => v.push((allsorts::tag::GPOS, words(&[1, 0, 10, 12, 14, 0, 0, 0]))),
    }
    match font[1] {
        0 => {}
        1 => {
            if let Some(b) = gdef {
                v.push((allsorts::tag::GDEF, b.clone()));
            }
        }
        _ => v.push((allsorts::tag::GDEF, vec![0, 1])),
    }
    match font[2] {
        0 => {}
        // kern version 0 without subtables
        1 => v.push((allsorts::tag::KERN, words(&[0, 0]))),
        _ => v.push((allsorts::tag::KERN, vec![0, 0, 0])),
    }
    if font[4] != 0 {
        v.push((allsorts::tag::MORX, vec![0, 2, 0]));
    }
    v
}

fn run_case(input: &str) -> String {
    let tree = parse_tree(&input[1..]);
    let top = tree.list();
    let gdef_bytes = ser_gdef(&top[0]);
    // `()` in the fifth place: no feature-variations element (a font envelope follows)
    let fvx = top.get(4).filter(|x| !x.list().is_empty());
    let envelope: Option<Vec<i64>> = top.get(5).map(|f| f.ints());
    let gsub_bytes = ser_gsub(&top[1], fvx);
    let tuple_values = tuple_of(fvx);
    let tuple = tuple_values.as_deref().map(as_tuple);
    let gdef = match &gdef_bytes {
        Some(b) => match ReadScope::new(b).read::<GDEFTable>() {
            Ok(g) => Some(g),
            Err(e) => return format!("gdef-unreadable:{}", avh::perr(&e)),
        },
        None => None,
    };
    let run = top[2].list();
    let glyphs: Vec<RawGlyph<()>> = top[3].list().iter().map(mk_glyph).collect();
    let features = if run[0].int() == 0 {
        Some(Features::Custom(
            run[3]
                .list()
                .iter()
                .map(|f| FeatureInfo {
                    feature_tag: f.list()[0].int() as u32,
                    alternate: f.list()[1].opt().map(|a| a.int() as usize),
                })
                .collect(),
        ))
    } else if run[0].int() == 2 {
        // Features::Mask; the FRAC split of gsub_apply_default is not modelled: the generator never sets that bit
        Some(Features::Mask(gsub::FeatureMask::from_bits_truncate(run[3].int() as u64)))
    } else {
        None
    };
    // gsub::apply called directly, with the GDEF given
    let direct = |gdef: Option<&GDEFTable>, dotted: u16| -> String {
        let table = match ReadScope::new(&gsub_bytes).read::<LayoutTable<GSUB>>() {
            Ok(t) => t,
            Err(e) => return format!("gsub-unreadable:{}", avh::perr(&e)),
        };
        let cache = new_layout_cache(table);
        let mut glyphs = glyphs.clone();
        if let Some(features) = &features {
            let r = gsub::apply(
                dotted,
                &cache,
                gdef,
                run[1].int() as u32,
                run[2].opt().map(|l| l.int() as u32),
                features,
                tuple,
                run[4].int() as u16,
                &mut glyphs,
            );
            match r {
                Ok(()) => format!("ok:{}", fmt_glyphs(&glyphs)),
                Err(e) => format!("err:{}", fmt_shaping_err(&e)),
            }
        } else {
            let r = gsub::gsub_apply_lookup(
                &cache,
                &cache.layout_table,
                gdef,
                run[1].int() as usize,
                run[2].int() as u32,
                run[3].opt().map(|a| a.int() as usize),
                &mut glyphs,
                run[4].int() as usize,
                run[5].int() as usize,
                |_| true,
            );
            match r {
                Ok(len) => format!("ok:{}|{}", fmt_glyphs(&glyphs), len),
                Err(e) => format!("err:{}", avh::perr(&e)),
            }
        }
    };
    let font = match (envelope, &features) {
        (Some(f), Some(_)) if f.len() == 5 => f,
        _ => return direct(gdef.as_ref(), 0),
    };
    // Font::shape: the font decides which GSUB / GDEF / glyph count / dotted circle reach gsub::apply
    let mut f = synthetic_font(run[4].int() as u16, envelope_tables(&font, &gsub_bytes, gdef_bytes.as_ref()));
    let r = f.shape(
        glyphs.clone(),
        run[1].int() as u32,
        run[2].opt().map(|l| l.int() as u32),
        features.as_ref().unwrap(),
        tuple,
        font[3] != 0,
    );
    let shaped = match &r {
        Ok(infos) => format!("shape[-] ok:{}", fmt_infos(infos)),
        Err((e, infos)) => format!("shape[{}] ok:{}", fmt_shaping_err(e), fmt_infos(infos)),
    };
    // model-independent reference: gsub::apply on the same GSUB bytes with the GDEF the font carries
    let font_gdef = if font[1] == 1 { gdef.as_ref() } else { None };
    format!("{} ~ {}", shaped, direct(font_gdef, DOTTED_CIRCLE_GLYPH))
}

pub fn run(input: &str) -> String {
    if std::env::var_os("C04_TRACE").is_some() {
        // debugging aid: print panic messages (harness_main installs a silent hook)
        let _ = std::panic::take_hook();
    }
    match catch_unwind(AssertUnwindSafe(|| run_case(input))) {
        Ok(s) => s,
        Err(_) => "panic".to_string(),
    }
}

// ---------------------------------------------------------------------------------------------------
// generator

const fn tag(b: &[u8; 4]) -> i64 {
    u32::from_be_bytes(*b) as i64
}
const LIGA: i64 = tag(b"liga");
const CCMP: i64 = tag(b"ccmp");
const CALT: i64 = tag(b"calt");
const RVRN: i64 = tag(b"rvrn");
const FINA: i64 = tag(b"fina");
const VERT: i64 = tag(b"vert");
const VRT2: i64 = tag(b"vrt2");
const DFLT: i64 = tag(b"DFLT");
const LATN: i64 = tag(b"latn");
const ARAB: i64 = tag(b"arab");
const ENG: i64 = tag(b"ENG ");
const CLIG: i64 = tag(b"clig");
const RLIG: i64 = tag(b"rlig");
const LOCL: i64 = tag(b"locl");
const DLIG: i64 = tag(b"dlig");
const SMCP: i64 = tag(b"smcp");
const CYRL: i64 = tag(b"cyrl");
const FEATURE_TAGS: &[i64] = &[LIGA, CCMP, CALT, RVRN, FINA, VERT, VRT2, LIGA, CCMP, CLIG, RLIG, LOCL, DLIG, SMCP, CLIG, LIGA];
/// bit 16 of FeatureMask (FRAC): gsub_apply_default then takes the fraction-splitting path, which is not modelled
const FRAC_BIT: u64 = 1 << 16;

/// the lookup-flag skip rule of the OpenType specification, evaluated on the case trees (generator utility:
/// used to place glyphs the lookup skips INSIDE rule instances; independent of the code under test)
fn skips(flag: i64, mfs: Option<i64>, gdef: &T, g: i64) -> bool {
    let d = match gdef.opt() {
        Some(d) => d.list(),
        None => return false,
    };
    let class = d[0].opt().map(|cd| class_of(cd, g)).unwrap_or(0);
    if flag & 2 != 0 && class == 1 {
        return true;
    }
    if flag & 4 != 0 && class == 2 {
        return true;
    }
    if class != 3 {
        return false;
    }
    if flag & 8 != 0 {
        return true;
    }
    let mat = (flag >> 8) & 0xFF;
    if mat != 0 {
        let attach = d[1].opt().map(|cd| class_of(cd, g)).unwrap_or(0);
        if attach != mat {
            return true;
        }
    }
    if flag & 16 != 0 {
        if let Some(i) = mfs {
            let in_set = d[2]
                .opt()
                .and_then(|sets| sets.list().get(i as usize))
                .map(|c| cov_member_list(c).contains(&g))
                .unwrap_or(false);
            if !in_set {
                return true;
            }
        }
    }
    false
}

struct Gen<'a> {
    rng: &'a mut Rng,
    nlookups: i64,
    hits: Vec<(i64, Vec<i64>)>,
    cur: i64,
    /// lookup 0 reacts to (nearly) every glyph, so nested records that point at it change something
    catch_all: bool,
    gdef: T,
    cur_flag: i64,
    cur_mfs: Option<i64>,
}

impl<'a> Gen<'a> {
    fn g(&mut self) -> i64 {
        gen_glyph(self.rng)
    }
    fn gs(&mut self, lo: i64, hi: i64) -> Vec<i64> {
        let n = self.rng.range(lo, hi);
        (0..n).map(|_| self.g()).collect()
    }
    fn lookup_index(&mut self) -> i64 {
        if self.catch_all && self.rng.chance(3, 4) {
            return 0;
        }
        if self.rng.chance(1, 40) {
            self.nlookups + self.rng.range(0, 2)
        } else {
            self.rng.range(0, self.nlookups - 1)
        }
    }
    fn recs(&mut self, input_len: i64) -> T {
        let n = if self.rng.chance(1, 8) { 0 } else { self.rng.range(1, 3) };
        T::L((0..n)
            .map(|_| {
                let si = if self.rng.chance(1, 25) { input_len + self.rng.range(0, 2) } else { self.rng.range(0, (input_len - 1).max(0)) };
                T::of_ints(&[si, self.lookup_index()])
            })
            .collect())
    }
    fn cov(&mut self, want: &[i64]) -> T {
        gen_coverage(self.rng, want)
    }
    fn covs(&mut self, lo: i64, hi: i64) -> (T, Vec<i64>) {
        let n = self.rng.range(lo, hi);
        let mut members = vec![];
        let mut v = vec![];
        for _ in 0..n {
            let m = self.g();
            members.push(m);
            v.push(self.cov(&[m]));
        }
        (T::L(v), members)
    }
    /// indexed-by-coverage item list: usually as long as the coverage, sometimes shorter (BadIndex)
    fn count_for(&mut self, firsts: &[i64]) -> usize {
        let n = firsts.len();
        if self.rng.chance(1, 25) && n > 0 {
            n - 1
        } else {
            n
        }
    }

    fn subtable(&mut self, ty: i64) -> T {
        // first glyphs this subtable reacts to
        let mut firsts = self.gs(1, 3);
        firsts.sort();
        firsts.dedup();
        let cov = {
            let mut v = vec![T::I(1)];
            v.extend(firsts.iter().map(|g| T::I(*g)));
            if self.rng.chance(1, 2) { T::L(v) } else { self.cov(&firsts.clone()) }
        };
        // the coverage may have gained members: count them through the model-independent definition
        let cov_members: Vec<i64> = cov_member_list(&cov);
        match ty {
            1 => {
                if self.rng.chance(1, 2) {
                    let d = match self.rng.below(8) {
                        0 => -self.rng.range(1, 20),
                        1 => *self.rng.pick(&[32767i64, -32768, 65535 - 3, -1]),
                        _ => self.rng.range(1, 4),
                    };
                    T::L(vec![T::I(1), cov, T::I(d)])
                } else {
                    let n = self.count_for(&cov_members);
                    let subst = self.gs(n as i64, n as i64);
                    T::L(vec![T::I(2), cov, T::of_ints(&subst)])
                }
            }
            2 | 3 => {
                let n = self.count_for(&cov_members);
                let seqs: Vec<T> = (0..n)
                    .map(|_| {
                        let lo = if ty == 3 && !self.rng.chance(1, 20) { 1 } else { 0 };
                        let s = self.gs(lo, 3);
                        T::of_ints(&s)
                    })
                    .collect();
                T::L(vec![cov, T::L(seqs)])
            }
            4 => {
                let n = self.count_for(&cov_members);
                let mut sets = vec![];
                for k in 0..n {
                    let nl = self.rng.range(0, 3);
                    let mut ligs = vec![];
                    for _ in 0..nl {
                        let comps = self.gs(0, 3);
                        let mut hit = vec![cov_members[k]];
                        hit.extend(&comps);
                        self.hits.push((self.cur, hit));
                        let mut v = vec![self.g()];
                        v.extend(comps);
                        ligs.push(T::of_ints(&v));
                    }
                    sets.push(T::L(ligs));
                }
                T::L(vec![cov, T::L(sets)])
            }
            5 => match self.rng.below(3) {
                0 => {
                    let n = self.count_for(&cov_members);
                    let mut sets = vec![];
                    for k in 0..n {
                        if self.rng.chance(1, 6) {
                            sets.push(T::none());
                            continue;
                        }
                        let nr = if self.rng.chance(1, 8) { 0 } else { self.rng.range(1, 2) };
                        let mut rules = vec![];
                        for _ in 0..nr {
                            let input = self.gs(0, 2);
                            let mut hit = vec![cov_members[k]];
                            hit.extend(&input);
                            self.hits.push((self.cur, hit));
                            let recs = self.recs(input.len() as i64 + 1);
                            rules.push(T::L(vec![T::of_ints(&input), recs]));
                        }
                        sets.push(T::some(T::L(rules)));
                    }
                    T::L(vec![T::I(1), cov, T::L(sets)])
                }
                1 => {
                    let cd = gen_classdef(self.rng, 3);
                    let nsets = self.rng.range(2, 4);
                    let mut sets = vec![];
                    for _ in 0..nsets {
                        if self.rng.chance(1, 5) {
                            sets.push(T::none());
                            continue;
                        }
                        let nr = if self.rng.chance(1, 8) { 0 } else { self.rng.range(1, 2) };
                        let mut rules = vec![];
                        for _ in 0..nr {
                            let n = self.rng.range(0, 2);
                            let input: Vec<i64> = (0..n).map(|_| self.rng.range(0, 3)).collect();
                            let recs = self.recs(n + 1);
                            let set_index = sets.len() as i64;
                            let firsts: Vec<i64> = cov_members.iter().cloned().filter(|m| class_of(&cd, *m) == set_index).collect();
                            if let Some(f) = firsts.first() {
                                let mut hit = vec![*f];
                                for c in &input {
                                    hit.push(glyph_with_class(self.rng, &cd, *c).unwrap_or(0));
                                }
                                self.hits.push((self.cur, hit));
                            }
                            rules.push(T::L(vec![T::of_ints(&input), recs]));
                        }
                        sets.push(T::some(T::L(rules)));
                    }
                    T::L(vec![T::I(2), cov, cd, T::L(sets)])
                }
                _ => {
                    let lo = if self.rng.chance(1, 30) { 0 } else { 1 };
                    let (covs, members) = self.covs(lo, 3);
                    if !members.is_empty() {
                        self.hits.push((self.cur, members.clone()));
                    }
                    let recs = self.recs(members.len() as i64);
                    T::L(vec![T::I(3), covs, recs])
                }
            },
            6 => match self.rng.below(3) {
                0 => {
                    let n = self.count_for(&cov_members);
                    let mut sets = vec![];
                    for k in 0..n {
                        if self.rng.chance(1, 6) {
                            sets.push(T::none());
                            continue;
                        }
                        let nr = if self.rng.chance(1, 8) { 0 } else { self.rng.range(1, 2) };
                        let mut rules = vec![];
                        for _ in 0..nr {
                            let (b, i, l) = (self.gs(0, 2), self.gs(0, 2), self.gs(0, 2));
                            let mut hit: Vec<i64> = b.iter().rev().cloned().collect();
                            hit.push(cov_members[k]);
                            hit.extend(&i);
                            hit.extend(&l);
                            self.hits.push((self.cur, hit));
                            let recs = self.recs(i.len() as i64 + 1);
                            rules.push(T::L(vec![T::of_ints(&b), T::of_ints(&i), T::of_ints(&l), recs]));
                        }
                        sets.push(T::some(T::L(rules)));
                    }
                    T::L(vec![T::I(1), cov, T::L(sets)])
                }
                1 => {
                    let (bcd, icd, lcd) = (gen_classdef(self.rng, 2), gen_classdef(self.rng, 3), gen_classdef(self.rng, 2));
                    let nsets = self.rng.range(2, 4);
                    let mut sets = vec![];
                    for _ in 0..nsets {
                        if self.rng.chance(1, 5) {
                            sets.push(T::none());
                            continue;
                        }
                        let nr = if self.rng.chance(1, 8) { 0 } else { self.rng.range(1, 2) };
                        let mut rules = vec![];
                        for _ in 0..nr {
                            let cls = |g: &mut Gen, hi: i64| -> Vec<i64> {
                                let n = g.rng.range(0, 2);
                                (0..n).map(|_| g.rng.range(0, hi)).collect()
                            };
                            let (b, i, l) = (cls(self, 2), cls(self, 3), cls(self, 2));
                            let recs = self.recs(i.len() as i64 + 1);
                            let set_index = sets.len() as i64;
                            let firsts: Vec<i64> = cov_members.iter().cloned().filter(|m| class_of(&icd, *m) == set_index).collect();
                            if let Some(f) = firsts.first() {
                                let mut hit = vec![];
                                for c in b.iter().rev() {
                                    hit.push(glyph_with_class(self.rng, &bcd, *c).unwrap_or(0));
                                }
                                hit.push(*f);
                                for c in &i {
                                    hit.push(glyph_with_class(self.rng, &icd, *c).unwrap_or(0));
                                }
                                for c in &l {
                                    hit.push(glyph_with_class(self.rng, &lcd, *c).unwrap_or(0));
                                }
                                self.hits.push((self.cur, hit));
                            }
                            rules.push(T::L(vec![T::of_ints(&b), T::of_ints(&i), T::of_ints(&l), recs]));
                        }
                        sets.push(T::some(T::L(rules)));
                    }
                    T::L(vec![T::I(2), cov, bcd, icd, lcd, T::L(sets)])
                }
                _ => {
                    let (b, bm) = self.covs(0, 2);
                    let lo = if self.rng.chance(1, 30) { 0 } else { 1 };
                    let (i, im) = self.covs(lo, 3);
                    let (l, lm) = self.covs(0, 2);
                    let mut hit: Vec<i64> = bm.iter().rev().cloned().collect();
                    hit.extend(&im);
                    hit.extend(&lm);
                    if !hit.is_empty() {
                        self.hits.push((self.cur, hit));
                    }
                    let recs = self.recs(im.len() as i64);
                    T::L(vec![T::I(3), b, i, l, recs])
                }
            },
            _ => {
                let (b, bm) = self.covs(0, 2);
                let (l, lm) = self.covs(0, 2);
                let n = self.count_for(&cov_members);
                let subst = self.gs(n as i64, n as i64);
                if let Some(f) = cov_members.first() {
                    let mut hit: Vec<i64> = bm.iter().rev().cloned().collect();
                    hit.push(*f);
                    hit.extend(&lm);
                    self.hits.push((self.cur, hit));
                }
                T::L(vec![cov, b, l, T::of_ints(&subst)])
            }
        }
    }

    fn lookup(&mut self) -> T {
        let ty = *self.rng.pick(&[1i64, 1, 2, 2, 3, 4, 4, 4, 5, 5, 6, 6, 6, 8]);
        let (mut flag, mut mfs) = gen_flag(self.rng);
        if (ty == 5 || ty == 6) && self.rng.chance(1, 2) {
            flag = 0;
            mfs = None;
        }
        let nsub = match self.rng.below(10) {
            0 => 0,
            1..=5 => 1,
            6..=8 => 2,
            _ => 3,
        };
        self.cur_flag = flag;
        self.cur_mfs = mfs;
        let mut subs: Vec<T> = (0..nsub).map(|_| self.subtable(ty)).collect();
        if (ty == 5 || ty == 6) && self.rng.chance(2, 5) {
            // rules that overlap on shifted positions: the second one starts at a later input glyph of the first
            let mut ov = self.overlap_subtables(ty);
            if self.rng.chance(1, 2) {
                ov.extend(subs);
                subs = ov;
            } else {
                subs.extend(ov);
            }
        }
        let ext = if self.rng.chance(1, 4) && !subs.is_empty() { 1 } else { 0 };
        T::L(vec![T::I(ext), T::I(flag), match mfs { Some(m) => T::some(T::I(m)), None => T::none() }, T::I(ty), T::L(subs)])
    }

    /// Two (or three) contextual subtables over glyphs the current lookup does NOT skip: subtable 0 matches a
    /// sequence a b [c], a later subtable matches starting at b (and at c).  The rule instances pushed to `hits`
    /// carry glyphs the lookup skips between the input glyphs, so that "where does the loop resume after a
    /// match" is observable: resuming inside the consumed sequence lets the later subtable fire on b.
    fn overlap_subtables(&mut self, ty: i64) -> Vec<T> {
        let (flag, mfs) = (self.cur_flag, self.cur_mfs);
        let gdef = self.gdef.clone();
        let unskipped: Vec<i64> = (1..NG).filter(|g| !skips(flag, mfs, &gdef, *g)).collect();
        let skipped: Vec<i64> = (1..NG).filter(|g| skips(flag, mfs, &gdef, *g)).collect();
        if unskipped.len() < 2 {
            return vec![];
        }
        let pick = |g: &mut Gen, v: &Vec<i64>| v[g.rng.below(v.len() as u64) as usize];
        let a = pick(self, &unskipped);
        let b = pick(self, &unskipped);
        let c = pick(self, &unskipped);
        let three = self.rng.chance(1, 3);
        let seq: Vec<i64> = if three { vec![a, b, c] } else { vec![a, b] };
        // rule instances with skipped glyphs inside
        for _ in 0..3 {
            let mut hit = vec![];
            for (k, x) in seq.iter().enumerate() {
                if k > 0 && !skipped.is_empty() && self.rng.chance(2, 3) {
                    hit.push(pick(self, &skipped));
                    if self.rng.chance(1, 4) {
                        hit.push(pick(self, &skipped));
                    }
                }
                hit.push(*x);
            }
            if self.rng.chance(1, 2) {
                hit.push(pick(self, &unskipped));
            }
            self.hits.push((self.cur, hit));
        }
        let rec_first = |g: &mut Gen| T::L(vec![T::of_ints(&[0, g.lookup_index()])]);
        let cov1 = |x: i64| T::L(vec![T::I(1), T::I(x)]);
        let mut out = vec![];
        let starts: Vec<(i64, Vec<i64>)> = {
            let mut v = vec![(a, seq[1..].to_vec()), (b, if three && self.rng.chance(1, 2) { vec![c] } else { vec![] })];
            if three {
                v.push((c, vec![]));
            }
            v
        };
        for (first, input) in starts {
            let recs = rec_first(self);
            let sub = if ty == 5 {
                if self.rng.chance(1, 2) {
                    T::L(vec![T::I(1), cov1(first), T::L(vec![T::some(T::L(vec![T::L(vec![T::of_ints(&input), recs])]))])])
                } else {
                    let mut covs = vec![cov1(first)];
                    covs.extend(input.iter().map(|x| cov1(*x)));
                    T::L(vec![T::I(3), T::L(covs), recs])
                }
            } else if self.rng.chance(1, 2) {
                T::L(vec![T::I(1), cov1(first), T::L(vec![T::some(T::L(vec![T::L(vec![T::of_ints(&[]), T::of_ints(&input), T::of_ints(&[]), recs])]))])])
            } else {
                let mut covs = vec![cov1(first)];
                covs.extend(input.iter().map(|x| cov1(*x)));
                T::L(vec![T::I(3), T::L(vec![]), T::L(covs), T::L(vec![]), recs])
            };
            out.push(sub);
        }
        out
    }
}

/// glyph ids a coverage tree reacts to, in coverage-index order (used only to size the indexed arrays)
fn cov_member_list(cov: &T) -> Vec<i64> {
    let l = cov.list();
    match l[0].int() {
        1 => l[1..].iter().map(|g| g.int()).collect(),
        _ => {
            let mut v = vec![];
            for r in &l[1..] {
                let r = r.ints();
                let mut g = r[0];
                while g <= r[1] && v.len() < 12 {
                    v.push(g);
                    g += 1;
                }
            }
            v
        }
    }
}

// ---------------------------------------------------------------------------------------------------
// feature variations: the optional fifth element of a case
//   fvx = (minor off_kind (byte ...) opt (raw ...))
// minor / off_kind: the GSUB header (ser_layout_table_v); the bytes are the FeatureVariations table; the last
// component is the variation tuple (F2Dot14 raw values) handed to gsub::apply, () = None.

const F2GRID: [i64; 9] = [-16384, -12288, -8192, -4096, 0, 4096, 8192, 12288, 16384];

fn gen_fv_cond(rng: &mut Rng, tuple: &[i64]) -> FvCond {
    if rng.chance(1, 25) {
        return FvCond::UnknownFormat(*rng.pick(&[2i64, 0, 65535, 257]));
    }
    if rng.chance(1, 40) {
        return FvCond::Dangling;
    }
    let n = tuple.len() as i64;
    // the axis: one the tuple has, rarely the first one it lacks or a far one
    let axis = match rng.below(14) {
        0 => n + rng.range(0, 1),
        1 if rng.chance(1, 3) => 65535,
        _ => rng.range(0, (n - 1).max(0)),
    };
    let v = tuple.get(axis as usize).copied();
    let lower = |rng: &mut Rng, v: i64| -> i64 {
        let c: Vec<i64> = F2GRID.iter().cloned().filter(|g| *g <= v).collect();
        if c.is_empty() { v } else { *rng.pick(&c) }
    };
    let upper = |rng: &mut Rng, v: i64| -> i64 {
        let c: Vec<i64> = F2GRID.iter().cloned().filter(|g| *g >= v).collect();
        if c.is_empty() { v } else { *rng.pick(&c) }
    };
    let (min, max) = match (v, rng.below(20)) {
        // regions that contain the tuple's value: the value exactly on the lower / upper boundary, nested and
        // overlapping regions over the same grid
        (Some(v), 0..=2) => (v, upper(rng, v)),
        (Some(v), 3..=5) => (lower(rng, v), v),
        (Some(v), 6) => (v, v),
        (Some(v), 7..=11) => (lower(rng, v), upper(rng, v)),
        (Some(_), 12) => (-16384, 16384),
        // the value just outside
        (Some(v), 13) => (v + 1, upper(rng, v + 1)),
        (Some(v), 14) => (lower(rng, v - 1), v - 1),
        // an empty range around the value: min > max
        (Some(v), 15) => (upper(rng, v).max(v + 1), lower(rng, v).min(v - 1)),
        (Some(v), 16) => (v + 1, v - 1),
        _ => {
            let (a, b) = (*rng.pick(&F2GRID), *rng.pick(&F2GRID));
            if rng.chance(1, 6) { (a.max(b), a.min(b)) } else { (a.min(b), a.max(b)) }
        }
    };
    FvCond::Range { axis, min, max }
}

/// (fvx, number of records); `used` = feature indices some LangSys lists
fn gen_fv(rng: &mut Rng, nfeat: i64, nlookups: i64) -> T {
    let tuple: Option<Vec<i64>> = if rng.chance(1, 10) {
        None
    } else {
        let n = *rng.pick(&[0i64, 1, 1, 1, 2, 2, 3]);
        Some((0..n).map(|_| *rng.pick(&F2GRID) + *rng.pick(&[0i64, 0, 0, 0, 1, -1])).map(|v| v.clamp(-32768, 32767)).collect())
    };
    let tv: Vec<i64> = tuple.clone().unwrap_or_else(|| vec![0]);
    let nrec = *rng.pick(&[0usize, 1, 1, 2, 2, 2, 2, 3, 3, 3, 4, 4]);
    let mut recs: Vec<FvRecord> = vec![];
    for k in 0..nrec {
        let cond = match rng.below(40) {
            0..=7 => FvCondSet::Universal,
            8 => FvCondSet::Dangling,
            9 | 10 if k > 0 => FvCondSet::SameAs(rng.below(k as u64) as usize),
            11 | 12 => FvCondSet::Set(vec![]),
            _ => {
                let n = *rng.pick(&[1usize, 1, 1, 2, 2, 3]);
                FvCondSet::Set((0..n).map(|_| gen_fv_cond(rng, &tv)).collect())
            }
        };
        let subst = match rng.below(40) {
            0..=9 => FvSubst::Null,
            10 => FvSubst::Dangling,
            11 | 12 if k > 0 => FvSubst::SameAs(rng.below(k as u64) as usize),
            _ => {
                let major = if rng.chance(1, 7) { *rng.pick(&[2i64, 0, 256]) } else { 1 };
                let minor = if rng.chance(1, 8) { rng.range(1, 3) } else { 0 };
                let n = *rng.pick(&[0usize, 1, 1, 2, 2, 3, 3]);
                let mut fis: Vec<i64> = (0..n)
                    .map(|_| if rng.chance(1, 8) { nfeat + rng.range(0, 2) } else { rng.range(0, nfeat - 1) })
                    .collect();
                // sorted by feature index (the order the format prescribes), with or without duplicates; or as drawn
                match rng.below(6) {
                    0 => {}
                    1 => fis.sort_by(|a, b| b.cmp(a)),
                    2 => fis.sort(),
                    _ => {
                        fis.sort();
                        fis.dedup();
                    }
                }
                let recs = fis
                    .into_iter()
                    .map(|fi| {
                        let alt = if rng.chance(1, 20) {
                            FvAlt::Dangling
                        } else {
                            let nl = rng.range(0, 3);
                            FvAlt::Table((0..nl).map(|_| if rng.chance(1, 40) { nlookups + rng.range(0, 1) } else { rng.range(0, nlookups - 1) }).collect())
                        };
                        (fi, alt)
                    })
                    .collect();
                FvSubst::Table { major, minor, recs }
            }
        };
        recs.push(FvRecord { cond, subst });
    }
    let major = if rng.chance(1, 40) { *rng.pick(&[0i64, 2]) } else { 1 };
    let bias = match rng.below(60) {
        0 => 1,
        1 => -1,
        _ => 0,
    };
    let mut bytes = ser_feature_variations(major, if rng.chance(1, 10) { 1 } else { 0 }, &recs, bias);
    if rng.chance(1, 30) && !bytes.is_empty() {
        let keep = rng.below(bytes.len() as u64) as usize;
        bytes.truncate(keep);
    }
    let minor = match rng.below(30) {
        0 | 1 => 0,
        2 => 2,
        _ => 1,
    };
    let off_kind = match rng.below(40) {
        0 | 1 => 1,
        2 => *rng.pick(&[2i64, 3, 9]),
        _ => 0,
    };
    let bytes: Vec<i64> = bytes.iter().map(|b| *b as i64).collect();
    T::L(vec![T::I(minor), T::I(off_kind), T::of_ints(&bytes), match tuple { Some(t) => T::some(T::of_ints(&t)), None => T::none() }])
}

pub fn gen(rng: &mut Rng) -> String {
    let gdef = gen_gdef(rng);
    let nlookups = rng.range(1, 5);
    let catch_all = rng.chance(2, 3);
    let mut g = Gen { rng, nlookups, hits: vec![], cur: 0, catch_all, gdef: gdef.clone(), cur_flag: 0, cur_mfs: None };
    let mut lookups: Vec<T> = vec![];
    for k in 0..nlookups {
        g.cur = k;
        lookups.push(g.lookup());
    }
    if catch_all {
        let wide = T::L(vec![T::I(2), T::of_ints(&[0, NG + 4, 0])]);
        lookups[0] = match g.rng.below(4) {
            0 | 1 => T::L(vec![T::I(0), T::I(0), T::none(), T::I(1), T::L(vec![T::L(vec![T::I(1), wide, T::I(g.rng.range(1, 3))])])]),
            2 => {
                // every glyph doubles (or vanishes)
                let seqs: Vec<T> = (0..NG + 5).map(|k| if g.rng.chance(1, 5) { T::of_ints(&[]) } else { T::of_ints(&[k, g.g()]) }).collect();
                T::L(vec![T::I(0), T::I(0), T::none(), T::I(2), T::L(vec![T::L(vec![wide, T::L(seqs)])])])
            }
            _ => {
                // every glyph forms a ligature with some follower
                let sets: Vec<T> = (0..NG + 5)
                    .map(|_| {
                        let n = g.rng.range(1, 2);
                        T::L((0..n).map(|_| { let c = g.gs(1, 2); let mut v = vec![g.g()]; v.extend(c); T::of_ints(&v) }).collect())
                    })
                    .collect();
                let (flag, mfs) = gen_flag(g.rng);
                T::L(vec![T::I(0), T::I(flag), match mfs { Some(m) => T::some(T::I(m)), None => T::none() }, T::I(4), T::L(vec![T::L(vec![wide, T::L(sets)])])])
            }
        };
    }
    let hits = std::mem::take(&mut g.hits);
    let rng = g.rng;

    // features, scripts
    let nfeat = rng.range(1, 5);
    // several features often share a lookup (the non-idempotent lookup 0 in particular)
    let shared = rng.range(0, nlookups - 1);
    let features: Vec<T> = (0..nfeat)
        .map(|_| {
            let n = rng.range(0, 3);
            let mut li: Vec<i64> = (0..n)
                .map(|_| if rng.chance(1, 50) { nlookups + rng.range(0, 1) } else { rng.range(0, nlookups - 1) })
                .collect();
            if rng.chance(1, 2) {
                li.push(if rng.chance(1, 2) { 0 } else { shared });
            }
            T::L(vec![T::I(*rng.pick(FEATURE_TAGS)), T::of_ints(&li)])
        })
        .collect();
    let feature_tags: Vec<i64> = features.iter().map(|f| f.list()[0].int()).collect();
    let langsys = |rng: &mut Rng| -> T {
        let n = rng.range(1, nfeat + 2);
        let fi: Vec<i64> = (0..n).map(|_| if rng.chance(1, 40) { nfeat + rng.range(0, 1) } else { rng.range(0, nfeat - 1) }).collect();
        T::of_ints(&fi)
    };
    let script = |rng: &mut Rng| -> T {
        let d = if rng.chance(1, 8) { T::none() } else { T::some(langsys(rng)) };
        let langs = if rng.chance(1, 3) { vec![T::L(vec![T::I(ENG), langsys(rng)])] } else { vec![] };
        T::L(vec![d, T::L(langs)])
    };
    let scripts = match rng.below(12) {
        0 => T::none(),
        1 => T::some(T::L(vec![])),
        2..=5 => T::some(T::L(vec![T::L(vec![T::I(DFLT), script(rng)])])),
        6..=8 => T::some(T::L(vec![T::L(vec![T::I(LATN), script(rng)])])),
        _ => T::some(T::L(vec![T::L(vec![T::I(DFLT), script(rng)]), T::L(vec![T::I(LATN), script(rng)])])),
    };
    let feature_list = if rng.chance(1, 30) { T::none() } else { T::some(T::L(features)) };
    let lookup_list = if rng.chance(1, 40) { T::none() } else { T::some(T::L(lookups.clone())) };
    let layout = T::L(vec![scripts, feature_list, lookup_list]);

    let run_kind = rng.below(5); // 0,1: gsub::apply Custom; 2: gsub::apply Mask; 3,4: gsub_apply_lookup
    let run_is_apply = run_kind <= 2;
    // glyphs each lookup skips (to be placed inside rule instances of that lookup)
    let skipped_by: Vec<Vec<i64>> = lookups
        .iter()
        .map(|lk| {
            let f = lk.list();
            let (flag, mfs) = (f[1].int(), f[2].opt().map(|x| x.int()));
            (1..NG).filter(|g| skips(flag, mfs, &gdef, *g)).collect()
        })
        .collect();
    let li_choice = if rng.chance(1, 30) { nlookups + rng.range(0, 1) } else { rng.range(0, nlookups - 1) };
    let focus_lookup = if run_is_apply { None } else { Some(li_choice) };
    // glyph string: rule instances interleaved with random glyphs
    let focus: Vec<(i64, Vec<i64>)> = hits.iter().filter(|(l, _)| Some(*l) == focus_lookup).cloned().collect();
    let hits: &Vec<(i64, Vec<i64>)> = if !focus.is_empty() && rng.chance(3, 4) { &focus } else { &hits };
    let mut ids: Vec<i64> = vec![];
    let target = match rng.below(10) {
        0 => 0,
        1 => 1,
        _ => rng.range(2, 10),
    };
    while (ids.len() as i64) < target {
        if !hits.is_empty() && rng.chance(3, 5) {
            let (hl, h) = rng.pick(hits).clone();
            let sk = skipped_by.get(hl as usize).cloned().unwrap_or_default();
            for (k, x) in h.iter().enumerate() {
                if k > 0 {
                    // a glyph the rule's own lookup skips (transparent for the match), or any glyph
                    if !sk.is_empty() && rng.chance(1, 4) {
                        ids.push(sk[rng.below(sk.len() as u64) as usize]);
                    } else if rng.chance(1, 6) {
                        ids.push(gen_glyph(rng));
                    }
                }
                ids.push(*x);
            }
        } else {
            ids.push(gen_glyph(rng));
        }
    }
    let glyphs: Vec<T> = ids
        .iter()
        .enumerate()
        .map(|(k, id)| {
            let c = 97 + k as i64;
            let chars = match rng.below(12) {
                0 => vec![],
                1 => vec![c, 0x301],
                _ => vec![c],
            };
            let origin = if rng.chance(1, 6) { T::none() } else if rng.chance(1, 25) { T::some(T::I(*rng.pick(&[0x200Ci64, 0x200D]))) } else { T::some(T::I(c)) };
            let rare = |rng: &mut Rng| if rng.chance(1, 10) { 1 } else { 0 };
            T::L(vec![
                T::I(*id),
                T::of_ints(&chars),
                T::I(if rng.chance(1, 12) { rng.range(1, 3) } else { 0 }),
                origin,
                T::I(rare(rng)),
                T::I(rare(rng)),
                T::I(rare(rng)),
                T::I(if rng.chance(1, 6) { rng.range(0, 47) } else { 0 }),
            ])
        })
        .collect();
    let n = glyphs.len() as i64;

    let run = if run_kind == 2 {
        // Features::Mask: the bits of the table's own features (often all of them, so that shared lookups are
        // enabled through several features at once), the default mask, stray bits
        let script_tag = *rng.pick(&[LATN, LATN, DFLT, CYRL]);
        let lang = match rng.below(4) {
            0 => T::some(T::I(ENG)),
            1 => T::some(T::I(DFLT)),
            _ => T::none(),
        };
        let mut mask: u64 = 0;
        for t in &feature_tags {
            if rng.chance(4, 5) {
                mask |= gsub::FeatureMask::from_tag(*t as u32).bits();
            }
        }
        if rng.chance(1, 3) {
            mask |= gsub::FeatureMask::default().bits();
        }
        if rng.chance(1, 4) {
            mask |= 1 << rng.below(46);
        }
        mask &= !FRAC_BIT;
        let num_glyphs = *rng.pick(&[NG, NG, NG, 65535, 3]);
        T::L(vec![T::I(2), T::I(script_tag), lang, T::I(mask as i64), T::I(num_glyphs)])
    } else if run_is_apply {
        let script_tag = *rng.pick(&[LATN, LATN, DFLT, ARAB]);
        let lang = match rng.below(4) {
            0 => T::some(T::I(ENG)),
            1 => T::some(T::I(DFLT)),
            _ => T::none(),
        };
        let nf = rng.range(0, 4);
        let feats: Vec<T> = (0..nf)
            .map(|_| {
                let alt = match rng.below(6) {
                    0 => T::some(T::I(rng.range(0, 3))),
                    _ => T::none(),
                };
                let tg = if rng.chance(4, 5) { feature_tags[rng.below(feature_tags.len() as u64) as usize] } else { *rng.pick(FEATURE_TAGS) };
                T::L(vec![T::I(tg), alt])
            })
            .collect();
        let num_glyphs = *rng.pick(&[NG, NG, NG, 65535, 3]);
        T::L(vec![T::I(0), T::I(script_tag), lang, T::L(feats), T::I(num_glyphs)])
    } else {
        let li = li_choice;
        let (start, length) = match rng.below(10) {
            0..=5 => (0, n),
            6 | 7 => {
                let s = rng.range(0, n);
                (s, rng.range(0, n - s))
            }
            8 => (if n > 0 { n - 1 } else { 0 }, if n > 0 { 1 } else { 0 }),
            _ => (rng.range(0, n + 1), rng.range(0, n + 2)),
        };
        let alt = if rng.chance(1, 4) { T::some(T::I(rng.range(0, 3))) } else { T::none() };
        T::L(vec![T::I(1), T::I(li), T::I(*rng.pick(FEATURE_TAGS)), alt, T::I(start), T::I(length)])
    };
    let mut top = vec![gdef, layout, run, T::L(glyphs)];
    // feature variations: half of the gsub::apply runs get a version 1.1 table and a variation tuple.  The
    // element is drawn from a generator of its own, seeded by the case generated so far: the caller's random
    // stream is consumed exactly as before this element existed, so the first four elements of every case
    // (and the streams of the C01 / C02 harnesses, which call this function) are unchanged.
    let mut h: u64 = 0xcbf29ce484222325;
    for b in T::L(top.clone()).to_string().bytes() {
        h = (h ^ b as u64).wrapping_mul(0x100000001b3);
    }
    let mut frng = Rng::new(h);
    if (run_is_apply && frng.chance(1, 2)) || (!run_is_apply && frng.chance(1, 12)) {
        top.push(gen_fv(&mut frng, nfeat, nlookups));
    }
    // Font::shape: half of the gsub::apply runs go through the public entry point on a synthetic font (sixth
    // element, drawn from the same private generator after the feature-variations element, so that everything
    // before it is unchanged): with / without / with an unreadable GPOS table, the case's GDEF in the font or not,
    // kern table, kerning flag, a stray morx table.  `()` stands for "no feature variations" in the fifth place.
    if run_is_apply && frng.chance(1, 2) {
        if top.len() == 4 {
            top.push(T::L(vec![]));
        }
        let gpos = *frng.pick(&[0i64, 0, 0, 0, 1, 1, 1, 3, 3, 2]);
        let gdefk = if frng.chance(1, 5) { *frng.pick(&[0i64, 0, 0, 2]) } else { 1 };
        let kern = *frng.pick(&[0i64, 0, 0, 0, 0, 1, 1, 1, 1, 2]);
        let kerning = frng.below(2) as i64;
        let morx = if frng.chance(1, 20) { 1 } else { 0 };
        top.push(T::of_ints(&[gpos, gdefk, kern, kerning, morx]));
    }
    format!("{} {}", build_mode(), T::L(top))
}

fn main() {
    harness_main(&run, &mut gen)
}
