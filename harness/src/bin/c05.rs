//! C05 correspondence: random abstract GPOS lookup programs (lookup types 1-8, value formats, anchor
//! formats, class matrices, mark / ligature arrays, extension wrapping, lookup flags) + GDEF + optional legacy
//! kern table x random glyph strings.  The program is serialised to GPOS / GDEF / kern bytes, parsed by the
//! real readers and run through `gpos::apply` (Features::Custom) or `gpos::apply_fallback`; then
//! `GlyphLayout::glyph_positions` is run on the resulting `Info`s with a synthetic font (cmap stub, head,
//! maxp, hhea, hmtx).  A third run kind feeds hand-made placements straight into `glyph_positions`.
//! Output format and case grammar: ocaml/c05/drv.ml.
#[path = "../layoutser.rs"]
mod layoutser;

use allsorts::binary::read::ReadScope;
use allsorts::error::ParseError;
use allsorts::glyph_position::{GlyphLayout, TextDirection};
use allsorts::gpos::{self, Info, Placement};
use allsorts::gsub::{FeatureInfo, Features, GlyphOrigin, RawGlyph, RawGlyphFlags};
use allsorts::layout::{new_layout_cache, Anchor, GDEFTable, LayoutTable, GPOS};
use allsorts::tables::kern::KernTable;
use allsorts::tables::FontTableProvider;
use allsorts::tinyvec::TinyVec;
use allsorts::{tag, Font};
use avh::prng::Rng;
use avh::{build_mode, harness_main};
use layoutser::*;
use std::borrow::Cow;
use std::collections::HashMap;
use std::panic::{catch_unwind, AssertUnwindSafe};

struct MapProvider(HashMap<u32, Vec<u8>>);

impl FontTableProvider for MapProvider {
    fn table_data(&self, tag: u32) -> Result<Option<Cow<'_, [u8]>>, ParseError> {
        Ok(self.0.get(&tag).map(|v| Cow::Borrowed(v.as_slice())))
    }
    fn has_table(&self, tag: u32) -> bool {
        self.0.contains_key(&tag)
    }
    fn table_tags(&self) -> Option<Vec<u32>> {
        Some(self.0.keys().copied().collect())
    }
}

/// cmap stub + head + maxp + hhea + hmtx with the given advance widths (glyph id = index)
fn synthetic_font(advs: &[i64]) -> Font<MapProvider> {
    let mut t = HashMap::new();
    let be16 = |v: i64| (v as u16).to_be_bytes().to_vec();
    // cmap: version 0, one record (platform 3, encoding 1, offset 12), format 4 stub header
    let mut cmap = vec![];
    for v in [0i64, 1, 3, 1, 0, 12, 4, 16, 0, 2, 2, 0, 0, 0xFFFF, 0, 0xFFFF, 1, 0] {
        cmap.extend(be16(v));
    }
    t.insert(tag::CMAP, cmap);
    let mut head = vec![];
    for v in [1i64, 0, 1, 0, 0, 0, 0x5F0F, 0x3CF5, 0, 1000] {
        head.extend(be16(v));
    }
    head.extend(vec![0u8; 16]); // created, modified
    for v in [0i64, 0, 0, 0, 0, 8, 2, 0, 0] {
        head.extend(be16(v));
    }
    t.insert(tag::HEAD, head);
    let mut maxp = vec![0, 0, 0x50, 0];
    maxp.extend(be16(advs.len() as i64));
    t.insert(tag::MAXP, maxp);
    let mut hhea = vec![];
    for v in [1i64, 0, 800, -200, 0, 1000, 0, 0, 0, 1, 0, 0, 0, 0, 0, 0, 0, advs.len() as i64] {
        hhea.extend(be16(v));
    }
    t.insert(tag::HHEA, hhea);
    let mut hmtx = vec![];
    for a in advs {
        hmtx.extend(be16(*a));
        hmtx.extend(be16(0));
    }
    t.insert(tag::HMTX, hmtx);
    Font::new(MapProvider(t)).expect("synthetic font")
}

fn mk_glyph(t: &T, ch: char) -> RawGlyph<()> {
    let f = t.list();
    let mut flags = RawGlyphFlags::empty();
    flags.set(RawGlyphFlags::LIGATURE, f[2].int() != 0);
    let mut unicodes: TinyVec<[char; 1]> = TinyVec::new();
    unicodes.push(ch);
    RawGlyph {
        unicodes,
        glyph_index: f[0].int() as u16,
        liga_component_pos: f[1].int() as u16,
        glyph_origin: GlyphOrigin::Direct,
        flags,
        variation: None,
        extra_data: (),
    }
}

fn fmt_placement(p: &Placement) -> String {
    match p {
        Placement::None => "N".to_string(),
        Placement::Distance(dx, dy) => format!("D.{}.{}", dx, dy),
        Placement::MarkAnchor(b, a1, a2) => format!("M.{}.{}.{}.{}.{}", b, a1.x, a1.y, a2.x, a2.y),
        Placement::MarkOverprint(b) => format!("O.{}", b),
        Placement::CursiveAnchor(e, rtl, a1, a2) => format!("C.{}.{}.{}.{}.{}.{}", e, *rtl as u8, a1.x, a1.y, a2.x, a2.y),
    }
}

fn mk_placement(t: &T) -> Placement {
    let v = t.ints();
    let an = |x: i64, y: i64| Anchor { x: x as i16, y: y as i16 };
    match v[0] {
        0 => Placement::None,
        1 => Placement::Distance(v[1] as i32, v[2] as i32),
        2 => Placement::MarkAnchor(v[1] as usize, an(v[2], v[3]), an(v[4], v[5])),
        3 => Placement::MarkOverprint(v[1] as usize),
        _ => Placement::CursiveAnchor(v[1] as usize, v[2] != 0, an(v[3], v[4]), an(v[5], v[6])),
    }
}

fn finish(infos: &[Info], dir: &T, advs: &T) -> String {
    let head = format!(
        "ok:{}",
        infos.iter().map(|i| format!("{}/{}", i.kerning, fmt_placement(&i.placement))).collect::<Vec<_>>().join(",")
    );
    let mut font = synthetic_font(&advs.ints());
    let direction = if dir.int() == 0 { TextDirection::LeftToRight } else { TextDirection::RightToLeft };
    let mut layout = GlyphLayout::new(&mut font, infos, direction, false);
    match layout.glyph_positions() {
        Ok(ps) => format!(
            "{}|pos:{}",
            head,
            ps.iter()
                .map(|p| format!("{}.{}.{}.{}", p.hori_advance, p.vert_advance, p.x_offset, p.y_offset))
                .collect::<Vec<_>>()
                .join(",")
        ),
        Err(e) => format!("{}|poserr:{}", head, avh::perr(&e)),
    }
}

fn run_case(input: &str) -> String {
    let tree = parse_tree(&input[1..]);
    let top = tree.list();
    let gdef_bytes = ser_gdef(&top[0]);
    let gdef = match &gdef_bytes {
        Some(b) => match ReadScope::new(b).read::<GDEFTable>() {
            Ok(g) => Some(g),
            Err(e) => return format!("gdef-unreadable:{}", avh::perr(&e)),
        },
        None => None,
    };
    let run = top[2].list();
    let kind = run[0].int();
    // apply_fallback decides mark-ness from the characters: U+0301 is Mn, 'a' is not
    let chars: Vec<char> = if kind == 2 {
        run[2].list().iter().map(|b| if b.int() != 0 { '\u{301}' } else { 'a' }).collect()
    } else {
        top[3].list().iter().map(|_| 'a').collect()
    };
    let glyphs: Vec<RawGlyph<()>> = top[3].list().iter().zip(chars.iter()).map(|(g, c)| mk_glyph(g, *c)).collect();
    let mut infos = Info::init_from_glyphs(gdef.as_ref(), glyphs);
    let kern_bytes = |t: &T| t.opt().map(ser_kern);
    match kind {
        0 => {
            let gpos_bytes = ser_gpos(&top[1]);
            let table = match ReadScope::new(&gpos_bytes).read::<LayoutTable<GPOS>>() {
                Ok(t) => t,
                Err(e) => return format!("gpos-unreadable:{}", avh::perr(&e)),
            };
            let cache = new_layout_cache(table);
            let kb = kern_bytes(&run[5]);
            let kern = match &kb {
                Some(b) => match ReadScope::new(b).read::<KernTable<'_>>() {
                    Ok(k) => Some(k),
                    Err(e) => return format!("kern-unreadable:{}", avh::perr(&e)),
                },
                None => None,
            };
            let feats: Vec<FeatureInfo> =
                run[3].list().iter().map(|f| FeatureInfo { feature_tag: f.int() as u32, alternate: None }).collect();
            let r = gpos::apply(
                &cache,
                gdef.as_ref(),
                kern,
                run[4].int() != 0,
                &Features::Custom(feats),
                None,
                run[1].int() as u32,
                run[2].opt().map(|l| l.int() as u32),
                &mut infos,
            );
            match r {
                Ok(()) => finish(&infos, &run[6], &run[7]),
                Err(e) => format!("err:{}", avh::perr(&e)),
            }
        }
        1 => {
            for (info, p) in infos.iter_mut().zip(run[1].list()) {
                let p = p.list();
                info.kerning = p[0].int() as i16;
                info.placement = mk_placement(&p[1]);
            }
            finish(&infos, &run[2], &run[3])
        }
        _ => {
            let kb = kern_bytes(&run[1]);
            let kern = match &kb {
                Some(b) => match ReadScope::new(b).read::<KernTable<'_>>() {
                    Ok(k) => Some(k),
                    Err(e) => return format!("kern-unreadable:{}", avh::perr(&e)),
                },
                None => None,
            };
            match gpos::apply_fallback(kern, &mut infos) {
                Ok(()) => finish(&infos, &run[3], &run[4]),
                Err(e) => format!("err:{}", avh::perr(&e)),
            }
        }
    }
}

pub fn run(input: &str) -> String {
    if std::env::var_os("C05_TRACE").is_some() {
        let _ = std::panic::take_hook();
    }
    match catch_unwind(AssertUnwindSafe(|| run_case(input))) {
        Ok(s) => s,
        Err(_) => "panic".to_string(),
    }
}

// ---------------------------------------------------------------------------------------------------
// generator

const fn tg(b: &[u8; 4]) -> i64 {
    u32::from_be_bytes(*b) as i64
}
const KERN: i64 = tg(b"kern");
const MARK: i64 = tg(b"mark");
const MKMK: i64 = tg(b"mkmk");
const DIST: i64 = tg(b"dist");
const CURS: i64 = tg(b"curs");
const LIGA: i64 = tg(b"liga");
const DFLT: i64 = tg(b"DFLT");
const LATN: i64 = tg(b"latn");
const CYRL: i64 = tg(b"cyrl");
const ENG: i64 = tg(b"ENG ");
const FEATURE_TAGS: &[i64] = &[KERN, MARK, MKMK, DIST, CURS, LIGA, KERN, MARK];

struct Gen<'a> {
    rng: &'a mut Rng,
    nlookups: i64,
    marks: Vec<i64>,
    bases: Vec<i64>,
    hits: Vec<Vec<i64>>,
}

fn opt_t(x: Option<T>) -> T {
    match x {
        Some(v) => T::some(v),
        None => T::none(),
    }
}

impl<'a> Gen<'a> {
    fn g(&mut self) -> i64 {
        gen_glyph(self.rng)
    }
    fn small(&mut self) -> i64 {
        match self.rng.below(30) {
            0 => *self.rng.pick(&[32767i64, -32768, 30000, -30000]),
            1 | 2 => 0,
            _ => self.rng.range(-60, 60),
        }
    }
    fn value(&mut self) -> T {
        let v = [self.small(), self.small(), self.small(), if self.rng.chance(1, 6) { self.small() } else { 0 }];
        T::of_ints(&v)
    }
    fn fmt(&mut self) -> i64 {
        match self.rng.below(16) {
            0 => 0,
            1 => 0x100 + self.rng.range(0, 3),
            2 => self.rng.range(0, 255),
            3 => 0xFF,
            4 => 0x0F,
            5 | 6 => 4,
            7 | 8 => 5,
            9 => 1,
            10 => 3,
            11 => 0x44,
            12 => 0x10,
            _ => *self.rng.pick(&[4i64, 5, 7, 1, 2, 6]),
        }
    }
    fn anchor(&mut self) -> T {
        let v = [self.small(), self.small()];
        T::of_ints(&v)
    }
    fn opt_anchor(&mut self) -> T {
        if self.rng.chance(1, 6) { T::none() } else { T::some(self.anchor()) }
    }
    fn members(&mut self, pool: &[i64], lo: i64, hi: i64) -> Vec<i64> {
        let n = self.rng.range(lo, hi);
        let mut v: Vec<i64> = (0..n)
            .map(|_| if pool.is_empty() || self.rng.chance(1, 8) { self.g() } else { pool[self.rng.below(pool.len() as u64) as usize] })
            .collect();
        v.sort();
        v.dedup();
        v
    }
    /// coverage whose index order is known: (tree, members in coverage-index order)
    fn cov_of(&mut self, members: &[i64]) -> (T, Vec<i64>) {
        let c = if self.rng.chance(2, 3) {
            let mut v = vec![T::I(1)];
            v.extend(members.iter().map(|g| T::I(*g)));
            T::L(v)
        } else {
            gen_coverage(self.rng, members)
        };
        let m = cov_members(&c);
        (c, m)
    }
    fn count_for(&mut self, n: usize) -> usize {
        if self.rng.chance(1, 30) && n > 0 { n - 1 } else { n }
    }
    fn lookup_index(&mut self) -> i64 {
        if self.rng.chance(1, 40) { self.nlookups + self.rng.range(0, 1) } else { self.rng.range(0, self.nlookups - 1) }
    }
    fn recs(&mut self, input_len: i64) -> T {
        let n = if self.rng.chance(1, 8) { 0 } else { self.rng.range(1, 3) };
        T::L((0..n)
            .map(|_| {
                let si = if self.rng.chance(1, 25) { input_len + self.rng.range(0, 2) } else { self.rng.range(0, (input_len - 1).max(0)) };
                T::of_ints(&[si, self.lookup_index()])
            })
            .collect())
    }

    fn mark_records(&mut self, n: usize, class_count: i64) -> T {
        T::L((0..n)
            .map(|_| {
                let c = if self.rng.chance(1, 40) { class_count + self.rng.range(0, 1) } else { self.rng.range(0, (class_count - 1).max(0)) };
                T::L(vec![T::I(c), self.anchor()])
            })
            .collect())
    }

    fn subtable(&mut self, ty: i64) -> T {
        let all: Vec<i64> = (1..NG).collect();
        match ty {
            1 => {
                let m = self.members(&all.clone(), 1, 4);
                let (cov, cm) = self.cov_of(&m);
                for g in &cm {
                    self.hits.push(vec![*g]);
                }
                let fmt = self.fmt();
                if self.rng.chance(1, 2) {
                    T::L(vec![T::I(1), cov, T::I(fmt), self.value()])
                } else {
                    let n = self.count_for(cm.len().min(12));
                    let vs: Vec<T> = (0..n).map(|_| self.value()).collect();
                    T::L(vec![T::I(2), cov, T::I(fmt), T::L(vs)])
                }
            }
            2 => {
                let m = self.members(&all.clone(), 1, 3);
                let (cov, cm) = self.cov_of(&m);
                let (f1, f2) = (self.fmt(), if self.rng.chance(1, 2) { 0 } else { self.fmt() });
                if self.rng.chance(1, 2) {
                    let n = self.count_for(cm.len().min(12));
                    let mut sets = vec![];
                    for k in 0..n {
                        let np = self.rng.range(0, 3);
                        let mut pairs = vec![];
                        for _ in 0..np {
                            let second = self.g();
                            self.hits.push(vec![cm[k], second]);
                            pairs.push(T::L(vec![T::I(second), self.value(), self.value()]));
                        }
                        sets.push(T::L(pairs));
                    }
                    T::L(vec![T::I(1), cov, T::I(f1), T::I(f2), T::L(sets)])
                } else {
                    let (cd1, cd2) = (gen_classdef(self.rng, 2), gen_classdef(self.rng, 2));
                    let c1 = self.rng.range(1, 3);
                    let c2 = self.rng.range(1, 3);
                    let rows: Vec<T> = (0..c1)
                        .map(|_| T::L((0..c2).map(|_| T::L(vec![self.value(), self.value()])).collect()))
                        .collect();
                    for g in cm.iter().take(3) {
                        let second = self.g();
                        self.hits.push(vec![*g, second]);
                    }
                    T::L(vec![T::I(2), cov, T::I(f1), T::I(f2), cd1, cd2, T::I(c2), T::L(rows)])
                }
            }
            3 => {
                let pool = self.bases.clone();
                let m = self.members(&pool, 1, 4);
                let (cov, cm) = self.cov_of(&m);
                let n = self.count_for(cm.len().min(12));
                let recs: Vec<T> = (0..n).map(|_| T::L(vec![self.opt_anchor(), self.opt_anchor()])).collect();
                if cm.len() >= 1 {
                    let a = cm[self.rng.below(cm.len() as u64) as usize];
                    let b = cm[self.rng.below(cm.len() as u64) as usize];
                    let c = cm[self.rng.below(cm.len() as u64) as usize];
                    self.hits.push(vec![a, b, c]);
                }
                T::L(vec![cov, T::L(recs)])
            }
            4 | 5 | 6 => {
                let marks = self.marks.clone();
                let pool2 = if ty == 6 { self.marks.clone() } else { self.bases.clone() };
                let mm = self.members(&marks, 1, 3);
                let bm = self.members(&pool2, 1, 3);
                let (mcov, mcm) = self.cov_of(&mm);
                let (bcov, bcm) = self.cov_of(&bm);
                let cc = self.rng.range(1, 3);
                let nm = self.count_for(mcm.len().min(12));
                let mrecs = self.mark_records(nm, cc);
                let nb = self.count_for(bcm.len().min(12));
                if let (Some(b), Some(mk)) = (bcm.first(), mcm.first()) {
                    let mk2 = mcm[self.rng.below(mcm.len() as u64) as usize];
                    self.hits.push(vec![*b, *mk, mk2]);
                    self.hits.push(vec![bcm[self.rng.below(bcm.len() as u64) as usize], mk2]);
                }
                if ty == 5 {
                    let ligs: Vec<T> = (0..nb)
                        .map(|_| {
                            let ncomp = if self.rng.chance(1, 8) { 0 } else { self.rng.range(1, 3) }; // componentCount 0 is degenerate but parses
                            T::L((0..ncomp).map(|_| T::L((0..cc).map(|_| self.opt_anchor()).collect())).collect())
                        })
                        .collect();
                    T::L(vec![mcov, bcov, T::I(cc), mrecs, T::L(ligs)])
                } else {
                    let rows: Vec<T> = (0..nb).map(|_| T::L((0..cc).map(|_| self.opt_anchor()).collect())).collect();
                    T::L(vec![mcov, bcov, T::I(cc), mrecs, T::L(rows)])
                }
            }
            7 => {
                if self.rng.chance(1, 2) {
                    let m = self.members(&all.clone(), 1, 3);
                    let (cov, cm) = self.cov_of(&m);
                    let n = self.count_for(cm.len().min(12));
                    let mut sets = vec![];
                    for k in 0..n {
                        if self.rng.chance(1, 8) {
                            sets.push(T::none());
                            continue;
                        }
                        let nr = self.rng.range(1, 2);
                        let mut rules = vec![];
                        for _ in 0..nr {
                            let input: Vec<i64> = (0..self.rng.range(0, 2)).map(|_| self.g()).collect();
                            let mut hit = vec![cm[k]];
                            hit.extend(&input);
                            self.hits.push(hit);
                            let r = self.recs(input.len() as i64 + 1);
                            rules.push(T::L(vec![T::of_ints(&input), r]));
                        }
                        sets.push(T::some(T::L(rules)));
                    }
                    T::L(vec![T::I(1), cov, T::L(sets)])
                } else {
                    let n = self.rng.range(1, 3);
                    let mut covs = vec![];
                    let mut hit = vec![];
                    for _ in 0..n {
                        let g = self.g();
                        hit.push(g);
                        covs.push(self.cov_of(&[g]).0);
                    }
                    self.hits.push(hit);
                    let r = self.recs(n);
                    T::L(vec![T::I(3), T::L(covs), r])
                }
            }
            _ => {
                if self.rng.chance(1, 2) {
                    let m = self.members(&all.clone(), 1, 3);
                    let (cov, cm) = self.cov_of(&m);
                    let n = self.count_for(cm.len().min(12));
                    let mut sets = vec![];
                    for k in 0..n {
                        let nr = self.rng.range(1, 2);
                        let mut rules = vec![];
                        for _ in 0..nr {
                            let b: Vec<i64> = (0..self.rng.range(0, 2)).map(|_| self.g()).collect();
                            let i: Vec<i64> = (0..self.rng.range(0, 2)).map(|_| self.g()).collect();
                            let l: Vec<i64> = (0..self.rng.range(0, 2)).map(|_| self.g()).collect();
                            let mut hit: Vec<i64> = b.iter().rev().cloned().collect();
                            hit.push(cm[k]);
                            hit.extend(&i);
                            hit.extend(&l);
                            self.hits.push(hit);
                            let r = self.recs(i.len() as i64 + 1);
                            rules.push(T::L(vec![T::of_ints(&b), T::of_ints(&i), T::of_ints(&l), r]));
                        }
                        sets.push(T::some(T::L(rules)));
                    }
                    T::L(vec![T::I(1), cov, T::L(sets)])
                } else {
                    let mut part = |g: &mut Gen, lo: i64, hi: i64| -> (T, Vec<i64>) {
                        let n = g.rng.range(lo, hi);
                        let mut covs = vec![];
                        let mut ms = vec![];
                        for _ in 0..n {
                            let x = g.g();
                            ms.push(x);
                            covs.push(g.cov_of(&[x]).0);
                        }
                        (T::L(covs), ms)
                    };
                    let (b, bm) = part(self, 0, 2);
                    let lo = if self.rng.chance(1, 30) { 0 } else { 1 };
                    let (i, im) = part(self, lo, 2);
                    let (l, lm) = part(self, 0, 2);
                    let mut hit: Vec<i64> = bm.iter().rev().cloned().collect();
                    hit.extend(&im);
                    hit.extend(&lm);
                    if !hit.is_empty() {
                        self.hits.push(hit);
                    }
                    let r = self.recs(im.len() as i64);
                    T::L(vec![T::I(3), b, i, l, r])
                }
            }
        }
    }

    fn lookup(&mut self) -> T {
        let ty = *self.rng.pick(&[1i64, 1, 2, 2, 2, 3, 3, 4, 4, 4, 5, 5, 6, 6, 7, 8]);
        let (mut flag, mut mfs) = gen_flag(self.rng);
        if self.rng.chance(1, 2) {
            flag &= 1; // keep many lookups free of skipping (the RIGHT_TO_LEFT bit matters for cursive)
            mfs = None;
        }
        let nsub = match self.rng.below(10) {
            0 => 0,
            1..=6 => 1,
            _ => 2,
        };
        let subs: Vec<T> = (0..nsub).map(|_| self.subtable(ty)).collect();
        let ext = if self.rng.chance(1, 4) && nsub > 0 { 1 } else { 0 };
        T::L(vec![T::I(ext), T::I(flag), opt_t(mfs.map(T::I)), T::I(ty), T::L(subs)])
    }
}

/// glyph ids of a coverage tree in coverage-index order (first 12)
fn cov_members(cov: &T) -> Vec<i64> {
    let l = cov.list();
    match l[0].int() {
        1 => l[1..].iter().map(|g| g.int()).collect(),
        _ => {
            let mut v = vec![];
            for r in &l[1..] {
                let r = r.ints();
                let mut g = r[0];
                while g <= r[1] && v.len() < 12 {
                    v.push(g);
                    g += 1;
                }
            }
            v
        }
    }
}

fn gen_kern(rng: &mut Rng, hits: &mut Vec<Vec<i64>>) -> T {
    if rng.chance(1, 3) {
        return T::none();
    }
    let n = rng.range(0, 3);
    let mut subs = vec![];
    for k in 0..n {
        let mut cov = 1i64;
        match rng.below(10) {
            0 => cov = 0,  // vertical
            1 => cov |= 2, // minimum
            2 => cov |= 4, // cross-stream
            3 => cov |= 8, // override
            _ => {}
        }
        if rng.chance(1, 3) {
            // format 2: class values are byte offsets into the kerning array
            let nl = rng.range(0, 3);
            let nr = rng.range(1, 3);
            let row_width = 2 * nr;
            let lfirst = rng.range(1, 4);
            let rfirst = rng.range(1, 4);
            let lv: Vec<i64> = (0..rng.range(0, 5)).map(|_| if rng.chance(1, 12) { rng.range(0, 40) } else { row_width * rng.range(0, (nl - 1).max(0)) }).collect();
            let rv: Vec<i64> = (0..nr).map(|_| if rng.chance(1, 12) { rng.range(0, 9) } else { 2 * rng.range(0, nr - 1) }).collect();
            // the reader takes row_width * |rv| bytes
            let arr: Vec<i64> = (0..row_width * nr).map(|_| if rng.chance(1, 2) { 0 } else if rng.chance(1, 2) { 255 } else { rng.range(0, 255) }).collect();
            hits.push(vec![lfirst + rng.range(0, 2), rfirst + rng.range(0, 2)]);
            subs.push(T::L(vec![T::I(cov), T::L(vec![T::I(2), T::I(lfirst), T::of_ints(&lv), T::I(rfirst), T::of_ints(&rv), T::of_ints(&arr)])]));
        } else {
            let np = rng.range(0, 5);
            let mut pairs: Vec<(i64, i64, i64)> = (0..np)
                .map(|_| (gen_glyph(rng), gen_glyph(rng), if rng.chance(1, 20) { *rng.pick(&[32767i64, -32768, 20000]) } else { rng.range(-80, 80) }))
                .collect();
            pairs.sort();
            pairs.dedup_by(|a, b| a.0 == b.0 && a.1 == b.1);
            let mut v = vec![T::I(0)];
            for p in &pairs {
                hits.push(vec![p.0, p.1]);
                v.push(T::of_ints(&[p.0, p.1, p.2]));
            }
            subs.push(T::L(vec![T::I(cov), T::L(v)]));
        }
    }
    T::some(T::L(subs))
}

fn gen_placement(rng: &mut Rng, i: i64, n: i64, is_mark_like: bool) -> T {
    let idx = |rng: &mut Rng, lo: i64, hi: i64| -> i64 {
        if rng.chance(1, 25) { n + rng.range(0, 2) } else if hi < lo { rng.range(0, (n - 1).max(0)) } else { rng.range(lo, hi) }
    };
    let c = |rng: &mut Rng| rng.range(-300, 300);
    match rng.below(12) {
        0..=3 => T::of_ints(&[0]),
        4 => T::of_ints(&[1, c(rng), c(rng)]),
        5 | 6 if is_mark_like || rng.chance(1, 3) => {
            let b = if rng.chance(5, 6) { idx(rng, 0, i - 1) } else { idx(rng, 0, n - 1) };
            T::of_ints(&[2, b, c(rng), c(rng), c(rng), c(rng)])
        }
        7 if is_mark_like => T::of_ints(&[3, idx(rng, 0, i - 1)]),
        8..=10 => {
            // what gpos produces: exit glyph = a later glyph; sometimes arbitrary (self links, cycles)
            let e = if rng.chance(5, 6) { idx(rng, i + 1, (i + 2).min(n - 1)) } else { idx(rng, 0, n - 1) };
            T::of_ints(&[4, e, rng.range(0, 1), c(rng), c(rng), c(rng), c(rng)])
        }
        _ => T::of_ints(&[0]),
    }
}

pub fn gen(rng: &mut Rng) -> String {
    let gdef = gen_gdef(rng);
    // glyph classes known to the generator (to aim mark lookups at marks)
    let mut marks = vec![];
    let mut bases = vec![];
    for g in 1..NG {
        let cls = gdef.opt().and_then(|d| d.list()[0].opt()).map(|cd| class_of(cd, g)).unwrap_or(0);
        if cls == 3 { marks.push(g) } else { bases.push(g) }
    }
    let nlookups = rng.range(1, 5);
    let mut g = Gen { rng, nlookups, marks: marks.clone(), bases, hits: vec![] };
    let lookups: Vec<T> = (0..nlookups).map(|_| g.lookup()).collect();
    let mut hits = std::mem::take(&mut g.hits);
    let rng = g.rng;

    // every lookup is listed by some feature (mostly one of the always-on base features)
    let nfeat = rng.range(1, 4);
    let mut lists: Vec<Vec<i64>> = vec![vec![]; nfeat as usize];
    for li in 0..nlookups {
        if !rng.chance(1, 8) {
            lists[rng.below(nfeat as u64) as usize].push(li);
        }
        if rng.chance(1, 6) {
            lists[rng.below(nfeat as u64) as usize].push(li);
        }
    }
    let features: Vec<T> = lists
        .into_iter()
        .map(|mut li| {
            if rng.chance(1, 40) {
                li.push(nlookups + rng.range(0, 1));
            }
            // listed order is arbitrary: apply_features sorts and dedups
            if rng.chance(1, 2) {
                li.reverse();
            }
            T::L(vec![T::I(*rng.pick(&[KERN, KERN, MARK, MARK, MARK, MKMK, MKMK, DIST, DIST, DIST, CURS, LIGA])), T::of_ints(&li)])
        })
        .collect();
    let feature_tags: Vec<i64> = features.iter().map(|f| f.list()[0].int()).collect();
    let langsys = |rng: &mut Rng| -> T {
        let n = rng.range(nfeat, nfeat + 2);
        let fi: Vec<i64> = (0..n).map(|k| if k < nfeat && !rng.chance(1, 10) { k } else if rng.chance(1, 40) { nfeat + rng.range(0, 1) } else { rng.range(0, nfeat - 1) }).collect();
        T::of_ints(&fi)
    };
    let script = |rng: &mut Rng| -> T {
        let d = if rng.chance(1, 8) { T::none() } else { T::some(langsys(rng)) };
        let langs = if rng.chance(1, 3) { vec![T::L(vec![T::I(ENG), langsys(rng)])] } else { vec![] };
        T::L(vec![d, T::L(langs)])
    };
    let scripts = match rng.below(12) {
        0 => T::none(),
        1 => T::some(T::L(vec![])),
        2..=6 => T::some(T::L(vec![T::L(vec![T::I(DFLT), script(rng)])])),
        7 => T::some(T::L(vec![T::L(vec![T::I(LATN), script(rng)])])),
        _ => T::some(T::L(vec![T::L(vec![T::I(DFLT), script(rng)]), T::L(vec![T::I(LATN), script(rng)])])),
    };
    let feature_list = if rng.chance(1, 30) { T::none() } else { T::some(T::L(features)) };
    let lookup_list = if rng.chance(1, 40) { T::none() } else { T::some(T::L(lookups)) };
    let layout = T::L(vec![scripts, feature_list, lookup_list]);
    let kern = gen_kern(rng, &mut hits);

    // glyph string
    let mut ids: Vec<i64> = vec![];
    let target = match rng.below(10) {
        0 => 0,
        1 => 1,
        _ => rng.range(2, 9),
    };
    while (ids.len() as i64) < target {
        if !hits.is_empty() && rng.chance(3, 5) {
            let h = rng.pick(&hits).clone();
            for (k, x) in h.iter().enumerate() {
                if k > 0 && rng.chance(1, 5) {
                    ids.push(if !marks.is_empty() && rng.chance(1, 2) { marks[rng.below(marks.len() as u64) as usize] } else { gen_glyph(rng) });
                }
                ids.push(*x);
            }
        } else {
            ids.push(gen_glyph(rng));
        }
    }
    let n = ids.len() as i64;
    let glyphs: Vec<T> = ids
        .iter()
        .map(|id| T::of_ints(&[*id, if rng.chance(1, 3) { rng.range(0, 3) } else { 0 }, if rng.chance(1, 8) { 1 } else { 0 }]))
        .collect();
    // advances: marks often zero
    let advs: Vec<i64> = (0..NG + 2)
        .map(|gid| if marks.contains(&gid) && rng.chance(2, 3) { 0 } else if rng.chance(1, 10) { 0 } else { rng.range(100, 900) })
        .collect();
    let dir = T::I(rng.range(0, 1));

    let run = match rng.below(10) {
        0..=6 => {
            let script_tag = *rng.pick(&[LATN, LATN, LATN, DFLT, DFLT, CYRL]);
            let lang = match rng.below(4) {
                0 => T::some(T::I(ENG)),
                1 => T::some(T::I(DFLT)),
                _ => T::none(),
            };
            let nf = if rng.chance(1, 2) { nfeat } else { rng.range(0, 3) };
            let feats: Vec<i64> = (0..nf)
                .map(|_| if rng.chance(4, 5) { feature_tags[rng.below(feature_tags.len() as u64) as usize] } else { *rng.pick(FEATURE_TAGS) })
                .collect();
            T::L(vec![T::I(0), T::I(script_tag), lang, T::of_ints(&feats), T::I(if rng.chance(3, 4) { 1 } else { 0 }), kern, dir, T::of_ints(&advs)])
        }
        7 | 8 => {
            let pls: Vec<T> = (0..n)
                .map(|i| {
                    let is_mark = marks.contains(&ids[i as usize]);
                    let k = if rng.chance(1, 3) { rng.range(-100, 100) } else { 0 };
                    T::L(vec![T::I(k), gen_placement(rng, i, n, is_mark)])
                })
                .collect();
            T::L(vec![T::I(1), T::L(pls), dir, T::of_ints(&advs)])
        }
        _ => {
            let nsm: Vec<i64> = (0..n).map(|_| if rng.chance(1, 3) { 1 } else { 0 }).collect();
            T::L(vec![T::I(2), kern, T::of_ints(&nsm), dir, T::of_ints(&advs)])
        }
    };
    format!("{} {}", build_mode(), T::L(vec![gdef, layout, run, T::L(glyphs)]))
}

fn main() {
    harness_main(&run, &mut gen)
}
