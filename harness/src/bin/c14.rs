//! C14 correspondence: random reader-operation programs executed on the real ReadScope /
//! ReadCtxt / ReadArray, printed in the same line format the OCaml model driver produces.
use avh::prng::{hex, unhex, Rng};
use avh::{build_mode, harness_main, panic_kind, perr};
use allsorts::binary::read::{
    CheckIndex, ReadArray, ReadArrayCow, ReadBinaryDep, ReadBuf, ReadCache, ReadCtxt, ReadFixedSizeDep, ReadScope,
    ReadScopeOwned, ReadUnchecked,
};
use allsorts::binary::{I16Be, I32Be, I64Be, U16Be, U24Be, U32Be, U64Be, I8, U8};
use allsorts::error::ParseError;
use std::fmt;
use std::panic::{catch_unwind, AssertUnwindSafe};

pub trait ToVals {
    fn vals(&self, out: &mut Vec<i128>);
}
macro_rules! tovals_prim {
    ($($t:ty),*) => { $(impl ToVals for $t { fn vals(&self, out: &mut Vec<i128>) { out.push(*self as i128) } })* };
}
tovals_prim!(u8, i8, u16, i16, u32, i32, u64, i64);
impl<A: ToVals, B: ToVals> ToVals for (A, B) {
    fn vals(&self, out: &mut Vec<i128>) {
        self.0.vals(out);
        self.1.vals(out);
    }
}
impl<A: ToVals, B: ToVals, C: ToVals> ToVals for (A, B, C) {
    fn vals(&self, out: &mut Vec<i128>) {
        self.0.vals(out);
        self.1.vals(out);
        self.2.vals(out);
    }
}
impl<A: ToVals, B: ToVals, C: ToVals, D: ToVals> ToVals for (A, B, C, D) {
    fn vals(&self, out: &mut Vec<i128>) {
        self.0.vals(out);
        self.1.vals(out);
        self.2.vals(out);
        self.3.vals(out);
    }
}
fn v<T: ToVals>(t: &T) -> Vec<i128> {
    let mut o = vec![];
    t.vals(&mut o);
    o
}

type T2 = (U16Be, U16Be);
type T3 = (U8, U16Be, U32Be);
type T4 = (U8, I8, U8, U8);
type T2b = (I16Be, U24Be);
// members of different sizes in every position: a SIZE that counts a member twice or not at all shows
type T4b = (U8, U16Be, U8, U32Be);
type T3b = (U32Be, U8, U16Be);

macro_rules! types {
    ($m:ident) => {
        $m! {
            (A_U8, U8, "u8"), (A_I8, I8, "i8"), (A_U16, U16Be, "u16"), (A_I16, I16Be, "i16"),
            (A_U24, U24Be, "u24"), (A_U32, U32Be, "u32"), (A_I32, I32Be, "i32"),
            (A_U64, U64Be, "u64"), (A_I64, I64Be, "i64"),
            (A_T2, T2, "u16,u16"), (A_T3, T3, "u8,u16,u32"), (A_T4, T4, "u8,i8,u8,u8"),
            (A_T2B, T2b, "i16,u24"), (A_T4B, T4b, "u8,u16,u8,u32"), (A_T3B, T3b, "u32,u8,u16")
        }
    };
}

macro_rules! def_arr {
    ($(($v:ident, $t:ty, $s:expr)),*) => {
        #[allow(non_camel_case_types)]
        enum Arr<'a> { $($v(ReadArray<'a, $t>)),* }
        pub const TYPES: &[&str] = &[$($s),*];
        fn read_ty<'a>(ty: &str, c: &mut ReadCtxt<'a>) -> Result<Vec<i128>, ParseError> {
            match ty { $($s => c.read::<$t>().map(|x| v(&x)),)* _ => panic!("ty {}", ty) }
        }
        fn read_array<'a>(ty: &str, c: &mut ReadCtxt<'a>, n: usize) -> Result<Arr<'a>, ParseError> {
            match ty { $($s => c.read_array::<$t>(n).map(Arr::$v),)* _ => panic!("ty {}", ty) }
        }
        fn read_array_stride<'a>(ty: &str, c: &mut ReadCtxt<'a>, n: usize, st: usize) -> Result<Arr<'a>, ParseError> {
            match ty { $($s => c.read_array_stride::<$t>(n, st).map(Arr::$v),)* _ => panic!("ty {}", ty) }
        }
        fn read_array_upto<'a>(ty: &str, c: &mut ReadCtxt<'a>, n: usize) -> Result<Arr<'a>, ParseError> {
            match ty { $($s => c.read_array_upto_hack::<$t>(n).map(Arr::$v),)* _ => panic!("ty {}", ty) }
        }
        /// one ReadCache per element type (a ReadCache is typed by the host type it stores)
        #[allow(non_snake_case)]
        struct Caches { $($v: ReadCache<<$t as ReadUnchecked>::HostType>),* }
        impl Caches {
            fn new() -> Caches { Caches { $($v: ReadCache::new()),* } }
        }
        fn scope_read<'a>(ty: &str, s: &ReadScope<'a>) -> Result<Vec<i128>, ParseError> {
            match ty { $($s => s.read::<$t>().map(|x| v(&x)),)* _ => panic!("ty {}", ty) }
        }
        fn scope_read_cache<'a>(ty: &str, s: &ReadScope<'a>, c: &mut Caches) -> Result<Vec<i128>, ParseError> {
            match ty { $($s => s.read_cache::<$t>(&mut c.$v).map(|x| v(&*x)),)* _ => panic!("ty {}", ty) }
        }
        macro_rules! with_arr {
            ($arr:expr, $a:ident => $body:expr) => { match $arr { $(Arr::$v($a) => $body),* } };
        }
    };
}
types!(def_arr);

fn arr_get<T: ReadUnchecked>(a: &ReadArray<'_, T>, i: usize) -> Vec<i128>
where
    T::HostType: ToVals,
{
    match a.get_item(i) {
        None => vec![0],
        Some(x) => {
            let mut o = vec![1];
            x.vals(&mut o);
            o
        }
    }
}
fn arr_read_item<T: ReadUnchecked>(a: &ReadArray<'_, T>, i: usize) -> Result<Vec<i128>, ParseError>
where
    T::HostType: ToVals,
{
    a.read_item(i).map(|x| v(&x))
}
fn arr_last<T: ReadUnchecked>(a: &ReadArray<'_, T>) -> Vec<i128>
where
    T::HostType: ToVals,
{
    match a.last() {
        None => vec![0],
        Some(x) => {
            let mut o = vec![1];
            x.vals(&mut o);
            o
        }
    }
}
fn arr_to_vec<T: ReadUnchecked>(a: &ReadArray<'_, T>) -> Vec<i128>
where
    T::HostType: ToVals,
{
    let items: Vec<T::HostType> = a.iter().collect();
    let mut o = vec![];
    for x in &items {
        x.vals(&mut o);
    }
    if a.len() <= 4096 {
        // to_vec preallocates len items; only call it when that is harmless
        let tv = a.to_vec();
        let mut o2 = vec![];
        for x in &tv {
            x.vals(&mut o2);
        }
        assert!(o == o2, "to_vec differs from iter");
    }
    o
}
fn arr_size_hint<T: ReadUnchecked>(a: &ReadArray<'_, T>) -> Vec<i128> {
    let (lo, hi) = a.iter().size_hint();
    assert!(hi == Some(lo));
    vec![lo as i128]
}
fn arr_read_to_vec<T: ReadUnchecked>(a: &ReadArray<'_, T>) -> Result<Vec<i128>, ParseError>
where
    T::HostType: ToVals,
{
    let items: Result<Vec<T::HostType>, ParseError> = a.iter_res().collect();
    let items = items?;
    let mut o = vec![];
    for x in &items {
        x.vals(&mut o);
    }
    if a.len() <= 4096 {
        let tv = a.read_to_vec()?;
        let mut o2 = vec![];
        for x in &tv {
            x.vals(&mut o2);
        }
        assert!(o == o2, "read_to_vec differs from iter_res");
    }
    Ok(o)
}
fn arr_search<T: ReadUnchecked>(a: &ReadArray<'_, T>, key: i128) -> Vec<i128>
where
    T::HostType: ToVals,
{
    match a.binary_search_by(|x| v(&x)[0].cmp(&key)) {
        Ok(i) => vec![1, i as i128],
        Err(i) => vec![0, i as i128],
    }
}


/// most items the harness pulls out of an iterator (Model/ReaderObs.v: ITER_CAP) and the longest array
/// read_to_vec (which preallocates `len` items) is called on (VEC_CAP)
const ITER_CAP: usize = 1000;
const VEC_CAP: usize = 4096;

/// a `fmt::Write` sink that stops the formatting once `max_items` item openers or 4 MB were written, so
/// that a Debug impl driven by an endless iterator is observed instead of exhausting the memory
struct CappedSink {
    s: String,
    items: usize,
    max_items: usize,
    capped: bool,
}
impl fmt::Write for CappedSink {
    fn write_str(&mut self, x: &str) -> fmt::Result {
        for ch in x.chars() {
            if ch == '<' {
                if self.items == self.max_items {
                    self.capped = true;
                    return Err(fmt::Error);
                }
                self.items += 1;
            }
            self.s.push(ch);
        }
        if self.s.len() > (4 << 20) {
            self.capped = true;
            return Err(fmt::Error);
        }
        Ok(())
    }
}
fn debug_capped<D: fmt::Debug>(d: &D, max_items: usize) -> (String, bool, bool) {
    use std::fmt::Write;
    let mut sink = CappedSink { s: String::new(), items: 0, max_items, capped: false };
    let ok = write!(sink, "{:?}", d).is_ok();
    (sink.s, ok, sink.capped)
}
/// every integer of a Debug rendering, in order
fn ints_of(s: &str) -> Vec<i128> {
    let mut out = vec![];
    let mut cur = String::new();
    for ch in s.chars().chain(std::iter::once(' ')) {
        if ch == '-' || ch.is_ascii_digit() {
            cur.push(ch);
        } else if !cur.is_empty() {
            out.push(cur.parse::<i128>().unwrap());
            cur.clear();
        }
    }
    out
}

/// The dependent record of the harness: `args` lists its fields (codes of the nine primitives, possibly
/// none), `size(args)` is the sum of their sizes and `read_dep` reads them one after the other with the
/// checked readers — the shape of GPOS ValueRecord / BaseRecord / ComponentRecord, whose size is 0 for
/// valueFormat = 0 / markClassCount = 0.
#[derive(Clone, Copy, PartialEq)]
pub struct RecItem {
    n: usize,
    v: [i128; 8],
}
impl fmt::Debug for RecItem {
    fn fmt(&self, f: &mut fmt::Formatter<'_>) -> fmt::Result {
        f.write_str("<")?;
        for x in &self.v[..self.n] {
            write!(f, "{} ", x)?;
        }
        f.write_str(">")
    }
}
impl ToVals for RecItem {
    fn vals(&self, out: &mut Vec<i128>) {
        out.extend_from_slice(&self.v[..self.n]);
    }
}
pub struct Rec;
const PRIM_NAMES: [&str; 9] = ["u8", "i8", "u16", "i16", "u24", "u32", "i32", "u64", "i64"];
const PRIM_SIZES: [usize; 9] = [1, 1, 2, 2, 3, 4, 4, 8, 8];
impl ReadBinaryDep for Rec {
    type Args<'a> = &'static [u8];
    type HostType<'a> = RecItem;
    fn read_dep<'a>(c: &mut ReadCtxt<'a>, args: &'static [u8]) -> Result<RecItem, ParseError> {
        let mut item = RecItem { n: 0, v: [0; 8] };
        for code in args {
            let x = match code {
                0 => c.read_u8()? as i128,
                1 => c.read_i8()? as i128,
                2 => c.read_u16be()? as i128,
                3 => c.read_i16be()? as i128,
                4 => c.read::<U24Be>()? as i128,
                5 => c.read_u32be()? as i128,
                6 => c.read_i32be()? as i128,
                7 => c.read_u64be()? as i128,
                _ => c.read_i64be()? as i128,
            };
            item.v[item.n] = x;
            item.n += 1;
        }
        Ok(item)
    }
}
impl ReadFixedSizeDep for Rec {
    fn size(args: &'static [u8]) -> usize {
        args.iter().map(|c| PRIM_SIZES[*c as usize]).sum()
    }
}
/// "-" = the empty record; at most 8 fields
fn rec_args(ty: &str) -> &'static [u8] {
    let codes: Vec<u8> = if ty == "-" || ty.is_empty() {
        vec![]
    } else {
        ty.split(',').map(|p| PRIM_NAMES.iter().position(|n| *n == p).expect("prim") as u8).collect()
    };
    assert!(codes.len() <= 8);
    Box::leak(codes.into_boxed_slice())
}

fn counted<T: ToVals>(items: &[T]) -> Vec<i128> {
    let mut o = vec![items.len() as i128];
    for x in items {
        x.vals(&mut o);
    }
    o
}

fn res_hint<I: Iterator>(mut it: I, k: usize) -> Out {
    for _ in 0..k.min(ITER_CAP) {
        it.next();
    }
    let (lo, hi) = it.size_hint();
    if hi != Some(lo) {
        return Out::Incons(format!("size_hint ({}, {:?})", lo, hi));
    }
    Out::Ok(vec![lo as i128])
}

fn dep_iter(a: &ReadArray<'_, Rec>) -> Out {
    let items: Result<Vec<RecItem>, ParseError> = a.iter_res().take(ITER_CAP).collect();
    match items {
        Ok(items) => Out::Ok(counted(&items)),
        Err(e) => Out::Err(perr(&e)),
    }
}
fn dep_read_to_vec(a: &ReadArray<'_, Rec>) -> Out {
    // read_to_vec cannot be capped from outside: look at the iterator behind it first
    let n = a.len();
    let seen = a.iter_res().take(VEC_CAP + 2).count();
    if seen != n.min(VEC_CAP + 2) {
        return Out::Incons(format!("iter_res yields {}{} items, len() is {}", if seen == VEC_CAP + 2 { ">=" } else { "" }, seen, n));
    }
    if n > VEC_CAP {
        return Out::Ok(vec![-1]);
    }
    match a.read_to_vec() {
        Ok(items) => Out::Ok(counted(&items)),
        Err(e) => Out::Err(perr(&e)),
    }
}
fn dep_debug(a: &ReadArray<'_, Rec>) -> Out {
    // Debug walks iter_res to its end even after the formatter has failed: look at the iterator first
    let n = a.len();
    let seen = a.iter_res().take(ITER_CAP + 2).count();
    if seen != n.min(ITER_CAP + 2) {
        return Out::Incons(format!("iter_res yields {}{} items, len() is {}", if seen == ITER_CAP + 2 { ">=" } else { "" }, seen, n));
    }
    if n > ITER_CAP {
        return Out::Ok(vec![-1]);
    }
    let (s, ok, capped) = debug_capped(a, ITER_CAP);
    if !ok && !capped {
        return Out::Err("OtherErr");
    }
    let items = s.matches('<').count();
    let mut o = vec![items as i128];
    o.extend(ints_of(&s));
    Out::Ok(o)
}
fn arr_debug<'a, T: ReadUnchecked>(a: &ReadArray<'a, T>) -> Out
where
    T::HostType: Copy + fmt::Debug,
{
    // Debug walks iter_res to its end even after the formatter has failed: look at the iterator first
    let n = a.len();
    let seen = a.iter_res().take(n.saturating_add(2).min(1 << 20)).count();
    if seen != n.min(1 << 20) {
        return Out::Incons(format!("iter_res yields {} items, len() is {}", seen, n));
    }
    let (s, ok, capped) = debug_capped(a, usize::MAX);
    if capped {
        return Out::Incons(format!("Debug of an array of {} items printed more than 4 MB", a.len()));
    }
    if !ok {
        return Out::Err("OtherErr");
    }
    Out::Ok(ints_of(&s))
}
fn arr_res_hint<'a, T: ReadUnchecked>(a: &ReadArray<'a, T>, k: usize) -> Out {
    res_hint(a.iter_res(), k)
}
fn check_index_out<C: CheckIndex>(c: &C, i: usize) -> Out {
    match c.check_index(i) {
        Ok(()) => Out::Ok(vec![]),
        Err(e) => Out::Err(perr(&e)),
    }
}
/// the operations of ReadArrayCow, on Borrowed(arr.clone()) or Owned(arr.to_vec())
fn cow_op<'a, T: ReadUnchecked + Clone>(a: &ReadArray<'a, T>, owned: bool, p: &[&str]) -> Out
where
    T::HostType: ToVals + Copy + fmt::Debug + PartialEq,
{
    let num = |s: &str| s.parse::<usize>().unwrap();
    let cow: ReadArrayCow<'a, T> = if owned { ReadArrayCow::Owned(a.to_vec()) } else { ReadArrayCow::Borrowed(a.clone()) };
    match p[0] {
        "len" => {
            if cow.is_empty() != (cow.len() == 0) {
                return Out::Incons("is_empty".to_string());
            }
            Out::Ok(vec![cow.len() as i128, cow.is_empty() as i128])
        }
        "get" => Out::Ok(match cow.get_item(num(p[1])) {
            None => vec![0],
            Some(x) => {
                let mut o = vec![1];
                x.vals(&mut o);
                o
            }
        }),
        "ri" => match cow.read_item(num(p[1])) {
            Ok(x) => Out::Ok(v(&x)),
            Err(e) => Out::Err(perr(&e)),
        },
        "it" => {
            let items: Vec<T::HostType> = cow.iter().take(ITER_CAP).collect();
            let via_ref: Vec<T::HostType> = (&cow).into_iter().take(ITER_CAP).collect();
            if items != via_ref {
                return Out::Incons("IntoIterator for &ReadArrayCow differs from iter()".to_string());
            }
            if items.len() != cow.len().min(ITER_CAP) {
                // (Debug below walks the iterator to its end: not with an iterator that does not stop)
                return Out::Incons(format!("iter() yields {} items, len() is {}", items.len(), cow.len()));
            }
            let (s, ok, capped) = debug_capped(&cow, usize::MAX);
            let flat = {
                let mut o = vec![];
                for x in &items {
                    x.vals(&mut o);
                }
                o
            };
            if capped || !ok || ints_of(&s) != flat {
                return Out::Incons("Debug of ReadArrayCow differs from iter()".to_string());
            }
            Out::Ok(counted(&items))
        }
        "hint" => res_hint(cow.iter(), num(p[1])),
        "ci" => check_index_out(&cow, num(p[1])),
        _ => panic!("cow op"),
    }
}

struct St<'a> {
    scp: ReadScope<'a>,
    cur: ReadCtxt<'a>,
    arr: Arr<'a>,
    darr: ReadArray<'a, Rec>,
    caches: Caches,
}

fn fmt_vals(vs: &[i128]) -> String {
    vs.iter().map(|x| x.to_string()).collect::<Vec<_>>().join(",")
}

enum Out {
    Ok(Vec<i128>),
    Err(&'static str),
    /// two public views of the same object disagree (judged as a violation whatever the model says)
    Incons(String),
}

fn step<'a>(st: &mut St<'a>, op: &str) -> Out {
    let p: Vec<&str> = op.split(':').collect();
    let num = |s: &str| s.parse::<usize>().unwrap();
    let r = |x: Result<Vec<i128>, ParseError>| match x {
        Ok(v) => Out::Ok(v),
        Err(e) => Out::Err(perr(&e)),
    };
    match p[0] {
        "so" => {
            st.scp = st.scp.offset(num(p[1]));
            Out::Ok(vec![st.scp.data().len() as i128])
        }
        "sol" => match st.scp.offset_length(num(p[1]), num(p[2])) {
            Ok(s) => {
                st.scp = s;
                Out::Ok(vec![s.data().len() as i128])
            }
            Err(e) => Out::Err(perr(&e)),
        },
        "ctxt" => {
            st.cur = st.scp.ctxt();
            Out::Ok(vec![])
        }
        "cs" => {
            st.scp = st.cur.scope();
            Out::Ok(vec![st.scp.data().len() as i128])
        }
        "ba" => Out::Ok(vec![st.cur.bytes_available() as i128]),
        "r" => {
            let c = &mut st.cur;
            let x: Result<i128, ParseError> = match p[1] {
                "u8" => c.read_u8().map(|x| x as i128).map_err(ParseError::from),
                "i8" => c.read_i8().map(|x| x as i128).map_err(ParseError::from),
                "u16" => c.read_u16be().map(|x| x as i128).map_err(ParseError::from),
                "i16" => c.read_i16be().map(|x| x as i128).map_err(ParseError::from),
                "u24" => c.read::<U24Be>().map(|x| x as i128),
                "u32" => c.read_u32be().map(|x| x as i128).map_err(ParseError::from),
                "i32" => c.read_i32be().map(|x| x as i128).map_err(ParseError::from),
                "u64" => c.read_u64be().map(|x| x as i128).map_err(ParseError::from),
                "i64" => c.read_i64be().map(|x| x as i128).map_err(ParseError::from),
                _ => panic!("prim"),
            };
            r(x.map(|x| vec![x]))
        }
        "rt" => r(read_ty(p[1], &mut st.cur)),
        "rs" => match st.cur.read_scope(num(p[1])) {
            Ok(s) => {
                st.scp = s;
                Out::Ok(vec![s.data().len() as i128])
            }
            Err(_) => Out::Err("Eof"),
        },
        "sl" => match st.cur.read_slice(num(p[1])) {
            Ok(s) => Out::Ok(s.iter().map(|b| *b as i128).collect()),
            Err(_) => Out::Err("Eof"),
        },
        "nib" => match st.cur.read_until_nibble(num(p[1]) as u8) {
            Ok(s) => Out::Ok(s.iter().map(|b| *b as i128).collect()),
            Err(_) => Out::Err("Eof"),
        },
        "ra" => match read_array(p[1], &mut st.cur, num(p[2])) {
            Ok(a) => {
                let n = with_arr!(&a, x => x.len());
                st.arr = a;
                Out::Ok(vec![n as i128])
            }
            Err(e) => Out::Err(perr(&e)),
        },
        "ras" => match read_array_stride(p[1], &mut st.cur, num(p[2]), num(p[3])) {
            Ok(a) => {
                let n = with_arr!(&a, x => x.len());
                st.arr = a;
                Out::Ok(vec![n as i128])
            }
            Err(e) => Out::Err(perr(&e)),
        },
        "rau" => match read_array_upto(p[1], &mut st.cur, num(p[2])) {
            Ok(a) => {
                let n = with_arr!(&a, x => x.len());
                st.arr = a;
                Out::Ok(vec![n as i128])
            }
            Err(e) => Out::Err(perr(&e)),
        },
        "al" => Out::Ok(vec![with_arr!(&st.arr, x => x.len()) as i128]),
        "ag" => Out::Ok(with_arr!(&st.arr, x => arr_get(x, num(p[1])))),
        "ari" => r(with_arr!(&st.arr, x => arr_read_item(x, num(p[1])))),
        "alast" => Out::Ok(with_arr!(&st.arr, x => arr_last(x))),
        "avec" => Out::Ok(with_arr!(&st.arr, x => arr_to_vec(x))),
        "ahint" => Out::Ok(with_arr!(&st.arr, x => arr_size_hint(x))),
        "artv" => r(with_arr!(&st.arr, x => arr_read_to_vec(x))),
        "as" => Out::Ok(with_arr!(&st.arr, x => arr_search(x, p[1].parse::<i128>().unwrap()))),
        "sd" => Out::Ok(st.scp.data().iter().map(|b| *b as i128).collect()),
        "sr" => r(scope_read(p[1], &st.scp)),
        "srd" => match st.scp.read_dep::<Rec>(rec_args(p[1])) {
            Ok(x) => Out::Ok(v(&x)),
            Err(e) => Out::Err(perr(&e)),
        },
        "rc" => r(scope_read_cache(p[1], &st.scp, &mut st.caches)),
        "own" => {
            let owned: &'static ReadScopeOwned = Box::leak(Box::new(ReadScopeOwned::new(st.scp)));
            st.scp = owned.scope();
            Out::Ok(vec![])
        }
        "rad" => match st.cur.read_array_dep::<Rec>(num(p[2]), rec_args(p[1])) {
            Ok(a) => {
                let n = a.len();
                st.darr = a;
                Out::Ok(vec![n as i128])
            }
            Err(e) => Out::Err(perr(&e)),
        },
        "dl" => {
            if st.darr.is_empty() != (st.darr.len() == 0) {
                return Out::Incons("is_empty".to_string());
            }
            Out::Ok(vec![st.darr.len() as i128, st.darr.is_empty() as i128])
        }
        "dri" => match st.darr.read_item(num(p[1])) {
            Ok(x) => Out::Ok(v(&x)),
            Err(e) => Out::Err(perr(&e)),
        },
        "dit" => dep_iter(&st.darr),
        "drtv" => dep_read_to_vec(&st.darr),
        "dhint" => res_hint(st.darr.iter_res(), num(p[1])),
        "ddbg" => dep_debug(&st.darr),
        "dci" => check_index_out(&st.darr, num(p[1])),
        "adbg" => with_arr!(&st.arr, x => arr_debug(x)),
        "aci" => with_arr!(&st.arr, x => check_index_out(x, num(p[1]))),
        "arh" => with_arr!(&st.arr, x => arr_res_hint(x, num(p[1]))),
        "cb" => with_arr!(&st.arr, x => cow_op(x, false, &p[1..])),
        "co" => with_arr!(&st.arr, x => cow_op(x, true, &p[1..])),
        _ => panic!("op {}", op),
    }
}

/// run a program; returns the result string in the model driver's format
pub fn run_program(buf: &[u8], ops: &[String]) -> String {
    // the root scope comes from ReadScope::new or from a ReadBuf (borrowed / owned), by buffer length
    let rb: ReadBuf<'_> = if buf.len() % 3 == 2 { ReadBuf::from(buf.to_vec()) } else { ReadBuf::from(buf) };
    let scope = if buf.len() % 3 == 0 { ReadScope::new(buf) } else { rb.scope() };
    let darr = ReadScope::new(&[]).ctxt().read_array_dep::<Rec>(0, &[]).unwrap();
    let mut st =
        St { scp: scope, cur: scope.ctxt(), arr: Arr::A_U8(ReadArray::empty()), darr, caches: Caches::new() };
    let mut outs = vec![];
    for op in ops {
        // the reader has no partial effects: every failing call returns before mutating
        let before = st.cur.clone();
        let res = catch_unwind(AssertUnwindSafe(|| step(&mut st, op)));
        let s = match res {
            Ok(Out::Ok(vs)) => format!("ok:{}", fmt_vals(&vs)),
            Ok(Out::Err(e)) => format!("err:{}", e),
            Ok(Out::Incons(w)) => format!("incons:{}", w.replace(|c: char| c == ';' || c == '@' || c == '\t', " ")),
            Err(e) => {
                st.cur = before;
                panic_kind(&*e).to_string()
            }
        };
        // positions: cur.scope().data().len() @ cur.scope().base() @ scp.base() @ scp.data().len()
        let (rem, curbase) = cur_position(&st.cur);
        outs.push(format!("{}@{}@{}@{}@{}", s, rem, curbase, st.scp.base(), st.scp.data().len()));
    }
    outs.join(";")
}

/// what is observable of the cursor: the number of bytes left in its scope and the position of that
/// scope (-1 if asking panics)
fn cur_position(c: &ReadCtxt<'_>) -> (i128, i128) {
    match catch_unwind(AssertUnwindSafe(|| {
        let s = c.scope();
        (s.data().len(), s.base())
    })) {
        Ok((n, b)) => (n as i128, b as i128),
        Err(_) => (-1, -1),
    }
}

const BOUNDARY: &[u64] = &[
    0, 1, 2, 3, 4, 7, 8, 9, 15, 16, 17, 31, 32, 33, 63, 64, 65, 255, 256, 65535, 65536,
    (1 << 31) - 1, 1 << 31, (1 << 32) - 1, 1 << 32, (1 << 32) + 1, (1 << 62), (1 << 63) - 1, 1 << 63,
    (1 << 63) + 1, u64::MAX / 2, u64::MAX / 3, u64::MAX / 3 + 1, u64::MAX / 4 + 1, u64::MAX / 8 + 1,
    u64::MAX - 8, u64::MAX - 4, u64::MAX - 3, u64::MAX - 2, u64::MAX - 1, u64::MAX,
];

fn arg(rng: &mut Rng, len: usize) -> u64 {
    match rng.below(10) {
        0..=4 => rng.below(len as u64 + 3),
        5 => (len as u64).wrapping_add(rng.below(5)).wrapping_sub(2),
        6 | 7 => *rng.pick(BOUNDARY),
        8 => rng.below(12),
        _ => rng.next() >> rng.below(64),
    }
}

const PRIMS: [&str; 9] = ["u8", "i8", "u16", "i16", "u24", "u32", "i32", "u64", "i64"];

/// a dependent record type: no field at all (size 0) on purpose about a third of the time
fn gen_rec(rng: &mut Rng) -> String {
    let nf = match rng.below(9) {
        0..=2 => 0,
        3 | 4 => 1,
        5 | 6 => 2,
        7 => 3,
        _ => 1 + rng.below(8) as usize,
    };
    if nf == 0 {
        return "-".to_string();
    }
    let small = rng.chance(2, 3);
    (0..nf)
        .map(|_| if small { *rng.pick(&["u8", "i8", "u16", "i16"]) } else { *rng.pick(&PRIMS) })
        .collect::<Vec<_>>()
        .join(",")
}
fn rec_size(t: &str) -> usize {
    if t == "-" {
        0
    } else {
        t.split(',').map(|p| PRIM_SIZES[PRIM_NAMES.iter().position(|n| *n == p).unwrap()]).sum()
    }
}

/// an index / count around `n`: inside, the last one, the first one outside, far outside
fn around(rng: &mut Rng, n: u64) -> u64 {
    match rng.below(8) {
        0..=2 => rng.below(n.saturating_add(1)),
        3 => n.saturating_sub(1),
        4 => n,
        5 => n.saturating_add(1),
        6 => *rng.pick(BOUNDARY),
        _ => rng.below(12),
    }
}

/// one operation of the general mix
fn gen_op(rng: &mut Rng, len: usize) -> String {
    let ty = *rng.pick(TYPES);
    let prim = *rng.pick(&PRIMS);
    match rng.below(62) {
        0 => format!("so:{}", arg(rng, len)),
        1 | 2 => format!("sol:{}:{}", arg(rng, len), arg(rng, len)),
        3 | 4 => "ctxt".to_string(),
        5 => "cs".to_string(),
        6 => "ba".to_string(),
        7..=11 => format!("r:{}", prim),
        12..=14 => format!("rt:{}", ty),
        15 => format!("rs:{}", arg(rng, len)),
        16 => format!("sl:{}", arg(rng, len)),
        17 => format!("nib:{}", rng.below(17)),
        18..=20 => format!("ra:{}:{}", ty, arg(rng, len / 2)),
        21..=23 => format!("ras:{}:{}:{}", ty, arg(rng, len / 4), arg(rng, 8)),
        24 => format!("rau:{}:{}", ty, arg(rng, len)),
        25 => "al".to_string(),
        26..=28 => format!("ag:{}", arg(rng, 6)),
        29 | 30 => format!("ari:{}", arg(rng, 6)),
        31 => "alast".to_string(),
        32 | 33 => "avec".to_string(),
        34 => "ahint".to_string(),
        35 | 36 => "artv".to_string(),
        37..=39 => format!("as:{}", rng.range(-3, 260)),
        40 => "sd".to_string(),
        41 | 42 => format!("sr:{}", ty),
        43 => format!("srd:{}", gen_rec(rng)),
        44..=46 => format!("rc:{}", ty),
        47 => "own".to_string(),
        48 | 49 => format!("rad:{}:{}", gen_rec(rng), arg(rng, len / 3)),
        50 => "dl".to_string(),
        51 => format!("dri:{}", arg(rng, 6)),
        52 => "dit".to_string(),
        53 => "drtv".to_string(),
        54 => format!("dhint:{}", arg(rng, 6)),
        55 => "ddbg".to_string(),
        56 => format!("dci:{}", arg(rng, 6)),
        57 => "adbg".to_string(),
        58 => format!("aci:{}", arg(rng, 6)),
        59 => format!("arh:{}", arg(rng, 6)),
        _ => gen_cow(rng, 6),
    }
}

fn gen_cow(rng: &mut Rng, n: u64) -> String {
    let which = if rng.chance(1, 2) { "cb" } else { "co" };
    match rng.below(7) {
        0 => format!("{}:len", which),
        1 | 2 => format!("{}:get:{}", which, around(rng, n)),
        3 => format!("{}:ri:{}", which, around(rng, n)),
        4 => format!("{}:it", which),
        5 => format!("{}:hint:{}", which, around(rng, n)),
        _ => format!("{}:ci:{}", which, around(rng, n)),
    }
}

/// Scopes are moved around (in range, to the very end, past the end, by usize-extreme amounts, through
/// the cursor, through ReadScopeOwned) and after every move the same few types are read through the
/// cache, directly and through a cursor: a position (ReadScope::base) that does not follow the moves
/// shows in the positions printed after every step and in cached reads that return a stale value.
fn gen_positions(rng: &mut Rng, len: usize, ops: &mut Vec<String>) {
    let tys: Vec<&str> = (0..1 + rng.below(2)).map(|_| *rng.pick(&["u8", "u16", "i16", "u32", "u16,u16", "u24", "u64"])).collect();
    let mut cur_len = len as u64; // what the scope variable spans if every move so far was in range
    let steps = 2 + rng.below(6);
    for _ in 0..steps {
        let ty = *rng.pick(&tys);
        match rng.below(6) {
            0..=2 => ops.push(format!("rc:{}", ty)),
            3 => ops.push(format!("sr:{}", ty)),
            4 => {
                ops.push("ctxt".to_string());
                ops.push(format!("rt:{}", ty));
            }
            _ => ops.push("sd".to_string()),
        }
        // the move
        match rng.below(12) {
            0..=2 => {
                // inside
                let k = rng.below(cur_len + 1);
                ops.push(format!("so:{}", k));
                cur_len -= k;
            }
            3 => ops.push(format!("so:{}", cur_len)), // exactly the end: an empty, but not dangling, scope
            4 | 5 => {
                // past the end: a dangling scope
                let k = cur_len + 1 + rng.below(4) * rng.below(40);
                ops.push(format!("so:{}", k));
                cur_len = 0;
            }
            6 => ops.push(format!("so:{}", pick_extreme(rng))),
            7 => {
                let o = around(rng, cur_len);
                let l = if rng.chance(1, 3) { 0 } else { around(rng, cur_len.saturating_sub(o.min(cur_len))) };
                ops.push(format!("sol:{}:{}", o, l));
                if o <= cur_len && l <= cur_len - o {
                    cur_len = l;
                }
            }
            8 => {
                ops.push("ctxt".to_string());
                ops.push(format!("r:{}", *rng.pick(&PRIMS)));
                ops.push("cs".to_string());
            }
            9 => ops.push("own".to_string()),
            10 => {
                ops.push("ctxt".to_string());
                ops.push(format!("rs:{}", around(rng, cur_len)));
            }
            _ => {}
        }
        if rng.chance(1, 2) {
            ops.push(format!("rc:{}", ty));
        }
    }
}

fn pick_extreme(rng: &mut Rng) -> u64 {
    *rng.pick(&[u64::MAX, u64::MAX - 1, u64::MAX - 3, 1 << 63, (1 << 63) + 2, 1 << 32, (1 << 32) + 1, u64::MAX / 2])
}

/// A dependent array is read (records of 0 to 8 fields; declared lengths 0, 1, few, exactly what fits,
/// one more than fits, huge) and then looked at through every public view: len/is_empty, read_item and
/// check_index around the length, iter_res (capped), read_to_vec, size_hint after k items, Debug.
fn gen_dep(rng: &mut Rng, len: usize, ops: &mut Vec<String>) {
    if rng.chance(1, 3) {
        ops.push(format!("sl:{}", rng.below(len as u64 / 2 + 1)));
    }
    let rounds = 1 + rng.below(2);
    for _ in 0..rounds {
        let t = gen_rec(rng);
        let sz = rec_size(&t) as u64;
        let fits = if sz == 0 { 4 + rng.below(6) } else { len as u64 / sz };
        let n = match rng.below(10) {
            0 => 0,
            1 => 1,
            2..=4 => rng.below(7),
            5 | 6 => fits,
            7 => fits + 1,
            8 => rng.below(fits + 1),
            _ => {
                if sz == 0 && rng.chance(1, 2) {
                    *rng.pick(&[999, 1000, 1001, 4096, 4097, 65535, 1 << 20])
                } else {
                    *rng.pick(BOUNDARY)
                }
            }
        };
        ops.push(format!("rad:{}:{}", t, n));
        let looks = 2 + rng.below(7);
        for _ in 0..looks {
            ops.push(match rng.below(12) {
                0 => "dl".to_string(),
                1 | 2 => "dit".to_string(),
                3 | 4 => format!("dri:{}", around(rng, n)),
                5 | 6 => "drtv".to_string(),
                7 => format!("dhint:{}", around(rng, n)),
                8 | 9 => "ddbg".to_string(),
                10 => format!("dci:{}", around(rng, n)),
                _ => format!("r:{}", *rng.pick(&PRIMS)), // the cursor moved by exactly n * size
            });
        }
        if rng.chance(1, 3) {
            ops.push(format!("srd:{}", t));
        }
    }
}

/// an array (plain or strided) looked at through ReadArrayCow (borrowed and owned), CheckIndex, Debug
/// and the size_hint of iter_res
fn gen_cow_scenario(rng: &mut Rng, len: usize, ops: &mut Vec<String>) {
    let ty = *rng.pick(TYPES);
    let n = rng.below(len as u64 / 2 + 2);
    if rng.chance(1, 2) {
        ops.push(format!("ra:{}:{}", ty, n));
    } else {
        ops.push(format!("ras:{}:{}:{}", ty, rng.below(len as u64 / 4 + 2), arg(rng, 8)));
    }
    ops.push("al".to_string());
    for _ in 0..2 + rng.below(6) {
        ops.push(match rng.below(8) {
            0..=4 => gen_cow(rng, n),
            5 => "adbg".to_string(),
            6 => format!("aci:{}", around(rng, n)),
            _ => format!("arh:{}", around(rng, n)),
        });
    }
}

pub fn gen_program(rng: &mut Rng) -> (Vec<u8>, Vec<String>) {
    let len = match rng.below(10) {
        0 => 0,
        1 => rng.below(4) as usize,
        2..=7 => rng.below(40) as usize,
        8 => 40 + rng.below(60) as usize,
        _ => rng.below(300) as usize,
    };
    let sorted = rng.chance(1, 3);
    let mut buf = rng.bytes(len);
    if sorted {
        buf.sort();
    }
    if rng.chance(1, 8) {
        for b in buf.iter_mut() {
            *b = *rng.pick(&[0u8, 0xff, 0x80, 0x7f, 0x0f, 0xf0]);
        }
    }
    let mut ops = vec![];
    // a structured part (positions and cache / dependent arrays / cow views) in half of the programs,
    // then the general mix
    let scenario = rng.below(10);
    match scenario {
        0 | 1 => gen_positions(rng, len, &mut ops),
        2 | 3 => gen_dep(rng, len, &mut ops),
        4 => gen_cow_scenario(rng, len, &mut ops),
        _ => {}
    }
    let nops = if scenario <= 4 { rng.below(8) as usize } else { 1 + rng.below(24) as usize };
    for _ in 0..nops {
        ops.push(gen_op(rng, len));
    }
    (buf, ops)
}

// ------------------------------------------------------------------------------------------------
// The crate's own dependent records (`impl ReadFixedSizeDep for X` outside src/binary/read.rs).
// input  = M|lib|Type|a,b,..|n|buflen      (numeric components of Args; "-" = none)
// output = size:S;item:I;seq:Q;arr:A;first:F;last:L;iter:K
//   size  = T::size(args)                                   | panic
//   item  = bytes one T::read_dep consumes                  | err:E | panic
//   seq   = k,bytes consumed by k = min(n, 64) read_dep calls in a row | err:E | panic
//   arr   = cursor advance, len() of read_array_dep(n, args) | err:E | panic
//   first / last = ok | err:E | panic | none  (read_item(0), read_item(n-1) of that array)
//   iter  = number of Ok items, number of Err items of iter_res() (pulled at most 1000 times)
// The buffer is `buflen` zero bytes (NULL offsets everywhere, relative to a separate table buffer) with the few bytes a record insists on
// (bitDepth of a BitmapSize) set at every record position.
use allsorts::bitmap::cbdt::{BigGlyphMetrics, BitmapSize, SbitLineMetrics};
use allsorts::layout::verif_hooks::{with_private_dep_record, DepRecordProbe};
use allsorts::layout::{
    Class1Record, Class2Record, FeatureRecord, LangSysRecord, PairValueRecord, ScriptRecord, ValueFormat, ValueRecord,
};
use allsorts::tables::svg::SVGDocumentRecord;
use allsorts::tables::variable_fonts::stat::AxisValue;
use allsorts::tables::variable_fonts::VariationRegion;

pub const LIB_TYPES: &[&str] = &[
    "AxisValue", "VariationRegion", "SVGDocumentRecord", "BitmapSize", "SbitLineMetrics", "BigGlyphMetrics",
    "ScriptRecord", "FeatureRecord", "LangSysRecord", "ValueRecord", "PairValueRecord", "Class1Record",
    "Class2Record", "EntryExitRecord", "BaseRecord", "MarkRecord", "ComponentRecord",
];
pub const LIB_BUF_MAX: u64 = 1 << 21;

fn popcount8(f: u64) -> u64 {
    (f & 0xff).count_ones() as u64
}
/// the encoded size of one record, from the table layouts (the harness's own reference, used to lay
/// out the buffer and to choose buffer lengths; the judge has its own)
pub fn lib_ref_size(ty: &str, a: &[u64]) -> u64 {
    let g = |i: usize| a.get(i).copied().unwrap_or(0);
    match ty {
        "AxisValue" => 6,
        "VariationRegion" => 6 * g(0),
        "SVGDocumentRecord" => 12,
        "BitmapSize" => 48,
        "SbitLineMetrics" => 12,
        "BigGlyphMetrics" => 8,
        "ScriptRecord" | "FeatureRecord" | "LangSysRecord" => 6,
        "ValueRecord" => 2 * popcount8(g(0)),
        "PairValueRecord" => 2 + 2 * popcount8(g(0)) + 2 * popcount8(g(1)),
        "Class2Record" => 2 * popcount8(g(0)) + 2 * popcount8(g(1)),
        "Class1Record" => g(0).wrapping_mul(2 * popcount8(g(1)) + 2 * popcount8(g(2))),
        "EntryExitRecord" | "MarkRecord" => 4,
        "BaseRecord" | "ComponentRecord" => g(0).wrapping_mul(2),
        _ => panic!("lib type {}", ty),
    }
}
/// number of numeric components of Args
pub fn lib_arity(ty: &str) -> usize {
    match ty {
        "AxisValue" | "VariationRegion" | "ValueRecord" | "BaseRecord" | "ComponentRecord" => 1,
        "PairValueRecord" | "Class2Record" => 2,
        "Class1Record" => 3,
        _ => 0,
    }
}

fn res_str<F: FnOnce() -> Result<String, ParseError>>(f: F) -> String {
    match catch_unwind(AssertUnwindSafe(f)) {
        Ok(Ok(s)) => s,
        Ok(Err(e)) => format!("err:{}", perr(&e)),
        Err(e) => panic_kind(&*e).to_string(),
    }
}

struct LibProbe<'b> {
    buf: &'b [u8],
    n: usize,
    out: String,
}
impl<'b> LibProbe<'b> {
    fn run<'a, T: ReadFixedSizeDep>(&mut self, buf: &'a [u8], args: T::Args<'a>) {
        let n = self.n;
        let size = res_str(|| Ok(T::size(args).to_string()));
        let item = res_str(|| {
            let mut c = ReadScope::new(buf).ctxt();
            T::read_dep(&mut c, args)?;
            Ok((buf.len() - c.scope().data().len()).to_string())
        });
        let seq = res_str(|| {
            let mut c = ReadScope::new(buf).ctxt();
            let k = n.min(64);
            for _ in 0..k {
                c.read_dep::<T>(args)?;
            }
            Ok(format!("{},{}", k, buf.len() - c.scope().data().len()))
        });
        let mut first = "none".to_string();
        let mut last = "none".to_string();
        let mut iter = "none".to_string();
        let arr = match catch_unwind(AssertUnwindSafe(|| {
            let mut c = ReadScope::new(buf).ctxt();
            c.read_array_dep::<T>(n, args).map(|a| (a, buf.len() - c.scope().data().len()))
        })) {
            Ok(Ok((a, adv))) => {
                if n > 0 {
                    first = res_str(|| a.read_item(0).map(|_| "ok".to_string()));
                    last = res_str(|| a.read_item(n - 1).map(|_| "ok".to_string()));
                }
                iter = res_str(|| {
                    let (mut ok, mut er) = (0, 0);
                    for x in a.iter_res().take(1000) {
                        match x {
                            Ok(_) => ok += 1,
                            Err(_) => er += 1,
                        }
                    }
                    Ok(format!("{},{}", ok, er))
                });
                format!("{},{}", adv, a.len())
            }
            Ok(Err(e)) => format!("err:{}", perr(&e)),
            Err(e) => panic_kind(&*e).to_string(),
        };
        self.out = format!("size:{};item:{};seq:{};arr:{};first:{};last:{};iter:{}", size, item, seq, arr, first, last, iter);
    }
}
impl<'b> DepRecordProbe for LibProbe<'b> {
    fn probe<'a, T: ReadFixedSizeDep>(&mut self, args: T::Args<'a>) {
        // the scope component of `args` (if any) is a scope over self.buf: same lifetime in practice
        let buf: &'a [u8] = unsafe { std::mem::transmute::<&'b [u8], &'a [u8]>(self.buf) };
        self.run::<T>(buf, args)
    }
}

pub fn run_lib(ty: &str, a: &[u64], n: usize, buflen: usize) -> String {
    assert!(buflen as u64 <= LIB_BUF_MAX, "buffer too large");
    assert!(a.len() == lib_arity(ty), "arity");
    let mut buf = vec![0u8; buflen];
    let rs = lib_ref_size(ty, a) as usize;
    if ty == "BitmapSize" {
        let mut p = 46;
        while p < buflen {
            buf[p] = 1; // bitDepth must be one of 1, 2, 4, 8, 32
            p += rs;
        }
    }
    let buf = &buf[..];
    // the table scope the records' offsets are relative to is a separate buffer: all offsets NULL, except
    // that a MarkRecord insists on an Anchor (format 1) behind its offset
    static ZERO_TABLE: [u8; 64] = [0; 64];
    static MARK_TABLE: [u8; 8] = [0, 1, 0, 0, 0, 0, 0, 0];
    let scope: ReadScope<'static> = if ty == "MarkRecord" { ReadScope::new(&MARK_TABLE) } else { ReadScope::new(&ZERO_TABLE) };
    let vf = |x: u64| -> ValueFormat {
        let b = [(x >> 8) as u8, x as u8];
        ReadScope::new(&b).read::<ValueFormat>().expect("value format above 0xFF")
    };
    let u16a = |x: u64| -> u16 { u16::try_from(x).expect("u16 argument") };
    let us = |x: u64| -> usize { x as usize };
    let mut p = LibProbe { buf, n, out: String::new() };
    match ty {
        "AxisValue" => p.run::<AxisValue>(buf, u16a(a[0])),
        "VariationRegion" => p.run::<VariationRegion<'_>>(buf, u16a(a[0])),
        "SVGDocumentRecord" => p.run::<SVGDocumentRecord<'_>>(buf, scope),
        "BitmapSize" => p.run::<BitmapSize<'_>>(buf, scope),
        "SbitLineMetrics" => p.run::<SbitLineMetrics>(buf, ()),
        "BigGlyphMetrics" => p.run::<BigGlyphMetrics>(buf, ()),
        "ScriptRecord" => p.run::<ScriptRecord>(buf, scope),
        "FeatureRecord" => p.run::<FeatureRecord>(buf, scope),
        "LangSysRecord" => p.run::<LangSysRecord>(buf, scope),
        "ValueRecord" => p.run::<ValueRecord>(buf, (scope, vf(a[0]))),
        "PairValueRecord" => p.run::<PairValueRecord>(buf, (scope, vf(a[0]), vf(a[1]))),
        "Class2Record" => p.run::<Class2Record>(buf, (scope, vf(a[0]), vf(a[1]))),
        "Class1Record" => p.run::<Class1Record>(buf, (scope, us(a[0]), vf(a[1]), vf(a[2]))),
        _ => {
            let count = if a.is_empty() { 0 } else { us(a[0]) };
            assert!(with_private_dep_record(ty, scope, count, &mut p), "lib type {}", ty);
        }
    }
    p.out
}

fn parse_lib(parts: &[&str]) -> (String, Vec<u64>, usize, usize) {
    let a: Vec<u64> =
        if parts[3] == "-" || parts[3].is_empty() { vec![] } else { parts[3].split(',').map(|x| x.parse().expect("arg")).collect() };
    (parts[2].to_string(), a, parts[4].parse().expect("n"), parts[5].parse().expect("buflen"))
}

/// argument sweeps: the extremes of the argument type on purpose (u16: 0, 1, the thirds/halves/quarters of
/// 65536 where a narrow multiplication by a small constant wraps, 65535; value formats: all 256)
const U16_EDGES: &[u64] = &[
    0, 1, 2, 3, 4, 5, 7, 8, 16, 255, 256, 257, 4095, 4096, 8191, 8192, 10922, 10923, 13107, 13108, 16383, 16384, 21845,
    21846, 21847, 32767, 32768, 32769, 43690, 43691, 49152, 65534, 65535,
];
fn gen_u16(rng: &mut Rng) -> u64 {
    match rng.below(10) {
        0..=4 => *rng.pick(U16_EDGES),
        5 | 6 => rng.below(40),
        _ => rng.below(65536),
    }
}
pub fn gen_lib(rng: &mut Rng) -> String {
    let ty = *rng.pick(LIB_TYPES);
    let a: Vec<u64> = match ty {
        "AxisValue" => vec![1 + gen_u16(rng).min(65534)],
        "VariationRegion" | "BaseRecord" | "ComponentRecord" => vec![gen_u16(rng)],
        "ValueRecord" => vec![rng.below(256)],
        "PairValueRecord" | "Class2Record" => vec![rng.below(256), rng.below(256)],
        "Class1Record" => vec![gen_u16(rng), rng.below(256), rng.below(256)],
        _ => vec![],
    };
    let rs = lib_ref_size(ty, &a);
    // how many records fit the largest buffer; n: 0, 1, 2, few, exactly what fits
    let fit = if rs == 0 { 100_000 } else { LIB_BUF_MAX / rs };
    let n = match rng.below(8) {
        0 => 0,
        1 | 2 => 1,
        3 | 4 => 2,
        5 => 3 + rng.below(6),
        6 => 1 + rng.below(70),
        _ => 65535,
    }
    .min(if rs > 4096 { fit.min(3) } else { fit.min(2000) });
    let need = n * rs;
    let buflen = match rng.below(8) {
        0 if need > 0 => need - 1,
        1 if need > rs && rs > 0 => need - rs,
        2 => need + 1,
        3 => need + rs.min(64) + rng.below(5),
        _ => need,
    }
    .min(LIB_BUF_MAX);
    let args = if a.is_empty() { "-".to_string() } else { a.iter().map(|x| x.to_string()).collect::<Vec<_>>().join(",") };
    format!("{}|lib|{}|{}|{}|{}", build_mode(), ty, args, n, buflen)
}

pub fn case_line(mode: &str, buf: &[u8], ops: &[String]) -> String {
    format!("{}|{}|{}", mode, hex(buf), ops.join(" "))
}

fn main() {
    // input = M|BUFHEX|op op ...; the mode letter is replaced by this build's mode
    let run = |input: &str| -> String {
        let parts: Vec<&str> = input.split('|').collect();
        if parts[1] == "lib" {
            let (ty, a, n, buflen) = parse_lib(&parts);
            return run_lib(&ty, &a, n, buflen);
        }
        let buf = unhex(parts[1]);
        let ops: Vec<String> = parts[2].split(' ').filter(|s| !s.is_empty()).map(String::from).collect();
        run_program(&buf, &ops)
    };
    let mut gen = |rng: &mut Rng| -> String {
        // one case in eight drives the crate's own dependent records
        if rng.chance(1, 8) {
            return gen_lib(rng);
        }
        let (buf, ops) = gen_program(rng);
        case_line(build_mode(), &buf, &ops)
    };
    harness_main(&run, &mut gen);
}
