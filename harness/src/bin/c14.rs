//! C14 correspondence: random reader-operation programs executed on the real ReadScope /
//! ReadCtxt / ReadArray, printed in the same line format the OCaml model driver produces.
use avh::prng::{hex, unhex, Rng};
use avh::{build_mode, harness_main, panic_kind, perr};
use allsorts::binary::read::{ReadArray, ReadCtxt, ReadScope, ReadUnchecked};
use allsorts::binary::{I16Be, I32Be, I64Be, U16Be, U24Be, U32Be, U64Be, I8, U8};
use allsorts::error::ParseError;
use std::panic::{catch_unwind, AssertUnwindSafe};

pub trait ToVals {
    fn vals(&self, out: &mut Vec<i128>);
}
macro_rules! tovals_prim {
    ($($t:ty),*) => { $(impl ToVals for $t { fn vals(&self, out: &mut Vec<i128>) { out.push(*self as i128) } })* };
}
tovals_prim!(u8, i8, u16, i16, u32, i32, u64, i64);
impl<A: ToVals, B: ToVals> ToVals for (A, B) {
    fn vals(&self, out: &mut Vec<i128>) {
        self.0.vals(out);
        self.1.vals(out);
    }
}
impl<A: ToVals, B: ToVals, C: ToVals> ToVals for (A, B, C) {
    fn vals(&self, out: &mut Vec<i128>) {
        self.0.vals(out);
        self.1.vals(out);
        self.2.vals(out);
    }
}
impl<A: ToVals, B: ToVals, C: ToVals, D: ToVals> ToVals for (A, B, C, D) {
    fn vals(&self, out: &mut Vec<i128>) {
        self.0.vals(out);
        self.1.vals(out);
        self.2.vals(out);
        self.3.vals(out);
    }
}
fn v<T: ToVals>(t: &T) -> Vec<i128> {
    let mut o = vec![];
    t.vals(&mut o);
    o
}

type T2 = (U16Be, U16Be);
type T3 = (U8, U16Be, U32Be);
type T4 = (U8, I8, U8, U8);
type T2b = (I16Be, U24Be);
// members of different sizes in every position: a SIZE that counts a member twice or not at all shows
type T4b = (U8, U16Be, U8, U32Be);
type T3b = (U32Be, U8, U16Be);

macro_rules! types {
    ($m:ident) => {
        $m! {
            (A_U8, U8, "u8"), (A_I8, I8, "i8"), (A_U16, U16Be, "u16"), (A_I16, I16Be, "i16"),
            (A_U24, U24Be, "u24"), (A_U32, U32Be, "u32"), (A_I32, I32Be, "i32"),
            (A_U64, U64Be, "u64"), (A_I64, I64Be, "i64"),
            (A_T2, T2, "u16,u16"), (A_T3, T3, "u8,u16,u32"), (A_T4, T4, "u8,i8,u8,u8"),
            (A_T2B, T2b, "i16,u24"), (A_T4B, T4b, "u8,u16,u8,u32"), (A_T3B, T3b, "u32,u8,u16")
        }
    };
}

macro_rules! def_arr {
    ($(($v:ident, $t:ty, $s:expr)),*) => {
        #[allow(non_camel_case_types)]
        enum Arr<'a> { $($v(ReadArray<'a, $t>)),* }
        pub const TYPES: &[&str] = &[$($s),*];
        fn read_ty<'a>(ty: &str, c: &mut ReadCtxt<'a>) -> Result<Vec<i128>, ParseError> {
            match ty { $($s => c.read::<$t>().map(|x| v(&x)),)* _ => panic!("ty {}", ty) }
        }
        fn read_array<'a>(ty: &str, c: &mut ReadCtxt<'a>, n: usize) -> Result<Arr<'a>, ParseError> {
            match ty { $($s => c.read_array::<$t>(n).map(Arr::$v),)* _ => panic!("ty {}", ty) }
        }
        fn read_array_stride<'a>(ty: &str, c: &mut ReadCtxt<'a>, n: usize, st: usize) -> Result<Arr<'a>, ParseError> {
            match ty { $($s => c.read_array_stride::<$t>(n, st).map(Arr::$v),)* _ => panic!("ty {}", ty) }
        }
        fn read_array_upto<'a>(ty: &str, c: &mut ReadCtxt<'a>, n: usize) -> Result<Arr<'a>, ParseError> {
            match ty { $($s => c.read_array_upto_hack::<$t>(n).map(Arr::$v),)* _ => panic!("ty {}", ty) }
        }
        macro_rules! with_arr {
            ($arr:expr, $a:ident => $body:expr) => { match $arr { $(Arr::$v($a) => $body),* } };
        }
    };
}
types!(def_arr);

fn arr_get<T: ReadUnchecked>(a: &ReadArray<'_, T>, i: usize) -> Vec<i128>
where
    T::HostType: ToVals,
{
    match a.get_item(i) {
        None => vec![0],
        Some(x) => {
            let mut o = vec![1];
            x.vals(&mut o);
            o
        }
    }
}
fn arr_read_item<T: ReadUnchecked>(a: &ReadArray<'_, T>, i: usize) -> Result<Vec<i128>, ParseError>
where
    T::HostType: ToVals,
{
    a.read_item(i).map(|x| v(&x))
}
fn arr_last<T: ReadUnchecked>(a: &ReadArray<'_, T>) -> Vec<i128>
where
    T::HostType: ToVals,
{
    match a.last() {
        None => vec![0],
        Some(x) => {
            let mut o = vec![1];
            x.vals(&mut o);
            o
        }
    }
}
fn arr_to_vec<T: ReadUnchecked>(a: &ReadArray<'_, T>) -> Vec<i128>
where
    T::HostType: ToVals,
{
    let items: Vec<T::HostType> = a.iter().collect();
    let mut o = vec![];
    for x in &items {
        x.vals(&mut o);
    }
    if a.len() <= 4096 {
        // to_vec preallocates len items; only call it when that is harmless
        let tv = a.to_vec();
        let mut o2 = vec![];
        for x in &tv {
            x.vals(&mut o2);
        }
        assert!(o == o2, "to_vec differs from iter");
    }
    o
}
fn arr_size_hint<T: ReadUnchecked>(a: &ReadArray<'_, T>) -> Vec<i128> {
    let (lo, hi) = a.iter().size_hint();
    assert!(hi == Some(lo));
    vec![lo as i128]
}
fn arr_read_to_vec<T: ReadUnchecked>(a: &ReadArray<'_, T>) -> Result<Vec<i128>, ParseError>
where
    T::HostType: ToVals,
{
    let items: Result<Vec<T::HostType>, ParseError> = a.iter_res().collect();
    let items = items?;
    let mut o = vec![];
    for x in &items {
        x.vals(&mut o);
    }
    if a.len() <= 4096 {
        let tv = a.read_to_vec()?;
        let mut o2 = vec![];
        for x in &tv {
            x.vals(&mut o2);
        }
        assert!(o == o2, "read_to_vec differs from iter_res");
    }
    Ok(o)
}
fn arr_search<T: ReadUnchecked>(a: &ReadArray<'_, T>, key: i128) -> Vec<i128>
where
    T::HostType: ToVals,
{
    match a.binary_search_by(|x| v(&x)[0].cmp(&key)) {
        Ok(i) => vec![1, i as i128],
        Err(i) => vec![0, i as i128],
    }
}

struct St<'a> {
    scp: ReadScope<'a>,
    cur: ReadCtxt<'a>,
    arr: Arr<'a>,
}

fn fmt_vals(vs: &[i128]) -> String {
    vs.iter().map(|x| x.to_string()).collect::<Vec<_>>().join(",")
}

enum Out {
    Ok(Vec<i128>),
    Err(&'static str),
}

fn step<'a>(st: &mut St<'a>, op: &str) -> Out {
    let p: Vec<&str> = op.split(':').collect();
    let num = |s: &str| s.parse::<usize>().unwrap();
    let r = |x: Result<Vec<i128>, ParseError>| match x {
        Ok(v) => Out::Ok(v),
        Err(e) => Out::Err(perr(&e)),
    };
    match p[0] {
        "so" => {
            st.scp = st.scp.offset(num(p[1]));
            Out::Ok(vec![st.scp.data().len() as i128])
        }
        "sol" => match st.scp.offset_length(num(p[1]), num(p[2])) {
            Ok(s) => {
                st.scp = s;
                Out::Ok(vec![s.data().len() as i128])
            }
            Err(e) => Out::Err(perr(&e)),
        },
        "ctxt" => {
            st.cur = st.scp.ctxt();
            Out::Ok(vec![])
        }
        "cs" => {
            st.scp = st.cur.scope();
            Out::Ok(vec![st.scp.data().len() as i128])
        }
        "ba" => Out::Ok(vec![st.cur.bytes_available() as i128]),
        "r" => {
            let c = &mut st.cur;
            let x: Result<i128, ParseError> = match p[1] {
                "u8" => c.read_u8().map(|x| x as i128).map_err(ParseError::from),
                "i8" => c.read_i8().map(|x| x as i128).map_err(ParseError::from),
                "u16" => c.read_u16be().map(|x| x as i128).map_err(ParseError::from),
                "i16" => c.read_i16be().map(|x| x as i128).map_err(ParseError::from),
                "u24" => c.read::<U24Be>().map(|x| x as i128),
                "u32" => c.read_u32be().map(|x| x as i128).map_err(ParseError::from),
                "i32" => c.read_i32be().map(|x| x as i128).map_err(ParseError::from),
                "u64" => c.read_u64be().map(|x| x as i128).map_err(ParseError::from),
                "i64" => c.read_i64be().map(|x| x as i128).map_err(ParseError::from),
                _ => panic!("prim"),
            };
            r(x.map(|x| vec![x]))
        }
        "rt" => r(read_ty(p[1], &mut st.cur)),
        "rs" => match st.cur.read_scope(num(p[1])) {
            Ok(s) => {
                st.scp = s;
                Out::Ok(vec![s.data().len() as i128])
            }
            Err(_) => Out::Err("Eof"),
        },
        "sl" => match st.cur.read_slice(num(p[1])) {
            Ok(s) => Out::Ok(s.iter().map(|b| *b as i128).collect()),
            Err(_) => Out::Err("Eof"),
        },
        "nib" => match st.cur.read_until_nibble(num(p[1]) as u8) {
            Ok(s) => Out::Ok(s.iter().map(|b| *b as i128).collect()),
            Err(_) => Out::Err("Eof"),
        },
        "ra" => match read_array(p[1], &mut st.cur, num(p[2])) {
            Ok(a) => {
                let n = with_arr!(&a, x => x.len());
                st.arr = a;
                Out::Ok(vec![n as i128])
            }
            Err(e) => Out::Err(perr(&e)),
        },
        "ras" => match read_array_stride(p[1], &mut st.cur, num(p[2]), num(p[3])) {
            Ok(a) => {
                let n = with_arr!(&a, x => x.len());
                st.arr = a;
                Out::Ok(vec![n as i128])
            }
            Err(e) => Out::Err(perr(&e)),
        },
        "rau" => match read_array_upto(p[1], &mut st.cur, num(p[2])) {
            Ok(a) => {
                let n = with_arr!(&a, x => x.len());
                st.arr = a;
                Out::Ok(vec![n as i128])
            }
            Err(e) => Out::Err(perr(&e)),
        },
        "al" => Out::Ok(vec![with_arr!(&st.arr, x => x.len()) as i128]),
        "ag" => Out::Ok(with_arr!(&st.arr, x => arr_get(x, num(p[1])))),
        "ari" => r(with_arr!(&st.arr, x => arr_read_item(x, num(p[1])))),
        "alast" => Out::Ok(with_arr!(&st.arr, x => arr_last(x))),
        "avec" => Out::Ok(with_arr!(&st.arr, x => arr_to_vec(x))),
        "ahint" => Out::Ok(with_arr!(&st.arr, x => arr_size_hint(x))),
        "artv" => r(with_arr!(&st.arr, x => arr_read_to_vec(x))),
        "as" => Out::Ok(with_arr!(&st.arr, x => arr_search(x, p[1].parse::<i128>().unwrap()))),
        _ => panic!("op {}", op),
    }
}

/// run a program; returns the result string in the model driver's format
pub fn run_program(buf: &[u8], ops: &[String]) -> String {
    let scope = ReadScope::new(buf);
    let mut st = St { scp: scope, cur: scope.ctxt(), arr: Arr::A_U8(ReadArray::empty()) };
    let mut outs = vec![];
    for op in ops {
        // the reader has no partial effects: every failing call returns before mutating
        let before = st.cur.clone();
        let res = catch_unwind(AssertUnwindSafe(|| step(&mut st, op)));
        let s = match res {
            Ok(Out::Ok(vs)) => format!("ok:{}", fmt_vals(&vs)),
            Ok(Out::Err(e)) => format!("err:{}", e),
            Err(e) => {
                st.cur = before;
                panic_kind(&*e).to_string()
            }
        };
        // the cursor offset is observable as (whole scope length) - (remaining length)
        let off = cur_offset(&st.cur);
        outs.push(format!("{}@{}", s, off));
    }
    outs.join(";")
}

/// what is observable of the cursor: the number of bytes left in its scope (-1 if asking panics)
fn cur_offset(c: &ReadCtxt<'_>) -> i128 {
    match catch_unwind(AssertUnwindSafe(|| c.scope().data().len())) {
        Ok(n) => n as i128,
        Err(_) => -1,
    }
}

const BOUNDARY: &[u64] = &[
    0, 1, 2, 3, 4, 7, 8, 9, 15, 16, 17, 31, 32, 33, 63, 64, 65, 255, 256, 65535, 65536,
    (1 << 31) - 1, 1 << 31, (1 << 32) - 1, 1 << 32, (1 << 32) + 1, (1 << 62), (1 << 63) - 1, 1 << 63,
    (1 << 63) + 1, u64::MAX / 2, u64::MAX / 3, u64::MAX / 3 + 1, u64::MAX / 4 + 1, u64::MAX / 8 + 1,
    u64::MAX - 8, u64::MAX - 4, u64::MAX - 3, u64::MAX - 2, u64::MAX - 1, u64::MAX,
];

fn arg(rng: &mut Rng, len: usize) -> u64 {
    match rng.below(10) {
        0..=4 => rng.below(len as u64 + 3),
        5 => (len as u64).wrapping_add(rng.below(5)).wrapping_sub(2),
        6 | 7 => *rng.pick(BOUNDARY),
        8 => rng.below(12),
        _ => rng.next() >> rng.below(64),
    }
}

pub fn gen_program(rng: &mut Rng) -> (Vec<u8>, Vec<String>) {
    let len = match rng.below(10) {
        0 => 0,
        1 => rng.below(4) as usize,
        2..=7 => rng.below(40) as usize,
        8 => 40 + rng.below(60) as usize,
        _ => rng.below(300) as usize,
    };
    let sorted = rng.chance(1, 3);
    let mut buf = rng.bytes(len);
    if sorted {
        buf.sort();
    }
    if rng.chance(1, 8) {
        for b in buf.iter_mut() {
            *b = *rng.pick(&[0u8, 0xff, 0x80, 0x7f, 0x0f, 0xf0]);
        }
    }
    let nops = 1 + rng.below(24) as usize;
    let mut ops = vec![];
    for _ in 0..nops {
        let ty = *rng.pick(TYPES);
        let prim = *rng.pick(&["u8", "i8", "u16", "i16", "u24", "u32", "i32", "u64", "i64"]);
        let op = match rng.below(40) {
            0 => format!("so:{}", arg(rng, len)),
            1 | 2 => format!("sol:{}:{}", arg(rng, len), arg(rng, len)),
            3 | 4 => "ctxt".to_string(),
            5 => "cs".to_string(),
            6 => "ba".to_string(),
            7..=11 => format!("r:{}", prim),
            12..=14 => format!("rt:{}", ty),
            15 => format!("rs:{}", arg(rng, len)),
            16 => format!("sl:{}", arg(rng, len)),
            17 => format!("nib:{}", rng.below(17)),
            18..=20 => format!("ra:{}:{}", ty, arg(rng, len / 2)),
            21..=23 => format!("ras:{}:{}:{}", ty, arg(rng, len / 4), arg(rng, 8)),
            24 => format!("rau:{}:{}", ty, arg(rng, len)),
            25 => "al".to_string(),
            26..=28 => format!("ag:{}", arg(rng, 6)),
            29 | 30 => format!("ari:{}", arg(rng, 6)),
            31 => "alast".to_string(),
            32 | 33 => "avec".to_string(),
            34 => "ahint".to_string(),
            35 | 36 => "artv".to_string(),
            _ => format!("as:{}", rng.range(-3, 260)),
        };
        ops.push(op);
    }
    (buf, ops)
}

pub fn case_line(mode: &str, buf: &[u8], ops: &[String]) -> String {
    format!("{}|{}|{}", mode, hex(buf), ops.join(" "))
}

fn main() {
    // input = M|BUFHEX|op op ...; the mode letter is replaced by this build's mode
    let run = |input: &str| -> String {
        let parts: Vec<&str> = input.split('|').collect();
        let buf = unhex(parts[1]);
        let ops: Vec<String> = parts[2].split(' ').filter(|s| !s.is_empty()).map(String::from).collect();
        run_program(&buf, &ops)
    };
    let mut gen = |rng: &mut Rng| -> String {
        let (buf, ops) = gen_program(rng);
        case_line(build_mode(), &buf, &ops)
    };
    harness_main(&run, &mut gen);
}
