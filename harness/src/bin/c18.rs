//! C18 correspondence: Type 2 charstrings (generated as structured programs, encoded with random
//! operator forms / number encodings / hints / width / subroutine factorings, then sometimes
//! damaged) wrapped in a synthesised CFF (name-keyed or CID-keyed) or CFF2 table and interpreted by
//! the real `OutlineBuilder::visit`, with a recording `OutlineSink`.
//!
//! input = M|K|gid|gsubrs|fds|fdsel|glyphs|charset|var|offs[|seac]   (see ocaml/c18/drv.ml)
//!   offs: "-" or the raw offset array to use for the CharStrings INDEX (F2 reproduction)
//!   seac: optional; `sADX,ADY,BCHAR,ACHAR` = what glyph `gid` is by construction: the seac form of
//!         endchar with these operands, over components that are plain glyphs (used by the judge that
//!         is independent of the model's charset lookup)
//!   K = q: no outline; the charset of the (name-keyed) font is queried through the public
//!         `Charset::sid_to_gid` for the SIDs 0..=255 and `Charset::id_for_glyph` for every glyph
use allsorts::binary::read::ReadScope;
use allsorts::cff::cff2::CFF2;
use allsorts::cff::outline::CFF2Outlines;
use allsorts::cff::{CFFError, Charset, CFF};
use allsorts::outline::{OutlineBuilder, OutlineSink};
use allsorts::pathfinder_geometry::line_segment::LineSegment2F;
use allsorts::pathfinder_geometry::vector::Vector2F;
use allsorts::tables::variable_fonts::fvar::FvarTable;
use allsorts::tables::F2Dot14;
use avh::prng::{hex, unhex, Rng};
use avh::{build_mode, harness_main, panic_kind, perr};
use std::panic::{catch_unwind, AssertUnwindSafe};

// ------------------------------------------------------------------ case representation
type Item = (Vec<u8>, usize); // (charstring, copies)

#[derive(Clone)]
struct Var {
    axes: usize,
    tuple: Vec<i16>,
    regions: Vec<Vec<i16>>, // 3*axes values each
    ivds: Vec<Vec<u16>>,
    vsdefaults: Vec<i32>,
}

#[derive(Clone)]
struct Case {
    kind: char, // t c 2
    gid: usize,
    gsubrs: Vec<Item>,
    fds: Vec<Option<Vec<Item>>>,
    fdsel: Vec<u8>,
    glyphs: Vec<Item>,
    charset: String, // i | e | x | cSID,SID | r1:FIRST+NLEFT,... | r2:FIRST+NLEFT,...
    var: Option<Var>,
    offs: Option<Vec<u32>>,
    seac: Option<String>,
}

fn fmt_list(l: &[Item]) -> String {
    if l.is_empty() {
        return ".".to_string();
    }
    l.iter()
        .map(|(b, n)| if *n == 1 { hex(b) } else { format!("{}*{}", hex(b), n) })
        .collect::<Vec<_>>()
        .join(",")
}

fn parse_list(s: &str) -> Vec<Item> {
    if s == "." {
        return vec![];
    }
    s.split(',')
        .map(|it| match it.split_once('*') {
            Some((h, n)) => (unhex(h), n.parse().unwrap()),
            None => (unhex(it), 1),
        })
        .collect()
}

fn expand(l: &[Item]) -> Vec<Vec<u8>> {
    let mut out = vec![];
    for (b, n) in l {
        for _ in 0..*n {
            out.push(b.clone());
        }
    }
    out
}

fn ints<T: std::str::FromStr>(s: &str) -> Vec<T>
where
    T::Err: std::fmt::Debug,
{
    if s == "-" || s == "." || s.is_empty() {
        return vec![];
    }
    s.split(',').map(|x| x.parse().unwrap()).collect()
}

fn join<T: ToString>(v: &[T]) -> String {
    v.iter().map(|x| x.to_string()).collect::<Vec<_>>().join(",")
}

fn fmt_case(c: &Case) -> String {
    let fds = c
        .fds
        .iter()
        .map(|f| match f {
            None => "~".to_string(),
            Some(l) => fmt_list(l),
        })
        .collect::<Vec<_>>()
        .join("/");
    let var = match &c.var {
        None => "-".to_string(),
        Some(v) => format!(
            "{};{};{};{};{}",
            v.axes,
            join(&v.tuple),
            v.regions.iter().map(|r| join(r)).collect::<Vec<_>>().join("/"),
            v.ivds
                .iter()
                .map(|r| if r.is_empty() { ".".to_string() } else { join(r) })
                .collect::<Vec<_>>()
                .join("/"),
            join(&v.vsdefaults)
        ),
    };
    format!(
        "{}|{}|{}|{}|{}|{}|{}|{}|{}|{}{}",
        build_mode(),
        c.kind,
        c.gid,
        fmt_list(&c.gsubrs),
        fds,
        if c.fdsel.is_empty() { "-".to_string() } else { join(&c.fdsel) },
        fmt_list(&c.glyphs),
        c.charset,
        var,
        match &c.offs {
            None => "-".to_string(),
            Some(o) => join(o),
        },
        match &c.seac {
            None => String::new(),
            Some(s) => format!("|{}", s),
        }
    )
}

fn parse_case(s: &str) -> Case {
    let f: Vec<&str> = s.split('|').collect();
    assert!(f.len() == 10 || f.len() == 11, "c18 input needs 10 or 11 fields");
    let var = if f[8] == "-" {
        None
    } else {
        let p: Vec<&str> = f[8].split(';').collect();
        Some(Var {
            axes: p[0].parse().unwrap(),
            tuple: ints(p[1]),
            regions: if p[2].is_empty() { vec![] } else { p[2].split('/').map(ints).collect() },
            ivds: if p[3].is_empty() { vec![] } else { p[3].split('/').map(ints).collect() },
            vsdefaults: ints(p[4]),
        })
    };
    Case {
        kind: f[1].chars().next().unwrap(),
        gid: f[2].parse().unwrap(),
        gsubrs: parse_list(f[3]),
        fds: f[4].split('/').map(|x| if x == "~" { None } else { Some(parse_list(x)) }).collect(),
        fdsel: ints(f[5]),
        glyphs: parse_list(f[6]),
        charset: f[7].to_string(),
        var,
        offs: if f[9] == "-" { None } else { Some(ints(f[9])) },
        seac: f.get(10).map(|x| x.to_string()),
    }
}

/// custom charset in range form: (format, [(first, nLeft)])
fn parse_ranges(cs: &str) -> Option<(u8, Vec<(u16, u16)>)> {
    let fmt = if cs.starts_with("r1:") {
        1
    } else if cs.starts_with("r2:") {
        2
    } else {
        return None;
    };
    let body = &cs[3..];
    let ranges = if body.is_empty() {
        vec![]
    } else {
        body.split(',')
            .map(|r| {
                let (f, n) = r.split_once('+').expect("range FIRST+NLEFT");
                (f.parse().unwrap(), n.parse().unwrap())
            })
            .collect()
    };
    Some((fmt, ranges))
}

fn fmt_ranges(fmt: u8, ranges: &[(u16, u16)]) -> String {
    format!("r{}:{}", fmt, ranges.iter().map(|(f, n)| format!("{}+{}", f, n)).collect::<Vec<_>>().join(","))
}

// ------------------------------------------------------------------ table synthesis
fn be(v: u32, n: usize) -> Vec<u8> {
    (0..n).rev().map(|i| (v >> (8 * i)) as u8).collect()
}

fn off_size(max: u32) -> usize {
    if max < 0x100 {
        1
    } else if max < 0x10000 {
        2
    } else if max < 0x1000000 {
        3
    } else {
        4
    }
}

/// INDEX with a 16-bit (CFF) or 32-bit (CFF2) count; `raw` replaces the offset array
fn index(items: &[Vec<u8>], wide: bool, raw: Option<&[u32]>) -> Vec<u8> {
    let mut out = if wide { be(items.len() as u32, 4) } else { be(items.len() as u32, 2) };
    if items.is_empty() {
        return out;
    }
    let mut offs = vec![1u32];
    for it in items {
        offs.push(offs.last().unwrap() + it.len() as u32);
    }
    let offs: Vec<u32> = match raw {
        Some(r) => r.to_vec(),
        None => offs,
    };
    let os = off_size(*offs.iter().max().unwrap());
    out.push(os as u8);
    for o in &offs {
        out.extend(be(*o, os));
    }
    for it in items {
        out.extend(it);
    }
    out
}

/// DICT integer operand in the fixed-width 5-byte form
fn dint(v: i32) -> Vec<u8> {
    let mut o = vec![29];
    o.extend(be(v as u32, 4));
    o
}

fn dict(entries: &[(Vec<u8>, Vec<i32>)]) -> Vec<u8> {
    let mut o = vec![];
    for (op, args) in entries {
        for a in args {
            o.extend(dint(*a));
        }
        o.extend(op);
    }
    o
}

fn fdselect(sel: &[u8], n_glyphs: usize, fmt3: bool) -> Vec<u8> {
    let mut s: Vec<u8> = sel.to_vec();
    s.resize(n_glyphs, 0);
    if !fmt3 || s.is_empty() {
        let mut o = vec![0u8];
        o.extend(&s);
        return o;
    }
    let mut ranges: Vec<(u16, u8)> = vec![];
    for (i, fd) in s.iter().enumerate() {
        if ranges.last().map(|r| r.1) != Some(*fd) {
            ranges.push((i as u16, *fd));
        }
    }
    let mut o = vec![3u8];
    o.extend(be(ranges.len() as u32, 2));
    for (first, fd) in ranges {
        o.extend(be(first as u32, 2));
        o.push(fd);
    }
    o.extend(be(n_glyphs as u32, 2));
    o
}

/// Private DICT (+ local Subr INDEX right after it); returns (bytes, private dict length)
fn private_with_subrs(subrs: &Option<Vec<Item>>, wide: bool, vsindex: Option<i32>) -> (Vec<u8>, usize) {
    let mut entries: Vec<(Vec<u8>, Vec<i32>)> = vec![];
    if let Some(v) = vsindex {
        entries.push((vec![22], vec![v]));
    }
    match subrs {
        None => {
            let d = dict(&entries);
            let n = d.len();
            (d, n)
        }
        Some(l) => {
            entries.push((vec![19], vec![0]));
            let n = dict(&entries).len();
            entries.last_mut().unwrap().1 = vec![n as i32];
            let mut d = dict(&entries);
            d.extend(index(&expand(l), wide, None));
            (d, n)
        }
    }
}

fn build_cff(c: &Case) -> Vec<u8> {
    let glyphs = expand(&c.glyphs);
    let cid = c.kind == 'c';
    let charstrings = index(&glyphs, false, c.offs.as_deref());
    let charset_data: Option<Vec<u8>> = if c.charset.starts_with('c') {
        let sids: Vec<u16> = ints(&c.charset[1..]);
        let mut o = vec![0u8];
        for s in sids {
            o.extend(be(s as u32, 2));
        }
        Some(o)
    } else if let Some((fmt, ranges)) = parse_ranges(&c.charset) {
        let mut o = vec![fmt];
        for (first, n_left) in ranges {
            o.extend(be(first as u32, 2));
            o.extend(be(n_left as u32, if fmt == 1 { 1 } else { 2 }));
        }
        Some(o)
    } else {
        None
    };
    let privs: Vec<(Vec<u8>, usize)> = c.fds.iter().map(|f| private_with_subrs(f, false, None)).collect();
    let fmt3 = c.fdsel.len() % 2 == 1;
    let fdsel = fdselect(&c.fdsel, glyphs.len(), fmt3);

    // two passes: all DICT integers have a fixed width, so sizes do not depend on the offsets
    let mut offsets = (0i32, 0i32, 0i32, 0i32, vec![0i32; privs.len()]); // charstrings, charset, fdarray, fdselect, privates
    let mut out = vec![];
    for _pass in 0..2 {
        let mut top: Vec<(Vec<u8>, Vec<i32>)> = vec![];
        if cid {
            top.push((vec![12, 30], vec![0, 0, 0]));
        }
        let cs_off = if c.charset == "i" {
            0
        } else if c.charset == "e" {
            1
        } else if c.charset == "x" {
            2
        } else {
            offsets.1
        };
        top.push((vec![15], vec![cs_off]));
        top.push((vec![17], vec![offsets.0]));
        if cid {
            top.push((vec![12, 36], vec![offsets.2]));
            top.push((vec![12, 37], vec![offsets.3]));
        } else {
            top.push((vec![18], vec![privs[0].1 as i32, offsets.4[0]]));
        }
        out = vec![1, 0, 4, 4];
        out.extend(index(&[b"T".to_vec()], false, None));
        out.extend(index(&[dict(&top)], false, None));
        out.extend(index(&[], false, None));
        out.extend(index(&expand(&c.gsubrs), false, None));
        offsets.0 = out.len() as i32;
        out.extend(&charstrings);
        offsets.1 = out.len() as i32;
        if let Some(d) = &charset_data {
            out.extend(d);
        }
        for (i, (p, _)) in privs.iter().enumerate() {
            offsets.4[i] = out.len() as i32;
            out.extend(p);
        }
        if cid {
            offsets.3 = out.len() as i32;
            out.extend(&fdsel);
            offsets.2 = out.len() as i32;
            let fdicts: Vec<Vec<u8>> = privs
                .iter()
                .enumerate()
                .map(|(i, (_, n))| dict(&[(vec![18], vec![*n as i32, offsets.4[i]])]))
                .collect();
            out.extend(index(&fdicts, false, None));
        }
    }
    out
}

fn build_vstore(v: &Var) -> Vec<u8> {
    // ItemVariationStore: format, regionListOffset u32, ivdCount u16, ivdOffsets u32[]
    let hdr = 2 + 4 + 2 + 4 * v.ivds.len();
    let mut regions = be(v.axes as u32, 2);
    regions.extend(be(v.regions.len() as u32, 2));
    for r in &v.regions {
        for x in r {
            regions.extend(be(*x as u16 as u32, 2));
        }
    }
    let mut ivs = be(1, 2);
    ivs.extend(be(hdr as u32, 4));
    ivs.extend(be(v.ivds.len() as u32, 2));
    let mut pos = hdr + regions.len();
    let mut ivd_bytes = vec![];
    for d in &v.ivds {
        ivs.extend(be(pos as u32, 4));
        let mut b = be(0, 2); // itemCount
        b.extend(be(0, 2)); // wordDeltaCount
        b.extend(be(d.len() as u32, 2));
        for i in d {
            b.extend(be(*i as u32, 2));
        }
        pos += b.len();
        ivd_bytes.extend(b);
    }
    ivs.extend(regions);
    ivs.extend(ivd_bytes);
    let mut out = be(ivs.len() as u32, 2);
    out.extend(ivs);
    out
}

fn build_cff2(c: &Case) -> Vec<u8> {
    let glyphs = expand(&c.glyphs);
    let charstrings = index(&glyphs, true, c.offs.as_deref());
    let privs: Vec<(Vec<u8>, usize)> = c
        .fds
        .iter()
        .enumerate()
        .map(|(i, f)| {
            let vs = c.var.as_ref().and_then(|v| v.vsdefaults.get(i).copied()).filter(|v| *v != 0);
            private_with_subrs(f, true, vs)
        })
        .collect();
    let multi = c.fds.len() > 1;
    let fdsel = fdselect(&c.fdsel, glyphs.len(), c.fdsel.len() % 2 == 1);
    let vstore = c.var.as_ref().map(build_vstore);
    let mut offsets = (0i32, 0i32, 0i32, 0i32, vec![0i32; privs.len()]); // charstrings, fdarray, fdselect, vstore
    let mut out = vec![];
    for _pass in 0..2 {
        let mut top: Vec<(Vec<u8>, Vec<i32>)> = vec![];
        top.push((vec![17], vec![offsets.0]));
        top.push((vec![12, 36], vec![offsets.1]));
        if multi {
            top.push((vec![12, 37], vec![offsets.2]));
        }
        if vstore.is_some() {
            top.push((vec![24], vec![offsets.3]));
        }
        let td = dict(&top);
        out = vec![2, 0, 5];
        out.extend(be(td.len() as u32, 2));
        out.extend(td);
        out.extend(index(&expand(&c.gsubrs), true, None));
        offsets.0 = out.len() as i32;
        out.extend(&charstrings);
        for (i, (p, _)) in privs.iter().enumerate() {
            offsets.4[i] = out.len() as i32;
            out.extend(p);
        }
        offsets.2 = out.len() as i32;
        if multi {
            out.extend(&fdsel);
        }
        offsets.3 = out.len() as i32;
        if let Some(v) = &vstore {
            out.extend(v);
        }
        offsets.1 = out.len() as i32;
        let fdicts: Vec<Vec<u8>> = privs
            .iter()
            .enumerate()
            .map(|(i, (_, n))| dict(&[(vec![18], vec![*n as i32, offsets.4[i]])]))
            .collect();
        out.extend(index(&fdicts, true, None));
    }
    out
}

fn build_fvar(axes: usize) -> Vec<u8> {
    let mut o = be(1, 2);
    o.extend(be(0, 2));
    o.extend(be(16, 2));
    o.extend(be(2, 2));
    o.extend(be(axes as u32, 2));
    o.extend(be(20, 2));
    o.extend(be(0, 2));
    o.extend(be((4 * axes + 4) as u32, 2));
    for i in 0..axes {
        o.extend(be(0x77676874 + i as u32, 4)); // tag
        o.extend(be(0, 4)); // min
        o.extend(be(0x10000, 4)); // default
        o.extend(be(0x20000, 4)); // max
        o.extend(be(0, 2));
        o.extend(be(256, 2));
    }
    o
}

// ------------------------------------------------------------------ running the implementation
struct Rec(Vec<String>);

fn num(v: f32) -> String {
    if v.fract() == 0.0 && v.abs() < 1e15 {
        format!("{}", v as i64)
    } else {
        format!("{:?}", v)
    }
}

impl OutlineSink for Rec {
    fn move_to(&mut self, to: Vector2F) {
        self.0.push(format!("M {} {}", num(to.x()), num(to.y())));
    }
    fn line_to(&mut self, to: Vector2F) {
        self.0.push(format!("L {} {}", num(to.x()), num(to.y())));
    }
    fn quadratic_curve_to(&mut self, ctrl: Vector2F, to: Vector2F) {
        self.0.push(format!("Q {} {} {} {}", num(ctrl.x()), num(ctrl.y()), num(to.x()), num(to.y())));
    }
    fn cubic_curve_to(&mut self, ctrl: LineSegment2F, to: Vector2F) {
        self.0.push(format!(
            "C {} {} {} {} {} {}",
            num(ctrl.from().x()),
            num(ctrl.from().y()),
            num(ctrl.to().x()),
            num(ctrl.to().y()),
            num(to.x()),
            num(to.y())
        ));
    }
    fn close(&mut self) {
        self.0.push("Z".to_string());
    }
}

fn cff_err(e: &CFFError) -> String {
    match e {
        CFFError::ParseError(p) => format!("Parse{}", perr(p)),
        other => format!("{:?}", other),
    }
}

fn finish(res: Result<(), CFFError>, rec: Rec) -> String {
    match res {
        Ok(()) => format!("ok:{}", rec.0.join(";")),
        Err(CFFError::BboxOverflow) => format!("bbox:{}", rec.0.join(";")),
        Err(e) => format!("err:{}", cff_err(&e)),
    }
}

fn run_case(c: &Case) -> String {
    if c.kind == '2' {
        let bytes = build_cff2(c);
        let table = match ReadScope::new(&bytes).read::<CFF2<'_>>() {
            Ok(t) => t,
            Err(e) => return format!("err:READ-{}", perr(&e)),
        };
        let fvar_bytes;
        let tuple = match &c.var {
            None => None,
            Some(v) => {
                fvar_bytes = build_fvar(v.axes);
                let fvar = ReadScope::new(&fvar_bytes).read::<FvarTable<'_>>().expect("fvar");
                let vals: Vec<F2Dot14> = v.tuple.iter().map(|x| F2Dot14::from_raw(*x)).collect();
                Some(fvar.owned_tuple(&vals).expect("tuple"))
            }
        };
        let mut rec = Rec(vec![]);
        let mut outlines = CFF2Outlines { table: &table, tuple: tuple.as_ref() };
        let res = outlines.visit(c.gid as u16, &mut rec);
        finish(res, rec)
    } else if c.kind == 'q' {
        let bytes = build_cff(c);
        let table = match ReadScope::new(&bytes).read::<CFF<'_>>() {
            Ok(t) => t,
            Err(e) => return format!("err:READ-{}", perr(&e)),
        };
        let charset: &Charset<'_> = &table.fonts[0].charset;
        let opt = |v: Option<u16>| v.map(|g| g.to_string()).unwrap_or_else(|| "-".to_string());
        let gids: Vec<String> = (0..=255u16).map(|sid| opt(charset.sid_to_gid(sid))).collect();
        let n = expand(&c.glyphs).len();
        let ids: Vec<String> = (0..=n.min(65535) as u16).map(|g| opt(charset.id_for_glyph(g))).collect();
        format!("q:{}/{}", gids.join(","), ids.join(","))
    } else {
        let bytes = build_cff(c);
        let mut table = match ReadScope::new(&bytes).read::<CFF<'_>>() {
            Ok(t) => t,
            Err(e) => return format!("err:READ-{}", perr(&e)),
        };
        let mut rec = Rec(vec![]);
        let res = table.visit(c.gid as u16, &mut rec);
        finish(res, rec)
    }
}

pub fn run(input: &str) -> String {
    let c = parse_case(input);
    match catch_unwind(AssertUnwindSafe(|| run_case(&c))) {
        Ok(s) => s,
        Err(e) => panic_kind(&*e).to_string(),
    }
}

// ------------------------------------------------------------------ generation
/// one token of a charstring: a number, an operator (with its mask bytes) -- never split
type Tok = Vec<u8>;

fn enc_int(rng: &mut Rng, v: i32) -> Tok {
    let mut forms: Vec<u8> = vec![];
    if (-107..=107).contains(&v) {
        forms.push(1);
        forms.push(1);
        forms.push(1);
    }
    if (108..=1131).contains(&v) || (-1131..=-108).contains(&v) {
        forms.push(2);
        forms.push(2);
        forms.push(2);
    }
    if (-32768..=32767).contains(&v) {
        forms.push(3);
        forms.push(4);
    }
    match *rng.pick(&forms) {
        1 => vec![(v + 139) as u8],
        2 => {
            if v > 0 {
                let w = v - 108;
                vec![(w / 256 + 247) as u8, (w % 256) as u8]
            } else {
                let w = -v - 108;
                vec![(w / 256 + 251) as u8, (w % 256) as u8]
            }
        }
        3 => {
            let mut o = vec![28];
            o.extend(be(v as i16 as u16 as u32, 2));
            o
        }
        _ => {
            let mut o = vec![255];
            o.extend(be((v << 16) as u32, 4));
            o
        }
    }
}

fn enc_fixed(raw: i32) -> Tok {
    let mut o = vec![255];
    o.extend(be(raw as u32, 4));
    o
}

struct Gen<'a> {
    rng: &'a mut Rng,
    cff2: bool,
    frac: bool, // fractional 16.16 operands allowed
    big: bool,  // large coordinates
    toks: Vec<Tok>,
    stems: usize,
}

impl<'a> Gen<'a> {
    fn val(&mut self) -> i32 {
        let r = self.rng.below(100);
        if self.big && r < 30 {
            self.rng.range(-32768, 32767) as i32
        } else if r < 8 {
            *self.rng.pick(&[-1131, -1132, -108, -107, 107, 108, 1131, 1132, 0, 0])
        } else if r < 30 {
            self.rng.range(-1200, 1200) as i32
        } else {
            self.rng.range(-120, 120) as i32
        }
    }
    fn num(&mut self) {
        if self.frac && self.rng.chance(1, 3) {
            let raw = self.rng.range(-(200 << 16), 200 << 16) as i32;
            self.toks.push(enc_fixed(raw));
        } else {
            let v = self.val();
            let t = enc_int(self.rng, v);
            self.toks.push(t);
        }
    }
    fn nums(&mut self, n: usize) {
        for _ in 0..n {
            self.num();
        }
    }
    fn op(&mut self, o: u8) {
        self.toks.push(vec![o]);
    }
    fn op2(&mut self, o: u8) {
        self.toks.push(vec![12, o]);
    }
    fn mask(&mut self, o: u8) {
        let n = (self.stems + 7) / 8;
        let mut t = vec![o];
        t.extend(self.rng.bytes(n));
        self.toks.push(t);
    }
    fn maxargs(&self) -> usize {
        if self.cff2 && self.big {
            200
        } else {
            48
        }
    }

    /// hints section; `width` = an extra leading operand on the first stack-clearing operator
    fn hints(&mut self, width: &mut bool) {
        let hm = self.rng.chance(1, 2);
        if self.rng.chance(2, 3) {
            if *width {
                self.num();
                *width = false;
            }
            let k = 1 + self.rng.below(4) as usize;
            self.nums(2 * k);
            self.stems += k;
            self.op(if hm { 18 } else { 1 });
        }
        if self.rng.chance(1, 2) {
            if *width {
                self.num();
                *width = false;
            }
            let k = 1 + self.rng.below(if self.stems > 4 { 12 } else { 3 }) as usize;
            self.nums(2 * k);
            self.stems += k;
            if hm && self.rng.chance(1, 2) {
                // implicit vstem: the operands are followed directly by hintmask
                let o = if self.rng.chance(3, 4) { 19 } else { 20 };
                self.mask(o);
            } else {
                self.op(if hm { 23 } else { 3 });
            }
        }
        if hm && self.stems > 0 && self.rng.chance(1, 2) {
            if *width {
                self.num();
                *width = false;
            }
            let o = if self.rng.chance(1, 2) { 19 } else { 20 };
            self.mask(o);
        }
    }

    fn segment(&mut self) {
        let m = self.maxargs();
        let k = |g: &mut Gen, per: usize, fixed: usize| -> usize {
            let maxk = ((m - fixed) / per).max(1);
            let r = g.rng.below(20);
            if r == 0 {
                maxk
            } else {
                1 + g.rng.below(maxk.min(4) as u64) as usize
            }
        };
        match self.rng.below(15) {
            0 => {
                let n = k(self, 2, 0);
                self.nums(2 * n);
                self.op(5);
            }
            1 | 2 => {
                let n = 1 + self.rng.below(7) as usize;
                self.nums(n);
                let o = if self.rng.chance(1, 2) { 6 } else { 7 };
                self.op(o);
            }
            3 => {
                let n = k(self, 6, 0);
                self.nums(6 * n);
                self.op(8);
            }
            4 | 5 => {
                let n = k(self, 4, 1);
                let odd = self.rng.chance(1, 2) as usize;
                self.nums(4 * n + odd);
                let o = if self.rng.chance(1, 2) { 27 } else { 26 };
                self.op(o);
            }
            6 | 7 | 8 => {
                let n = k(self, 4, 1);
                let odd = self.rng.chance(1, 2) as usize;
                self.nums(4 * n + odd);
                let o = if self.rng.chance(1, 2) { 31 } else { 30 };
                self.op(o);
            }
            9 => {
                let n = k(self, 6, 2);
                self.nums(6 * n + 2);
                self.op(24);
            }
            10 => {
                let n = k(self, 2, 6);
                self.nums(2 * n + 6);
                self.op(25);
            }
            11 => {
                self.nums(13);
                self.op2(35);
            }
            12 => {
                self.nums(7);
                self.op2(34);
            }
            13 => {
                self.nums(9);
                self.op2(36);
            }
            _ => {
                self.nums(11);
                self.op2(37);
            }
        }
    }

    fn path(&mut self, mut width: bool) {
        if self.rng.chance(2, 5) {
            self.hints(&mut width);
        }
        let contours = match self.rng.below(10) {
            0 => 0,
            1..=5 => 1,
            6..=8 => 2,
            _ => 3 + self.rng.below(3),
        };
        for _ in 0..contours {
            if width {
                self.num();
                width = false;
            }
            match self.rng.below(3) {
                0 => {
                    self.nums(2);
                    self.op(21);
                }
                1 => {
                    self.nums(1);
                    self.op(22);
                }
                _ => {
                    self.nums(1);
                    self.op(4);
                }
            }
            let segs = self.rng.below(5);
            for _ in 0..segs {
                self.segment();
                if self.stems > 0 && self.rng.chance(1, 8) {
                    self.mask(19);
                }
            }
        }
        if !self.cff2 {
            if width {
                self.num();
            }
            self.op(14);
        }
    }
}

/// subroutine pools with fixed sizes (so that the bias is known while factoring)
struct Pools {
    cff2: bool,
    g: Vec<Option<Vec<u8>>>,
    l: Option<Vec<Option<Vec<u8>>>>,
}

fn bias(n: usize) -> i32 {
    if n < 1240 {
        107
    } else if n < 33900 {
        1131
    } else {
        32768
    }
}

fn free_slot(rng: &mut Rng, pool: &[Option<Vec<u8>>]) -> Option<usize> {
    let n = pool.len();
    if n == 0 {
        return None;
    }
    // prefer the ends of the pool (bias boundaries), then anything free
    let mut cands = vec![0, n - 1, n / 2, rng.below(n as u64) as usize, rng.below(n as u64) as usize];
    if rng.chance(1, 2) {
        cands.reverse();
    }
    cands.into_iter().find(|i| pool[*i].is_none())
}

/// move random token runs into subroutines, recursively; returns the charstring bytes
fn factor(rng: &mut Rng, toks: &[Tok], pools: &mut Pools, depth: usize, want: usize) -> Vec<u8> {
    let mut out = vec![];
    let mut i = 0;
    while i < toks.len() {
        let go_deeper = depth < want && toks.len() - i >= 1 && rng.chance(if depth == 0 { 1 } else { 2 }, 3);
        if go_deeper {
            let len = 1 + rng.below((toks.len() - i).min(12) as u64) as usize;
            let use_local = pools.l.is_some() && rng.chance(1, 2);
            let slot = if use_local {
                free_slot(rng, pools.l.as_ref().unwrap())
            } else {
                free_slot(rng, &pools.g)
            };
            if let Some(slot) = slot {
                // reserve, then fill
                if use_local {
                    pools.l.as_mut().unwrap()[slot] = Some(vec![]);
                } else {
                    pools.g[slot] = Some(vec![]);
                }
                let mut body = factor(rng, &toks[i..i + len], pools, depth + 1, want);
                if !pools.cff2 && !rng.chance(1, 8) && body.last() != Some(&14) {
                    body.push(11);
                }
                let n = if use_local { pools.l.as_ref().unwrap().len() } else { pools.g.len() };
                if use_local {
                    pools.l.as_mut().unwrap()[slot] = Some(body);
                } else {
                    pools.g[slot] = Some(body);
                }
                out.extend(enc_int(rng, slot as i32 - bias(n)));
                out.push(if use_local { 10 } else { 29 });
                i += len;
                continue;
            }
        }
        out.extend(&toks[i]);
        i += 1;
    }
    out
}

fn pool_items(pool: &[Option<Vec<u8>>], filler: &[u8]) -> Vec<Item> {
    // run-length compress the filler entries
    let mut out: Vec<Item> = vec![];
    for p in pool {
        let b = p.clone().unwrap_or_else(|| filler.to_vec());
        match out.last_mut() {
            Some((lb, n)) if *lb == b => *n += 1,
            _ => out.push((b, 1)),
        }
    }
    out
}

fn pool_size(rng: &mut Rng) -> usize {
    match rng.below(400) {
        0 => 1239,
        1 => 1240,
        2 => 33899,
        3 => 33900,
        4 => 1241,
        5..=60 => 0,
        _ => 1 + rng.below(6) as usize,
    }
}

fn damage(rng: &mut Rng, cs: &mut Vec<u8>) {
    match rng.below(9) {
        0 if !cs.is_empty() => {
            let i = rng.below(cs.len() as u64) as usize;
            cs[i] = rng.next() as u8;
        }
        1 if !cs.is_empty() => {
            let n = rng.below(cs.len() as u64) as usize;
            cs.truncate(n);
        }
        2 => {
            let i = rng.below(cs.len() as u64 + 1) as usize;
            cs.insert(i, *rng.pick(&[0u8, 2, 9, 13, 17, 12, 14, 11, 10, 29, 15, 16, 19, 255, 28, 139]));
        }
        3 if !cs.is_empty() => {
            let i = rng.below(cs.len() as u64) as usize;
            cs.remove(i);
        }
        4 => {
            cs.push(rng.next() as u8);
        }
        5 => {
            // too many operands
            let n = 40 + rng.below(20) as usize;
            let mut pre = vec![];
            for _ in 0..n {
                pre.push(140u8);
            }
            pre.extend(cs.iter());
            *cs = pre;
        }
        6 if cs.last() == Some(&14) => {
            cs.pop();
        }
        7 => {
            let i = rng.below(cs.len() as u64 + 1) as usize;
            cs.insert(i, 139 + rng.below(5) as u8);
        }
        _ => {
            if !cs.is_empty() {
                let i = rng.below(cs.len() as u64) as usize;
                cs[i] ^= 1 << rng.below(8);
            }
        }
    }
}

fn gen_var(rng: &mut Rng, n_fds: usize) -> Var {
    let axes = 1 + rng.below(2) as usize;
    let spans: [i16; 4] = [16384, 8192, 4096, 2048];
    let n_regions = 1 + rng.below(4) as usize;
    let mut regions = vec![];
    for _ in 0..n_regions {
        let mut r = vec![];
        for _ in 0..axes {
            match rng.below(5) {
                0 => r.extend([0i16, 0, 0]), // axis ignored
                1 | 2 => {
                    let span = *rng.pick(&spans);
                    r.extend([16384 - span, 16384, 16384]);
                }
                3 => {
                    let span = *rng.pick(&spans);
                    r.extend([-16384, -16384, -16384 + span]);
                }
                _ => {
                    let span = *rng.pick(&spans[1..]);
                    r.extend([8192 - span, 8192, 8192 + span]);
                }
            }
        }
        regions.push(r);
    }
    let tuple: Vec<i16> = (0..axes)
        .map(|_| match rng.below(6) {
            0 => 0,
            1 => 16384,
            2 => -16384,
            3 => 8192,
            _ => (rng.range(-64, 64) * 256) as i16,
        })
        .collect();
    let n_ivd = 1 + rng.below(3) as usize;
    let ivds: Vec<Vec<u16>> = (0..n_ivd)
        .map(|_| {
            // k = 0: an ItemVariationData that lists no regions (blend then takes n operands and
            // leaves the n defaults)
            let k = if rng.chance(1, 6) { 0 } else { 1 + rng.below(3) as usize };
            (0..k).map(|_| rng.below(n_regions as u64) as u16).collect()
        })
        .collect();
    let vsdefaults = (0..n_fds).map(|_| if rng.chance(2, 3) { 0 } else { rng.below(n_ivd as u64) as i32 }).collect();
    Var { axes, tuple, regions, ivds, vsdefaults }
}

/// CFF2 token stream with blends: every operand group may be given as `defaults deltas n blend`
fn blendify(rng: &mut Rng, toks: Vec<Tok>, k: usize) -> Vec<Tok> {
    let mut out = vec![];
    let mut run: Vec<Tok> = vec![];
    let is_num = |t: &Tok| t[0] >= 32 || t[0] == 28;
    for t in toks {
        if is_num(&t) {
            run.push(t);
            continue;
        }
        // operator: flush the operand run, possibly blending a suffix of it
        if !run.is_empty() && rng.chance(1, 2) {
            let n = 1 + rng.below(run.len().min(4) as u64) as usize;
            if run.len() + n * k + 1 <= 500 {
                let split = run.len() - n;
                out.extend(run.drain(..split));
                out.extend(run.drain(..));
                for _ in 0..n * k {
                    let d = rng.range(-40, 40) as i32;
                    out.push(enc_int(rng, d));
                }
                out.push(enc_int(rng, n as i32));
                out.push(vec![16]);
            }
        }
        out.extend(run.drain(..));
        out.push(t);
    }
    out.extend(run);
    out
}

fn gen_case(rng: &mut Rng) -> Case {
    let kind = match rng.below(20) {
        0..=10 => 't',
        11..=14 => 'c',
        _ => '2',
    };
    let cff2 = kind == '2';
    let frac = rng.chance(1, 8);
    let big = rng.chance(1, 12);
    let n_fds = if kind == 't' { 1 } else { 1 + rng.below(3) as usize };
    let n_glyphs = 1 + rng.below(4) as usize;
    let gid = rng.below(n_glyphs as u64) as usize;
    let fdsel: Vec<u8> = if kind == 't' || (cff2 && n_fds == 1) {
        vec![]
    } else {
        (0..n_glyphs).map(|_| rng.below(n_fds as u64) as u8).collect()
    };
    let my_fd = if fdsel.is_empty() { 0 } else { fdsel[gid] as usize };
    let var = if cff2 && rng.chance(2, 3) { Some(gen_var(rng, n_fds)) } else { None };

    // the glyph under test
    let mut g = Gen { rng, cff2, frac, big, toks: vec![], stems: 0 };
    let width = !cff2 && g.rng.chance(1, 2);
    g.path(width);
    let mut toks = std::mem::take(&mut g.toks);
    if let Some(v) = &var {
        // which ItemVariationData the blends use
        let explicit = rng.chance(1, 3);
        let vs = if explicit { rng.below(v.ivds.len() as u64) as usize } else { v.vsdefaults[my_fd] as usize };
        let k = v.ivds[vs].len();
        toks = blendify(rng, toks, k);
        if explicit {
            let mut pre = vec![enc_int(rng, vs as i32), vec![15]];
            pre.extend(toks);
            toks = pre;
        }
    }

    let gsize = pool_size(rng);
    let lsize = pool_size(rng);
    let mut pools = Pools {
        cff2,
        g: vec![None; gsize],
        l: if lsize == 0 && rng.chance(1, 2) { None } else { Some(vec![None; lsize]) },
    };
    let want = match rng.below(40) {
        0 => 10,
        1 => 11,
        2 => 9,
        3..=14 => 0,
        _ => 1 + rng.below(3) as usize,
    };
    let mut cs = if want >= 9 {
        // a chain of nested calls of exactly `want` levels around the whole program
        let mut body = toks.concat();
        for _ in 0..want {
            let use_local = pools.l.as_ref().map(|l| !l.is_empty()).unwrap_or(false) && rng.chance(1, 2);
            let pool: &mut Vec<Option<Vec<u8>>> = if use_local { pools.l.as_mut().unwrap() } else { &mut pools.g };
            if pool.is_empty() {
                pool.push(None);
            }
            let slot = match free_slot(rng, pool) {
                Some(s) => s,
                None => {
                    pool.push(None);
                    pool.len() - 1
                }
            };
            pool[slot] = Some(body);
            let n = pool.len();
            let _ = n;
            body = vec![];
            // the bias is computed once the pool sizes are final: remember (slot, local)
            body.push(if use_local { 1 } else { 0 });
            body.extend(be(slot as u32, 4));
        }
        // resolve the placeholders from the outermost inwards
        fn resolve(rng: &mut Rng, pools: &mut Pools, ph: &[u8]) -> Vec<u8> {
            if ph.len() == 5 && ph[0] <= 1 {
                let local = ph[0] == 1;
                let slot = u32::from_be_bytes([ph[1], ph[2], ph[3], ph[4]]) as usize;
                let (n, inner) = {
                    let pool: &Vec<Option<Vec<u8>>> = if local { pools.l.as_ref().unwrap() } else { &pools.g };
                    (pool.len(), pool[slot].clone().unwrap())
                };
                let inner = resolve(rng, pools, &inner);
                if local {
                    pools.l.as_mut().unwrap()[slot] = Some(inner);
                } else {
                    pools.g[slot] = Some(inner);
                }
                let mut out = enc_int(rng, slot as i32 - bias(n));
                out.push(if local { 10 } else { 29 });
                out
            } else {
                ph.to_vec()
            }
        }
        resolve(rng, &mut pools, &body)
    } else {
        factor(rng, &toks, &mut pools, 0, want)
    };
    if rng.chance(1, 7) {
        damage(rng, &mut cs);
    }

    // other glyphs, other font dicts: decoys that draw something different
    let filler: Vec<u8> = if cff2 { vec![] } else { vec![11] };
    let mut glyphs: Vec<Item> = vec![];
    for i in 0..n_glyphs {
        if i == gid {
            glyphs.push((cs.clone(), 1));
        } else {
            let mut d = Gen { rng, cff2, frac: false, big: false, toks: vec![], stems: 0 };
            d.path(false);
            glyphs.push((d.toks.concat(), 1));
        }
    }
    let mut fds: Vec<Option<Vec<Item>>> = vec![];
    for fd in 0..n_fds {
        if fd == my_fd {
            fds.push(pools.l.as_ref().map(|l| pool_items(l, &filler)));
        } else if rng.chance(1, 4) {
            fds.push(None);
        } else {
            // same size as the real pool, different content
            let n = pools.l.as_ref().map(|l| l.len()).unwrap_or(2).min(8);
            let decoy: Vec<Item> = (0..n)
                .map(|_| {
                    let mut b = enc_int(rng, 7);
                    b.extend(enc_int(rng, 7));
                    b.push(5);
                    if !cff2 {
                        b.push(11);
                    }
                    (b, 1)
                })
                .collect();
            fds.push(Some(decoy));
        }
    }
    let charset = plain_charset(rng, n_glyphs);
    Case {
        kind,
        gid,
        gsubrs: pool_items(&pools.g, &filler),
        fds,
        fdsel,
        glyphs,
        charset: if cff2 { "i".to_string() } else { charset },
        var,
        offs: None,
        seac: None,
    }
}

// ------------------------------------------------------------------ charsets and seac
/// Adobe StandardEncoding, code -> SID, written from the table of the specification (TN5176
/// appendix B): independent of the crate's STANDARD_ENCODING array
fn std_sid(code: u8) -> u16 {
    let c = code as u16;
    match code {
        32..=126 => c - 31,
        161..=175 => c - 65,
        177..=180 => c - 66,
        182..=189 => c - 67,
        191 => 123,
        193..=200 => c - 69,
        202..=203 => c - 70,
        205..=208 => c - 71,
        225 => 138,
        227 => 139,
        232..=235 => c - 92,
        241 => 144,
        245 => 145,
        248..=251 => c - 102,
        _ => 0,
    }
}

fn std_code_of(sid: u32) -> Option<u8> {
    if sid == 0 {
        return None;
    }
    (0..=255u8).find(|c| std_sid(*c) as u32 == sid)
}

/// a generated charset: its text, the SID of every glyph (index 0 = .notdef) and, for the range
/// formats, the glyph ids (first, last) each range covers
struct CsPlan {
    text: String,
    sids: Vec<u32>,
    bounds: Vec<(usize, usize)>,
}

/// custom charset built from ranges (emitted as format 0, 1 or 2).  The ranges are unsorted, often
/// adjacent to one another, mostly inside the SIDs StandardEncoding can name (1..=149), of length
/// 1 (nLeft = 0) very often; `big` allows one long range; rarely two ranges overlap (the first glyph
/// with a name wins) or the last range covers more glyphs than the font has.
fn gen_custom_charset(rng: &mut Rng, fmt: u8, big: bool, min_glyphs: usize) -> CsPlan {
    let mut ranges: Vec<(u32, u32)> = vec![]; // (first, len)
    let nr = 1 + rng.below(5) as usize;
    let mut total = 0usize;
    let mut had_big = false;
    while ranges.len() < nr || total + 1 < min_glyphs {
        let len: u32 = match rng.below(9) {
            0..=2 => 1,
            3..=4 => 2,
            5 => 3,
            6 => 4 + rng.below(4) as u32,
            7 if big && !had_big => {
                had_big = true;
                20 + rng.below(if fmt == 1 { 230 } else { 300 }) as u32
            }
            _ => 2,
        };
        let mut first = 1 + rng.below(160) as u32;
        for _ in 0..12 {
            first = match (ranges.is_empty(), rng.below(4)) {
                // adjacent to an existing range: its last + 1, or ending at its first - 1
                (false, 0) => {
                    let (f, l) = *rng.pick(&ranges);
                    if rng.chance(1, 2) || f <= len {
                        f + l
                    } else {
                        f - len
                    }
                }
                (_, 1) => 150 + rng.below(400) as u32, // outside the StandardEncoding names
                _ => 1 + rng.below(150) as u32,
            };
            let clash = ranges.iter().any(|(f, l)| first < f + l && *f < first + len);
            if !clash || rng.chance(1, 10) {
                break;
            }
        }
        if first == 0 || first + len - 1 > 65535 {
            continue;
        }
        ranges.push((first, len));
        total += len as usize;
    }
    let n_glyphs = 1 + total;
    let mut sids: Vec<u32> = vec![0];
    let mut bounds = vec![];
    for (f, l) in &ranges {
        bounds.push((sids.len(), sids.len() + *l as usize - 1));
        sids.extend((0..*l).map(|i| f + i));
    }
    debug_assert!(sids.len() == n_glyphs);
    let text = if fmt == 0 {
        format!("c{}", join(&sids[1..]))
    } else {
        let mut rs: Vec<(u16, u16)> = ranges.iter().map(|(f, l)| (*f as u16, (*l - 1) as u16)).collect();
        // the last range may cover more glyphs than the font has
        if rng.chance(1, 8) {
            let last = rs.last_mut().unwrap();
            let room = (65535 - last.0 as u32 - last.1 as u32).min(if fmt == 1 { 255 - last.1 as u32 } else { 400 });
            last.1 += rng.below(room.min(3) as u64 + 1) as u16;
        }
        fmt_ranges(fmt, &rs)
    };
    CsPlan { text, sids, bounds }
}

/// a small glyph that is different for every glyph id
fn distinct_glyph(rng: &mut Rng, gid: usize) -> Vec<u8> {
    let g = gid as i32;
    let mut cs = vec![];
    cs.extend(enc_int(rng, g % 1000));
    cs.extend(enc_int(rng, 2 * (g % 500) + 1));
    cs.push(21);
    cs.extend(enc_int(rng, 3 + g % 90));
    cs.extend(enc_int(rng, -(g % 7) - 1));
    cs.push(5);
    cs.push(14);
    cs
}

/// run-length compress equal neighbours
fn items_of(glyphs: Vec<Vec<u8>>) -> Vec<Item> {
    let mut out: Vec<Item> = vec![];
    for b in glyphs {
        match out.last_mut() {
            Some((lb, n)) if *lb == b => *n += 1,
            _ => out.push((b, 1)),
        }
    }
    out
}

/// any charset that is valid for a font with `n_glyphs` glyphs (no seac involved)
fn plain_charset(rng: &mut Rng, n_glyphs: usize) -> String {
    let n = n_glyphs.saturating_sub(1);
    match rng.below(12) {
        0 => "e".to_string(),
        1 => "x".to_string(),
        2 | 3 => format!("c{}", join(&(0..n).map(|i| 1 + i as u16 * 3).collect::<Vec<_>>())),
        4 | 5 if n > 0 => {
            // ranges of random lengths covering exactly the glyphs
            let fmt = 1 + rng.below(2) as u8;
            let mut rs: Vec<(u16, u16)> = vec![];
            let mut left = n;
            let mut first = 1 + rng.below(40) as u16;
            while left > 0 {
                let len = (1 + rng.below(4) as usize).min(left);
                rs.push((first, (len - 1) as u16));
                first += len as u16 + rng.below(3) as u16;
                left -= len;
            }
            fmt_ranges(fmt, &rs)
        }
        _ => "i".to_string(),
    }
}

/// seac: an accented glyph composed of two other glyphs of the same name-keyed font.  The charset is
/// ISOAdobe / Expert / ExpertSubset or custom in format 0, 1 or 2; the components are chosen ON
/// PURPOSE at the first / last / only glyph of a charset range, next to a range, at codes on both
/// sides of every gap of StandardEncoding (126/161, 228/232, 251) and sometimes at codes that name
/// no glyph of the font.
fn gen_seac(rng: &mut Rng) -> Case {
    // ---- the charset and the number of glyphs
    let sel = rng.below(20);
    let plan: CsPlan = match sel {
        0..=3 => {
            // ISOAdobe: glyph id = SID.  Small fonts, fonts that end around a gap, the full 229 glyphs
            let n = match rng.below(8) {
                0 => 229,
                1 => 150 + rng.below(80) as usize,
                2 => *rng.pick(&[95usize, 96, 97, 140, 141, 146, 147, 150, 151, 228, 230]),
                _ => 4 + rng.below(12) as usize,
            };
            CsPlan { text: "i".to_string(), sids: (0..n as u32).collect(), bounds: vec![] }
        }
        4 => CsPlan { text: (if rng.chance(1, 2) { "e" } else { "x" }).to_string(), sids: vec![0; 4 + rng.below(6) as usize], bounds: vec![] },
        5..=8 => gen_custom_charset(rng, 0, false, 4),
        9..=14 => {
            let big = rng.chance(1, 6);
            gen_custom_charset(rng, 1, big, 4)
        }
        _ => {
            let big = rng.chance(1, 6);
            gen_custom_charset(rng, 2, big, 4)
        }
    };
    let n_glyphs = plan.sids.len();
    let predefined_expert = sel == 4;

    // ---- which glyphs can be named by a StandardEncoding code, and where they sit in their range
    let named: Vec<usize> = (1..n_glyphs)
        .filter(|g| {
            let sid = plan.sids[*g];
            // the first glyph carrying the name is the one a code designates
            std_code_of(sid).is_some() && plan.sids[1..*g].iter().all(|s| *s != sid)
        })
        .collect();
    let mut boundary: Vec<usize> = vec![];
    for (a, b) in &plan.bounds {
        boundary.push(*a);
        boundary.push(*b);
    }
    if plan.text == "i" {
        // both sides of the gaps of StandardEncoding, as SIDs (= glyph ids)
        boundary.extend([1usize, 95, 96, 110, 111, 123, 137, 138, 139, 140, 143, 144, 145, 146, 149]);
        boundary.push(n_glyphs - 1);
    }
    let boundary: Vec<usize> = boundary.into_iter().filter(|g| named.contains(g)).collect();
    let pick_comp = |rng: &mut Rng| -> Option<usize> {
        if !boundary.is_empty() && rng.chance(3, 4) {
            Some(*rng.pick(&boundary))
        } else if !named.is_empty() {
            Some(*rng.pick(&named))
        } else {
            None
        }
    };
    // a code for a component: usually the code of a glyph of the font, sometimes another one
    let code_for = |rng: &mut Rng| -> (i32, Option<usize>) {
        match rng.below(14) {
            0 => (rng.range(0, 255) as i32, None),
            1 => (*rng.pick(&[0i32, 31, 32, 126, 127, 160, 161, 228, 229, 231, 232, 245, 251, 252, 255]), None),
            _ => match pick_comp(rng) {
                Some(g) => (std_code_of(plan.sids[g]).unwrap() as i32, Some(g)),
                None => (rng.range(32, 126) as i32, None),
            },
        }
    };
    let (bc, bg) = code_for(rng);
    let (ac, ag) = code_for(rng);

    // ---- glyphs: the components are structured programs, the others small and all different
    let gsize = pool_size(rng).min(6);
    let lsize = 1 + rng.below(3) as usize;
    let mut pools = Pools { cff2: false, g: vec![None; gsize], l: Some(vec![None; lsize]) };
    let mut glyphs: Vec<Vec<u8>> = vec![];
    for g in 0..n_glyphs {
        if Some(g) == bg || Some(g) == ag || (g < 8 && rng.chance(1, 3)) {
            let mut gen = Gen { rng, cff2: false, frac: false, big: false, toks: vec![], stems: 0 };
            let width = gen.rng.chance(1, 2);
            gen.path(width);
            let toks = std::mem::take(&mut gen.toks);
            let want = rng.below(2) as usize;
            glyphs.push(factor(rng, &toks, &mut pools, 0, want));
        } else {
            glyphs.push(distinct_glyph(rng, g));
        }
    }
    // the composite replaces a glyph that is not a component (glyph 0 when there is no other)
    let free: Vec<usize> = (0..n_glyphs).filter(|g| Some(*g) != bg && Some(*g) != ag).collect();
    let gid = if free.len() > 1 { free[1 + rng.below(free.len() as u64 - 1) as usize] } else { free[0] };
    let mut cs = vec![];
    if rng.chance(1, 2) {
        let w = rng.range(-50, 600) as i32;
        cs.extend(enc_int(rng, w));
    }
    let adx = rng.range(-200, 200) as i32;
    cs.extend(enc_int(rng, adx));
    let ady = rng.range(-200, 200) as i32;
    cs.extend(enc_int(rng, ady));
    cs.extend(enc_int(rng, bc));
    cs.extend(enc_int(rng, ac));
    cs.push(14);
    let mut seac = Some(format!("s{},{},{},{}", adx, ady, bc, ac));
    if rng.chance(1, 12) {
        damage(rng, &mut cs);
        seac = None;
    }
    if predefined_expert {
        seac = None;
    }
    glyphs[gid] = cs;
    Case {
        kind: 't',
        gid,
        gsubrs: pool_items(&pools.g, &[11]),
        fds: vec![pools.l.as_ref().map(|l| pool_items(l, &[11]))],
        fdsel: vec![],
        glyphs: items_of(glyphs),
        charset: plan.text,
        var: None,
        offs: None,
        seac,
    }
}

/// charset query: every SID 0..=255 through `Charset::sid_to_gid`, every glyph through `id_for_glyph`
fn gen_query(rng: &mut Rng) -> Case {
    let plan = match rng.below(12) {
        0 => CsPlan { text: "i".to_string(), sids: vec![0; 3 + rng.below(300) as usize], bounds: vec![] },
        1 => CsPlan { text: (if rng.chance(1, 2) { "e" } else { "x" }).to_string(), sids: vec![0; 3 + rng.below(200) as usize], bounds: vec![] },
        2 | 3 => gen_custom_charset(rng, 0, true, 2),
        4..=7 => gen_custom_charset(rng, 1, true, 2),
        _ => gen_custom_charset(rng, 2, true, 2),
    };
    Case {
        kind: 'q',
        gid: 0,
        gsubrs: vec![],
        fds: vec![None],
        fdsel: vec![],
        glyphs: vec![(vec![14], plan.sids.len())],
        charset: plan.text,
        var: None,
        offs: None,
        seac: None,
    }
}

pub fn gen(rng: &mut Rng) -> String {
    let c = match rng.below(24) {
        0..=2 => gen_seac(rng),
        3 => gen_query(rng),
        _ => gen_case(rng),
    };
    fmt_case(&c)
}

fn main() {
    harness_main(&run, &mut gen)
}
