//! C09 correspondence: the sfnt writer (FontBuilder) driven through the public entry points.
//! input  = W|tag:hex,...|tag,tag,...|VER|tag=hex;...   whole_font: provider tables, tag list requested, and what
//!                                                       whole_font hands to the builder (`-|-` = must fail)
//!        | S|fixture-relative-path|gid,gid,...      subset::subset on a fixture font (judge only)
//!        | V|AC|USER|SHARED|GLYPHS|HVAR|MVAR|VALS  variations::instance on a synthetic variable font of the C12 generator (judge only)
//!        | Z|index|prefixhex|blockhex               whole_font over a synthetic WOFF2 font of the C11 generator (judge only)
//!        | I|fixture-relative-path|c1,c2,...        variations::instance (user coords, raw 16.16) (judge only)
//! output = ok:FILEHEX | err:E | panic
use allsorts::binary::read::ReadScope;
use allsorts::binary::write::{WriteBinary, WriteBuffer};
use allsorts::error::ParseError;
use allsorts::font_data::FontData;
use allsorts::tables::{FontTableProvider, HeadTable, HheaTable, MaxpTable, SfntVersion};
use allsorts::tables::glyf::{GlyfRecord, GlyfTable, Glyph};
use allsorts::tables::loca::LocaTable;
use allsorts::cff::CFF;
use allsorts::outline::{OutlineBuilder, OutlineSink};
use allsorts::pathfinder_geometry::line_segment::LineSegment2F;
use allsorts::pathfinder_geometry::vector::Vector2F;
use allsorts::tables::Fixed;
use allsorts::{subset, tag, variations};
use avh::prng::{hex, unhex, Rng};
use avh::harness_main;
use std::borrow::Cow;
use std::collections::HashMap;
use std::panic::{catch_unwind, AssertUnwindSafe};

/// the C11 harness as a source of synthetic WOFF2 fonts (transformed glyf / hmtx, collections)
#[path = "c11.rs"]
#[allow(dead_code, unused_imports, unused_variables, unused_mut)]
mod c11;

/// the C12 harness as a source of synthetic variable TrueType fonts (gvar on simple and composite glyphs,
/// point-matched components, HVAR / MVAR) for `variations::instance`
#[path = "c12.rs"]
#[allow(dead_code, unused_imports, unused_variables, unused_mut)]
mod c12;

struct MapProvider {
    tables: HashMap<u32, Vec<u8>>,
}
impl FontTableProvider for MapProvider {
    fn table_data(&self, tag: u32) -> Result<Option<Cow<'_, [u8]>>, ParseError> {
        Ok(self.tables.get(&tag).map(|v| Cow::Borrowed(v.as_slice())))
    }
    fn has_table(&self, tag: u32) -> bool {
        self.tables.contains_key(&tag)
    }
    fn table_tags(&self) -> Option<Vec<u32>> {
        Some(self.tables.keys().copied().collect())
    }
}
impl SfntVersion for MapProvider {
    fn sfnt_version(&self) -> u32 {
        0x00010000
    }
}

struct NullSink;
impl OutlineSink for NullSink {
    fn move_to(&mut self, _: Vector2F) {}
    fn line_to(&mut self, _: Vector2F) {}
    fn quadratic_curve_to(&mut self, _: Vector2F, _: Vector2F) {}
    fn cubic_curve_to(&mut self, _: LineSegment2F, _: Vector2F) {}
    fn close(&mut self) {}
}

/// cross-table consistency of a written font and "the library can load it and query every glyph":
/// returns the list of violated clauses (empty = consistent)
fn consistency(bytes: &[u8], min_glyphs: usize) -> Vec<String> {
    let fd = match ReadScope::new(bytes).read::<FontData<'_>>() {
        Ok(f) => f,
        Err(_) => return vec!["reload-failed".to_string()],
    };
    let p = match fd.table_provider(0) {
        Ok(p) => p,
        Err(_) => return vec!["reload-failed".to_string()],
    };
    let mut flags = consistency_of(&|t: u32| p.table_data(t).ok().flatten().map(|c| c.into_owned()), min_glyphs);
    if allsorts::Font::new(p).is_err() {
        flags.push("font-new-failed".to_string());
    }
    flags
}

/// the same clauses on any source of tables (a written font, or the tables a WOFF2 provider hands out)
fn consistency_of(get: &dyn Fn(u32) -> Option<Vec<u8>>, min_glyphs: usize) -> Vec<String> {
    let mut flags = vec![];
    let head = get(tag::HEAD).and_then(|d| ReadScope::new(&d).read::<HeadTable>().ok());
    let maxp = get(tag::MAXP).and_then(|d| ReadScope::new(&d).read::<MaxpTable>().ok());
    let (head, maxp) = match (head, maxp) {
        (Some(h), Some(m)) => (h, m),
        _ => return vec!["head-or-maxp-unreadable".to_string()],
    };
    let ng = usize::from(maxp.num_glyphs);
    if ng < min_glyphs {
        flags.push("maxp-fewer-glyphs-than-requested".to_string());
    }
    if let (Some(hhea), Some(hmtx)) = (get(tag::HHEA), get(tag::HMTX)) {
        match ReadScope::new(&hhea).read::<HheaTable>() {
            Ok(hhea) => {
                let nhm = usize::from(hhea.num_h_metrics);
                if nhm == 0 || nhm > ng {
                    flags.push("hhea-numberOfHMetrics-out-of-range".to_string());
                } else if hmtx.len() != 4 * nhm + 2 * (ng - nhm) {
                    flags.push(format!("hmtx-length-{}-expected-{}", hmtx.len(), 4 * nhm + 2 * (ng - nhm)));
                }
            }
            Err(_) => flags.push("hhea-unreadable".to_string()),
        }
    }
    if let (Some(loca_d), Some(glyf_d)) = (get(tag::LOCA), get(tag::GLYF)) {
        match ReadScope::new(&loca_d).read_dep::<LocaTable<'_>>((ng, head.index_to_loc_format)) {
            Ok(loca) => {
                let offs: Vec<u32> = loca.offsets.iter().collect();
                if offs.len() != ng + 1 {
                    flags.push("loca-entry-count".to_string());
                }
                if offs.windows(2).any(|w| w[0] > w[1]) {
                    flags.push("loca-not-monotone".to_string());
                }
                if let Some(last) = offs.last() {
                    if *last as usize > glyf_d.len() {
                        flags.push(format!("loca-last-{}-beyond-glyf-length-{}", last, glyf_d.len()));
                    }
                }
                match ReadScope::new(&glyf_d).read_dep::<GlyfTable<'_>>(&loca) {
                    Ok(mut glyf) => {
                        for i in 0..glyf.records().len() {
                            let mut rec = glyf.records()[i].clone();
                            if rec.parse().is_err() {
                                flags.push(format!("glyph-{}-unparsable", i));
                                break;
                            }
                            if let GlyfRecord::Parsed(Glyph::Composite(c)) = &rec {
                                if c.glyphs.iter().any(|g| usize::from(g.glyph_index) >= ng) {
                                    flags.push(format!("glyph-{}-component-out-of-range", i));
                                    break;
                                }
                            }
                        }
                        let mut sink = NullSink;
                        for g in 0..ng.min(400) {
                            if glyf.visit(g as u16, &mut sink).is_err() {
                                flags.push(format!("glyph-{}-outline-error", g));
                                break;
                            }
                        }
                    }
                    Err(_) => flags.push("glyf-unreadable".to_string()),
                }
            }
            Err(_) => flags.push("loca-unreadable".to_string()),
        }
    }
    if let Some(cff_d) = get(tag::CFF) {
        match ReadScope::new(&cff_d).read::<CFF<'_>>() {
            Ok(mut cff) => {
                let n = cff.fonts.first().map(|f| f.char_strings_index.len()).unwrap_or(0);
                if n != ng {
                    flags.push(format!("cff-charstrings-{}-maxp-{}", n, ng));
                }
                let mut sink = NullSink;
                for g in 0..ng.min(400) {
                    if cff.visit(g as u16, &mut sink).is_err() {
                        flags.push(format!("cff-glyph-{}-outline-error", g));
                        break;
                    }
                }
            }
            Err(_) => flags.push("cff-unreadable".to_string()),
        }
    }
    flags
}

/// structural rules of the cmap table a subset carries (the library builds that table itself): header and
/// encoding records in bounds, and per sub-table the length field and the format 4 binary-search header
fn cmap_structure_flags(d: &[u8]) -> Vec<String> {
    let u16_ = |o: usize| -> Option<usize> { d.get(o..o + 2).map(|b| u16::from_be_bytes([b[0], b[1]]) as usize) };
    let u32_ = |o: usize| -> Option<usize> { d.get(o..o + 4).map(|b| u32::from_be_bytes([b[0], b[1], b[2], b[3]]) as usize) };
    let mut flags = vec![];
    let n = match u16_(2) {
        Some(n) => n,
        None => return vec!["cmap-header-truncated".to_string()],
    };
    let mut seen = vec![];
    for k in 0..n {
        let off = match u32_(4 + 8 * k + 4) {
            Some(o) => o,
            None => return vec!["cmap-records-truncated".to_string()],
        };
        if seen.contains(&off) {
            continue;
        }
        seen.push(off);
        let bad = |w: &str| format!("cmap-subtable-at-{}-{}", off, w);
        match u16_(off) {
            Some(4) => {
                let (len, sc2, sr, es, rs) = match (u16_(off + 2), u16_(off + 6), u16_(off + 8), u16_(off + 10), u16_(off + 12)) {
                    (Some(a), Some(b), Some(c), Some(e), Some(f)) => (a, b, c, e, f),
                    _ => {
                        flags.push(bad("truncated"));
                        continue;
                    }
                };
                let sc = sc2 / 2;
                if sc2 % 2 != 0 || sc == 0 {
                    flags.push(bad("segCountX2"));
                    continue;
                }
                let lg = (usize::BITS - 1 - sc.leading_zeros()) as usize;
                if sr != 2 * (1 << lg) || es != lg || rs != 2 * sc - 2 * (1 << lg) {
                    flags.push(bad(&format!("search-fields-{}-{}-{}-for-{}-segments", sr, es, rs, sc)));
                }
                if len < 16 + 8 * sc || off + len > d.len() || (len - 16 - 8 * sc) % 2 != 0 {
                    flags.push(bad("length"));
                    continue;
                }
                let ends: Vec<usize> = (0..sc).filter_map(|i| u16_(off + 14 + 2 * i)).collect();
                if ends.last() != Some(&0xFFFF) {
                    flags.push(bad("last-endCode-not-FFFF"));
                }
                if ends.windows(2).any(|w| w[0] >= w[1]) {
                    flags.push(bad("endCodes-not-ascending"));
                }
                if u16_(off + 14 + 2 * sc) != Some(0) {
                    flags.push(bad("reservedPad"));
                }
            }
            Some(12) => match (u32_(off + 4), u32_(off + 12)) {
                (Some(len), Some(ng)) => {
                    if len != 16 + 12 * ng || off + len > d.len() {
                        flags.push(bad("length"));
                    } else {
                        let g: Vec<(usize, usize)> = (0..ng).filter_map(|i| Some((u32_(off + 16 + 12 * i)?, u32_(off + 20 + 12 * i)?))).collect();
                        if g.iter().any(|(s, e)| s > e) || g.windows(2).any(|w| w[0].1 >= w[1].0) {
                            flags.push(bad("groups-not-ascending"));
                        }
                    }
                }
                _ => flags.push(bad("truncated")),
            },
            Some(0) => {
                if u16_(off + 2) != Some(262) || off + 262 > d.len() {
                    flags.push(bad("length"));
                }
            }
            Some(6) => match (u16_(off + 2), u16_(off + 8)) {
                (Some(len), Some(c)) => {
                    if len != 10 + 2 * c || off + len > d.len() {
                        flags.push(bad("length"));
                    }
                }
                _ => flags.push(bad("truncated")),
            },
            Some(_) => {}
            None => flags.push(bad("out-of-bounds")),
        }
    }
    flags
}

/// cmap <-> maxp consistency of a subset (the library built that cmap itself): every glyph id a sub-table
/// maps to exists; and, when the source cmap is known (`source`: char -> old glyph id, `gids`: new -> old),
/// every Unicode sub-table entry names the glyph the source named for that character.
fn cmap_glyph_flags(d: &[u8], num_glyphs: usize, source: Option<(&HashMap<u32, u16>, &[u16])>) -> Vec<String> {
    use allsorts::tables::cmap::{Cmap, CmapSubtable, EncodingId, PlatformId};
    let mut flags = vec![];
    let cmap = match ReadScope::new(d).read::<Cmap<'_>>() {
        Ok(c) => c,
        Err(_) => return vec!["cmap-unreadable".to_string()],
    };
    for rec in cmap.encoding_records() {
        let sub = match cmap.scope.offset(rec.offset as usize).read::<CmapSubtable<'_>>() {
            Ok(s) => s,
            Err(_) => {
                flags.push(format!("cmap-subtable-{}-{}-unreadable", rec.platform_id.0, rec.encoding_id.0));
                continue;
            }
        };
        let unicode = rec.platform_id == PlatformId::UNICODE
            || (rec.platform_id == PlatformId::WINDOWS && (rec.encoding_id == EncodingId(1) || rec.encoding_id == EncodingId(10)));
        let mut bad_range: Option<(u32, u16)> = None;
        let mut bad_glyph: Option<(u32, u16)> = None;
        let _ = sub.mappings_fn(|ch, gid| {
            if usize::from(gid) >= num_glyphs {
                bad_range.get_or_insert((ch, gid));
            } else if let (true, Some((src, gids))) = (unicode, source) {
                if gid != 0 && src.get(&ch).copied() != gids.get(usize::from(gid)).copied() {
                    bad_glyph.get_or_insert((ch, gid));
                }
            }
        });
        if let Some((ch, gid)) = bad_range {
            flags.push(format!("cmap-maps-U+{:04X}-to-glyph-{}-of-{}", ch, gid, num_glyphs));
        }
        if let Some((ch, gid)) = bad_glyph {
            flags.push(format!("cmap-maps-U+{:04X}-to-the-wrong-glyph-{}", ch, gid));
        }
    }
    flags
}

/// groups (start, end, glyph) of a format 12 sub-table -> a (3,10) cmap table
fn cmap12_bytes(groups: &[(u32, u32, u32)]) -> Vec<u8> {
    let mut b = vec![0u8, 0, 0, 1, 0, 3, 0, 10, 0, 0, 0, 12];
    b.extend_from_slice(&[0, 12, 0, 0]);
    b.extend_from_slice(&((16 + 12 * groups.len()) as u32).to_be_bytes());
    b.extend_from_slice(&0u32.to_be_bytes());
    b.extend_from_slice(&(groups.len() as u32).to_be_bytes());
    for (s, e, g) in groups {
        b.extend_from_slice(&s.to_be_bytes());
        b.extend_from_slice(&e.to_be_bytes());
        b.extend_from_slice(&g.to_be_bytes());
    }
    b
}
fn cmap12_source(d: &[u8]) -> HashMap<u32, u16> {
    let u32_ = |o: usize| -> u32 { d.get(o..o + 4).map(|b| u32::from_be_bytes([b[0], b[1], b[2], b[3]])).unwrap_or(0) };
    let mut m = HashMap::new();
    let n = u32_(24) as usize;
    for i in 0..n.min(4096) {
        let (s, e, g) = (u32_(28 + 12 * i), u32_(32 + 12 * i), u32_(36 + 12 * i));
        for (k, ch) in (s..=e.min(s + 4096)).enumerate() {
            m.entry(ch).or_insert((g as usize + k) as u16);
        }
    }
    m
}

/// an optional 4th field for an `S` line on a TrueType fixture: a synthetic (3,10) format 12 cmap for the source
/// font.  Derived from a hash of the line (own generator), so that the including harnesses' streams do not shift.
/// Code points are drawn around the BMP / supplementary boundary, runs of consecutive code points map to
/// consecutive glyphs, to one shared glyph, or to a consecutive run whose last glyph repeats.
fn with_synthetic_cmap(line: String) -> String {
    let parts: Vec<&str> = line.split('|').collect();
    if parts.len() != 3 || !parts[1].ends_with(".ttf") {
        return line;
    }
    let mut h: u64 = 0xcbf29ce484222325;
    for b in line.bytes() {
        h = (h ^ u64::from(b)).wrapping_mul(0x100000001b3);
    }
    let mut rng = Rng::new(h);
    if !rng.chance(1, 2) {
        return line;
    }
    let gids: Vec<u32> = parts[2].split(',').map(|g| g.parse().unwrap()).collect();
    let real: Vec<u32> = gids.iter().copied().filter(|g| *g != 0).collect();
    if real.is_empty() {
        return line;
    }
    let mut groups: Vec<(u32, u32, u32)> = vec![];
    let mut ch: u32 = *rng.pick(&[0x20u32, 0x41, 0xA0, 0x2010, 0xFFF0, 0x10000, 0x1F600]);
    let ngroups = 1 + rng.below(6);
    for _ in 0..ngroups {
        let g = *rng.pick(&real);
        match rng.below(5) {
            0 => {
                // a run of consecutive glyphs (glyphs outside the list are dropped by the subsetter)
                let l = rng.below(4) as u32;
                groups.push((ch, ch + l, g));
                ch += l + 1;
            }
            1 | 2 => {
                // consecutive code points sharing one glyph
                let l = 2 + rng.below(3) as u32;
                for k in 0..l {
                    groups.push((ch + k, ch + k, g));
                }
                ch += l;
            }
            _ => {
                // g, g', g' ... where g' is another retained glyph: in the subset these are often new ids n, n+1, n+1
                let g2 = *rng.pick(&real);
                groups.push((ch, ch, g));
                groups.push((ch + 1, ch + 1, g2));
                groups.push((ch + 2, ch + 2, g2));
                ch += 3;
            }
        }
        if rng.chance(1, 2) {
            ch += 1 + rng.below(40) as u32;
        }
        if rng.chance(1, 4) && ch < 0x10000 {
            ch = 0x10000 + rng.below(0x300) as u32;
        }
    }
    format!("{}|{}", line, hex(&cmap12_bytes(&groups)))
}

fn fixture(path: &str) -> Vec<u8> {
    let repo = std::env::var("VERIF_REPO").unwrap_or_else(|_| "/repo".to_string());
    std::fs::read(format!("{}/tests/fonts/{}", repo, path)).unwrap_or_default()
}

fn parse_tables(tables: &str) -> HashMap<u32, Vec<u8>> {
    let mut map = HashMap::new();
    for t in tables.split(',').filter(|s| !s.is_empty()) {
        let (a, b) = t.split_once(':').unwrap();
        map.insert(a.parse().unwrap(), unhex(b));
    }
    map
}

fn run_whole(tables: &str, tags: &str) -> String {
    let tags: Vec<u32> = tags.split(',').filter(|s| !s.is_empty()).map(|t| t.parse().unwrap()).collect();
    let provider = MapProvider { tables: parse_tables(tables) };
    match subset::whole_font(&provider, &tags) {
        Ok(b) => format!("ok:{}", hex(&b)),
        Err(_) => "err".to_string(),
    }
}

/// what whole_font hands to the builder, in insertion order: `VER|tag=hex;tag=hex;...`, or `-|-`
/// when head/maxp do not parse or a requested table is missing (whole_font must then fail)
fn builder_inserts(tables: &HashMap<u32, Vec<u8>>, tags: &[u32]) -> String {
    let head = tables.get(&tag::HEAD).and_then(|d| ReadScope::new(d).read::<HeadTable>().ok());
    let maxp = tables.get(&tag::MAXP).and_then(|d| ReadScope::new(d).read::<MaxpTable>().ok());
    let (head, maxp) = match (head, maxp) {
        (Some(h), Some(m)) => (h, m),
        _ => return "-|-".to_string(),
    };
    let mut inserts: Vec<(u32, Vec<u8>)> = vec![];
    for t in tags {
        match *t {
            tag::GLYF | tag::HEAD | tag::MAXP | tag::LOCA => {}
            _ => match tables.get(t) {
                Some(d) => inserts.push((*t, d.clone())),
                None => return "-|-".to_string(),
            },
        }
    }
    if tags.contains(&tag::GLYF) {
        return "-|-".to_string();
    }
    let mut b = WriteBuffer::new();
    MaxpTable::write(&mut b, &maxp).unwrap();
    inserts.push((tag::MAXP, b.bytes().to_vec()));
    let mut b = WriteBuffer::new();
    let _ = HeadTable::write(&mut b, &head).unwrap();
    inserts.push((tag::HEAD, b.bytes().to_vec()));
    let ver = if tags.contains(&tag::CFF) { 0x4F54544Fu32 } else { 0x00010000 };
    let ins: Vec<String> = inserts.iter().map(|(t, d)| format!("{}={}", t, hex(d))).collect();
    format!("{}|{}", ver, ins.join(";"))
}

pub fn run(input: &str) -> String {
    let parts: Vec<&str> = input.split('|').collect();
    let res = catch_unwind(AssertUnwindSafe(|| match parts[0] {
        "W" => run_whole(parts[1], parts[2]),
        "S" => {
            let data = fixture(parts[1]);
            let fd = match ReadScope::new(&data).read::<FontData<'_>>() {
                Ok(f) => f,
                Err(_) => return "err".to_string(),
            };
            let p = match fd.table_provider(0) {
                Ok(p) => p,
                Err(_) => return "err".to_string(),
            };
            let gids: Vec<u16> = parts[2].split(',').map(|g| g.parse().unwrap()).collect();
            // optional 4th field: the source font carries this cmap instead of its own
            let synthetic: Option<Vec<u8>> = parts.get(3).filter(|s| !s.is_empty()).map(|s| unhex(s));
            let source = synthetic.as_ref().map(|c| cmap12_source(c));
            let result = match &synthetic {
                None => subset::subset(&p, &gids),
                Some(c) => {
                    let mut tables = HashMap::new();
                    for t in p.table_tags().unwrap_or_default() {
                        if let Ok(Some(d)) = p.table_data(t) {
                            tables.insert(t, d.into_owned());
                        }
                    }
                    tables.insert(tag::CMAP, c.clone());
                    subset::subset(&MapProvider { tables }, &gids)
                }
            };
            match result {
                Ok(b) => {
                    let mut flags = consistency(&b, gids.len());
                    // the cmap of a subset is built by the library: its structure is judged too
                    if let Ok(fd) = ReadScope::new(&b).read::<FontData<'_>>() {
                        if let Ok(p2) = fd.table_provider(0) {
                            if let Ok(Some(c)) = p2.table_data(tag::CMAP) {
                                flags.extend(cmap_structure_flags(&c));
                                let ng = p2
                                    .table_data(tag::MAXP)
                                    .ok()
                                    .flatten()
                                    .and_then(|d| ReadScope::new(&d).read::<MaxpTable>().ok())
                                    .map(|m| usize::from(m.num_glyphs))
                                    .unwrap_or(0);
                                flags.extend(cmap_glyph_flags(&c, ng, source.as_ref().map(|s| (s, gids.as_slice()))));
                            }
                        }
                    }
                    format!("ok:{}:{}", hex(&b), flags.join("+"))
                }
                Err(_) => "err".to_string(),
            }
        }
        "V" => {
            // variations::instance on a synthetic variable font: every glyph of the instance must parse
            let mut p: Vec<&str> = parts.clone();
            p[0] = "e2e";
            match c12::e2e::e2e_instance_bytes(&p) {
                Some(b) => format!("ok:{}:{}", hex(&b), consistency(&b, 1).join("+")),
                None => "err".to_string(),
            }
        }
        "Z" => {
            // whole_font over the tables a WOFF2 decoder hands out (reconstructed glyf / loca / head / hmtx)
            let idx: usize = parts[1].parse().unwrap();
            let mut file = unhex(parts[2]);
            let block = unhex(parts[3]);
            let comp = c11::brotli_stored(&block);
            if file.len() >= 24 {
                file[20..24].copy_from_slice(&(comp.len() as u32).to_be_bytes());
            }
            file.extend(&comp);
            let fd = match ReadScope::new(&file).read::<FontData<'_>>() {
                Ok(f) => f,
                Err(_) => return "err".to_string(),
            };
            let p = match fd.table_provider(idx) {
                Ok(p) => p,
                Err(_) => return "err".to_string(),
            };
            let tags: Vec<u32> = p.table_tags().unwrap_or_default();
            // the synthetic fonts are not complete fonts (no cmap, arbitrary component ids, hmtx passed through
            // as generated): only the clauses the WOFF2 reconstruction itself is responsible for are judged:
            // head.indexToLocFormat / loca / glyf agreement
            let mine = |f: &String| f.starts_with("loca-") || f == "glyf-unreadable" || f == "reload-failed";
            // (a) the tables as the provider hands them out
            let prov_flags: Vec<String> =
                consistency_of(&|t: u32| p.table_data(t).ok().flatten().map(|c| c.into_owned()), 1).into_iter().filter(mine).collect();
            if !prov_flags.is_empty() {
                return format!("prov:{}", prov_flags.join("+"));
            }
            // (b) the font whole_font writes from them
            match subset::whole_font(&p, &tags) {
                Ok(b) => {
                    let flags: Vec<String> = consistency(&b, 1).into_iter().filter(mine).collect();
                    format!("ok:{}:{}", hex(&b), flags.join("+"))
                }
                Err(e) => {
                    if std::env::var_os("C09_DEBUG").is_some() {
                        eprintln!("whole_font: {:?}", e);
                    }
                    "err".to_string()
                }
            }
        }
        "I" => {
            let data = fixture(parts[1]);
            let fd = match ReadScope::new(&data).read::<FontData<'_>>() {
                Ok(f) => f,
                Err(_) => return "err".to_string(),
            };
            let p = match fd.table_provider(0) {
                Ok(p) => p,
                Err(_) => return "err".to_string(),
            };
            let coords: Vec<Fixed> = parts[2].split(',').filter(|s| !s.is_empty()).map(|g| Fixed::from_raw(g.parse().unwrap())).collect();
            match variations::instance(&p, &coords) {
                Ok((b, _)) => format!("ok:{}:{}", hex(&b), consistency(&b, 1).join("+")),
                Err(_) => "err".to_string(),
            }
        }
        _ => "err:bad-kind".to_string(),
    }));
    match res {
        Ok(s) => s,
        Err(e) => avh::panic_kind(&*e).to_string(),
    }
}

fn be16(v: &mut Vec<u8>, x: u16) {
    v.extend_from_slice(&x.to_be_bytes());
}
fn be32(v: &mut Vec<u8>, x: u32) {
    v.extend_from_slice(&x.to_be_bytes());
}

fn gen_head(rng: &mut Rng) -> Vec<u8> {
    let mut v = vec![];
    be16(&mut v, 1);
    be16(&mut v, 0);
    be32(&mut v, rng.next() as u32); // fontRevision
    be32(&mut v, rng.next() as u32); // checkSumAdjustment (ignored on write)
    be32(&mut v, 0x5F0F3CF5);
    be16(&mut v, rng.next() as u16);
    be16(&mut v, 16 + rng.below(16000) as u16);
    v.extend_from_slice(&rng.next().to_be_bytes());
    v.extend_from_slice(&rng.next().to_be_bytes());
    for _ in 0..4 {
        be16(&mut v, rng.next() as u16);
    }
    be16(&mut v, rng.below(128) as u16); // macStyle: defined bits only
    be16(&mut v, rng.next() as u16);
    be16(&mut v, rng.range(-2, 2) as i16 as u16);
    be16(&mut v, rng.below(2) as u16); // indexToLocFormat
    be16(&mut v, 0);
    v
}

fn gen_maxp(rng: &mut Rng) -> Vec<u8> {
    let mut v = vec![];
    if rng.chance(1, 2) {
        be32(&mut v, 0x00005000);
        be16(&mut v, rng.next() as u16);
    } else {
        be32(&mut v, 0x00010000);
        for _ in 0..14 {
            be16(&mut v, rng.next() as u16);
        }
    }
    v
}

const POOL: &[u32] = &[
    0x636d6170, 0x68686561, 0x686d7478, 0x6e616d65, 0x4f532f32, 0x706f7374, 0x43464620, 0x63767420, 0x6670676d,
    0x70726570, 0x47535542, 0x47504f53, 0x47444546, 0x00000001, 0xffffffff, 0x68656164, 0x6d617870, 0x676c7966,
    0x6c6f6361, 0x68656163, 0x68656165,
];

const SUBSET_FONTS: &[(&str, u16)] = &[
    ("opentype/test-font.ttf", 4),
    ("opentype/SFNT-TTF-Composite.ttf", 4),
    ("opentype/Klei.otf", 300),
    ("opentype/SourceCodePro-Regular.otf", 1500),
    ("opentype/OpenSans-Regular.ttf", 900),
    ("opentype/TerminusTTF-4.47.0.ttf", 1300),
];
const VAR_FONTS: &[(&str, usize)] = &[("opentype/NotoSans-VF.abc.ttf", 3), ("variable/UnderlineTest-VF.ttf", 2)];

/// composite glyphs of a TrueType fixture whose components are all simple: (gid, components)
fn composites(path: &str) -> Vec<(u16, Vec<u16>)> {
    let data = fixture(path);
    let mut out = vec![];
    let fd = match ReadScope::new(&data).read::<FontData<'_>>() {
        Ok(f) => f,
        Err(_) => return out,
    };
    let p = match fd.table_provider(0) {
        Ok(p) => p,
        Err(_) => return out,
    };
    let get = |t: u32| p.table_data(t).ok().flatten().map(|c| c.into_owned());
    let head = get(tag::HEAD).and_then(|d| ReadScope::new(&d).read::<HeadTable>().ok());
    let maxp = get(tag::MAXP).and_then(|d| ReadScope::new(&d).read::<MaxpTable>().ok());
    let (head, maxp, loca_d, glyf_d) = match (head, maxp, get(tag::LOCA), get(tag::GLYF)) {
        (Some(h), Some(m), Some(l), Some(g)) => (h, m, l, g),
        _ => return out,
    };
    let loca = match ReadScope::new(&loca_d).read_dep::<LocaTable<'_>>((usize::from(maxp.num_glyphs), head.index_to_loc_format)) {
        Ok(l) => l,
        Err(_) => return out,
    };
    let glyf = match ReadScope::new(&glyf_d).read_dep::<GlyfTable<'_>>(&loca) {
        Ok(g) => g,
        Err(_) => return out,
    };
    for (gid, rec) in glyf.records().iter().enumerate() {
        if !rec.is_composite() {
            continue;
        }
        let mut rec = rec.clone();
        if rec.parse().is_err() {
            continue;
        }
        if let GlyfRecord::Parsed(Glyph::Composite(c)) = &rec {
            if c.glyphs.iter().all(|g| glyf.records().get(usize::from(g.glyph_index)).map(|r| !r.is_composite()).unwrap_or(false)) {
                let mut comps: Vec<u16> = vec![];
                for g in &c.glyphs {
                    if !comps.contains(&g.glyph_index) {
                        comps.push(g.glyph_index);
                    }
                }
                out.push((gid as u16, comps));
            }
        }
    }
    out
}

fn composites_cached(path: &'static str) -> &'static Vec<(u16, Vec<u16>)> {
    use std::sync::{Mutex, OnceLock};
    static CACHE: OnceLock<Mutex<HashMap<&'static str, &'static Vec<(u16, Vec<u16>)>>>> = OnceLock::new();
    let mut m = CACHE.get_or_init(|| Mutex::new(HashMap::new())).lock().unwrap();
    *m.entry(path).or_insert_with(|| Box::leak(Box::new(composites(path))))
}

/// charstring byte lengths of a CFF fixture (glyph id -> length), for building subsets whose CharStrings
/// INDEX holds an exact number of data bytes
fn cff_charstring_lengths(path: &str) -> Vec<usize> {
    let data = fixture(path);
    let fd = match ReadScope::new(&data).read::<FontData<'_>>() {
        Ok(f) => f,
        Err(_) => return vec![],
    };
    let p = match fd.table_provider(0) {
        Ok(p) => p,
        Err(_) => return vec![],
    };
    let cff_d = match p.table_data(tag::CFF).ok().flatten() {
        Some(d) => d.into_owned(),
        None => return vec![],
    };
    let cff = match ReadScope::new(&cff_d).read::<CFF<'_>>() {
        Ok(c) => c,
        Err(_) => return vec![],
    };
    match cff.fonts.first() {
        Some(f) => (0..f.char_strings_index.len()).map(|i| f.char_strings_index.read_object(i).map(|o| o.len()).unwrap_or(0)).collect(),
        None => vec![],
    }
}

fn cff_lengths_cached(path: &'static str) -> &'static Vec<usize> {
    use std::sync::{Mutex, OnceLock};
    static CACHE: OnceLock<Mutex<HashMap<&'static str, &'static Vec<usize>>>> = OnceLock::new();
    let mut m = CACHE.get_or_init(|| Mutex::new(HashMap::new())).lock().unwrap();
    *m.entry(path).or_insert_with(|| Box::leak(Box::new(cff_charstring_lengths(path))))
}

/// glyph ids (with .notdef) whose charstrings add up to `target` bytes or as close below it as a random
/// greedy fill gets (the exact hit is what crosses an offSize boundary of the INDEX: 255, 65535 data bytes)
fn cff_subset_with_data_size(rng: &mut Rng, lens: &[usize], target: usize) -> Vec<u16> {
    let mut ids: Vec<u16> = vec![0];
    let mut sum = lens.first().copied().unwrap_or(0);
    let n = lens.len().min(65535);
    let mut tries = 0;
    while sum < target && tries < 20000 && ids.len() < n {
        tries += 1;
        let need = target - sum;
        // an exact finisher if one exists among a few random probes, else any glyph that still fits
        let mut pick = None;
        for _ in 0..64 {
            let g = 1 + rng.below(n as u64 - 1) as usize;
            if ids.contains(&(g as u16)) || lens[g] == 0 {
                continue;
            }
            if lens[g] == need {
                pick = Some(g);
                break;
            }
            if lens[g] < need && (need - lens[g] > 8 || need < 300) && pick.is_none() {
                pick = Some(g);
            }
        }
        match pick {
            Some(g) => {
                ids.push(g as u16);
                sum += lens[g];
            }
            None => break,
        }
    }
    ids
}

pub fn gen(rng: &mut Rng) -> String {
    with_synthetic_cmap(gen_plain(rng))
}

fn gen_plain(rng: &mut Rng) -> String {
    match if std::env::var_os("C09_BIG").is_some() { 11 } else { rng.below(12) } {
        0 | 2 | 3 => {
            let (f, n) = *rng.pick(SUBSET_FONTS);
            let k = (1 + rng.below(6) as usize).min(n as usize);
            let mut g: Vec<u16> = vec![0];
            let comps = composites_cached(f);
            let lens = cff_lengths_cached(f);
            if lens.len() > 2 && rng.chance(1, 3) {
                // CFF: a subset whose CharStrings INDEX data is at / next to an offset-size boundary
                let target = *rng.pick(&[255usize, 255, 254, 256, 65535, 65535, 65534, 65536]);
                let g = cff_subset_with_data_size(rng, lens, target);
                return format!("S|{}|{}", f, g.iter().map(|x| x.to_string()).collect::<Vec<_>>().join(","));
            }
            if !comps.is_empty() && rng.chance(1, 2) {
                // a list that ends in a composite glyph whose components precede it, so that the
                // re-encoded composite is the last glyph of the output (odd instruction lengths occur)
                let (c, parts) = rng.pick(comps).clone();
                for _ in 0..rng.below(3) {
                    let x = rng.below(n as u64) as u16;
                    if !g.contains(&x) && x != c {
                        g.push(x);
                    }
                }
                for x in parts {
                    if !g.contains(&x) {
                        g.push(x);
                    }
                }
                if !g.contains(&c) {
                    g.push(c);
                }
                return format!("S|{}|{}", f, g.iter().map(|x| x.to_string()).collect::<Vec<_>>().join(","));
            }
            while g.len() < k {
                let x = rng.below(n as u64) as u16;
                if !g.contains(&x) {
                    g.push(x);
                }
            }
            format!("S|{}|{}", f, g.iter().map(|x| x.to_string()).collect::<Vec<_>>().join(","))
        }
        5 => {
            let line = c12::e2e::gen_e2e(rng);
            format!("V|{}", line.strip_prefix("e2e|").unwrap_or(&line))
        }
        4 => {
            // an undamaged synthetic WOFF2 font from the C11 generator
            loop {
                let line = c11::gen_case(rng);
                let f: Vec<&str> = line.split('|').collect();
                if f[0] == "font" && f.len() == 5 && f[4] != "-" {
                    return format!("Z|{}|{}|{}", f[1], f[2], f[3]);
                }
            }
        }
        1 => {
            let (f, n) = *rng.pick(VAR_FONTS);
            let c: Vec<String> = (0..n).map(|_| ((rng.range(0, 1000) as i32) << 16).to_string()).collect();
            format!("I|{}|{}", f, c.join(","))
        }
        _ => {
            let ntab = match rng.below(8) {
                0 => 0,
                1 => 1,
                _ => rng.below(9) as usize,
            };
            let mut tables: Vec<(u32, Vec<u8>)> = vec![(tag::HEAD, gen_head(rng)), (tag::MAXP, gen_maxp(rng))];
            if std::env::var_os("C09_BIG").is_some() || rng.chance(1, 6000) {
                // around the 4096-table limit of the 16-bit search fields: 4094..4100 tables in all
                let extra = 4092 + rng.below(7) as u32;
                for k in 0..extra {
                    tables.push((0x41000000 + k * 3, vec![]));
                }
            }
            for _ in 0..ntab {
                let t = if rng.chance(1, 6) { rng.next() as u32 } else { *rng.pick(POOL) };
                if t == tag::GLYF || t == tag::LOCA || tables.iter().any(|x| x.0 == t) {
                    continue;
                }
                let len = match rng.below(6) {
                    0 => 0,
                    1 => rng.below(5) as usize,
                    _ => rng.below(40) as usize,
                };
                let d = if rng.chance(1, 4) { vec![0xffu8; len] } else { rng.bytes(len) };
                tables.push((t, d));
            }
            // requested tags: a shuffled subset, sometimes with duplicates, sometimes naming head/maxp
            let big = tables.len() > 4000;
            let mut tags: Vec<u32> = tables.iter().map(|t| t.0).filter(|_| big || rng.chance(4, 5)).collect();
            for i in (1..tags.len()).rev() {
                tags.swap(i, rng.below(i as u64 + 1) as usize);
            }
            if rng.chance(1, 6) && !tags.is_empty() {
                let d = *rng.pick(&tags);
                tags.push(d);
            }
            if rng.chance(1, 10) {
                tags.push(0x7a7a7a7a); // not in the provider: MissingTable error
            }
            if rng.chance(1, 10) {
                // damage head or maxp so that parsing fails
                let which = rng.below(2) as usize;
                let n = rng.below(tables[which].1.len() as u64) as usize;
                tables[which].1.truncate(n);
            }
            let map: HashMap<u32, Vec<u8>> = tables.iter().cloned().collect();
            format!(
                "W|{}|{}|{}",
                tables.iter().map(|(t, d)| format!("{}:{}", t, hex(d))).collect::<Vec<_>>().join(","),
                tags.iter().map(|t| t.to_string()).collect::<Vec<_>>().join(","),
                builder_inserts(&map, &tags)
            )
        }
    }
}

fn main() {
    harness_main(&run, &mut gen);
}
