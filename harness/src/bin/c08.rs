//! C08 correspondence: the cmap path of the subsetter.
//!
//!   B|<plane 1-4>|<k:code:gid,...>                     verif hook cmap_from_pairs (k = u Unicode / s Symbol):
//!                                                      EncodingRecord::from_mappings + owned::Cmap::write
//!   K|<cmap hex>|<os2>|<target u|m>|<glyph ids>        verif hook mappings_to_keep (MappingsToKeep::new)
//!   E|<cmap hex>|<os2>|<num glyphs>|<target u|m>|<glyph ids>|<probe codes>
//!        a synthetic TrueType font (empty glyphs) around the cmap table, subset::subset (u) or
//!        subset::prince::subset(.., PrinceCmapTarget::MacRoman, ..) (m); the cmap table of the output
//!        and what allsorts' own reader returns on its selected sub-table for every probe code
//!        For a Unicode or Big5 source the result ends with `;fl=<u>:<source glyph>:<subset glyph>,...`:
//!        Font::lookup_glyph_index of the source font and of the subset font, for every probe that is a
//!        scalar value and, for a Big5 source, for every character a sweep of the source sub-table
//!        (map_glyph over all 16 bit codes, decoded with allsorts::big5) or of the output sub-table
//!        (map_glyph over every code) finds mapped; `;nrt=<n>` = number of mapped Big5 source codes that
//!        are not the code unicode_to_big5 gives their character (aliases, HKSCS area).
//!   os2: - = no OS/2 table, x = truncated OS/2 table, N = usFirstCharIndex
use allsorts::big5::{big5_to_unicode, unicode_to_big5};
use allsorts::binary::read::ReadScope;
use allsorts::error::{ParseError, WriteError};
use allsorts::font::{find_good_cmap_subtable, Encoding, MatchingPresentation};
use allsorts::macroman::macroman_to_char;
use allsorts::subset::{self, SubsetError};
use allsorts::tables::cmap::{Cmap, CmapSubtable};
use allsorts::tables::{FontTableProvider, OpenTypeFont};
use allsorts::{tag, Font};
use allsorts::verif::cmap_subset::{cmap_from_pairs, mappings_to_keep, HookError};
use avh::prng::{hex, unhex, Rng};
use avh::{harness_main, perr};
use std::borrow::Cow;
use std::collections::{BTreeMap, HashMap};
use std::panic::{catch_unwind, AssertUnwindSafe};

// ------------------------------------------------------------------------------------------------
// running the implementation

fn werr(e: &WriteError) -> &'static str {
    match e {
        WriteError::BadValue => "BadValue",
        WriteError::NotImplemented => "NotImplemented",
        WriteError::PlaceholderMismatch => "PlaceholderMismatch",
    }
}

fn parse_ids(s: &str) -> Vec<u16> {
    if s.is_empty() || s == "-" {
        return vec![];
    }
    s.split(',').map(|x| x.parse::<u16>().unwrap()).collect()
}

fn parse_codes(s: &str) -> Vec<u32> {
    if s.is_empty() || s == "-" {
        return vec![];
    }
    s.split(',').map(|x| x.parse::<u32>().unwrap()).collect()
}

fn run_build(plane: &str, pairs: &str) -> String {
    let plane: u8 = plane.parse().unwrap();
    let pairs: Vec<(bool, u32, u16)> = if pairs == "-" {
        vec![]
    } else {
        pairs
            .split(',')
            .map(|p| {
                let f: Vec<&str> = p.split(':').collect();
                (f[0] == "s", f[1].parse().unwrap(), f[2].parse().unwrap())
            })
            .collect()
    };
    match catch_unwind(AssertUnwindSafe(|| cmap_from_pairs(&pairs, plane))) {
        Err(_) => "p".to_string(),
        Ok(Ok(bytes)) => format!("ok:{}", hex(&bytes)),
        Ok(Err(HookError::BadChar)) => "ebadchar".to_string(),
        Ok(Err(HookError::Parse(e))) => format!("eparse:{}", perr(&e)),
        Ok(Err(HookError::Write(e))) => format!("ewrite:{}", werr(&e)),
    }
}

struct Provider(HashMap<u32, Vec<u8>>);

impl FontTableProvider for Provider {
    fn table_data(&self, tag: u32) -> Result<Option<Cow<'_, [u8]>>, ParseError> {
        Ok(self.0.get(&tag).map(|v| Cow::Borrowed(v.as_slice())))
    }
    fn has_table(&self, tag: u32) -> bool {
        self.0.contains_key(&tag)
    }
    fn table_tags(&self) -> Option<Vec<u32>> {
        Some(self.0.keys().copied().collect())
    }
}

fn os2_table(os2: &str) -> Option<Vec<u8>> {
    match os2 {
        "-" => None,
        "x" => Some(vec![0u8; 10]),
        n => {
            let first: u16 = n.parse().unwrap();
            let mut t = vec![0u8; 68];
            t[64..66].copy_from_slice(&first.to_be_bytes());
            t[66..68].copy_from_slice(&0xFFFFu16.to_be_bytes());
            Some(t)
        }
    }
}

fn run_keep(cmap: &[u8], os2: &str, target: &str, ids: &[u16]) -> String {
    let mut t = HashMap::new();
    t.insert(tag::CMAP, cmap.to_vec());
    if let Some(o) = os2_table(os2) {
        t.insert(tag::OS_2, o);
    }
    let provider = Provider(t);
    match catch_unwind(AssertUnwindSafe(|| mappings_to_keep(&provider, ids, target == "m"))) {
        Err(_) => "p".to_string(),
        Ok(Err(e)) => format!("e{}", perr(&e)),
        Ok(Ok((plane, pairs))) => {
            let items: Vec<String> = pairs
                .iter()
                .map(|&(sym, c, g)| format!("{}:{}:{}", if sym { "s" } else { "u" }, c, g))
                .collect();
            format!("ok:{};{}", plane, items.join(","))
        }
    }
}

/// a TrueType font with `n` empty glyphs around the given cmap table
fn synthetic_font(cmap: &[u8], os2: &str, n: u16) -> Provider {
    let mut t = HashMap::new();
    let mut head = vec![0u8; 54];
    head[0..4].copy_from_slice(&[0, 1, 0, 0]);
    head[12..16].copy_from_slice(&0x5F0F3CF5u32.to_be_bytes());
    head[18..20].copy_from_slice(&1000u16.to_be_bytes());
    t.insert(tag::HEAD, head);
    let mut maxp = vec![0u8; 6];
    maxp[0..4].copy_from_slice(&0x00005000u32.to_be_bytes());
    maxp[4..6].copy_from_slice(&n.to_be_bytes());
    t.insert(tag::MAXP, maxp);
    let mut hhea = vec![0u8; 36];
    hhea[0..2].copy_from_slice(&1u16.to_be_bytes());
    hhea[34..36].copy_from_slice(&1u16.to_be_bytes());
    t.insert(tag::HHEA, hhea);
    t.insert(tag::HMTX, vec![0u8; 4 + 2 * (n as usize).saturating_sub(1)]);
    t.insert(tag::LOCA, vec![0u8; 2 * (n as usize + 1)]);
    t.insert(tag::GLYF, vec![]);
    let mut post = vec![0u8; 32];
    post[0..4].copy_from_slice(&0x00030000u32.to_be_bytes());
    t.insert(tag::POST, post);
    t.insert(tag::CMAP, cmap.to_vec());
    if let Some(o) = os2_table(os2) {
        t.insert(tag::OS_2, o);
    }
    Provider(t)
}

fn subset_err(e: &SubsetError) -> String {
    match e {
        SubsetError::Parse(p) => format!("eparse:{}", perr(p)),
        SubsetError::Write(w) => format!("ewrite:{}", werr(w)),
        SubsetError::CFF(_) => "ecff".to_string(),
        SubsetError::NotDef => "enotdef".to_string(),
        SubsetError::TooManyGlyphs => "etoomany".to_string(),
        SubsetError::InvalidFontCount => "efontcount".to_string(),
    }
}

fn enc_name(e: Encoding) -> &'static str {
    match e {
        Encoding::Unicode => "Unicode",
        Encoding::Symbol => "Symbol",
        Encoding::AppleRoman => "AppleRoman",
        Encoding::Big5 => "Big5",
    }
}

fn run_end_to_end(cmap: &[u8], os2: &str, n: u16, target: &str, ids: &[u16], probes: &[u32]) -> String {
    let provider = synthetic_font(cmap, os2, n);
    let res = catch_unwind(AssertUnwindSafe(|| {
        if target == "m" {
            subset::prince::subset(&provider, ids, subset::prince::PrinceCmapTarget::MacRoman, false)
        } else {
            subset::subset(&provider, ids)
        }
    }));
    let out = match res {
        Err(_) => return "p".to_string(),
        Ok(Err(e)) => return subset_err(&e),
        Ok(Ok(bytes)) => bytes,
    };
    // read the output back with allsorts
    let read = catch_unwind(AssertUnwindSafe(|| -> Result<String, ParseError> {
        let file = ReadScope::new(&out).read::<OpenTypeFont<'_>>()?;
        let tp = file.table_provider(0)?;
        let cmap_data = tp.read_table_data(tag::CMAP)?;
        let cmap_out = ReadScope::new(&cmap_data).read::<Cmap<'_>>()?;
        let (enc, rec) = find_good_cmap_subtable(&cmap_out).ok_or(ParseError::UnsuitableCmap)?;
        let st = cmap_out
            .scope
            .offset(rec.offset as usize)
            .read::<CmapSubtable<'_>>()?;
        let g: Vec<String> = probes
            .iter()
            .map(|&p| match st.map_glyph(p) {
                Ok(Some(g)) => g.to_string(),
                _ => "0".to_string(),
            })
            .collect();
        let fl = font_level(cmap, os2, n, file.table_provider(0)?, enc, &st, probes);
        Ok(format!("ok:{};enc={};g={}{}", hex(&cmap_data), enc_name(enc), g.join(","), fl))
    }));
    match read {
        Err(_) => "readback:p".to_string(),
        Ok(Err(e)) => format!("readback:e{}", perr(&e)),
        Ok(Ok(s)) => s,
    }
}

/// `;fl=..` (and `;nrt=..`): Font::lookup_glyph_index on the source font and on the subset font.
/// Only for sources whose selected sub-table is Unicode or Big5 (for Mac Roman / Symbol sources the
/// Font level adds the legacy symbol path and the OS/2 table the subsetter drops: judged by code).
fn font_level(
    cmap: &[u8],
    os2: &str,
    n: u16,
    out_provider: impl FontTableProvider,
    out_enc: Encoding,
    out_st: &CmapSubtable<'_>,
    probes: &[u32],
) -> String {
    let src_cmap = match ReadScope::new(cmap).read::<Cmap<'_>>() {
        Ok(c) => c,
        Err(_) => return String::new(),
    };
    let (src_enc, src_rec) = match find_good_cmap_subtable(&src_cmap) {
        Some(x) => x,
        None => return String::new(),
    };
    if src_enc != Encoding::Unicode && src_enc != Encoding::Big5 {
        return String::new();
    }
    // format 2 source: a two byte code whose first byte is not a lead byte (subHeaderKey 0) and a lead byte
    // used as a one byte code are not codes of the table (mappings_fn does not enumerate them, map_glyph
    // answers with the sub-header 0 entry of the low byte): they count as unmapped, source glyph 0
    let so = src_rec.offset as usize;
    let is_f2 = cmap.len() >= so + 6 + 512 && cmap[so] == 0 && cmap[so + 1] == 2;
    let lead = |hb: u32| -> bool {
        let at = so + 6 + 2 * hb as usize;
        u16::from_be_bytes([cmap[at], cmap[at + 1]]) / 8 != 0
    };
    let improper = |c: u32| -> bool {
        is_f2 && (c > 0xFFFF || if c < 0x100 { lead(c) } else { !lead(c >> 8) })
    };
    let src_code = |u: char| -> Option<u32> {
        if src_enc == Encoding::Big5 {
            unicode_to_big5(u).map(u32::from)
        } else {
            Some(u as u32)
        }
    };
    let mut chars: Vec<u32> = probes.iter().copied().filter(|p| char::from_u32(*p).is_some()).collect();
    let mut nrt = 0usize;
    if src_enc == Encoding::Big5 {
        // every character the source sub-table maps (lookups, not the enumeration the subsetter uses)
        if let Ok(src_st) = src_cmap.scope.offset(src_rec.offset as usize).read::<CmapSubtable<'_>>() {
            for c in 0..=0xFFFFu32 {
                if let Ok(Some(g)) = src_st.map_glyph(c) {
                    if g != 0 && !improper(c) {
                        match big5_to_unicode(c as u16) {
                            Some(u) => {
                                chars.push(u as u32);
                                if unicode_to_big5(u) != Some(c as u16) {
                                    nrt += 1;
                                }
                            }
                            None => nrt += 1,
                        }
                    }
                }
            }
        }
        // every character the output sub-table maps
        match out_enc {
            Encoding::AppleRoman => {
                for b in 0..=255u8 {
                    if let (Ok(Some(g)), Some(u)) = (out_st.map_glyph(u32::from(b)), macroman_to_char(b)) {
                        if g != 0 {
                            chars.push(u as u32);
                        }
                    }
                }
            }
            _ => {
                let hi = if matches!(out_st, CmapSubtable::Format12 { .. }) { 0x30000u32 } else { 0x10000 };
                for c in 0..hi {
                    if let Ok(Some(g)) = out_st.map_glyph(c) {
                        if g != 0 && char::from_u32(c).is_some() {
                            chars.push(c);
                        }
                    }
                }
            }
        }
    }
    chars.sort();
    chars.dedup();
    let mut src_font = match Font::new(synthetic_font(cmap, os2, n)) {
        Ok(f) => f,
        Err(e) => return format!(";fl=srcfont:e{}", perr(&e)),
    };
    let mut out_font = match Font::new(out_provider) {
        Ok(f) => f,
        Err(e) => return format!(";fl=outfont:e{}", perr(&e)),
    };
    let items: Vec<String> = chars
        .iter()
        .map(|&u| {
            let ch = char::from_u32(u).unwrap();
            let (sg, _) = src_font.lookup_glyph_index(ch, MatchingPresentation::NotRequired, None);
            let sg = if src_code(ch).map_or(false, improper) { 0 } else { sg };
            let (og, _) = out_font.lookup_glyph_index(ch, MatchingPresentation::NotRequired, None);
            format!("{}:{}:{}", u, sg, og)
        })
        .collect();
    let nrt_s = if src_enc == Encoding::Big5 { format!(";nrt={}", nrt) } else { String::new() };
    format!("{};fl={}", nrt_s, if items.is_empty() { "-".to_string() } else { items.join(",") })
}

fn run(input: &str) -> String {
    let parts: Vec<&str> = input.split('|').collect();
    match parts.as_slice() {
        ["B", plane, pairs] => run_build(plane, pairs),
        ["K", h, os2, target, ids] => run_keep(&unhex(h), os2, target, &parse_ids(ids)),
        ["E", h, os2, n, target, ids, probes] => run_end_to_end(
            &unhex(h),
            os2,
            n.parse().unwrap(),
            target,
            &parse_ids(ids),
            &parse_codes(probes),
        ),
        _ => "badinput".to_string(),
    }
}

// ------------------------------------------------------------------------------------------------
// generating inputs

fn w16(v: &mut Vec<u8>, x: u32) {
    v.extend_from_slice(&(x as u16).to_be_bytes());
}
fn w32(v: &mut Vec<u8>, x: u32) {
    v.extend_from_slice(&x.to_be_bytes());
}

const MACROMAN: &[u32] = &[
    0xC4, 0xC5, 0xC7, 0xC9, 0xD1, 0xD6, 0xDC, 0xE1, 0xE0, 0xE2, 0xE4, 0xE3, 0xE5, 0xE7, 0xE9, 0xE8, 0x2020, 0xB0,
    0xA2, 0xA3, 0xA7, 0x2022, 0xB6, 0xDF, 0xAE, 0xA9, 0x2122, 0xB4, 0xA8, 0xC6, 0xD8, 0xB1, 0xA5, 0xB5, 0xAA,
    0xBA, 0xE6, 0xF8, 0xBF, 0xA1, 0xAC, 0x192, 0xAB, 0xBB, 0x2026, 0xA0, 0xC0, 0xC3, 0xD5, 0x152, 0x153, 0x2013,
    0x2014, 0x201C, 0x201D, 0x2018, 0x2019, 0xF7, 0xFF, 0x178, 0x2044, 0xA4, 0x2039, 0x203A, 0xFB01, 0xFB02,
    0x2021, 0xB7, 0x201A, 0x201E, 0x2030, 0xC2, 0xCA, 0xC1, 0xCB, 0xC8, 0xCD, 0xCE, 0xCF, 0xCC, 0xD3, 0xD4,
    0xD2, 0xDA, 0xDB, 0xD9, 0x131, 0x2C6, 0x2DC, 0xAF, 0x2D8, 0x2D9, 0x2DA, 0xB8, 0x2DD, 0x2DB, 0x2C7,
];

#[derive(Clone, Copy, PartialEq)]
enum Kind {
    MacRoman,
    Bmp,
    Astral,
    SymbolHigh,
    SymbolLow,
    /// Big5 codes (platform 3 encoding 4): ASCII single bytes and two byte codes
    Big5,
}

/// a Big5 code the Font level can see: its character encodes back to the same code
fn big5_roundtrips(c: u32) -> bool {
    match big5_to_unicode(c as u16) {
        Some(u) => unicode_to_big5(u) == Some(c as u16),
        None => false,
    }
}

/// Big5 codes: some ASCII bytes and clusters of trail bytes (runs and gaps) under a few lead bytes
fn gen_big5_codes(rng: &mut Rng, count: usize) -> Vec<u32> {
    let mut set = std::collections::BTreeSet::new();
    let nsingle = if rng.chance(1, 4) { 0 } else { rng.below((count as u64).min(12) + 1) as usize };
    for _ in 0..nsingle {
        set.insert(0x20 + rng.below(0x5F) as u32);
    }
    let nleads = 1 + rng.below(4) as usize;
    for _ in 0..nleads {
        let lead: u32 = match rng.below(6) {
            0 => 0xA1 + rng.below(3) as u32,  // symbols
            1 => 0xC9 + rng.below(0x31) as u32, // level 2 hanzi
            _ => 0xA4 + rng.below(0x22) as u32, // frequently used hanzi
        };
        let mut low: u32 = match rng.below(4) {
            0 => 0x40,
            1 => 0xA1,
            _ => 0x40 + rng.below(0x30) as u32,
        };
        let per = 1 + count / nleads;
        let mut n = 0;
        while n < per && low <= 0xFE {
            let run = 1 + rng.below(5) as u32;
            for _ in 0..run {
                let trail_ok = (0x40..=0x7E).contains(&low) || (0xA1..=0xFE).contains(&low);
                if trail_ok && n < per {
                    set.insert((lead << 8) | low);
                    n += 1;
                }
                low += 1;
            }
            low += match rng.below(4) {
                0 => 0,
                1 => 1,
                2 => 2 + rng.below(3) as u32,
                _ => 1 + rng.below(0x30) as u32,
            };
        }
    }
    set.into_iter().filter(|c| big5_roundtrips(*c)).take(count.max(1)).collect()
}

/// a sorted set of codes with the gap structure the format 4 builder is sensitive to
fn gen_codes(rng: &mut Rng, kind: Kind, count: usize) -> Vec<u32> {
    let mut set = std::collections::BTreeSet::new();
    match kind {
        Kind::MacRoman => {
            while set.len() < count.min(150) {
                if rng.chance(2, 3) {
                    set.insert(0x20 + rng.below(0x60) as u32);
                } else {
                    set.insert(*rng.pick(MACROMAN));
                }
            }
        }
        _ => {
            let (lo, hi): (u32, u32) = match kind {
                Kind::Bmp => (0x20, 0xFFFF),
                Kind::Astral => (0x20, 0x10FFFF),
                Kind::SymbolHigh => (0xF020, 0xF0FF),
                _ => (0x20, 0xFF),
            };
            let mut cur = match rng.below(6) {
                0 => lo,
                1 if kind == Kind::Bmp => 0xFFFF - rng.below(40) as u32,
                2 if kind == Kind::Astral => 0x1F000 + rng.below(0x800) as u32,
                3 if kind == Kind::Astral => 0xFFF0 + rng.below(0x20) as u32,
                _ => lo + rng.below((hi - lo).min(0x3000) as u64) as u32,
            };
            while set.len() < count && cur <= hi {
                // a run of consecutive codes, then a gap of 1..6 or a jump
                let run = match rng.below(6) {
                    0 => 1,
                    1 => 3,
                    2 => 4,
                    3 => 5,
                    _ => 1 + rng.below(9) as u32,
                };
                for _ in 0..run {
                    if cur <= hi && set.len() < count && !(0xD800..=0xDFFF).contains(&cur) {
                        set.insert(cur);
                    }
                    cur += 1;
                }
                let gap = match rng.below(8) {
                    0 | 1 => 1 + rng.below(6) as u32,
                    2 => 3,
                    3 => 4,
                    4 => 5,
                    5 => 1,
                    _ => {
                        if kind == Kind::Bmp || kind == Kind::Astral {
                            1 + rng.below(0x400) as u32
                        } else {
                            1 + rng.below(4) as u32
                        }
                    }
                };
                cur += gap;
                if kind == Kind::Astral && rng.chance(1, 10) && cur < 0x10000 {
                    cur = 0x10000 + rng.below(0x10000) as u32;
                }
            }
        }
    }
    set.into_iter().collect()
}

/// glyph ids for the codes: runs of consecutive ids and random ids in 1..max
fn gen_gids(rng: &mut Rng, n: usize, max: u32) -> Vec<u32> {
    let mut out = vec![];
    let mut cur = 1 + rng.below(max as u64 - 1) as u32;
    while out.len() < n {
        let run = match rng.below(5) {
            0 => 1,
            1 => 3 + rng.below(3) as u32,
            _ => 1 + rng.below(8) as u32,
        };
        let consecutive = rng.chance(1, 2);
        for _ in 0..run {
            if out.len() < n {
                out.push(cur);
                cur = if consecutive { cur + 1 } else { 1 + rng.below(max as u64 - 1) as u32 };
                if cur >= max {
                    cur = 1 + rng.below(max as u64 - 1) as u32;
                }
            }
        }
        if rng.chance(1, 3) {
            cur = 1 + rng.below(max as u64 - 1) as u32;
        }
    }
    out
}

/// render a sorted mapping as a format 4 sub-table (runs of codes become segments, by idDelta when
/// the glyph ids are consecutive, through glyphIdArray otherwise, sometimes spanning small gaps)
fn render_format4(rng: &mut Rng, m: &[(u32, u32)]) -> Vec<u8> {
    let mut segs: Vec<(u32, u32, Vec<u32>)> = vec![]; // start, end, glyph per code (0 = gap)
    for &(c, g) in m.iter().filter(|p| p.0 <= 0xFFFF) {
        let extend = match segs.last() {
            Some((_, e, _)) => c > *e && c - *e <= 3 && (c - *e == 1 || rng.chance(1, 2)) && !rng.chance(1, 10),
            None => false,
        };
        if extend {
            let last = segs.last_mut().unwrap();
            for _ in last.1 + 1..c {
                last.2.push(0);
            }
            last.2.push(g);
            last.1 = c;
        } else {
            segs.push((c, c, vec![g]));
        }
    }
    if segs.last().map_or(true, |s| s.1 != 0xFFFF) {
        segs.push((0xFFFF, 0xFFFF, vec![0]));
    }
    let nseg = segs.len();
    let mut gids: Vec<u32> = vec![];
    let mut ros = vec![];
    let mut deltas = vec![];
    for (i, (s, _e, gs)) in segs.iter().enumerate() {
        let consecutive = gs.windows(2).all(|w| w[1] == w[0] + 1) && gs[0] != 0;
        if (consecutive && rng.chance(3, 4)) || (gs.len() == 1 && gs[0] == 0) {
            deltas.push((0x10000 + gs[0] - (s & 0xFFFF)) & 0xFFFF);
            ros.push(0);
        } else {
            deltas.push(0);
            ros.push(2 * (nseg - i) as u32 + 2 * gids.len() as u32);
            gids.extend_from_slice(gs);
        }
    }
    let mut v = vec![];
    w16(&mut v, 4);
    w16(&mut v, 16 + 8 * nseg as u32 + 2 * gids.len() as u32);
    w16(&mut v, 0);
    w16(&mut v, 2 * nseg as u32);
    w16(&mut v, 0);
    w16(&mut v, 0);
    w16(&mut v, 0);
    for s in &segs {
        w16(&mut v, s.1);
    }
    w16(&mut v, 0);
    for s in &segs {
        w16(&mut v, s.0);
    }
    for &d in &deltas {
        w16(&mut v, d);
    }
    for &r in &ros {
        w16(&mut v, r);
    }
    for &g in &gids {
        w16(&mut v, g);
    }
    v
}

/// render a sorted mapping (codes up to 0xFFFF) as a format 2 sub-table.  Codes below 0x100 are single
/// bytes in sub-header 0, the others two byte codes under their lead byte (a single byte code that is also a
/// lead byte is dropped: returned mapping).  Every sub-header range may be wider than the codes it
/// holds (holes = glyphIndexArray entries 0, before, between and after), idDelta is 0, random, or ON PURPOSE the
/// id of a glyph of the font (so that "0 is the missing glyph, not idDelta" matters), lead bytes
/// sometimes share one sub-header.  Returns the table, the mapping it holds and the codes of its holes.
fn render_format2(rng: &mut Rng, m: &[(u32, u32)], num_glyphs: u32, share: bool) -> (Vec<u8>, Vec<(u32, u32)>, Vec<u32>) {
    use std::collections::BTreeMap;
    let mut pages: BTreeMap<u32, Vec<(u32, u32)>> = BTreeMap::new();
    for &(c, g) in m.iter().filter(|p| p.0 >= 0x100 && p.0 <= 0xFFFF) {
        pages.entry(c >> 8).or_default().push((c & 0xFF, g));
    }
    let singles: Vec<(u32, u32)> =
        m.iter().copied().filter(|p| p.0 < 0x100 && !pages.contains_key(&p.0)).collect();
    // the entries of one sub-header: (first, array of final glyph ids, 0 = hole)
    let layout = |rng: &mut Rng, codes: &[(u32, u32)], wide: bool| -> (u32, Vec<u32>) {
        if codes.is_empty() {
            return (rng.below(0x100) as u32, vec![]);
        }
        let lo = codes.first().unwrap().0;
        let hi = codes.last().unwrap().0;
        let before = if wide { lo } else { rng.below(4).min(lo as u64) as u32 };
        let after = if wide { 0xFF - hi } else { rng.below(4).min((0xFF - hi) as u64) as u32 };
        let first = lo - before;
        let mut arr = vec![0u32; (hi + after - first + 1) as usize];
        for &(c, g) in codes {
            arr[(c - first) as usize] = g;
        }
        (first, arr)
    };
    let mut subs: Vec<(u32, Vec<u32>)> = vec![];
    let wide0 = rng.chance(1, 3);
    subs.push(layout(rng, &singles, wide0));
    let mut keys = vec![0u32; 256];
    let mut held: Vec<(u32, u32)> = singles.clone();
    let mut prev_lead: Option<(u32, usize)> = None;
    for (&lead, codes) in &pages {
        // share the sub-header of the previous lead byte: same trail bytes, same glyphs
        if let Some((_, k)) = prev_lead {
            if share && rng.chance(1, 6) {
                keys[lead as usize] = 8 * k as u32;
                let (first, arr) = &subs[k];
                for (i, &g) in arr.iter().enumerate() {
                    if g != 0 {
                        held.push(((lead << 8) | (first + i as u32), g));
                    }
                }
                continue;
            }
        }
        let wide = rng.chance(1, 8);
        subs.push(layout(rng, codes, wide));
        keys[lead as usize] = 8 * (subs.len() as u32 - 1);
        prev_lead = Some((lead, subs.len() - 1));
        for &(l, g) in codes {
            held.push(((lead << 8) | l, g));
        }
    }
    held.sort();
    // holes: every code of a sub-header range without a glyph
    let mut holes = vec![];
    for hb in 0..256u32 {
        let k = (keys[hb as usize] / 8) as usize;
        let (first, arr) = &subs[k];
        for (i, &g) in arr.iter().enumerate() {
            let low = first + i as u32;
            if g == 0 && low <= 0xFF {
                if k == 0 {
                    if low == hb {
                        holes.push(hb);
                    }
                } else {
                    holes.push((hb << 8) | low);
                }
            }
        }
    }
    // idDelta per sub-header; the stored word of a glyph must not be 0
    let all_gids: Vec<u32> = m.iter().map(|p| p.1).collect();
    let nsub = subs.len();
    let mut v = vec![];
    let glyph_words: usize = subs.iter().map(|s| s.1.len()).sum();
    w16(&mut v, 2);
    w16(&mut v, (6 + 512 + 8 * nsub + 2 * glyph_words) as u32);
    w16(&mut v, 0);
    for &k in &keys {
        w16(&mut v, k);
    }
    let mut at = 0usize;
    let mut words: Vec<u32> = vec![];
    for (k, (first, arr)) in subs.iter().enumerate() {
        let mut delta: u32 = match rng.below(8) {
            0 | 1 => 0,
            2 => 0xFFFF,
            3 => rng.below(0x10000) as u32,
            4 => 1 + rng.below(num_glyphs.max(2) as u64 - 1) as u32,
            _ => {
                if all_gids.is_empty() {
                    1
                } else {
                    *rng.pick(&all_gids)
                }
            }
        };
        if arr.iter().any(|&g| g != 0 && g == delta) {
            delta = if arr.iter().any(|&g| g == 1) { 0 } else { 1 };
        }
        w16(&mut v, *first);
        w16(&mut v, arr.len() as u32);
        w16(&mut v, delta);
        // idRangeOffset is relative to its own position: 2 bytes before the end of sub-header k
        w16(&mut v, (8 * (nsub - k) - 6 + 2 * at) as u32);
        for &g in arr {
            words.push(if g == 0 { 0 } else { (0x10000 + g - delta) & 0xFFFF });
        }
        at += arr.len();
    }
    for &w in &words {
        w16(&mut v, w);
    }
    (v, held, holes)
}

fn render_format12(rng: &mut Rng, m: &[(u32, u32)]) -> Vec<u8> {
    let mut groups: Vec<(u32, u32, u32)> = vec![];
    for &(c, g) in m {
        let extend = match groups.last() {
            Some(&(s, e, sg)) => c == e + 1 && g == sg + (c - s) && !rng.chance(1, 10),
            None => false,
        };
        if extend {
            groups.last_mut().unwrap().1 = c;
        } else {
            groups.push((c, c, g));
        }
    }
    let mut v = vec![];
    w16(&mut v, 12);
    w16(&mut v, 0);
    w32(&mut v, 16 + 12 * groups.len() as u32);
    w32(&mut v, 0);
    w32(&mut v, groups.len() as u32);
    for &(s, e, g) in &groups {
        w32(&mut v, s);
        w32(&mut v, e);
        w32(&mut v, g);
    }
    v
}

/// bytes -> glyph: format 0 (glyph ids above 255 cannot be stored) or format 6
fn render_byte_table(rng: &mut Rng, m: &[(u32, u32)]) -> Vec<u8> {
    let small = m.iter().all(|p| p.1 <= 255 && p.0 <= 255);
    let mut v = vec![];
    if small && rng.chance(1, 2) {
        let mut arr = [0u8; 256];
        for &(c, g) in m {
            arr[c as usize] = g as u8;
        }
        w16(&mut v, 0);
        w16(&mut v, 262);
        w16(&mut v, 0);
        v.extend_from_slice(&arr);
    } else {
        let first = m.first().map_or(0, |p| p.0);
        let last = m.last().map_or(0, |p| p.0);
        let count = if m.is_empty() { 0 } else { last - first + 1 };
        let mut arr = vec![0u32; count as usize];
        for &(c, g) in m {
            arr[(c - first) as usize] = g;
        }
        w16(&mut v, 6);
        w16(&mut v, 10 + 2 * count);
        w16(&mut v, 0);
        w16(&mut v, first);
        w16(&mut v, count);
        for &g in &arr {
            w16(&mut v, g);
        }
    }
    v
}

struct Source {
    cmap: Vec<u8>,
    os2: String,
    num_glyphs: u32,
    codes: Vec<u32>, // codes of the selected sub-table (in its own code space)
    gids: Vec<u32>,
    kind: Kind,
    /// codes inside the ranges of the selected sub-table that have no glyph (format 2 holes)
    holes: Vec<u32>,
}

/// the Mac Roman byte of a character of MACROMAN / ASCII
fn macroman_byte(c: u32) -> u32 {
    if c < 0x80 {
        c
    } else {
        allsorts::macroman::char_to_macroman(char::from_u32(c).unwrap()).unwrap() as u32
    }
}

fn gen_source(rng: &mut Rng) -> Source {
    let kind = *rng.pick(&[
        Kind::MacRoman, Kind::MacRoman, Kind::Bmp, Kind::Bmp, Kind::Bmp, Kind::Astral, Kind::Astral, Kind::SymbolHigh,
        Kind::SymbolLow, Kind::Big5, Kind::Big5,
    ]);
    let big = rng.chance(1, 12);
    let count = if big { 260 + rng.below(400) as usize } else { rng.below(40) as usize };
    let num_glyphs: u32 = if big { 300 + rng.below(1500) as u32 } else { 2 + rng.below(400) as u32 };
    let codes = if kind == Kind::Big5 { gen_big5_codes(rng, count) } else { gen_codes(rng, kind, count) };
    let gids = gen_gids(rng, codes.len(), num_glyphs.max(2));
    let m: Vec<(u32, u32)> = codes.iter().copied().zip(gids.iter().copied()).collect();
    // format 2 (single bytes + lead byte pages) instead of the usual format of the encoding
    let f2 = rng.chance(1, 4) && m.iter().all(|p| p.0 <= 0xFFFF);
    let mut held: Option<(Vec<(u32, u32)>, Vec<u32>)> = None;
    // the encoding record that will be selected, and how the characters are stored in it
    let (pl, en, sub): (u32, u32, Vec<u8>) = match kind {
        Kind::MacRoman => {
            if rng.chance(1, 2) {
                // a Mac Roman sub-table: codes are bytes
                let mut bm: Vec<(u32, u32)> = m.iter().map(|&(c, g)| (macroman_byte(c), g)).collect();
                bm.sort();
                if f2 {
                    let (t, h, holes) = render_format2(rng, &bm, num_glyphs, false);
                    held = Some((h, holes));
                    (1, 0, t)
                } else {
                    (1, 0, render_byte_table(rng, &bm))
                }
            } else {
                let (pl, en) = *rng.pick(&[(3u32, 1u32), (0, 3)]);
                if f2 {
                    let (t, h, holes) = render_format2(rng, &m, num_glyphs, true);
                    held = Some((h, holes));
                    (pl, en, t)
                } else {
                    (pl, en, render_format4(rng, &m))
                }
            }
        }
        Kind::Bmp => {
            let (pl, en) = *rng.pick(&[(3u32, 1u32), (0, 3), (0, 4), (3, 10)]);
            if f2 {
                let (t, h, holes) = render_format2(rng, &m, num_glyphs, true);
                held = Some((h, holes));
                (pl, en, t)
            } else if en == 4 || en == 10 {
                (pl, en, render_format12(rng, &m))
            } else {
                (pl, en, render_format4(rng, &m))
            }
        }
        Kind::Astral => {
            let (pl, en) = *rng.pick(&[(3u32, 10u32), (0, 4)]);
            (pl, en, render_format12(rng, &m))
        }
        Kind::SymbolHigh | Kind::SymbolLow => {
            if f2 {
                let (t, h, holes) = render_format2(rng, &m, num_glyphs, false);
                held = Some((h, holes));
                (3, 0, t)
            } else {
                (3, 0, render_format4(rng, &m))
            }
        }
        Kind::Big5 => {
            // format 2 is the format of Big5 fonts; format 4 with Big5 codes is allowed too
            if rng.chance(3, 4) {
                let (t, h, holes) = render_format2(rng, &m, num_glyphs, false);
                held = Some((h, holes));
                (3, 4, t)
            } else {
                (3, 4, render_format4(rng, &m))
            }
        }
    };
    let mut holes = vec![];
    let (codes_in_table, gids): (Vec<u32>, Vec<u32>) = match held {
        Some((h, hs)) => {
            holes = hs;
            (h.iter().map(|p| p.0).collect(), h.iter().map(|p| p.1).collect())
        }
        None => {
            if pl == 1 {
                (m.iter().map(|&(c, _)| macroman_byte(c)).collect(), gids)
            } else {
                (codes.clone(), gids)
            }
        }
    };
    // optionally a second, lower priority record
    let mut recs: Vec<(u32, u32, usize)> = vec![(pl, en, 0)];
    let mut subs = vec![sub];
    if rng.chance(1, 4) && pl != 1 {
        let other: Vec<(u32, u32)> = (0..rng.below(6)).map(|i| (0x41 + i as u32, 1)).collect();
        subs.push(render_byte_table(rng, &other));
        // Apple Roman is preferred to Big5: there the other record is Windows PRC, never selected
        recs.push(if kind == Kind::Big5 { (3, 3, 1) } else { (1, 0, 1) });
    }
    recs.sort();
    let header = 4 + 8 * recs.len();
    let mut offs = vec![];
    let mut pos = header;
    for s in &subs {
        offs.push(pos as u32);
        pos += s.len();
    }
    let mut cmap = vec![];
    w16(&mut cmap, 0);
    w16(&mut cmap, recs.len() as u32);
    for &(p, e, k) in &recs {
        w16(&mut cmap, p);
        w16(&mut cmap, e);
        w32(&mut cmap, offs[k]);
    }
    for s in &subs {
        cmap.extend_from_slice(s);
    }
    let os2 = match kind {
        Kind::SymbolHigh => match rng.below(6) {
            0 => "-".to_string(),
            1 => "x".to_string(),
            2 => "32".to_string(),
            3 => (0xF000 + rng.below(0x200)).to_string(),
            _ => "61472".to_string(),
        },
        Kind::SymbolLow => match rng.below(5) {
            0 => "-".to_string(),
            1 => rng.below(0x40).to_string(),
            2 => "61472".to_string(),
            3 => rng.below(0x10000).to_string(),
            _ => "32".to_string(),
        },
        _ => match rng.below(6) {
            0 => "32".to_string(),
            1 => "x".to_string(),
            _ => "-".to_string(),
        },
    };
    Source { cmap, os2, num_glyphs, codes: codes_in_table, gids, kind, holes }
}

fn join<T: ToString>(v: &[T]) -> String {
    if v.is_empty() {
        return "-".to_string();
    }
    v.iter().map(|x| x.to_string()).collect::<Vec<_>>().join(",")
}

/// glyph 0 first, then a random selection of mapped and unmapped glyphs, no duplicates
fn gen_glyph_ids(rng: &mut Rng, src: &Source) -> Vec<u32> {
    let mut ids: Vec<u32> = vec![0];
    let mut seen = std::collections::HashSet::new();
    seen.insert(0u32);
    let keep_num = match rng.below(4) {
        0 => 1u64,
        1 => 3,
        _ => 2,
    };
    for &g in &src.gids {
        if rng.below(4) < keep_num && g < src.num_glyphs && seen.insert(g) {
            ids.push(g);
        }
    }
    // unmapped glyphs; sometimes many, so that new ids exceed 255
    let extra = if rng.chance(1, 5) { 250 + rng.below(200) } else { rng.below(6) };
    for _ in 0..extra {
        let g = rng.below(src.num_glyphs as u64) as u32;
        if seen.insert(g) {
            ids.push(g);
        }
    }
    // order: glyph 0 stays first, the rest shuffled or sorted
    let tail = &mut ids[1..];
    if rng.chance(1, 2) {
        tail.sort();
    } else {
        for i in (1..tail.len()).rev() {
            let j = rng.below(i as u64 + 1) as usize;
            tail.swap(i, j);
        }
    }
    if rng.chance(1, 40) {
        ids.remove(0); // .notdef missing
    }
    if rng.chance(1, 40) {
        ids.push(src.num_glyphs + rng.below(3) as u32); // not a glyph of the font
    }
    ids
}

fn gen_e(rng: &mut Rng) -> String {
    let src = gen_source(rng);
    let ids = gen_glyph_ids(rng, &src);
    let target = if rng.chance(1, 3) { "m" } else { "u" };
    // probes: output codes.  Characters of the source (as Unicode / byte / symbol code), neighbours, fixed points
    let mut probes: Vec<u32> = vec![];
    // a Big5 source is read through its characters: the output is a Unicode (or Mac Roman) table
    let big5 = src.kind == Kind::Big5;
    let as_char = |c: u32| -> u32 {
        if big5 && c <= 0xFFFF {
            big5_to_unicode(c as u16).map_or(c, |u| u as u32)
        } else {
            c
        }
    };
    // the holes of the source ranges first: characters the source does NOT map
    let nh = src.holes.len();
    for i in 0..nh.min(30) {
        let h = if nh <= 30 { src.holes[i] } else { src.holes[rng.below(nh as u64) as usize] };
        probes.push(as_char(h));
    }
    for &c in src.codes.iter().take(60) {
        probes.push(as_char(c));
        if rng.chance(1, 3) {
            probes.push(as_char(c + 1));
            probes.push(as_char(c.wrapping_sub(1)));
        }
    }
    if src.kind == Kind::MacRoman || target == "m" {
        for _ in 0..6 {
            probes.push(rng.below(256) as u32);
        }
        probes.push(*rng.pick(MACROMAN));
    }
    if matches!(src.kind, Kind::SymbolHigh | Kind::SymbolLow) {
        for &c in src.codes.iter().take(20) {
            probes.push(c & 0xFF);
            probes.push(0xF000 | (c & 0xFF));
        }
    }
    for &x in &[0u32, 0x41, 0xFFFF, 0x10000, 0x10FFFF] {
        probes.push(x);
    }
    probes.push(rng.below(0x11_0000) as u32);
    let mut seen = std::collections::HashSet::new();
    probes.retain(|x| seen.insert(*x));
    probes.truncate(120);
    format!(
        "E|{}|{}|{}|{}|{}|{}",
        hex(&src.cmap),
        src.os2,
        src.num_glyphs,
        target,
        join(&ids),
        join(&probes)
    )
}

fn gen_k(rng: &mut Rng) -> String {
    let mut src = gen_source(rng);
    // occasionally damage the table
    if rng.chance(1, 10) && !src.cmap.is_empty() {
        match rng.below(3) {
            0 => {
                let n = rng.below(src.cmap.len() as u64 + 1) as usize;
                src.cmap.truncate(n);
            }
            1 => {
                let i = rng.below(src.cmap.len() as u64) as usize;
                src.cmap[i] ^= 1 << rng.below(8);
            }
            _ => {
                let i = rng.below(src.cmap.len().min(40) as u64) as usize;
                src.cmap[i] = rng.next() as u8;
            }
        }
    }
    let ids = gen_glyph_ids(rng, &src);
    let target = if rng.chance(1, 2) { "m" } else { "u" };
    format!("K|{}|{}|{}|{}", hex(&src.cmap), src.os2, target, join(&ids))
}

fn gen_b(rng: &mut Rng) -> String {
    let kind = *rng.pick(&[Kind::MacRoman, Kind::Bmp, Kind::Bmp, Kind::Bmp, Kind::Astral, Kind::SymbolHigh, Kind::SymbolLow]);
    let count = match rng.below(40) {
        0 => 0,
        1 => 1,
        2 if rng.chance(1, 12) => 2000 + rng.below(7000) as usize, // many segments: length check / LimitExceeded
        3 => 300 + rng.below(300) as usize,
        _ => 1 + rng.below(30) as usize,
    };
    let mut codes = gen_codes(rng, kind, count);
    if count >= 2000 {
        // isolated codes five apart: one segment each
        let start = rng.below(0x1000) as u32;
        codes = (0..count as u32).map(|i| start + 5 * i + (rng.below(2) as u32)).filter(|c| *c <= 0xFFFF && !(0xD800..=0xDFFF).contains(c)).collect();
        codes.dedup();
    }
    if kind == Kind::Bmp && rng.chance(1, 6) {
        // touch the end of the BMP
        for c in [0xFFFDu32, 0xFFFE, 0xFFFF] {
            if rng.chance(1, 2) && !codes.contains(&c) {
                codes.push(c);
            }
        }
        codes.sort();
    }
    let max_gid: u32 = match rng.below(6) {
        0 => 256,
        1 => 65536,
        2 => 40,
        _ => 3000,
    };
    let mut gids = gen_gids(rng, codes.len(), max_gid.max(2));
    if rng.chance(1, 30) && !gids.is_empty() {
        let i = rng.below(gids.len() as u64) as usize;
        gids[i] = *rng.pick(&[0u32, 65535, 65534, 255, 256]);
    }
    // a long non-consecutive run: glyphIdArray beyond what a 16 bit length can hold
    let mut giant = false;
    if rng.chance(1, 2500) {
        let n = 32000 + rng.below(1500) as u32;
        codes = (0x100..0x100 + n).collect();
        gids = (0..n).map(|i| 1 + (i * 7) % 5000).collect();
        giant = true;
    }
    let plane = if giant {
        2 // the format 4 length limits are the point of this case
    } else if rng.chance(1, 10) {
        1 + rng.below(4) as u32
    } else {
        match kind {
            Kind::MacRoman => {
                if gids.iter().any(|g| *g > 255) && rng.chance(1, 2) {
                    2
                } else {
                    1
                }
            }
            Kind::Bmp => 2,
            Kind::Astral => {
                if codes.iter().any(|c| *c > 0xFFFF) {
                    3
                } else {
                    2
                }
            }
            _ => 4,
        }
    };
    let sym = matches!(kind, Kind::SymbolHigh | Kind::SymbolLow) != rng.chance(1, 40);
    let items: Vec<String> = codes
        .iter()
        .zip(gids.iter())
        .map(|(c, g)| format!("{}:{}:{}", if sym { "s" } else { "u" }, c, g))
        .collect();
    format!("B|{}|{}", plane, if items.is_empty() { "-".to_string() } else { items.join(",") })
}

fn gen(rng: &mut Rng) -> String {
    match rng.below(10) {
        0..=3 => gen_b(rng),
        4 | 5 => gen_k(rng),
        _ => gen_e(rng),
    }
}

fn main() {
    // BTreeMap is only used to keep clippy quiet about the import when generators change
    let _unused: BTreeMap<u8, u8> = BTreeMap::new();
    harness_main(&run, &mut gen)
}
