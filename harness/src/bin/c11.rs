//! C11 correspondence: WOFF2 decoding.  The harness synthesises fonts (glyphs, metrics, other
//! tables), encodes them with its own WOFF2 encoder written after the specification (every
//! encoder freedom chosen by the seeded Rng: triplet row, 255UInt16 form, explicit/implicit
//! bounding box, hmtx flags, known/arbitrary tags, table order, collections), wraps the table
//! data in a stored-only Brotli stream and decodes with the real allsorts code.
//!
//! input line kinds (the ORIG field is the encoder's input = ground truth, `-` when the bytes
//! were damaged or are random):
//!   p16|V|HEX                          ReadScope::read::<PackedU16>
//!   b128|V|HEX                         ReadScope::read::<U32Base128>
//!   glyf|HEX|ORIG                      Woff2GlyfTable::read_dep on a transformed glyf table
//!   hmtx|NG|NHM|HMTXHEX|GLYFHEX|ORIG   Woff2HmtxTable::read_dep, glyf transformed
//!   hmtxp|NG|NHM|HMTXHEX|GLYFHEX|LOCAHEX|ORIG   same with a plain glyf + long loca
//!   font|IDX|PREFIXHEX|BLOCKHEX|ORIG   Woff2Font::read + table_provider(IDX)
//! result: `M#ok:...` | `M#err:E` | `M#panic`, M = d|r (build mode)
use allsorts::binary::read::ReadScope;
use allsorts::error::ReadWriteError;
use allsorts::tables::glyf::{CompositeGlyphArgument, CompositeGlyphScale, GlyfRecord, GlyfTable, Glyph};
use allsorts::tables::loca::LocaTable;
use allsorts::tables::IndexToLocFormat;
use allsorts::woff2::{PackedU16, TableDirectoryEntry, U32Base128, Woff2Font, Woff2GlyfTable, Woff2HmtxTable};
use avh::prng::{hex, unhex, Rng};
use avh::{build_mode, harness_main, perr};
use std::panic::{catch_unwind, AssertUnwindSafe};

const GLYF: u32 = 0x676C7966;
const LOCA: u32 = 0x6C6F6361;
const HMTX: u32 = 0x686D7478;
const HEAD: u32 = 0x68656164;
const MAXP: u32 = 0x6D617870;
const HHEA: u32 = 0x68686561;
const TTCF: u32 = 0x74746366;

// ------------------------------------------------------------------ glyph values and their dump
#[derive(Clone, Debug, PartialEq)]
struct SGlyph {
    bbox: [i16; 4], // xmin ymin xmax ymax
    end_pts: Vec<u16>,
    instr: Vec<u8>,
    pts: Vec<(bool, i16, i16)>,
}
#[derive(Clone, Debug, PartialEq)]
struct Comp {
    flags: u16,
    gid: u16,
    a1: i32,
    a2: i32,
    scale: Vec<i16>,
}
#[derive(Clone, Debug, PartialEq)]
enum G {
    Empty,
    Simple(SGlyph),
    Composite { bbox: [i16; 4], comps: Vec<Comp>, instr: Vec<u8> },
    Present { nc: i16, raw: Vec<u8> },
}

fn join<T: ToString>(v: &[T], sep: &str) -> String {
    if v.is_empty() {
        "-".to_string()
    } else {
        v.iter().map(|x| x.to_string()).collect::<Vec<_>>().join(sep)
    }
}

fn dump_g(g: &G) -> String {
    match g {
        G::Empty => "E".to_string(),
        G::Simple(s) => format!(
            "S:{}:{}:{}:{}",
            join(&s.bbox, ","),
            join(&s.end_pts, ","),
            hex(&s.instr),
            join(&s.pts.iter().map(|p| format!("{}/{}/{}", p.0 as u8, p.1, p.2)).collect::<Vec<_>>(), ",")
        ),
        G::Composite { bbox, comps, instr } => format!(
            "C:{}:{}:{}",
            join(bbox, ","),
            join(
                &comps
                    .iter()
                    .map(|c| {
                        let mut v = vec![c.flags as i64, c.gid as i64, c.a1 as i64, c.a2 as i64];
                        v.extend(c.scale.iter().map(|x| *x as i64));
                        join(&v, "/")
                    })
                    .collect::<Vec<_>>(),
                ","
            ),
            hex(instr)
        ),
        G::Present { nc, raw } => format!("P:{}:{}", nc, hex(raw)),
    }
}
fn dump_gs(gs: &[G]) -> String {
    join(&gs.iter().map(dump_g).collect::<Vec<_>>(), ";")
}

fn arg_val(a: &CompositeGlyphArgument) -> i32 {
    match a {
        CompositeGlyphArgument::U8(v) => *v as i32,
        CompositeGlyphArgument::I8(v) => *v as i32,
        CompositeGlyphArgument::U16(v) => *v as i32,
        CompositeGlyphArgument::I16(v) => *v as i32,
    }
}

/// the implementation's records, converted to the harness' value type
fn from_allsorts(t: &GlyfTable<'_>) -> Vec<G> {
    t.records()
        .iter()
        .map(|r| match r {
            GlyfRecord::Present { number_of_contours, scope } => {
                G::Present { nc: *number_of_contours, raw: scope.data().to_vec() }
            }
            GlyfRecord::Parsed(Glyph::Empty(_)) => G::Empty,
            GlyfRecord::Parsed(Glyph::Simple(s)) => G::Simple(SGlyph {
                bbox: [s.bounding_box.x_min, s.bounding_box.y_min, s.bounding_box.x_max, s.bounding_box.y_max],
                end_pts: s.end_pts_of_contours.clone(),
                instr: s.instructions.to_vec(),
                pts: s.coordinates.iter().map(|(f, p)| (f.is_on_curve(), p.0, p.1)).collect(),
            }),
            GlyfRecord::Parsed(Glyph::Composite(c)) => G::Composite {
                bbox: [c.bounding_box.x_min, c.bounding_box.y_min, c.bounding_box.x_max, c.bounding_box.y_max],
                comps: c
                    .glyphs
                    .iter()
                    .map(|k| Comp {
                        flags: k.flags.bits(),
                        gid: k.glyph_index,
                        a1: arg_val(&k.argument1),
                        a2: arg_val(&k.argument2),
                        scale: match k.scale {
                            None => vec![],
                            Some(CompositeGlyphScale::Scale(s)) => vec![s.raw_value()],
                            Some(CompositeGlyphScale::XY { x_scale, y_scale }) => {
                                vec![x_scale.raw_value(), y_scale.raw_value()]
                            }
                            Some(CompositeGlyphScale::Matrix(m)) => vec![
                                m[0][0].raw_value(),
                                m[0][1].raw_value(),
                                m[1][0].raw_value(),
                                m[1][1].raw_value(),
                            ],
                        },
                    })
                    .collect(),
                instr: c.instructions.to_vec(),
            },
        })
        .collect()
}

// ------------------------------------------------------------------ the specification's triplet table
#[derive(Clone, Copy)]
struct Row {
    bc: u32,
    xb: u32,
    yb: u32,
    dx: i32,
    dy: i32,
    xneg: bool,
    yneg: bool,
}
/// WOFF2 section 5.2, "Triplet Encoding": generated from the rule, not copied from allsorts
fn spec_row(i: u32) -> Row {
    let xneg = i & 1 == 0;
    let yneg = (i >> 1) & 1 == 0;
    if i < 10 {
        Row { bc: 1, xb: 0, yb: 8, dx: 0, dy: ((i & 14) << 7) as i32, xneg: false, yneg: i & 1 == 0 }
    } else if i < 20 {
        Row { bc: 1, xb: 8, yb: 0, dx: (((i - 10) & 14) << 7) as i32, dy: 0, xneg, yneg: false }
    } else if i < 84 {
        let b0 = i - 20;
        Row { bc: 1, xb: 4, yb: 4, dx: 1 + (b0 & 0x30) as i32, dy: 1 + ((b0 & 0x0c) << 2) as i32, xneg, yneg }
    } else if i < 120 {
        let b0 = i - 84;
        Row { bc: 2, xb: 8, yb: 8, dx: 1 + ((b0 / 12) << 8) as i32, dy: 1 + (((b0 % 12) >> 2) << 8) as i32, xneg, yneg }
    } else if i < 124 {
        Row { bc: 3, xb: 12, yb: 12, dx: 0, dy: 0, xneg, yneg }
    } else {
        Row { bc: 4, xb: 16, yb: 16, dx: 0, dy: 0, xneg, yneg }
    }
}
fn field_fits(d: i32, bits: u32, delta: i32, neg: bool) -> Option<u32> {
    if bits == 0 {
        return if d == 0 { Some(0) } else { None };
    }
    let mag = d.abs();
    if d != 0 && ((d < 0) != neg) {
        return None;
    }
    let f = mag - delta;
    if f >= 0 && f < (1 << bits) {
        Some(f as u32)
    } else {
        None
    }
}
/// all rows that can represent (dx, dy), with the packed data bytes
fn triplet_choices(dx: i32, dy: i32) -> Vec<(u8, Vec<u8>)> {
    let mut out = vec![];
    for i in 0..128u32 {
        let r = spec_row(i);
        if let (Some(fx), Some(fy)) = (field_fits(dx, r.xb, r.dx, r.xneg), field_fits(dy, r.yb, r.dy, r.yneg)) {
            let v: u64 = ((fx as u64) << (r.bc * 8 - r.xb)) | ((fy as u64) << (r.bc * 8 - r.xb - r.yb));
            let bytes = (0..r.bc).map(|k| (v >> (8 * (r.bc - 1 - k))) as u8).collect();
            out.push((i as u8, bytes));
        }
    }
    out
}

/// every encoding of v the specification allows for 255UInt16
fn p16_choices(v: u16) -> Vec<Vec<u8>> {
    let mut out = vec![];
    if v < 253 {
        out.push(vec![v as u8]);
    }
    if (253..253 + 256).contains(&v) {
        out.push(vec![255, (v - 253) as u8]);
    }
    if (506..506 + 256).contains(&v) {
        out.push(vec![254, (v - 506) as u8]);
    }
    out.push(vec![253, (v >> 8) as u8, v as u8]);
    out
}
fn p16_enc(rng: &mut Rng, v: u16) -> Vec<u8> {
    let c = p16_choices(v);
    if rng.chance(3, 4) {
        c[0].clone()
    } else {
        rng.pick(&c).clone()
    }
}
fn b128_enc(v: u32) -> Vec<u8> {
    let mut groups = vec![(v & 0x7f) as u8];
    let mut x = v >> 7;
    while x > 0 {
        groups.push((x & 0x7f) as u8 | 0x80);
        x >>= 7;
    }
    groups.reverse();
    groups
}

fn be16(v: u16) -> [u8; 2] {
    v.to_be_bytes()
}

// ------------------------------------------------------------------ generators
fn gen_delta(rng: &mut Rng) -> i32 {
    // a TrueType source glyph stores 16-bit deltas: [-32768, 32767]; wider ones only rarely
    if rng.chance(1, 20000) {
        return *rng.pick(&[32768, 40000, 65535, -32769, -40000, -65535]);
    }
    if rng.chance(1, 6000) {
        return -32768;
    }
    let mag = match rng.below(12) {
        0 | 1 => 0,
        2 | 3 => rng.below(17) as i32,
        4 | 5 => rng.below(66) as i32,
        6 => rng.below(258) as i32,
        7 => 250 + rng.below(1040) as i32,
        8 => rng.below(4100) as i32,
        9 => *rng.pick(&[1, 15, 16, 17, 64, 65, 255, 256, 257, 511, 512, 513, 768, 769, 1023, 1024, 1279, 1280, 1281, 4095, 4096, 32767]),
        10 => rng.below(20000) as i32,
        _ => rng.below(32768) as i32,
    };
    if rng.chance(1, 2) {
        -mag
    } else {
        mag.min(32767)
    }
}

fn bbox_of(pts: &[(bool, i16, i16)]) -> [i16; 4] {
    let mut b = [pts[0].1, pts[0].2, pts[0].1, pts[0].2];
    for p in pts {
        b[0] = b[0].min(p.1);
        b[1] = b[1].min(p.2);
        b[2] = b[2].max(p.1);
        b[3] = b[3].max(p.2);
    }
    b
}

fn gen_len(rng: &mut Rng, small: u64) -> usize {
    // mostly short; now and then a length in each 255UInt16 range (one byte, 253.., 506.., 762..)
    match rng.below(400) {
        0 => 250 + rng.below(12) as usize,
        1 => 500 + rng.below(12) as usize,
        2 => 755 + rng.below(12) as usize,
        3 => rng.below(900) as usize,
        _ => rng.below(small) as usize,
    }
}

fn gen_simple(rng: &mut Rng) -> SGlyph {
    let nc = 1 + if rng.chance(1, 10) { rng.below(12) } else { rng.below(3) } as usize;
    let mut pts: Vec<(bool, i16, i16)> = vec![];
    let mut end_pts = vec![];
    let (mut x, mut y) = (0i32, 0i32);
    for _ in 0..nc {
        let n = 1 + gen_len(rng, 6);
        for _ in 0..n {
            let mut tries = 0;
            loop {
                let (dx, dy) = (gen_delta(rng), gen_delta(rng));
                let (nx, ny) = (x + dx, y + dy);
                tries += 1;
                if (-32768..=32767).contains(&nx) && (-32768..=32767).contains(&ny) {
                    x = nx;
                    y = ny;
                    break;
                }
                if tries > 20 {
                    break;
                }
            }
            pts.push((rng.chance(2, 3), x as i16, y as i16));
        }
        end_pts.push((pts.len() - 1) as u16);
    }
    let instr = { let n = gen_len(rng, 5); rng.bytes(n) };
    let bbox = if rng.chance(3, 4) {
        bbox_of(&pts)
    } else {
        [rng.range(-2000, 2000) as i16, rng.range(-2000, 2000) as i16, rng.range(-2000, 2000) as i16, rng.range(-32768, 32767) as i16]
    };
    SGlyph { bbox, end_pts, instr, pts }
}

fn gen_composite(rng: &mut Rng, ng: usize) -> G {
    let n = 1 + rng.below(3) as usize;
    let mut comps = vec![];
    let has_instr = rng.chance(1, 3);
    // WE_HAVE_INSTRUCTIONS on any one component announces the instructions: the carrier is any
    // component, not necessarily the last
    let carrier = rng.below(n as u64) as usize;
    for k in 0..n {
        let mut flags: u16 = 0;
        let words = rng.chance(1, 2);
        let xy = rng.chance(2, 3);
        if words {
            flags |= 1;
        }
        if xy {
            flags |= 2;
        }
        for bit in [0x4u16, 0x200, 0x400, 0x800, 0x1000] {
            if rng.chance(1, 5) {
                flags |= bit;
            }
        }
        let scale: Vec<i16> = match rng.below(6) {
            0 => {
                flags |= 0x8;
                vec![rng.next() as i16]
            }
            1 => {
                flags |= 0x40;
                vec![rng.next() as i16, rng.next() as i16]
            }
            2 => {
                flags |= 0x80;
                vec![rng.next() as i16, rng.next() as i16, rng.next() as i16, rng.next() as i16]
            }
            _ => vec![],
        };
        if k + 1 < n {
            flags |= 0x20;
        }
        if has_instr && (k == carrier || rng.chance(1, 4)) {
            flags |= 0x100;
        }
        let arg = |rng: &mut Rng| -> i32 {
            match (words, xy) {
                (true, true) => rng.next() as i16 as i32,
                (true, false) => rng.next() as u16 as i32,
                (false, true) => rng.next() as i8 as i32,
                (false, false) => rng.next() as u8 as i32,
            }
        };
        let (a1, a2) = (arg(rng), arg(rng));
        comps.push(Comp { flags, gid: rng.below(ng.max(1) as u64) as u16, a1, a2, scale });
    }
    let instr = if has_instr { let n = gen_len(rng, 6); rng.bytes(n) } else { vec![] };
    G::Composite {
        bbox: [rng.next() as i16, rng.next() as i16, rng.next() as i16, rng.next() as i16],
        comps,
        instr,
    }
}

fn gen_glyphs(rng: &mut Rng) -> Vec<G> {
    let n = match rng.below(40) {
        0 | 1 => 0,
        2 | 3 => 1,
        4 => 30 + rng.below(10) as usize, // crosses the 32-glyph bitmap word
        5 => 60 + rng.below(10) as usize,
        _ => 1 + rng.below(6) as usize,
    };
    (0..n)
        .map(|_| match rng.below(8) {
            0 => G::Empty,
            1 | 2 => gen_composite(rng, n),
            _ => G::Simple(gen_simple(rng)),
        })
        .collect()
}

// ------------------------------------------------------------------ encoders (after the specification)
fn comp_bytes(c: &Comp) -> Vec<u8> {
    let mut o = vec![];
    o.extend(be16(c.flags));
    o.extend(be16(c.gid));
    for a in [c.a1, c.a2] {
        if c.flags & 1 != 0 {
            o.extend(be16(a as u16));
        } else {
            o.push(a as u8);
        }
    }
    for s in &c.scale {
        o.extend(be16(*s as u16));
    }
    o
}

/// WOFF2 5.1 transformed glyf table; returns the table bytes
fn enc_tglyf(rng: &mut Rng, gs: &[G], index_format: u16) -> Vec<u8> {
    let (mut nc, mut np, mut fl, mut gl, mut cs, mut bb, mut ins) = (vec![], vec![], vec![], vec![], vec![], vec![], vec![]);
    let nbm = 4 * ((gs.len() + 31) / 32);
    let mut bitmap = vec![0u8; nbm];
    for (i, g) in gs.iter().enumerate() {
        match g {
            G::Empty | G::Present { .. } => nc.extend(be16(0)),
            G::Simple(s) => {
                nc.extend(be16(s.end_pts.len() as u16));
                let mut prev: i32 = -1;
                for e in &s.end_pts {
                    np.extend(p16_enc(rng, (*e as i32 - prev) as u16));
                    prev = *e as i32;
                }
                let (mut x, mut y) = (0i32, 0i32);
                for p in &s.pts {
                    let (dx, dy) = (p.1 as i32 - x, p.2 as i32 - y);
                    x = p.1 as i32;
                    y = p.2 as i32;
                    let ch = triplet_choices(dx, dy);
                    let pick = if rng.chance(2, 3) {
                        ch.iter().min_by_key(|c| c.1.len()).unwrap().clone()
                    } else {
                        rng.pick(&ch).clone()
                    };
                    fl.push(pick.0 | if p.0 { 0 } else { 0x80 });
                    gl.extend(pick.1);
                }
                gl.extend(p16_enc(rng, s.instr.len() as u16));
                ins.extend(&s.instr);
                let explicit = s.bbox != bbox_of(&s.pts) || rng.chance(1, 3);
                if explicit {
                    bitmap[i / 8] |= 0x80 >> (i % 8);
                    for v in s.bbox {
                        bb.extend(be16(v as u16));
                    }
                }
            }
            G::Composite { bbox, comps, instr } => {
                nc.extend(be16(0xffff));
                for c in comps {
                    cs.extend(comp_bytes(c));
                }
                if comps.iter().any(|c| c.flags & 0x100 != 0) {
                    gl.extend(p16_enc(rng, instr.len() as u16));
                    ins.extend(instr);
                }
                bitmap[i / 8] |= 0x80 >> (i % 8);
                for v in bbox {
                    bb.extend(be16(*v as u16));
                }
            }
        }
    }
    let mut o = vec![];
    o.extend(0u32.to_be_bytes());
    o.extend(be16(gs.len() as u16));
    o.extend(be16(index_format));
    for l in [nc.len(), np.len(), fl.len(), gl.len(), cs.len(), nbm + bb.len(), ins.len()] {
        o.extend((l as u32).to_be_bytes());
    }
    for s in [&nc, &np, &fl, &gl, &cs, &bitmap, &bb, &ins] {
        o.extend(s.iter());
    }
    o
}

/// a plain TrueType glyph record (flags: on-curve only, 16-bit deltas)
fn enc_plain_glyph(g: &G) -> Vec<u8> {
    let mut o = vec![];
    match g {
        G::Empty => {}
        G::Present { raw, .. } => o.extend(raw),
        G::Simple(s) => {
            o.extend(be16(s.end_pts.len() as u16));
            for v in s.bbox {
                o.extend(be16(v as u16));
            }
            for e in &s.end_pts {
                o.extend(be16(*e));
            }
            o.extend(be16(s.instr.len() as u16));
            o.extend(&s.instr);
            for p in &s.pts {
                o.push(p.0 as u8);
            }
            let mut prev = 0i16;
            for p in &s.pts {
                o.extend(be16(p.1.wrapping_sub(prev) as u16));
                prev = p.1;
            }
            prev = 0;
            for p in &s.pts {
                o.extend(be16(p.2.wrapping_sub(prev) as u16));
                prev = p.2;
            }
        }
        G::Composite { bbox, comps, instr } => {
            o.extend(be16(0xffff));
            for v in bbox {
                o.extend(be16(*v as u16));
            }
            for c in comps {
                o.extend(comp_bytes(c));
            }
            if comps.iter().any(|c| c.flags & 0x100 != 0) {
                o.extend(be16(instr.len() as u16));
                o.extend(instr);
            }
        }
    }
    o
}
/// plain glyf + loca offsets (records padded to `align`)
fn enc_plain_glyf(gs: &[G], align: usize) -> (Vec<u8>, Vec<u32>) {
    let (mut o, mut offs) = (vec![], vec![]);
    for g in gs {
        offs.push(o.len() as u32);
        o.extend(enc_plain_glyph(g));
        while o.len() % align != 0 {
            o.push(0);
        }
    }
    offs.push(o.len() as u32);
    (o, offs)
}
fn enc_loca(offs: &[u32], long: bool) -> Vec<u8> {
    let mut o = vec![];
    for v in offs {
        if long {
            o.extend(v.to_be_bytes());
        } else {
            o.extend(be16((*v / 2) as u16));
        }
    }
    o
}

/// an independent reader of plain TrueType glyph records (all flag forms), for the output side
fn parse_plain_glyph(d: &[u8]) -> Option<G> {
    if d.is_empty() {
        return Some(G::Empty);
    }
    let mut p = 0usize;
    let u8_ = |p: &mut usize| -> Option<u8> {
        let v = *d.get(*p)?;
        *p += 1;
        Some(v)
    };
    let u16_ = |p: &mut usize| -> Option<u16> {
        let v = u16::from_be_bytes([*d.get(*p)?, *d.get(*p + 1)?]);
        *p += 2;
        Some(v)
    };
    let nc = u16_(&mut p)? as i16;
    let mut bbox = [0i16; 4];
    for b in bbox.iter_mut() {
        *b = u16_(&mut p)? as i16;
    }
    if nc >= 0 {
        let mut end_pts = vec![];
        for _ in 0..nc {
            end_pts.push(u16_(&mut p)?);
        }
        let il = u16_(&mut p)? as usize;
        let instr = d.get(p..p + il)?.to_vec();
        p += il;
        let n = end_pts.last().map_or(0, |l| *l as usize + 1);
        let mut flags = vec![];
        while flags.len() < n {
            let f = u8_(&mut p)?;
            flags.push(f);
            if f & 8 != 0 {
                let r = u8_(&mut p)?;
                for _ in 0..r {
                    flags.push(f);
                }
            }
        }
        flags.truncate(n);
        let coord = |short: u8, same: u8, p: &mut usize| -> Option<Vec<i16>> {
            let mut v = 0i16;
            let mut out = vec![];
            for f in &flags {
                let d_ = if f & short != 0 {
                    let b = u8_(p)? as i16;
                    if f & same != 0 { b } else { -b }
                } else if f & same != 0 {
                    0
                } else {
                    u16_(p)? as i16
                };
                v = v.wrapping_add(d_);
                out.push(v);
            }
            Some(out)
        };
        let xs = coord(2, 16, &mut p)?;
        let ys = coord(4, 32, &mut p)?;
        let pts = (0..n).map(|i| (flags[i] & 1 != 0, xs[i], ys[i])).collect();
        if nc == 0 {
            // allsorts writes a zero-contour simple glyph as a header only
            return Some(G::Simple(SGlyph { bbox, end_pts, instr, pts }));
        }
        Some(G::Simple(SGlyph { bbox, end_pts, instr, pts }))
    } else {
        let mut comps = vec![];
        let mut have_instr = false;
        loop {
            let flags = u16_(&mut p)?;
            let gid = u16_(&mut p)?;
            let arg = |p: &mut usize| -> Option<i32> {
                Some(match (flags & 1 != 0, flags & 2 != 0) {
                    (true, true) => u16_(p)? as i16 as i32,
                    (true, false) => u16_(p)? as i32,
                    (false, true) => u8_(p)? as i8 as i32,
                    (false, false) => u8_(p)? as i32,
                })
            };
            let a1 = arg(&mut p)?;
            let a2 = arg(&mut p)?;
            let ns = if flags & 8 != 0 { 1 } else if flags & 0x40 != 0 { 2 } else if flags & 0x80 != 0 { 4 } else { 0 };
            let mut scale = vec![];
            for _ in 0..ns {
                scale.push(u16_(&mut p)? as i16);
            }
            have_instr |= flags & 0x100 != 0;
            comps.push(Comp { flags, gid, a1, a2, scale });
            if flags & 0x20 == 0 {
                break;
            }
        }
        let instr = if have_instr {
            let il = u16_(&mut p)? as usize;
            d.get(p..p + il)?.to_vec()
        } else {
            vec![]
        };
        Some(G::Composite { bbox, comps, instr })
    }
}
fn parse_plain_glyf(glyf: &[u8], loca: &[u8], long: bool) -> Option<Vec<G>> {
    let offs: Vec<usize> = if long {
        loca.chunks(4).map(|c| if c.len() == 4 { u32::from_be_bytes([c[0], c[1], c[2], c[3]]) as usize } else { usize::MAX }).collect()
    } else {
        loca.chunks(2).map(|c| if c.len() == 2 { u16::from_be_bytes([c[0], c[1]]) as usize * 2 } else { usize::MAX }).collect()
    };
    let mut out = vec![];
    for w in offs.windows(2) {
        if w[1] < w[0] {
            return None;
        }
        out.push(parse_plain_glyph(glyf.get(w[0]..w[1])?)?);
    }
    Some(out)
}

fn xmin_of(g: &G) -> i16 {
    match g {
        G::Empty => 0,
        G::Simple(s) => s.bbox[0],
        G::Composite { bbox, .. } => bbox[0],
        G::Present { raw, .. } => i16::from_be_bytes([raw[2], raw[3]]),
    }
}

/// metrics: (advance, lsb) for the first nhm glyphs, lsb for the rest
#[derive(Clone)]
struct Hm {
    long: Vec<(u16, i16)>,
    lsbs: Vec<i16>,
}
fn gen_hm(rng: &mut Rng, gs: &[G]) -> Hm {
    let ng = gs.len();
    let nhm = if ng == 0 { 0 } else if rng.chance(1, 2) { ng } else { 1 + rng.below(ng as u64) as usize };
    let m1 = rng.below(3); // 0: lsb = xMin, 1: random, 2: mostly xMin
    let m2 = rng.below(3);
    let pick = |rng: &mut Rng, m: u64, g: &G| -> i16 {
        if m == 0 || (m == 2 && rng.chance(9, 10)) { xmin_of(g) } else { rng.range(-300, 300) as i16 }
    };
    Hm {
        long: (0..nhm).map(|i| (rng.next() as u16, pick(rng, m1, &gs[i]))).collect(),
        lsbs: (nhm..ng).map(|i| pick(rng, m2, &gs[i])).collect(),
    }
}
fn dump_hm(h: &Hm) -> String {
    format!(
        "{}:{}",
        join(&h.long.iter().map(|p| format!("{}/{}", p.0, p.1)).collect::<Vec<_>>(), ","),
        join(&h.lsbs, ",")
    )
}
fn enc_plain_hmtx(h: &Hm) -> Vec<u8> {
    let mut o = vec![];
    for (a, l) in &h.long {
        o.extend(be16(*a));
        o.extend(be16(*l as u16));
    }
    for l in &h.lsbs {
        o.extend(be16(*l as u16));
    }
    o
}
/// WOFF2 5.4: each side-bearing array may be dropped when it equals the glyphs' xMin
fn enc_thmtx(rng: &mut Rng, h: &Hm, gs: &[G]) -> Vec<u8> {
    let nhm = h.long.len();
    let can1 = h.long.iter().enumerate().all(|(i, p)| p.1 == xmin_of(&gs[i]));
    let can2 = h.lsbs.iter().enumerate().all(|(i, l)| *l == xmin_of(&gs[nhm + i]));
    let mut flags = 0u8;
    if can1 && rng.chance(3, 4) {
        flags |= 1;
    }
    // LEFT_SIDE_BEARING_ABSENT is the known finding C11-hmtx-lsb-absent: drawn less often so that
    // most cases exercise the rest of the decoder
    if can2 && rng.chance(1, 5) {
        flags |= 2;
    }
    let mut o = vec![flags | if rng.chance(1, 10) { (rng.next() as u8) & 0xfc } else { 0 }];
    for p in &h.long {
        o.extend(be16(p.0));
    }
    if flags & 1 == 0 {
        for p in &h.long {
            o.extend(be16(p.1 as u16));
        }
    }
    if flags & 2 == 0 {
        for l in &h.lsbs {
            o.extend(be16(*l as u16));
        }
    }
    o
}

/// Brotli stream of stored (uncompressed) meta-blocks, RFC 7932 section 9
pub fn brotli_stored(data: &[u8]) -> Vec<u8> {
    let mut out = vec![];
    let (mut acc, mut nbits) = (0u64, 0u32);
    let put = |out: &mut Vec<u8>, v: u64, n: u32, acc: &mut u64, nbits: &mut u32| {
        *acc |= v << *nbits;
        *nbits += n;
        while *nbits >= 8 {
            out.push(*acc as u8);
            *acc >>= 8;
            *nbits -= 8;
        }
    };
    put(&mut out, 0, 1, &mut acc, &mut nbits); // WBITS = 16
    for chunk in data.chunks(65536) {
        put(&mut out, 0, 1, &mut acc, &mut nbits); // ISLAST = 0
        put(&mut out, 0, 2, &mut acc, &mut nbits); // MNIBBLES = 4
        put(&mut out, (chunk.len() - 1) as u64, 16, &mut acc, &mut nbits);
        put(&mut out, 1, 1, &mut acc, &mut nbits); // ISUNCOMPRESSED
        if nbits > 0 {
            let pad = 8 - nbits;
            put(&mut out, 0, pad, &mut acc, &mut nbits);
        }
        out.extend(chunk);
    }
    put(&mut out, 3, 2, &mut acc, &mut nbits); // ISLAST = 1, ISLASTEMPTY = 1
    if nbits > 0 {
        let pad = 8 - nbits;
        put(&mut out, 0, pad, &mut acc, &mut nbits);
    }
    out
}

/// the specification's known-tag table (WOFF2 section 4.1), as text
const KNOWN_TAGS: [&str; 63] = [
    "cmap", "head", "hhea", "hmtx", "maxp", "name", "OS/2", "post", "cvt ", "fpgm", "glyf", "loca", "prep", "CFF ",
    "VORG", "EBDT", "EBLC", "gasp", "hdmx", "kern", "LTSH", "PCLT", "VDMX", "vhea", "vmtx", "BASE", "GDEF", "GPOS",
    "GSUB", "EBSC", "JSTF", "MATH", "CBDT", "CBLC", "COLR", "CPAL", "SVG ", "sbix", "acnt", "avar", "bdat", "bloc",
    "bsln", "cvar", "fdsc", "feat", "fmtx", "fvar", "gvar", "hsty", "just", "lcar", "mort", "morx", "opbd", "prop",
    "trak", "Zapf", "Silf", "Glat", "Gloc", "Feat", "Sill",
];
fn tag_of(s: &str) -> u32 {
    let b = s.as_bytes();
    u32::from_be_bytes([b[0], b[1], b[2], b[3]])
}

#[derive(Clone)]
struct Tab {
    tag: u32,
    /// bytes stored in the data block
    data: Vec<u8>,
    orig_length: u32,
    /// Some(version) when a transformLength is written
    transformed: bool,
    version: u8,
    /// expected bytes of this table after decoding (None: reconstructed table, judged structurally)
    expect: Option<Vec<u8>>,
}

fn enc_dir_entry(rng: &mut Rng, t: &Tab) -> Vec<u8> {
    let mut o = vec![];
    let known = KNOWN_TAGS.iter().position(|k| tag_of(k) == t.tag);
    match known {
        Some(k) if !rng.chance(1, 8) => o.push((t.version << 6) | k as u8),
        _ => {
            o.push((t.version << 6) | 63);
            o.extend(t.tag.to_be_bytes());
        }
    }
    o.extend(b128_enc(t.orig_length));
    if t.transformed {
        o.extend(b128_enc(t.data.len() as u32));
    }
    o
}

fn head_table(rng: &mut Rng, long: bool) -> Vec<u8> {
    let mut h = rng.bytes(54);
    h[8..12].copy_from_slice(&[0, 0, 0, 0]); // checkSumAdjustment (rewritten as 0 by the decoder)
    h[12..16].copy_from_slice(&0x5F0F3CF5u32.to_be_bytes());
    h[44] = 0;
    h[45] &= 0x7f; // macStyle: defined bits only
    h[50] = 0;
    h[51] = long as u8;
    h
}
fn maxp_table(rng: &mut Rng, ng: u16) -> Vec<u8> {
    let mut m = vec![];
    if rng.chance(1, 2) {
        m.extend(0x00010000u32.to_be_bytes());
        m.extend(be16(ng));
        m.extend(rng.bytes(26));
    } else {
        m.extend(0x00005000u32.to_be_bytes());
        m.extend(be16(ng));
    }
    m
}
fn hhea_table(rng: &mut Rng, nhm: u16) -> Vec<u8> {
    let mut h = rng.bytes(36);
    h[0] = 0;
    h[1] = 1;
    h[32] = 0;
    h[33] = 0;
    h[34..36].copy_from_slice(&be16(nhm));
    h
}

struct Member {
    tabs: Vec<usize>, // indices into the shared table list
    gs: Vec<G>,
    flavor: u32,
    /// the six TrueType outline/metrics tables, which a later member may share
    tt: Vec<usize>,
}

/// one synthetic font or collection; returns (prefix, block, index, ORIG)
fn gen_font(rng: &mut Rng) -> (Vec<u8>, Vec<u8>, usize, String) {
    let collection = rng.chance(1, 4);
    let nfonts = if collection { 1 + rng.below(3) as usize } else { 1 };
    let mut tabs: Vec<Tab> = vec![];
    let mut members: Vec<Member> = vec![];
    // tables that collection members may share
    let mut shared: Vec<usize> = vec![];
    for fi in 0..nfonts {
        let mut mine: Vec<usize> = vec![];
        let truetype = rng.chance(4, 5);
        let mut gs = vec![];
        let mut tt = vec![];
        if truetype && fi > 0 && !members[fi - 1].tt.is_empty() && rng.chance(1, 3) {
            // collection members sharing glyf/loca/hmtx/head/maxp/hhea
            tt = members[fi - 1].tt.clone();
            mine = tt.clone();
            gs = members[fi - 1].gs.clone();
        } else if truetype {
            gs = gen_glyphs(rng);
            if gs.is_empty() {
                gs.push(G::Empty); // a font has at least glyph 0
            }
            if rng.chance(1, 3) {
                // plain glyphs pass through as unparsed records
                gs = gs.into_iter().map(|g| match g { G::Empty => G::Empty, g => { let raw = enc_plain_glyph(&g); G::Present { nc: i16::from_be_bytes([raw[0], raw[1]]), raw } } }).collect();
            }
            let plain = gs.iter().any(|g| matches!(g, G::Present { .. }));
            let long = rng.chance(1, 2);
            let big = !long && !plain && rng.chance(1, 60);
            if big {
                // short offsets in head, but a glyf table that is rebuilt around the 131070-byte limit of the
                // short loca format (instructions make glyphs big cheaply): the decoder must switch BOTH loca and
                // head.indexToLocFormat to the long format, or neither
                let target = 120_000 + rng.below(30_000) as usize;
                let mut total = 0usize;
                while total < target {
                    let n = 20_000 + rng.below(25_000) as usize;
                    let mut g = gen_simple(rng);
                    g.instr = rng.bytes(n);
                    total += n;
                    gs.push(G::Simple(g));
                }
            }
            let hm = gen_hm(rng, &gs);
            // (a plain glyf table beyond 131070 bytes cannot go with short offsets: only the transformed form is legal)
            let glyf_transformed = big || (!plain && rng.chance(3, 4));
            let hmtx_transformed = rng.chance(1, 2);
            let (pg, offs) = enc_plain_glyf(&gs, if long { *rng.pick(&[1usize, 2, 4]) } else { *rng.pick(&[2usize, 4]) });
            let pl = enc_loca(&offs, long);
            let (gd, ld, gv) = if glyf_transformed {
                (enc_tglyf(rng, &gs, long as u16), vec![], 0u8)
            } else {
                (pg.clone(), pl.clone(), 3u8)
            };
            let reconstructed = glyf_transformed || hmtx_transformed;
            mine.push(tabs.len());
            tabs.push(Tab { tag: GLYF, data: gd, orig_length: pg.len() as u32, transformed: glyf_transformed, version: gv,
                            expect: if reconstructed { None } else { Some(pg.clone()) } });
            mine.push(tabs.len());
            tabs.push(Tab { tag: LOCA, data: ld, orig_length: pl.len() as u32, transformed: glyf_transformed, version: gv,
                            expect: if reconstructed { None } else { Some(pl.clone()) } });
            let ph = enc_plain_hmtx(&hm);
            mine.push(tabs.len());
            if hmtx_transformed {
                tabs.push(Tab { tag: HMTX, data: enc_thmtx(rng, &hm, &gs), orig_length: ph.len() as u32, transformed: true, version: 1, expect: Some(ph) });
            } else {
                tabs.push(Tab { tag: HMTX, data: ph.clone(), orig_length: ph.len() as u32, transformed: false, version: 0, expect: Some(ph) });
            }
            let hd = head_table(rng, long);
            mine.push(tabs.len());
            tabs.push(Tab { tag: HEAD, data: hd.clone(), orig_length: 54, transformed: false, version: 0, expect: if reconstructed { None } else { Some(hd) } });
            let mp = maxp_table(rng, gs.len() as u16);
            mine.push(tabs.len());
            tabs.push(Tab { tag: MAXP, data: mp.clone(), orig_length: mp.len() as u32, transformed: false, version: 0, expect: Some(mp) });
            let hh = hhea_table(rng, hm.long.len() as u16);
            mine.push(tabs.len());
            tabs.push(Tab { tag: HHEA, data: hh.clone(), orig_length: hh.len() as u32, transformed: false, version: 0, expect: Some(hh) });
            tt = mine.clone();
        }
        // other tables: known tags, arbitrary tags, shared tables
        // a member without outlines still carries data: the data block is never empty, so a
        // misaligned Brotli stream (damaged directory) cannot decompress to it by accident
        let nother = if truetype { rng.below(5) } else { 1 + rng.below(4) } as usize;
        for _ in 0..nother {
            if fi > 0 && !shared.is_empty() && rng.chance(1, 2) {
                let s = *rng.pick(&shared);
                if !mine.iter().any(|m| tabs[*m].tag == tabs[s].tag) {
                    mine.push(s);
                }
                continue;
            }
            let tag = if rng.chance(2, 3) {
                // any of the 63 known tags except the six that steer the reconstruction
                loop {
                    let t = tag_of(*rng.pick(&KNOWN_TAGS));
                    if ![GLYF, LOCA, HMTX, HEAD, MAXP, HHEA].contains(&t) {
                        break t;
                    }
                }
            } else {
                u32::from_be_bytes([b'a' + rng.below(26) as u8, b'A' + rng.below(26) as u8, b'0' + rng.below(10) as u8, b' '])
            };
            if mine.iter().any(|m| tabs[*m].tag == tag) {
                continue;
            }
            let d = { let n = (if truetype { 0 } else { 1 }) + rng.below(24) as usize; rng.bytes(n) };
            mine.push(tabs.len());
            shared.push(tabs.len());
            tabs.push(Tab { tag, data: d.clone(), orig_length: d.len() as u32, transformed: false, version: 0, expect: Some(d) });
        }
        members.push(Member { tabs: mine, gs, flavor: if truetype { 0x00010000 } else { 0x4F54544F }, tt });
    }
    // directory order: a random permutation of all tables
    let mut order: Vec<usize> = (0..tabs.len()).collect();
    if rng.chance(1, 2) {
        for i in (1..order.len()).rev() {
            let j = rng.below(i as u64 + 1) as usize;
            order.swap(i, j);
        }
    }
    let pos_of: Vec<usize> = { let mut p = vec![0; tabs.len()]; for (k, t) in order.iter().enumerate() { p[*t] = k; } p };
    let mut block = vec![];
    let mut dir = vec![];
    for t in &order {
        dir.extend(enc_dir_entry(rng, &tabs[*t]));
        block.extend(&tabs[*t].data);
    }
    let mut prefix = vec![];
    prefix.extend(0x774F4632u32.to_be_bytes());
    prefix.extend((if collection { TTCF } else { members[0].flavor }).to_be_bytes());
    prefix.extend(0u32.to_be_bytes()); // length (not used by the decoder)
    prefix.extend(be16(tabs.len() as u16));
    prefix.extend(be16(0));
    prefix.extend(rng.bytes(4)); // totalSfntSize
    prefix.extend(0u32.to_be_bytes()); // totalCompressedSize: patched by `run`
    prefix.extend(rng.bytes(4)); // versions
    prefix.extend([0u8; 20]); // meta*, priv*
    prefix.extend(dir);
    if collection {
        prefix.extend(0x00010000u32.to_be_bytes());
        prefix.extend(p16_enc(rng, nfonts as u16));
        for m in &members {
            prefix.extend(p16_enc(rng, m.tabs.len() as u16));
            prefix.extend(m.flavor.to_be_bytes());
            for t in &m.tabs {
                prefix.extend(p16_enc(rng, pos_of[*t] as u16));
            }
        }
    }
    let bad_index = collection && rng.chance(1, 12);
    let index = if bad_index { nfonts + rng.below(2) as usize } else if collection { rng.below(nfonts as u64) as usize } else if rng.chance(1, 5) { rng.below(4) as usize } else { 0 };
    if bad_index {
        return (prefix, block, index, "-".to_string());
    }
    let m = &members[index.min(nfonts - 1)];
    // two consecutive points more than an int16 apart cannot be written as a TrueType glyph
    // (SimpleGlyph::write refuses them): such a font is not a conforming encoder's input
    let wide = m.gs.iter().any(|g| match g {
        G::Simple(s) => {
            let (mut x, mut y) = (0i32, 0i32);
            s.pts.iter().any(|p| {
                let w = (p.1 as i32 - x).abs() > 32767 || (p.2 as i32 - y).abs() > 32767;
                x = p.1 as i32;
                y = p.2 as i32;
                w
            })
        }
        _ => false,
    });
    if wide {
        return (prefix, block, index, "-".to_string());
    }
    let mut exp: Vec<(u32, String)> = m.tabs.iter().map(|t| (tabs[*t].tag, match &tabs[*t].expect { Some(d) => hex(d), None => "*".to_string() })).collect();
    exp.sort();
    let orig = format!(
        "{}#{}",
        dump_gs(&m.gs.iter().map(|g| match g { G::Present { raw, .. } => parse_plain_glyph(raw).unwrap(), g => g.clone() }).collect::<Vec<_>>()),
        join(&exp.iter().map(|(t, d)| format!("{}={}", t, d)).collect::<Vec<_>>(), ",")
    );
    (prefix, block, index, orig)
}

// ------------------------------------------------------------------ running the implementation
fn res<T>(r: Result<T, String>, f: impl Fn(&T) -> String) -> String {
    match r {
        Ok(v) => format!("ok:{}", f(&v)),
        Err(e) => format!("err:{}", e),
    }
}

fn glyf_entry(len: usize, transformed: bool) -> TableDirectoryEntry {
    TableDirectoryEntry { tag: GLYF, offset: 0, orig_length: len as u32, transform_length: if transformed { Some(len as u32) } else { None } }
}

pub fn run_case(input: &str) -> String {
    let p: Vec<&str> = input.split('|').collect();
    match p[0] {
        "p16" => {
            let d = unhex(p[2]);
            let mut c = ReadScope::new(&d).ctxt();
            res(c.read::<PackedU16>().map_err(|e| perr(&e).to_string()), |v| format!("{},{}", v, c.scope().data().len()))
        }
        "b128" => {
            let d = unhex(p[2]);
            let mut c = ReadScope::new(&d).ctxt();
            res(c.read::<U32Base128>().map_err(|e| perr(&e).to_string()), |v| format!("{},{}", v, c.scope().data().len()))
        }
        "glyf" => {
            let d = unhex(p[1]);
            let entry = glyf_entry(d.len(), true);
            let loca = LocaTable::empty();
            let r = ReadScope::new(&d).read_dep::<Woff2GlyfTable>((&entry, &loca));
            res(r.map_err(|e| perr(&e).to_string()), |t| dump_gs(&from_allsorts(t)))
        }
        "hmtx" | "hmtxp" => {
            let ng: usize = p[1].parse().unwrap();
            let nhm: usize = p[2].parse().unwrap();
            let hd = unhex(p[3]);
            let gd = unhex(p[4]);
            let plain = p[0] == "hmtxp";
            let ld = if plain { unhex(p[5]) } else { vec![] };
            let entry = glyf_entry(gd.len(), !plain);
            let loca = if plain {
                match ReadScope::new(&ld).read_dep::<LocaTable<'_>>((ng, IndexToLocFormat::Long)) {
                    Ok(l) => l,
                    Err(e) => return format!("err:{}", perr(&e)),
                }
            } else {
                LocaTable::empty()
            };
            let glyf = match ReadScope::new(&gd).read_dep::<Woff2GlyfTable>((&entry, &loca)) {
                Ok(g) => g,
                Err(e) => return format!("err:{}", perr(&e)),
            };
            let he = TableDirectoryEntry { tag: HMTX, offset: 0, orig_length: 0, transform_length: Some(hd.len() as u32) };
            let r = ReadScope::new(&hd).read_dep::<Woff2HmtxTable>((&he, &glyf, ng, nhm));
            res(r.map_err(|e| perr(&e).to_string()), |t| {
                dump_hm(&Hm {
                    long: t.h_metrics.iter().map(|m| (m.advance_width, m.lsb)).collect(),
                    lsbs: t.left_side_bearings.iter().collect(),
                })
            })
        }
        "font" => {
            let idx: usize = p[1].parse().unwrap();
            let mut file = unhex(p[2]);
            let block = unhex(p[3]);
            let comp = brotli_stored(&block);
            if file.len() >= 24 {
                file[20..24].copy_from_slice(&(comp.len() as u32).to_be_bytes());
            }
            file.extend(&comp);
            let woff = match ReadScope::new(&file).read::<Woff2Font<'_>>() {
                Ok(w) => w,
                Err(e) => return format!("err:{}", perr(&e)),
            };
            if woff.table_data_block != block {
                // the parser stopped before/after the end of the prefix (damaged directory): the
                // Brotli decoder was handed a misaligned stream.  Canonicalised as CompressionError.
                return "err:CompressionError".to_string();
            }
            let dir = join(
                &woff
                    .table_directory
                    .iter()
                    .map(|e| format!("{}/{}/{}/{}", e.tag, e.offset, e.orig_length, e.transform_length.map_or("-".to_string(), |l| l.to_string())))
                    .collect::<Vec<_>>(),
                ",",
            );
            let prov = match woff.table_provider(idx) {
                Ok(p) => p,
                Err(ReadWriteError::Read(e)) => return format!("err:{}", perr(&e)),
                Err(ReadWriteError::Write(_)) => return "err:OtherErr".to_string(),
            };
            let mut tabs: Vec<(u32, Vec<u8>)> = prov.into_tables().into_iter().map(|(k, v)| (k, v.to_vec())).collect();
            tabs.sort();
            let get = |t: u32| tabs.iter().find(|x| x.0 == t).map(|x| x.1.clone());
            let glyphs = match (get(GLYF), get(LOCA), get(HEAD)) {
                (Some(g), Some(l), Some(h)) if h.len() >= 52 => match parse_plain_glyf(&g, &l, h[51] == 1) {
                    Some(gs) => dump_gs(&gs),
                    None => "unparseable".to_string(),
                },
                _ => "-".to_string(),
            };
            format!(
                "ok:{}#{}#{}",
                dir,
                join(&tabs.iter().map(|(t, d)| format!("{}={}", t, hex(d))).collect::<Vec<_>>(), ","),
                glyphs
            )
        }
        _ => panic!("kind"),
    }
}

// ------------------------------------------------------------------ damaging inputs
fn damage(rng: &mut Rng, d: &mut Vec<u8>) {
    match rng.below(6) {
        0 if !d.is_empty() => {
            let n = rng.below(d.len() as u64) as usize;
            d.truncate(n);
        }
        1 => d.extend({ let n = 1 + rng.below(3) as usize; rng.bytes(n) }),
        2 | 3 if !d.is_empty() => {
            let i = rng.below(d.len() as u64) as usize;
            d[i] = *rng.pick(&[0u8, 1, 0x7f, 0x80, 0xff, 0xfe, 0xfd, 0x3f]);
        }
        _ if !d.is_empty() => {
            // headers are where the structure is decided
            let i = rng.below(d.len().min(40) as u64) as usize;
            d[i] ^= 1 << rng.below(8);
        }
        _ => {}
    }
}

/// damage aimed at the checks of the transformed glyf reader (repaired in 86608df, 093eba0, aa2eefe):
/// a bboxStreamSize at or below the length of the bitmap, a first contour of zero points, contour
/// sizes that reach or cross 65535 points
fn damage_tglyf(rng: &mut Rng, d: &mut Vec<u8>) {
    if d.len() < 36 {
        return damage(rng, d);
    }
    let u32_at = |d: &Vec<u8>, o: usize| u32::from_be_bytes([d[o], d[o + 1], d[o + 2], d[o + 3]]) as usize;
    let ng = u16::from_be_bytes([d[4], d[5]]) as usize;
    let np_size = u32_at(d, 12);
    let np_start = 36 + u32_at(d, 8);
    match rng.below(3) {
        0 => {
            let bitmap = 4 * ((ng + 31) / 32);
            let v = rng.below(bitmap as u64 + 1) as u32;
            d[28..32].copy_from_slice(&v.to_be_bytes());
        }
        1 if np_size > 0 && np_start < d.len() => d[np_start] = 0,
        2 if np_size > 0 && np_start < d.len() => {
            let v = 65535 - rng.below(4) as u16;
            d.splice(np_start..np_start + 1, [253, (v >> 8) as u8, v as u8]);
            d[12..16].copy_from_slice(&((np_size + 2) as u32).to_be_bytes());
        }
        _ => damage(rng, d),
    }
}

pub fn gen_case(rng: &mut Rng) -> String {
    match rng.below(20) {
        0 | 1 => {
            if rng.chance(3, 4) {
                let v = match rng.below(4) {
                    0 => rng.below(253) as u16,
                    1 => 250 + rng.below(520) as u16,
                    2 => *rng.pick(&[0u16, 252, 253, 254, 255, 505, 506, 507, 508, 509, 761, 762, 763, 65535]),
                    _ => rng.next() as u16,
                };
                let mut b = rng.pick(&p16_choices(v)).clone();
                b.extend({ let n = rng.below(3) as usize; rng.bytes(n) });
                format!("p16|{}|{}", v, hex(&b))
            } else {
                let b = { let n = rng.below(4) as usize; rng.bytes(n) };
                format!("p16|-|{}", hex(&b))
            }
        }
        2 | 3 => {
            if rng.chance(2, 3) {
                let v = match rng.below(5) {
                    0 => rng.below(128) as u32,
                    1 => (rng.next() as u32) >> rng.below(32),
                    2 => *rng.pick(&[0u32, 127, 128, 16383, 16384, 0x1fffff, 0x200000, 0xfffffff, 0x10000000, 0xffffffff]),
                    _ => rng.next() as u32,
                };
                let mut b = b128_enc(v);
                b.extend({ let n = rng.below(3) as usize; rng.bytes(n) });
                format!("b128|{}|{}", v, hex(&b))
            } else {
                let mut b = { let n = rng.below(7) as usize; rng.bytes(n) };
                for x in b.iter_mut() {
                    if rng.chance(2, 3) {
                        *x |= 0x80;
                    }
                }
                if rng.chance(1, 4) && !b.is_empty() {
                    b[0] = 0x80;
                }
                format!("b128|-|{}", hex(&b))
            }
        }
        4..=9 => {
            let gs = gen_glyphs(rng);
            let fmt = rng.below(2) as u16;
            let mut d = enc_tglyf(rng, &gs, fmt);
            if rng.chance(1, 5) {
                if rng.chance(1, 3) {
                    damage_tglyf(rng, &mut d);
                } else {
                    damage(rng, &mut d);
                }
                format!("glyf|{}|-", hex(&d))
            } else {
                format!("glyf|{}|{}", hex(&d), dump_gs(&gs))
            }
        }
        10..=13 => {
            let gs = gen_glyphs(rng);
            let hm = gen_hm(rng, &gs);
            let plain = rng.chance(1, 4) && !gs.is_empty();
            let mut hd = enc_thmtx(rng, &hm, &gs);
            let (mut ng, mut nhm) = (gs.len(), hm.long.len());
            let mut orig = dump_hm(&hm);
            if rng.chance(1, 6) {
                match rng.below(3) {
                    0 => damage(rng, &mut hd),
                    1 => ng = rng.below(ng as u64 + 3) as usize,
                    _ => nhm = rng.below(nhm as u64 + 3) as usize,
                }
                orig = "-".to_string();
            }
            if plain {
                let (g, offs) = enc_plain_glyf(&gs, 1);
                format!("hmtxp|{}|{}|{}|{}|{}|{}", ng, nhm, hex(&hd), hex(&g), hex(&enc_loca(&offs, true)), orig)
            } else {
                format!("hmtx|{}|{}|{}|{}|{}", ng, nhm, hex(&hd), hex(&enc_tglyf(rng, &gs, 0)), orig)
            }
        }
        _ => {
            let (mut prefix, mut block, index, mut orig) = gen_font(rng);
            if rng.chance(1, 6) {
                if rng.chance(1, 2) {
                    damage(rng, &mut prefix);
                    if prefix.len() > 20 && rng.chance(1, 2) {
                        let i = 48 + rng.below((prefix.len() - 20) as u64 ) as usize;
                        if i < prefix.len() { prefix[i] ^= 1 << rng.below(8); }
                    }
                } else {
                    damage(rng, &mut block);
                }
                orig = "-".to_string();
            }
            format!("font|{}|{}|{}|{}", index, hex(&prefix), hex(&block), orig)
        }
    }
}

fn main() {
    let run = |input: &str| -> String {
        let r = catch_unwind(AssertUnwindSafe(|| run_case(input)));
        format!(
            "{}#{}",
            build_mode(),
            r.unwrap_or_else(|e| {
                if std::env::var("C11_DEBUG").is_ok() {
                    let msg = e.downcast_ref::<String>().cloned().or_else(|| e.downcast_ref::<&str>().map(|s| s.to_string()));
                    eprintln!("panic payload: {:?}", msg);
                }
                "panic".to_string()
            })
        )
    };
    let mut gen = |rng: &mut Rng| -> String { gen_case(rng) };
    harness_main(&run, &mut gen);
}
