//! C07 correspondence: subsetting preserves outlines and metrics of retained glyphs.
//!
//! Case kinds (first field of the input line):
//!   g|M|TABLE|IDS|PROBES   GlyfTable::subset on a synthetic table (M = P: records built as Parsed values,
//!                          B: glyf+loca bytes read with GlyfTable::read_dep) through the verif hook
//!        => ok:OLDIDS|RECORDS|NEWIDS|BITS   (BITS[n] = outline(sub, n) == outline(src, old_id n)) | err:E | panic
//!   h|NHM|HM|LSBS|OLDS     subset::create_hmtx_table on a synthetic hmtx (hook)
//!        => ok:adv:lsb,...|NLSB | err:E | panic
//!   t|TABLE|NHM|HM|LSBS|IDS   subset::subset end to end on a synthetic TrueType font built from the description
//!   f|FONT|IDS             subset::subset end to end on a fixture font (tests/fonts/FONT; `+w` suffix = wrapped
//!                          into WOFF by the harness first)
//!        => ok|OUT|SRC   OUT = adv:lsb:hash per new glyph (raw hmtx/hhea/maxp bytes of the output, own lookup;
//!                        hash = FNV of allsorts' own outline visitor events), SRC = old:adv:lsb:hash:desc for every
//!                        source glyph reachable from IDS through composite components (desc e | s | cG.G.G | x)
//!        | err:E | panic
//!   c|...                  CFF::subset on a synthetic CFF (see gen_cff)
//! TABLE = glyph descriptors separated by spaces: e | sP | cG:D,G:D;R | x     IDS etc. = comma lists, `-` = empty
use allsorts::binary::read::ReadScope;
use allsorts::binary::write::{WriteBinary, WriteBuffer};
use allsorts::cff::cff2::CFF2;
use allsorts::cff::outline::CFF2Outlines;
use allsorts::cff::CFF;
use allsorts::error::{ParseError, ReadWriteError};
use allsorts::font_data::FontData;
use allsorts::outline::{OutlineBuilder, OutlineSink};
use allsorts::pathfinder_geometry::line_segment::LineSegment2F;
use allsorts::pathfinder_geometry::vector::Vector2F;
use allsorts::subset::SubsetError;
use allsorts::tables::glyf::{
    BoundingBox, CompositeGlyph, CompositeGlyphArgument, CompositeGlyphComponent,
    CompositeGlyphFlag, GlyfRecord, GlyfTable, Glyph, Point, SimpleGlyph, SimpleGlyphFlag,
};
use allsorts::tables::loca::LocaTable;
use allsorts::tables::{FontTableProvider, HeadTable, HmtxTable, IndexToLocFormat, MaxpTable};
use allsorts::tag;
use avh::prng::Rng;
use avh::{harness_main, panic_kind, perr};
use std::borrow::Cow;
use std::collections::{BTreeMap, HashMap};
use std::panic::{catch_unwind, AssertUnwindSafe};

// ------------------------------------------------------------------------------------------------
// small helpers

fn be16(v: &mut Vec<u8>, x: u16) {
    v.extend_from_slice(&x.to_be_bytes());
}
fn be32(v: &mut Vec<u8>, x: u32) {
    v.extend_from_slice(&x.to_be_bytes());
}
fn rd16(b: &[u8], o: usize) -> Option<u16> {
    Some(u16::from_be_bytes([*b.get(o)?, *b.get(o + 1)?]))
}

fn ints<T: std::str::FromStr>(s: &str) -> Vec<T> {
    if s == "-" || s.is_empty() {
        return vec![];
    }
    s.split(',').filter_map(|x| x.parse().ok()).collect()
}
fn join<T: ToString>(v: &[T]) -> String {
    if v.is_empty() {
        "-".to_string()
    } else {
        v.iter().map(|x| x.to_string()).collect::<Vec<_>>().join(",")
    }
}

fn rwerr(e: &ReadWriteError) -> String {
    match e {
        ReadWriteError::Read(p) => perr(p).to_string(),
        ReadWriteError::Write(w) => format!("Write{:?}", w),
    }
}
fn suberr(e: &SubsetError) -> String {
    match e {
        SubsetError::Parse(p) => perr(p).to_string(),
        SubsetError::Write(w) => format!("Write{:?}", w),
        SubsetError::CFF(c) => format!("CFF{:?}", c).replace(' ', ""),
        SubsetError::NotDef => "NotDef".to_string(),
        SubsetError::TooManyGlyphs => "TooManyGlyphs".to_string(),
        SubsetError::InvalidFontCount => "InvalidFontCount".to_string(),
    }
}

// ------------------------------------------------------------------------------------------------
// outline recording

struct Rec(u64, bool);
impl Rec {
    fn new() -> Rec {
        Rec(0xcbf29ce484222325, false)
    }
    fn byte(&mut self, b: u8) {
        self.0 = (self.0 ^ b as u64).wrapping_mul(0x100000001b3);
    }
    fn v(&mut self, p: Vector2F) {
        for b in p.x().to_bits().to_be_bytes().iter().chain(p.y().to_bits().to_be_bytes().iter()) {
            self.byte(*b);
        }
    }
}
impl OutlineSink for Rec {
    fn move_to(&mut self, to: Vector2F) {
        self.1 = true;
        self.byte(1);
        self.v(to);
    }
    fn line_to(&mut self, to: Vector2F) {
        self.byte(2);
        self.v(to);
    }
    fn quadratic_curve_to(&mut self, ctrl: Vector2F, to: Vector2F) {
        self.byte(3);
        self.v(ctrl);
        self.v(to);
    }
    fn cubic_curve_to(&mut self, ctrl: LineSegment2F, to: Vector2F) {
        self.byte(4);
        self.v(ctrl.from());
        self.v(ctrl.to());
        self.v(to);
    }
    fn close(&mut self) {
        // canonicalisation: a `close` without an open contour draws nothing (the CFF2 visitor emits one at the
        // end of every charstring, also of an empty one; the CFF visitor does not)
        if self.1 {
            self.byte(5);
        }
        self.1 = false;
    }
}

/// hash of the outline events, or `E<error>`
fn outline_hash<B: OutlineBuilder>(b: &mut B, gid: u16) -> String {
    let mut rec = Rec::new();
    match b.visit(gid, &mut rec) {
        Ok(()) => format!("{:016x}", rec.0),
        Err(e) => format!("E{:?}", e).replace(|c: char| !c.is_ascii_alphanumeric(), ""),
    }
}

// ------------------------------------------------------------------------------------------------
// synthetic glyf tables

#[derive(Clone, Debug, PartialEq)]
enum G {
    E,
    S(i32),
    C(Vec<(u16, i32)>, i32),
    X,
}

fn parse_table(s: &str) -> Vec<G> {
    s.split(' ')
        .filter(|x| !x.is_empty() && *x != "-")
        .map(|d| {
            if d == "e" {
                G::E
            } else if d == "x" {
                G::X
            } else if let Some(p) = d.strip_prefix('s') {
                G::S(p.parse().unwrap_or(0))
            } else {
                let body = &d[1..];
                let (cs, r) = body.split_once(';').unwrap_or((body, "0"));
                G::C(
                    cs.split(',')
                        .filter(|x| !x.is_empty())
                        .map(|c| {
                            let (g, dd) = c.split_once(':').unwrap_or((c, "0"));
                            (g.parse().unwrap_or(0), dd.parse().unwrap_or(0))
                        })
                        .collect(),
                    r.parse().unwrap_or(0),
                )
            }
        })
        .collect()
}

fn show_table(t: &[G]) -> String {
    if t.is_empty() {
        return "-".to_string();
    }
    t.iter()
        .map(|g| match g {
            G::E => "e".to_string(),
            G::X => "x".to_string(),
            G::S(p) => format!("s{}", p),
            G::C(cs, r) => format!(
                "c{};{}",
                cs.iter().map(|(g, d)| format!("{}:{}", g, d)).collect::<Vec<_>>().join(","),
                r
            ),
        })
        .collect::<Vec<_>>()
        .join(" ")
}

fn simple_glyph(p: i32) -> SimpleGlyph<'static> {
    let p = p as i16;
    let on = SimpleGlyphFlag::ON_CURVE_POINT;
    SimpleGlyph {
        bounding_box: BoundingBox { x_min: p, x_max: p + 10, y_min: 0, y_max: 20 },
        end_pts_of_contours: vec![2],
        instructions: &[],
        coordinates: vec![(on, Point(p, 0)), (on, Point(p + 10, 5)), (on, Point(p, 20))],
        phantom_points: None,
    }
}

fn composite_glyph(cs: &[(u16, i32)], r: i32) -> CompositeGlyph<'static> {
    let n = cs.len();
    CompositeGlyph {
        bounding_box: BoundingBox { x_min: r as i16, x_max: r as i16 + 1, y_min: 0, y_max: 1 },
        glyphs: cs
            .iter()
            .enumerate()
            .map(|(i, (g, d))| {
                let mut flags = CompositeGlyphFlag::ARG_1_AND_2_ARE_WORDS | CompositeGlyphFlag::ARGS_ARE_XY_VALUES;
                if i + 1 < n {
                    flags |= CompositeGlyphFlag::MORE_COMPONENTS;
                }
                CompositeGlyphComponent {
                    flags,
                    glyph_index: *g,
                    argument1: CompositeGlyphArgument::I16(*d as i16),
                    argument2: CompositeGlyphArgument::I16(0),
                    scale: None,
                }
            })
            .collect(),
        instructions: &[],
        phantom_points: None,
    }
}

/// glyf and loca (long format) bytes of a described table
fn glyf_bytes(t: &[G]) -> (Vec<u8>, Vec<u8>) {
    let mut glyf = vec![];
    let mut loca = vec![];
    for g in t {
        be32(&mut loca, glyf.len() as u32);
        match g {
            G::E => {}
            G::X => {
                // number_of_contours = -1, a bounding box, then a truncated component
                be16(&mut glyf, 0xffff);
                for _ in 0..4 {
                    be16(&mut glyf, 0);
                }
                be16(&mut glyf, 0x0023);
            }
            G::S(p) => {
                let mut w = WriteBuffer::new();
                SimpleGlyph::write(&mut w, simple_glyph(*p)).unwrap();
                glyf.extend_from_slice(w.bytes());
            }
            G::C(cs, r) => {
                if cs.is_empty() {
                    // a composite without components cannot be written: treat as unparsable
                    be16(&mut glyf, 0xffff);
                    for _ in 0..4 {
                        be16(&mut glyf, 0);
                    }
                } else {
                    let mut w = WriteBuffer::new();
                    CompositeGlyph::write(&mut w, composite_glyph(cs, *r)).unwrap();
                    let at = glyf.len();
                    glyf.extend_from_slice(w.bytes());
                    // any negative numberOfContours marks a composite (-1 is only the recommended value):
                    // every third composite of a table carries another one
                    let k = loca.len() / 4;
                    if k % 3 == 2 {
                        let nc: i16 = [-2i16, -3, -32768, -255][(k / 3) % 4];
                        glyf[at..at + 2].copy_from_slice(&nc.to_be_bytes());
                    }
                }
            }
        }
        while glyf.len() % 4 != 0 {
            glyf.push(0);
        }
    }
    be32(&mut loca, glyf.len() as u32);
    (glyf, loca)
}

fn read_glyf<'a>(glyf: &'a [u8], loca: &'a LocaTable<'a>) -> Result<GlyfTable<'a>, ParseError> {
    ReadScope::new(glyf).read_dep::<GlyfTable<'_>>(loca)
}

fn parsed_table(t: &[G]) -> Result<GlyfTable<'static>, ParseError> {
    GlyfTable::new(
        t.iter()
            .map(|g| match g {
                G::E | G::X => GlyfRecord::empty(),
                G::S(p) => GlyfRecord::from(simple_glyph(*p)),
                G::C(cs, r) => GlyfRecord::from(composite_glyph(cs, *r)),
            })
            .collect(),
    )
}

fn describe(rec: &GlyfRecord<'_>) -> G {
    let mut r = rec.clone();
    if r.parse().is_err() {
        return G::X;
    }
    match r {
        GlyfRecord::Parsed(Glyph::Empty(_)) => G::E,
        GlyfRecord::Parsed(Glyph::Simple(s)) => G::S(s.coordinates.first().map_or(0, |c| i32::from((c.1).0))),
        GlyfRecord::Parsed(Glyph::Composite(c)) => G::C(
            c.glyphs.iter().map(|k| (k.glyph_index, i32::from(k.argument1))).collect(),
            i32::from(c.bounding_box.x_min),
        ),
        GlyfRecord::Present { .. } => G::X,
    }
}

fn run_g(parts: &[&str]) -> String {
    let mode = parts[1];
    let t = parse_table(parts[2]);
    let ids: Vec<u16> = ints(parts[3]);
    let probes: Vec<u16> = ints(parts[4]);
    let (glyf_b, loca_b) = glyf_bytes(&t);
    let loca = match ReadScope::new(&loca_b).read_dep::<LocaTable<'_>>((t.len(), IndexToLocFormat::Long)) {
        Ok(l) => l,
        Err(e) => return format!("err:loca-{}", perr(&e)),
    };
    let make = || -> Result<GlyfTable<'_>, ParseError> {
        if mode == "P" {
            parsed_table(&t)
        } else {
            read_glyf(&glyf_b, &loca)
        }
    };
    let src = match make() {
        Ok(s) => s,
        Err(e) => return format!("err:src-{}", perr(&e)),
    };
    let view = match allsorts::verif::glyf_subset(&src, &ids, &probes) {
        Ok(v) => v,
        Err(e) => return format!("err:{}", perr(&e)),
    };
    let recs: Vec<G> = view.table.records().iter().map(describe).collect();
    let mut sub = view.table;
    let mut src = make().unwrap();
    let bits: String = view
        .old_ids
        .iter()
        .enumerate()
        .map(|(n, old)| if outline_hash(&mut sub, n as u16) == outline_hash(&mut src, *old) { '1' } else { '0' })
        .collect();
    format!(
        "ok:{}|{}|{}|{}",
        join(&view.old_ids),
        show_table(&recs),
        join(&view.new_ids),
        if bits.is_empty() { "-".to_string() } else { bits }
    )
}

// ------------------------------------------------------------------------------------------------
// hmtx

fn parse_hm(s: &str) -> Vec<(u16, i16)> {
    if s == "-" || s.is_empty() {
        return vec![];
    }
    s.split(',')
        .map(|e| {
            let (a, l) = e.split_once(':').unwrap_or((e, "0"));
            (a.parse().unwrap_or(0), l.parse().unwrap_or(0))
        })
        .collect()
}

fn hmtx_bytes(hm: &[(u16, i16)], lsbs: &[i16]) -> Vec<u8> {
    let mut v = vec![];
    for (a, l) in hm {
        be16(&mut v, *a);
        be16(&mut v, *l as u16);
    }
    for l in lsbs {
        be16(&mut v, *l as u16);
    }
    v
}

fn run_h(parts: &[&str]) -> String {
    let nhm: usize = parts[1].parse().unwrap_or(0);
    let hm = parse_hm(parts[2]);
    let lsbs: Vec<i16> = ints(parts[3]);
    let olds: Vec<u16> = ints(parts[4]);
    let bytes = hmtx_bytes(&hm, &lsbs);
    // the arrays are read with exactly the lengths of the description
    let hmtx = match ReadScope::new(&bytes).read_dep::<HmtxTable<'_>>((hm.len() + lsbs.len(), hm.len())) {
        Ok(h) => h,
        Err(e) => return format!("err:hmtx-{}", perr(&e)),
    };
    match allsorts::verif::create_hmtx_table(&hmtx, nhm, &olds) {
        Ok((ms, ls)) => format!(
            "ok:{}|{}",
            if ms.is_empty() {
                "-".to_string()
            } else {
                ms.iter().map(|m| format!("{}:{}", m.advance_width, m.lsb)).collect::<Vec<_>>().join(",")
            },
            ls.len()
        ),
        Err(e) => format!("err:{}", rwerr(&e)),
    }
}

// ------------------------------------------------------------------------------------------------
// whole fonts

struct MapProvider(HashMap<u32, Vec<u8>>);
impl FontTableProvider for MapProvider {
    fn table_data(&self, tag: u32) -> Result<Option<Cow<'_, [u8]>>, ParseError> {
        Ok(self.0.get(&tag).map(|v| Cow::Borrowed(v.as_slice())))
    }
    fn has_table(&self, tag: u32) -> bool {
        self.0.contains_key(&tag)
    }
    fn table_tags(&self) -> Option<Vec<u32>> {
        Some(self.0.keys().copied().collect())
    }
}

fn synthetic_ttf(t: &[G], nhm: u16, hm: &[(u16, i16)], lsbs: &[i16]) -> MapProvider {
    let mut m = HashMap::new();
    let (glyf, loca) = glyf_bytes(t);
    m.insert(tag::GLYF, glyf);
    m.insert(tag::LOCA, loca);
    let mut head = vec![];
    be16(&mut head, 1);
    be16(&mut head, 0);
    be32(&mut head, 0x00010000);
    be32(&mut head, 0);
    be32(&mut head, 0x5F0F3CF5);
    be16(&mut head, 0);
    be16(&mut head, 1000);
    head.extend_from_slice(&[0; 16]);
    for v in [0u16, 0, 1000, 1000] {
        be16(&mut head, v);
    }
    be16(&mut head, 0);
    be16(&mut head, 8);
    be16(&mut head, 2);
    be16(&mut head, 1); // indexToLocFormat: long
    be16(&mut head, 0);
    m.insert(tag::HEAD, head);
    let mut maxp = vec![];
    be32(&mut maxp, 0x00005000);
    be16(&mut maxp, t.len() as u16);
    m.insert(tag::MAXP, maxp);
    let mut hhea = vec![];
    be16(&mut hhea, 1);
    be16(&mut hhea, 0);
    for v in [800u16, 0xff38, 0, 1000, 0, 0, 1000, 1, 0, 0, 0, 0, 0, 0, 0] {
        be16(&mut hhea, v);
    }
    be16(&mut hhea, nhm);
    m.insert(tag::HHEA, hhea);
    m.insert(tag::HMTX, hmtx_bytes(hm, lsbs));
    let mut post = vec![];
    be32(&mut post, 0x00030000);
    post.extend_from_slice(&[0; 28]);
    m.insert(tag::POST, post);
    // cmap: one format 4 subtable (3,1): U+0041 -> glyph 1
    let mut cmap = vec![];
    be16(&mut cmap, 0);
    be16(&mut cmap, 1);
    be16(&mut cmap, 3);
    be16(&mut cmap, 1);
    be32(&mut cmap, 12);
    let seg: [(u16, u16, u16); 2] = [(0x41, 0x41, 1u16.wrapping_sub(0x41)), (0xffff, 0xffff, 1)];
    be16(&mut cmap, 4);
    be16(&mut cmap, 16 + 8 * 2);
    be16(&mut cmap, 0);
    be16(&mut cmap, 4);
    be16(&mut cmap, 4);
    be16(&mut cmap, 1);
    be16(&mut cmap, 0);
    for s in seg.iter() {
        be16(&mut cmap, s.1);
    }
    be16(&mut cmap, 0);
    for s in seg.iter() {
        be16(&mut cmap, s.0);
    }
    for s in seg.iter() {
        be16(&mut cmap, s.2);
    }
    for _ in seg.iter() {
        be16(&mut cmap, 0);
    }
    m.insert(tag::CMAP, cmap);
    MapProvider(m)
}

/// own hmtx lookup on raw table bytes (independent of allsorts' HmtxTable): `adv:lsb`, `-` when undefined
fn raw_metric(p: &impl FontTableProvider, g: usize) -> String {
    let f = || -> Option<String> {
        let hhea = p.table_data(tag::HHEA).ok()??;
        let hmtx = p.table_data(tag::HMTX).ok()??;
        let nhm = rd16(&hhea, 34)? as usize;
        if nhm == 0 {
            return None;
        }
        let (adv, lsb) = if g < nhm {
            (rd16(&hmtx, 4 * g)?, rd16(&hmtx, 4 * g + 2)?)
        } else {
            (rd16(&hmtx, 4 * (nhm - 1))?, rd16(&hmtx, 4 * nhm + 2 * (g - nhm))?)
        };
        Some(format!("{}:{}", adv, lsb as i16))
    };
    f().unwrap_or_else(|| "-:-".to_string())
}

enum Outlines<'a> {
    Glyf(GlyfTable<'a>),
    Cff(CFF<'a>),
    Cff2(CFF2<'a>),
}

impl<'a> Outlines<'a> {
    fn hash(&mut self, g: u16) -> String {
        match self {
            Outlines::Glyf(t) => outline_hash(t, g),
            Outlines::Cff(c) => outline_hash(c, g),
            Outlines::Cff2(c) => outline_hash(&mut CFF2Outlines { table: c, tuple: None }, g),
        }
    }
    fn num_glyphs(&self) -> usize {
        match self {
            Outlines::Glyf(t) => t.records().len(),
            Outlines::Cff(c) => c.fonts.first().map_or(0, |f| f.char_strings_index.len()),
            Outlines::Cff2(c) => c.char_strings_index.len(),
        }
    }
    /// descriptor of a source glyph for the judge: e | s | cG.G.G | x
    fn desc(&self, g: u16) -> (String, Vec<u16>) {
        match self {
            Outlines::Glyf(t) => match t.records().get(g as usize).map(describe) {
                None | Some(G::X) => ("x".to_string(), vec![]),
                Some(G::E) => ("e".to_string(), vec![]),
                Some(G::S(_)) => ("s".to_string(), vec![]),
                Some(G::C(cs, _)) => (
                    format!("c{}", cs.iter().map(|c| c.0.to_string()).collect::<Vec<_>>().join(".")),
                    cs.iter().map(|c| c.0).collect(),
                ),
            },
            _ => ("s".to_string(), vec![]),
        }
    }
}

struct Tables {
    glyf: Vec<u8>,
    loca: Vec<u8>,
    cff: Vec<u8>,
    cff2: Vec<u8>,
    num_glyphs: usize,
    loc: IndexToLocFormat,
    kind: u8,
}

fn load_tables(p: &impl FontTableProvider) -> Result<Tables, String> {
    let e = |x: ParseError| perr(&x).to_string();
    let mut t = Tables {
        glyf: vec![],
        loca: vec![],
        cff: vec![],
        cff2: vec![],
        num_glyphs: 0,
        loc: IndexToLocFormat::Short,
        kind: 0,
    };
    if p.has_table(tag::CFF) {
        t.cff = p.read_table_data(tag::CFF).map_err(e)?.into_owned();
        t.kind = 1;
    } else if p.has_table(tag::CFF2) {
        t.cff2 = p.read_table_data(tag::CFF2).map_err(e)?.into_owned();
        t.kind = 2;
    } else {
        let head = ReadScope::new(&p.read_table_data(tag::HEAD).map_err(e)?).read::<HeadTable>().map_err(e)?;
        let maxp = ReadScope::new(&p.read_table_data(tag::MAXP).map_err(e)?).read::<MaxpTable>().map_err(e)?;
        t.num_glyphs = usize::from(maxp.num_glyphs);
        t.loc = head.index_to_loc_format;
        t.glyf = p.read_table_data(tag::GLYF).map_err(e)?.into_owned();
        t.loca = p.read_table_data(tag::LOCA).map_err(e)?.into_owned();
    }
    Ok(t)
}

fn with_outlines<R>(t: &Tables, f: impl FnOnce(&mut Outlines<'_>) -> R) -> Result<R, String> {
    let e = |x: ParseError| perr(&x).to_string();
    match t.kind {
        1 => {
            let cff = ReadScope::new(&t.cff).read::<CFF<'_>>().map_err(e)?;
            Ok(f(&mut Outlines::Cff(cff)))
        }
        2 => {
            let cff2 = ReadScope::new(&t.cff2).read::<CFF2<'_>>().map_err(e)?;
            Ok(f(&mut Outlines::Cff2(cff2)))
        }
        _ => {
            let loca = ReadScope::new(&t.loca).read_dep::<LocaTable<'_>>((t.num_glyphs, t.loc)).map_err(e)?;
            let glyf = ReadScope::new(&t.glyf).read_dep::<GlyfTable<'_>>(&loca).map_err(e)?;
            Ok(f(&mut Outlines::Glyf(glyf)))
        }
    }
}

/// subset a font and report the views of output and source the judge needs
fn subset_report(p: &impl FontTableProvider, ids: &[u16]) -> String {
    let out = match allsorts::subset::subset(p, ids) {
        Ok(o) => o,
        Err(e) => return format!("err:{}", suberr(&e)),
    };
    // source view: glyphs reachable from ids through components
    let st = match load_tables(p) {
        Ok(t) => t,
        Err(e) => return format!("err:src-{}", e),
    };
    let src = with_outlines(&st, |o| {
        let mut seen: BTreeMap<u16, String> = BTreeMap::new();
        let mut work: Vec<u16> = ids.to_vec();
        while let Some(g) = work.pop() {
            if seen.contains_key(&g) || usize::from(g) >= o.num_glyphs() {
                continue;
            }
            let (d, comps) = o.desc(g);
            let h = o.hash(g);
            seen.insert(g, format!("{}:{}:{}:{}", g, raw_metric(p, usize::from(g)), h, d));
            work.extend(comps);
        }
        seen.into_values().collect::<Vec<_>>().join(",")
    });
    let src = match src {
        Ok(s) => s,
        Err(e) => return format!("err:src-{}", e),
    };
    // output view
    let fd = match ReadScope::new(&out).read::<FontData<'_>>() {
        Ok(f) => f,
        Err(e) => return format!("bad-output:{}", perr(&e)),
    };
    let op = match fd.table_provider(0) {
        Ok(p) => p,
        Err(e) => return format!("bad-output:{}", rwerr(&e)),
    };
    let ot = match load_tables(&op) {
        Ok(t) => t,
        Err(e) => return format!("bad-output:{}", e),
    };
    let ng = op
        .table_data(tag::MAXP)
        .ok()
        .flatten()
        .and_then(|m| rd16(&m, 4))
        .map_or(0, usize::from);
    let outv = with_outlines(&ot, |o| {
        (0..ng)
            .map(|n| format!("{}:{}", raw_metric(&op, n), o.hash(n as u16)))
            .collect::<Vec<_>>()
            .join(",")
    });
    match outv {
        Ok(o) => format!(
            "ok|{}|{}|{}",
            if o.is_empty() { "-".to_string() } else { o },
            if src.is_empty() { "-".to_string() } else { src },
            ["g", "c", "2"][st.kind as usize]
        ),
        Err(e) => format!("bad-output:{}", e),
    }
}

fn run_t(parts: &[&str]) -> String {
    let t = parse_table(parts[1]);
    let nhm: u16 = parts[2].parse().unwrap_or(0);
    let hm = parse_hm(parts[3]);
    let lsbs: Vec<i16> = ints(parts[4]);
    let ids: Vec<u16> = ints(parts[5]);
    let p = synthetic_ttf(&t, nhm, &hm, &lsbs);
    subset_report(&p, &ids)
}

const FONTS: &[&str] = &[
    "opentype/SFNT-TTF-Composite.ttf",
    "opentype/test-font.ttf",
    "opentype/OpenSans-Regular.ttf",
    "opentype/Klei.otf",
    "opentype/SourceCodePro-Regular.otf",
    "noto/NotoSansJP-Regular.otf",
    "opentype/cff2/SourceSans3.abc.otf",
    "opentype/cff2/SourceSans3-Instance.256.otf",
    
    "woff2/SFNT-TTF-Composite.woff2",
    "woff2/test-font.woff2",
    "woff1/valid-001.woff",
    "woff1/valid-005.woff",
    "syriac/SyrCOMEdessa.otf",
    "noto/NotoSansThai-Regular.ttf",
    "opentype/TerminusTTF-4.47.0.ttf",
];

const CFF_FONTS: &[&str] = &[
    "opentype/Klei.otf",
    "opentype/SourceCodePro-Regular.otf",
    "noto/NotoSansJP-Regular.otf",
];

fn font_bytes(name: &str) -> Vec<u8> {
    let repo = std::env::var("VERIF_REPO").unwrap_or_else(|_| "/repo".to_string());
    let (path, wrap) = match name.strip_suffix("+w") {
        Some(p) => (p, true),
        None => (name, false),
    };
    let data = std::fs::read(format!("{}/tests/fonts/{}", repo, path)).unwrap_or_default();
    if wrap {
        to_woff(&data).unwrap_or_default()
    } else {
        data
    }
}

/// wrap an sfnt into WOFF 1 (zlib-compressed tables)
fn to_woff(sfnt: &[u8]) -> Option<Vec<u8>> {
    use std::io::Write;
    let num = rd16(sfnt, 4)? as usize;
    let mut recs = vec![];
    for i in 0..num {
        let o = 12 + 16 * i;
        let rd32 = |k: usize| Some(u32::from_be_bytes([*sfnt.get(k)?, *sfnt.get(k + 1)?, *sfnt.get(k + 2)?, *sfnt.get(k + 3)?]));
        recs.push((rd32(o)?, rd32(o + 4)?, rd32(o + 8)? as usize, rd32(o + 12)? as usize));
    }
    let mut dir = vec![];
    let mut body = vec![];
    let base = 44 + 20 * num;
    let mut total_sfnt = 12 + 16 * num;
    for (tg, ck, off, len) in recs.iter() {
        let raw = sfnt.get(*off..*off + *len)?;
        let mut enc = flate2::write::ZlibEncoder::new(Vec::new(), flate2::Compression::default());
        enc.write_all(raw).ok()?;
        let comp = enc.finish().ok()?;
        let stored: &[u8] = if comp.len() < raw.len() { &comp } else { raw };
        be32(&mut dir, *tg);
        be32(&mut dir, (base + body.len()) as u32);
        be32(&mut dir, stored.len() as u32);
        be32(&mut dir, *len as u32);
        be32(&mut dir, *ck);
        body.extend_from_slice(stored);
        while body.len() % 4 != 0 {
            body.push(0);
        }
        total_sfnt += (*len + 3) & !3;
    }
    let mut w = vec![];
    be32(&mut w, 0x774F4646);
    w.extend_from_slice(sfnt.get(0..4)?);
    be32(&mut w, (base + body.len()) as u32);
    be16(&mut w, num as u16);
    be16(&mut w, 0);
    be32(&mut w, total_sfnt as u32);
    be16(&mut w, 1);
    be16(&mut w, 0);
    for _ in 0..5 {
        be32(&mut w, 0);
    }
    w.extend_from_slice(&dir);
    w.extend_from_slice(&body);
    Some(w)
}

fn run_f(parts: &[&str]) -> String {
    let data = font_bytes(parts[1]);
    if data.is_empty() {
        return "nofont".to_string();
    }
    let ids: Vec<u16> = ints(parts[2]);
    let fd = match ReadScope::new(&data).read::<FontData<'_>>() {
        Ok(f) => f,
        Err(e) => return format!("err:container-{}", perr(&e)),
    };
    let p = match fd.table_provider(0) {
        Ok(p) => p,
        Err(e) => return format!("err:container-{}", rwerr(&e)),
    };
    let r = subset_report(&p, &ids);
    if r.starts_with("err:") {
        let ng = p.table_data(tag::MAXP).ok().flatten().and_then(|m| rd16(&m, 4)).unwrap_or(0);
        format!("{}|{}", r, ng)
    } else {
        r
    }
}


// ------------------------------------------------------------------------------------------------
// CFF::subset on the CFF table of a fixture font, against the abstract model
//   c|FONT|IDS|CONVERT
//     => ok|olds|SRC|OUT    or  err:E
//   SRC = K;NP ! glyph views g:cs:ug:ul:fd:sid (ug, ul dot lists; fd/sid -1 when undefined) ! G index ! local indexes
//   OUT = K ! cs hashes ! fd per new glyph ! charset id per new glyph ! G index ! local indexes
//   an index is `len;i=h.i=h...` listing the entries the judge needs (SRC: used ones, OUT: non-empty ones);
//   h = 0 for an empty entry, else a 47-bit FNV hash + 1; local indexes are `fd:index` joined by `/`, `none` = absent

fn bhash(b: &[u8]) -> u64 {
    if b.is_empty() {
        return 0;
    }
    let mut h: u64 = 0xcbf29ce484222325;
    for x in b {
        h = (h ^ *x as u64).wrapping_mul(0x100000001b3);
    }
    (h & 0x7fff_ffff_ffff) + 1
}

fn index_view(ix: &allsorts::cff::MaybeOwnedIndex<'_>, want: Option<&std::collections::BTreeSet<usize>>) -> String {
    let mut ents = vec![];
    for i in 0..ix.len() {
        let b = ix.read_object(i).unwrap_or(&[]);
        let keep = match want {
            Some(w) => w.contains(&i),
            None => !b.is_empty(),
        };
        if keep {
            ents.push(format!("{}={}", i, bhash(b)));
        }
    }
    format!("{};{}", ix.len(), ents.join("."))
}

fn locals_view(font: &allsorts::cff::Font<'_>, want: Option<&BTreeMap<usize, std::collections::BTreeSet<usize>>>) -> String {
    use allsorts::cff::CFFVariant;
    let one = |fd: usize, ix: &Option<allsorts::cff::MaybeOwnedIndex<'_>>| -> String {
        match ix {
            None => format!("{}:none", fd),
            Some(ix) => {
                let empty = std::collections::BTreeSet::new();
                let w = want.map(|w| w.get(&fd).unwrap_or(&empty));
                format!("{}:{}", fd, index_view(ix, w))
            }
        }
    };
    match &font.data {
        CFFVariant::Type1(t) => one(0, &t.local_subr_index),
        CFFVariant::CID(c) => {
            let v: Vec<String> = c.local_subr_indices.iter().enumerate().map(|(fd, ix)| one(fd, ix)).collect();
            if v.is_empty() { "-".to_string() } else { v.join("/") }
        }
    }
}

fn dots(v: &[usize]) -> String {
    if v.is_empty() { "-".to_string() } else { v.iter().map(|x| x.to_string()).collect::<Vec<_>>().join(".") }
}

fn run_c(parts: &[&str]) -> String {
    use allsorts::cff::CFFVariant;
    use std::collections::BTreeSet;
    let data = font_bytes(parts[1]);
    if data.is_empty() {
        return "nofont".to_string();
    }
    let ids: Vec<u16> = ints(parts[2]);
    let convert = parts[3] == "1";
    let fd = match ReadScope::new(&data).read::<FontData<'_>>() {
        Ok(f) => f,
        Err(e) => return format!("err:container-{}", perr(&e)),
    };
    let p = match fd.table_provider(0) {
        Ok(p) => p,
        Err(e) => return format!("err:container-{}", rwerr(&e)),
    };
    let cff_data = match p.read_table_data(tag::CFF) {
        Ok(d) => d.into_owned(),
        Err(e) => return format!("err:src-{}", perr(&e)),
    };
    let cff = match ReadScope::new(&cff_data).read::<CFF<'_>>() {
        Ok(c) => c,
        Err(e) => return format!("err:src-{}", perr(&e)),
    };
    let font = match cff.fonts.first() {
        Some(f) => f,
        None => return "err:src-nofont".to_string(),
    };
    // source view
    let is_cid = matches!(font.data, CFFVariant::CID(_));
    let np = match &font.data {
        CFFVariant::CID(c) => c.private_dicts.len(),
        CFFVariant::Type1(_) => 1,
    };
    let mut gviews = vec![];
    let mut used_g: BTreeSet<usize> = BTreeSet::new();
    let mut used_l: BTreeMap<usize, BTreeSet<usize>> = BTreeMap::new();
    for &g in ids.iter() {
        let cs = font.char_strings_index.read_object(usize::from(g)).map(bhash);
        let (ug, ul, uerr) = match allsorts::verif::cff_used_subrs(&cff, g) {
            Ok((a, b)) => (a, b, false),
            Err(_) => (vec![], vec![], true),
        };
        let fdi: i32 = match &font.data {
            CFFVariant::CID(c) => c.fd_select.font_dict_index(g).map_or(-1, i32::from),
            CFFVariant::Type1(_) => 0,
        };
        let sid: i32 = font.charset.id_for_glyph(g).map_or(-1, i32::from);
        used_g.extend(ug.iter().copied());
        if fdi >= 0 {
            used_l.entry(fdi as usize).or_default().extend(ul.iter().copied());
        }
        gviews.push(format!(
            "{}:{}:{}:{}:{}:{}",
            g,
            cs.map_or("-1".to_string(), |h| h.to_string()),
            if uerr { "x".to_string() } else { dots(&ug) },
            dots(&ul),
            fdi,
            sid
        ));
    }
    let src = format!(
        "{};{}!{}!{}!{}",
        if is_cid { "C" } else { "T" },
        np,
        if gviews.is_empty() { "-".to_string() } else { gviews.join(",") },
        index_view(&cff.global_subr_index, Some(&used_g)),
        locals_view(font, Some(&used_l))
    );
    let (out, olds) = match allsorts::verif::cff_subset(&cff, &ids, convert) {
        Ok(r) => r,
        Err(e) => return format!("err:{}|{}", suberr(&e), src),
    };
    let ofont = &out.fonts[0];
    let n = ofont.char_strings_index.len();
    let o_cid = matches!(ofont.data, CFFVariant::CID(_));
    let cs: Vec<String> = (0..n).map(|i| bhash(ofont.char_strings_index.read_object(i).unwrap_or(&[])).to_string()).collect();
    let fds: Vec<String> = (0..n)
        .map(|i| match &ofont.data {
            CFFVariant::CID(c) => c.fd_select.font_dict_index(i as u16).map_or(-1, i32::from).to_string(),
            CFFVariant::Type1(_) => "0".to_string(),
        })
        .collect();
    let sids: Vec<String> = (0..n).map(|i| ofont.charset.id_for_glyph(i as u16).map_or(-1, i32::from).to_string()).collect();
    let outv = format!(
        "{}!{}!{}!{}!{}!{}",
        if o_cid { "C" } else { "T" },
        join(&cs),
        join(&fds),
        join(&sids),
        index_view(&out.global_subr_index, None),
        locals_view(ofont, None)
    );
    format!("ok|{}|{}|{}", join(&olds), src, outv)
}

// ------------------------------------------------------------------------------------------------
// synthetic name-keyed CFF:  s|NG|NL|GLYPHS|GSUBRS|LSUBRS|IDS|CONVERT
//   programs separated by spaces, tokens by '.':  mX,Y rmoveto | lX,Y rlineto | Gi callgsubr i | Li callsubr i |
//   E endchar | R return | Sb,a  `0 0 b a endchar` (seac, standard-encoding codes) | wN push N
//   NG / NL = size of the Global / Local Subr INDEX (padded with `return` subrs; selects the bias regime)
//   charset: glyph 1 = A (SID 34), glyph 2 = acute (SID 125), glyph k>2 = SID 170 + k
//   => ok|OUT|SRC   OUT = outline hash per new glyph (subset written with CFF::write and read back),
//                   SRC = outline hash of the source glyph per requested id        | err:E | panic

fn cs_num(v: &mut Vec<u8>, n: i32) {
    v.push(28);
    v.extend_from_slice(&(n as i16).to_be_bytes());
}

fn cs_bias(n: usize) -> i32 {
    if n < 1240 {
        107
    } else if n < 33900 {
        1131
    } else {
        32768
    }
}

fn cs_program(src: &str, ng: usize, nl: usize) -> Vec<u8> {
    let mut v = vec![];
    for tok in src.split('.').filter(|t| !t.is_empty()) {
        let (op, arg) = tok.split_at(1);
        let nums: Vec<i32> = arg.split(',').filter_map(|x| x.parse().ok()).collect();
        match op {
            "m" => {
                cs_num(&mut v, *nums.first().unwrap_or(&0));
                cs_num(&mut v, *nums.get(1).unwrap_or(&0));
                v.push(21);
            }
            "l" => {
                cs_num(&mut v, *nums.first().unwrap_or(&0));
                cs_num(&mut v, *nums.get(1).unwrap_or(&0));
                v.push(5);
            }
            "G" => {
                cs_num(&mut v, nums.first().unwrap_or(&0) - cs_bias(ng));
                v.push(29);
            }
            "L" => {
                cs_num(&mut v, nums.first().unwrap_or(&0) - cs_bias(nl));
                v.push(10);
            }
            "E" => v.push(14),
            "R" => v.push(11),
            "S" => {
                cs_num(&mut v, 0);
                cs_num(&mut v, 0);
                cs_num(&mut v, *nums.first().unwrap_or(&65));
                cs_num(&mut v, *nums.get(1).unwrap_or(&194));
                v.push(14);
            }
            "w" => cs_num(&mut v, *nums.first().unwrap_or(&0)),
            _ => {}
        }
    }
    v
}

fn cff_index(items: &[Vec<u8>]) -> Vec<u8> {
    let mut v = vec![];
    be16(&mut v, items.len() as u16);
    if items.is_empty() {
        return v;
    }
    v.push(4);
    let mut off = 1u32;
    be32(&mut v, off);
    for it in items {
        off += it.len() as u32;
        be32(&mut v, off);
    }
    for it in items {
        v.extend_from_slice(it);
    }
    v
}

fn dict_int(v: &mut Vec<u8>, n: i32) {
    v.push(29);
    v.extend_from_slice(&n.to_be_bytes());
}

fn synthetic_cff(ng: usize, nl: usize, glyphs: &[&str], gsubrs: &[&str], lsubrs: &[&str]) -> Vec<u8> {
    let pad = |progs: &[&str], n: usize| -> Vec<Vec<u8>> {
        let mut v: Vec<Vec<u8>> = progs.iter().map(|p| cs_program(p, ng, nl)).collect();
        while v.len() < n {
            v.push(vec![11]);
        }
        v
    };
    let gs = pad(gsubrs, ng);
    let ls = pad(lsubrs, nl);
    let cs: Vec<Vec<u8>> = glyphs.iter().map(|p| cs_program(p, gs.len(), ls.len())).collect();
    let header = vec![1u8, 0, 4, 4];
    let name = cff_index(&[b"T".to_vec()]);
    let strings = cff_index(&[]);
    let gsubr_ix = cff_index(&gs);
    let topdict_len = 6 + 6 + 11;
    let topdict_ix_len = 2 + 1 + 8 + topdict_len;
    let charset_off = header.len() + name.len() + topdict_ix_len + strings.len() + gsubr_ix.len();
    let mut charset = vec![0u8];
    for k in 1..glyphs.len() {
        let sid: u16 = match k {
            1 => 34,
            2 => 125,
            _ => 170 + k as u16,
        };
        be16(&mut charset, sid);
    }
    let cs_off = charset_off + charset.len();
    let cs_ix = cff_index(&cs);
    let priv_off = cs_off + cs_ix.len();
    let mut private = vec![];
    if !ls.is_empty() {
        dict_int(&mut private, 6);
        private.push(19); // Subrs, offset relative to the Private DICT
    }
    let ls_ix = if ls.is_empty() { vec![] } else { cff_index(&ls) };
    let mut top = vec![];
    dict_int(&mut top, charset_off as i32);
    top.push(15);
    dict_int(&mut top, cs_off as i32);
    top.push(17);
    dict_int(&mut top, private.len() as i32);
    dict_int(&mut top, priv_off as i32);
    top.push(18);
    let mut out = header;
    out.extend_from_slice(&name);
    out.extend_from_slice(&cff_index(&[top]));
    out.extend_from_slice(&strings);
    out.extend_from_slice(&gsubr_ix);
    out.extend_from_slice(&charset);
    out.extend_from_slice(&cs_ix);
    out.extend_from_slice(&private);
    out.extend_from_slice(&ls_ix);
    out
}

fn progs(s: &str) -> Vec<&str> {
    s.split(' ').filter(|x| !x.is_empty() && *x != "-").collect()
}

fn run_s(parts: &[&str]) -> String {
    let ng: usize = parts[1].parse().unwrap_or(0);
    let nl: usize = parts[2].parse().unwrap_or(0);
    let ids: Vec<u16> = ints(parts[6]);
    let convert = parts.get(7).map_or(false, |c| *c == "1");
    let bytes = synthetic_cff(ng, nl, &progs(parts[3]), &progs(parts[4]), &progs(parts[5]));
    let mut src = match ReadScope::new(&bytes).read::<CFF<'_>>() {
        Ok(c) => c,
        Err(e) => return format!("err:src-{}", perr(&e)),
    };
    let srcv: Vec<String> = ids.iter().map(|g| outline_hash(&mut src, *g)).collect();
    let src2 = ReadScope::new(&bytes).read::<CFF<'_>>().unwrap();
    let (out, _olds) = match allsorts::verif::cff_subset(&src2, &ids, convert) {
        Ok(r) => r,
        Err(e) => return format!("err:{}", suberr(&e)),
    };
    let mut w = WriteBuffer::new();
    if let Err(e) = CFF::write(&mut w, &out) {
        return format!("bad-output:write-{:?}", e);
    }
    let ob = w.into_inner();
    let mut back = match ReadScope::new(&ob).read::<CFF<'_>>() {
        Ok(c) => c,
        Err(e) => return format!("bad-output:{}", perr(&e)),
    };
    let n = back.fonts.first().map_or(0, |f| f.char_strings_index.len());
    let outv: Vec<String> = (0..n).map(|g| outline_hash(&mut back, g as u16)).collect();
    format!("ok|{}|{}", join(&outv), join(&srcv))
}

fn gen_cff(rng: &mut Rng) -> String {
    let nglyph = rng.range(3, 12) as usize;
    let sizes = [0usize, 1, 3, 20, 1239, 1240, 1300];
    let mut ng = *rng.pick(&sizes);
    let mut nl = *rng.pick(&sizes);
    if rng.chance(1, 30) {
        ng = 33900;
    }
    let seg = |rng: &mut Rng| format!("l{},{}", rng.range(-40, 40), rng.range(-40, 40));
    let nsub_g = ng.min(rng.range(0, 4) as usize);
    let nsub_l = nl.min(rng.range(0, 4) as usize);
    // subrs: drawing then return; may call a higher-numbered subr of the same kind or a global one
    let sub = |rng: &mut Rng, i: usize, n: usize, kind: &str, ng_avail: usize| -> String {
        let mut t = vec![seg(rng)];
        if i + 1 < n && rng.chance(1, 3) {
            t.push(format!("{}{}", kind, rng.range(i as i64 + 1, n as i64 - 1)));
        } else if kind == "L" && ng_avail > 0 && rng.chance(1, 4) {
            t.push(format!("G{}", rng.below(ng_avail as u64)));
        }
        t.push("R".to_string());
        t.join(".")
    };
    let gs: Vec<String> = (0..nsub_g).map(|i| sub(rng, i, nsub_g, "G", 0)).collect();
    let ls: Vec<String> = (0..nsub_l).map(|i| sub(rng, i, nsub_l, "L", nsub_g)).collect();
    let high_g = ng > nsub_g && rng.chance(1, 3);
    let glyphs: Vec<String> = (0..nglyph)
        .map(|k| {
            if k >= 3 && rng.chance(1, 12) {
                return "w300.S65,194".to_string();
            }
            let mut t = vec![format!("m{},{}", 10 * k as i64 + rng.range(0, 5), rng.range(0, 50))];
            for _ in 0..rng.range(1, 3) {
                t.push(seg(rng));
            }
            if nsub_g > 0 && rng.chance(1, 2) {
                t.push(format!("G{}", rng.below(nsub_g as u64)));
            }
            if nsub_l > 0 && rng.chance(1, 2) {
                t.push(format!("L{}", rng.below(nsub_l as u64)));
            }
            if high_g && rng.chance(1, 4) {
                t.push(format!("G{}", ng - 1)); // a padding subr at the top of the INDEX
            }
            t.push("E".to_string());
            t.join(".")
        })
        .collect();
    let ids = gen_ids(rng, nglyph);
    let sh = |v: &[String]| if v.is_empty() { "-".to_string() } else { v.join(" ") };
    format!("s|{}|{}|{}|{}|{}|{}|{}", ng, nl, sh(&glyphs), sh(&gs), sh(&ls), join(&ids), rng.below(2))
}

// ------------------------------------------------------------------------------------------------
// q: CFF2 -> CFF charstring conversion.  Glyph 1 of a CFF2 fixture gets a synthesised charstring (operands at
// the edges of every Type 2 number encoding, fixed-point operands, every path operator); the font is subset
// to [0, 1] (which converts CFF2 to CFF) and the outline of the glyph is compared before and after.
//   q|HEX   ->  src:<hash>|sub:<hash>       hash = outline event hash, or E<error>

struct WithCff2<'a, P> {
    inner: &'a P,
    cff2: Vec<u8>,
}
impl<'a, P: FontTableProvider> FontTableProvider for WithCff2<'a, P> {
    fn table_data(&self, t: u32) -> Result<Option<Cow<'_, [u8]>>, ParseError> {
        if t == tag::CFF2 {
            Ok(Some(Cow::Borrowed(&self.cff2)))
        } else {
            self.inner.table_data(t)
        }
    }
    fn has_table(&self, t: u32) -> bool {
        self.inner.has_table(t)
    }
    fn table_tags(&self) -> Option<Vec<u32>> {
        self.inner.table_tags()
    }
}

fn run_q(parts: &[&str]) -> String {
    let cs = avh::prng::unhex(parts[1]);
    let data = font_bytes("opentype/cff2/SourceSans3.abc.otf");
    let fd = match ReadScope::new(&data).read::<FontData<'_>>() {
        Ok(f) => f,
        Err(_) => return "nofixture".to_string(),
    };
    let provider = match fd.table_provider(0) {
        Ok(p) => p,
        Err(_) => return "nofixture".to_string(),
    };
    let cff2_data = match provider.table_data(tag::CFF2) {
        Ok(Some(d)) => d.into_owned(),
        _ => return "nofixture".to_string(),
    };
    let mut cff2 = match ReadScope::new(&cff2_data).read::<CFF2<'_>>() {
        Ok(c) => c,
        Err(_) => return "nofixture".to_string(),
    };
    cff2.char_strings_index.replace(1, cs);
    let mut out = WriteBuffer::new();
    if CFF2::write(&mut out, cff2).is_err() {
        return "nowrite".to_string();
    }
    let provider = WithCff2 { inner: &provider, cff2: out.into_inner() };
    let cff2_data = provider.table_data(tag::CFF2).unwrap().unwrap().into_owned();
    let cff2 = match ReadScope::new(&cff2_data).read::<CFF2<'_>>() {
        Ok(c) => c,
        Err(_) => return "noreread".to_string(),
    };
    let src = outline_hash(&mut CFF2Outlines { table: &cff2, tuple: None }, 1);
    let sub = match allsorts::subset::subset(&provider, &[0, 1]) {
        Err(e) => format!("S{:?}", e).replace(|c: char| !c.is_ascii_alphanumeric(), ""),
        Ok(font) => {
            let r = ReadScope::new(&font).read::<FontData<'_>>().ok().and_then(|f| {
                let p = f.table_provider(0).ok()?;
                let d = p.table_data(tag::CFF).ok()??.into_owned();
                let mut cff = ReadScope::new(&d).read::<CFF<'_>>().ok()?;
                Some(outline_hash(&mut cff, 1))
            });
            r.unwrap_or_else(|| "Eunreadable".to_string())
        }
    };
    format!("src:{}|sub:{}", src, sub)
}

/// a CFF2 charstring over boundary operands: every number encoding the Type 2 format has
fn gen_cff2_charstring(rng: &mut Rng) -> Vec<u8> {
    const EDGES: &[i32] = &[
        0, 1, -1, 107, 108, -107, -108, 363, 364, 1130, 1131, 1132, 1133, -1130, -1131, -1132, -1133, 1500, 32767, -32768,
        30000, -30000, 255, 256, -255, -256,
    ];
    fn num(rng: &mut Rng, cs: &mut Vec<u8>) {
        let v = if rng.chance(2, 3) { *rng.pick(EDGES) } else { rng.range(-1400, 1400) as i32 };
        match rng.below(8) {
            0 => {
                // 16.16 fixed: whole or with a fraction
                cs.push(255);
                let raw = (v << 16).wrapping_add(if rng.chance(1, 2) { 0 } else { (rng.next() & 0xffff) as i32 });
                cs.extend_from_slice(&raw.to_be_bytes());
            }
            1 | 2 => {
                cs.push(28);
                cs.extend_from_slice(&(v as i16).to_be_bytes());
            }
            _ => {
                // the shortest form
                if (-107..=107).contains(&v) {
                    cs.push((v + 139) as u8);
                } else if (108..=1131).contains(&v) {
                    let w = v - 108;
                    cs.push((w >> 8) as u8 + 247);
                    cs.push(w as u8);
                } else if (-1131..=-108).contains(&v) {
                    let w = -v - 108;
                    cs.push((w >> 8) as u8 + 251);
                    cs.push(w as u8);
                } else {
                    cs.push(28);
                    cs.extend_from_slice(&(v as i16).to_be_bytes());
                }
            }
        }
    }
    let mut cs = vec![];
    num(rng, &mut cs);
    num(rng, &mut cs);
    cs.push(21); // rmoveto
    for _ in 0..1 + rng.below(5) {
        match rng.below(5) {
            0 => {
                num(rng, &mut cs);
                cs.push(6); // hlineto
            }
            1 => {
                num(rng, &mut cs);
                cs.push(7); // vlineto
            }
            2 => {
                for _ in 0..6 {
                    num(rng, &mut cs);
                }
                cs.push(8); // rrcurveto
            }
            3 => {
                num(rng, &mut cs);
                num(rng, &mut cs);
                cs.push(21); // another contour
            }
            _ => {
                for _ in 0..2 * (1 + rng.below(3)) {
                    num(rng, &mut cs);
                }
                cs.push(5); // rlineto
            }
        }
    }
    cs
}

pub fn run(input: &str) -> String {
    let parts: Vec<&str> = input.split('|').collect();
    if std::env::var("C07_DEBUG").is_ok() {
        std::panic::set_hook(Box::new(|info| eprintln!("{}", info)));
    }
    let r = catch_unwind(AssertUnwindSafe(|| match parts[0] {
        "g" if parts.len() >= 5 => run_g(&parts),
        "h" if parts.len() >= 5 => run_h(&parts),
        "t" if parts.len() >= 6 => run_t(&parts),
        "f" if parts.len() >= 3 => run_f(&parts),
        "c" if parts.len() >= 4 => run_c(&parts),
        "s" if parts.len() >= 7 => run_s(&parts),
        "q" if parts.len() >= 2 => run_q(&parts),
        _ => "badinput".to_string(),
    }));
    match r {
        Ok(s) => s,
        Err(e) => panic_kind(&*e).to_string(),
    }
}

// ------------------------------------------------------------------------------------------------
// generators

/// a random glyf table: mostly a DAG (components point to higher indices), sometimes back edges, self
/// references, out-of-range components, chains around the depth limit, shared components
fn gen_table(rng: &mut Rng, allow_x: bool) -> Vec<G> {
    let n = match rng.below(10) {
        0 => rng.range(1, 3) as usize,
        1..=6 => rng.range(3, 12) as usize,
        _ => rng.range(12, 40) as usize,
    };
    let style = rng.below(12);
    let mut t = vec![];
    for i in 0..n {
        let comp = |rng: &mut Rng| -> (u16, i32) {
            let g = match style {
                // DAG: forward edges only
                0..=6 => {
                    if i + 1 < n {
                        rng.range(i as i64 + 1, n as i64 - 1) as u16
                    } else {
                        i as u16
                    }
                }
                7 => rng.below(n as u64) as u16,                            // any edge, cycles possible
                8 => ((i + 1) % n) as u16,                                   // chain / ring
                9 => if rng.chance(1, 6) { (n as u64 + rng.below(3)) as u16 } else { rng.below(n as u64) as u16 },
                10 => if rng.chance(1, 4) { i as u16 } else { rng.range(i as i64, n as i64 - 1) as u16 },
                _ => (n - 1) as u16,                                         // everything shares the last glyph
            };
            (g, rng.range(-50, 50) as i32)
        };
        let g = match rng.below(10) {
            0 => G::E,
            1..=4 => G::S(100 * (i as i32 + 1) + rng.range(0, 9) as i32),
            5 if allow_x && rng.chance(1, 8) => G::X,
            _ => {
                let k = if style == 8 { 1 } else { rng.range(1, 4) as usize };
                let cs: Vec<(u16, i32)> = (0..k).map(|_| comp(rng)).collect();
                if i + 1 == n && style <= 6 {
                    G::S(100 * (i as i32 + 1))
                } else {
                    G::C(cs, rng.range(0, 30) as i32)
                }
            }
        };
        t.push(g);
    }
    if style == 8 && rng.chance(1, 2) {
        // break the ring: chain of composites ending in a simple glyph (length around the depth limit)
        let last = t.len() - 1;
        t[last] = G::S(7);
    }
    t
}

fn gen_ids(rng: &mut Rng, n: usize) -> Vec<u16> {
    let mut ids: Vec<u16> = vec![];
    let k = match rng.below(8) {
        0 => 1,
        1..=5 => rng.range(1, 6) as usize,
        _ => rng.range(1, n.max(1) as i64) as usize,
    };
    // mostly valid: first 0, distinct, in range
    let first_zero = !rng.chance(1, 25);
    if first_zero {
        ids.push(0);
    }
    let mut guard = 0;
    while ids.len() < k && guard < 200 {
        guard += 1;
        let g = if rng.chance(1, 40) { (n as u64 + rng.below(3)) as u16 } else { rng.below(n.max(1) as u64) as u16 };
        if ids.contains(&g) && !rng.chance(1, 30) {
            continue;
        }
        ids.push(g);
    }
    ids
}

fn gen_hm(rng: &mut Rng, ng: usize) -> (u16, Vec<(u16, i16)>, Vec<i16>) {
    let nhm = match rng.below(12) {
        0 => 0,
        1 => ng,
        2 => 1,
        3 => ng + rng.below(3) as usize,
        _ => rng.below(ng as u64 + 1) as usize,
    };
    let hm: Vec<(u16, i16)> = (0..nhm).map(|i| (500 + 7 * i as u16 + rng.below(5) as u16, rng.range(-30, 30) as i16)).collect();
    let want = ng.saturating_sub(nhm);
    let nl = if rng.chance(1, 20) { want.saturating_sub(1) } else { want };
    let lsbs: Vec<i16> = (0..nl).map(|i| 100 + i as i16 + rng.range(0, 3) as i16).collect();
    (nhm as u16, hm, lsbs)
}

fn show_hm(hm: &[(u16, i16)]) -> String {
    if hm.is_empty() {
        "-".to_string()
    } else {
        hm.iter().map(|(a, l)| format!("{}:{}", a, l)).collect::<Vec<_>>().join(",")
    }
}

pub fn gen(rng: &mut Rng) -> String {
    match rng.below(100) {
        0..=44 => {
            let mode = if rng.chance(1, 2) { "P" } else { "B" };
            let t = gen_table(rng, mode == "B");
            let ids = gen_ids(rng, t.len());
            let probes: Vec<u16> = (0..rng.range(0, 4)).map(|_| rng.below(t.len() as u64 + 2) as u16).collect();
            format!("g|{}|{}|{}|{}", mode, show_table(&t), join(&ids), join(&probes))
        }
        45..=64 => {
            let ng = rng.range(1, 20) as usize;
            let (nhm, hm, lsbs) = gen_hm(rng, ng);
            let nhm_arg = if rng.chance(1, 15) { rng.below(ng as u64 + 2) as u16 } else { nhm };
            let olds: Vec<u16> = (0..rng.range(0, 8))
                .map(|_| {
                    let extra = if rng.chance(1, 10) { 2 } else { 0 };
                    rng.below(ng as u64 + extra) as u16
                })
                .collect();
            format!("h|{}|{}|{}|{}|{}", nhm_arg, show_hm(&hm), join(&lsbs), join(&olds), avh::build_mode())
        }
        65..=85 => {
            let t = gen_table(rng, true);
            let ids = gen_ids(rng, t.len());
            let (nhm, hm, lsbs) = gen_hm(rng, t.len());
            format!("t|{}|{}|{}|{}|{}|{}", show_table(&t), nhm, show_hm(&hm), join(&lsbs), join(&ids), avh::build_mode())
        }
        86..=87 => gen_cff(rng),
        88..=89 => format!("q|{}", avh::prng::hex(&gen_cff2_charstring(rng))),
        90..=94 => {
            let name = *rng.pick(CFF_FONTS);
            let data = font_bytes(name);
            let ng = ReadScope::new(&data)
                .read::<FontData<'_>>()
                .ok()
                .and_then(|f| f.table_provider(0).ok())
                .and_then(|p| p.table_data(tag::MAXP).ok().flatten().and_then(|m| rd16(&m, 4)))
                .unwrap_or(1) as usize;
            let mut ids = gen_ids(rng, ng);
            if rng.chance(1, 6) {
                // more than 255 glyphs: Type 1 -> CID conversion
                let mut g = 1u16;
                while ids.len() < 300 && (g as usize) < ng {
                    if !ids.contains(&g) {
                        ids.push(g);
                    }
                    g += 1 + rng.below(3) as u16;
                }
            }
            format!("c|{}|{}|{}", name, join(&ids), rng.below(2))
        }
        _ => {
            let mut name = rng.pick(FONTS).to_string();
            let data = font_bytes(&name);
            if name.ends_with("tf") && rng.chance(1, 3) {
                name.push_str("+w");
            }
            // number of glyphs from maxp of the sfnt (fixture reading only to choose ids)
            let ng = ReadScope::new(&data)
                .read::<FontData<'_>>()
                .ok()
                .and_then(|f| f.table_provider(0).ok())
                .and_then(|p| p.table_data(tag::MAXP).ok().flatten().and_then(|m| rd16(&m, 4)))
                .unwrap_or(1) as usize;
            let cap = if rng.chance(1, 4) { ng } else { 400 };
            let ids = gen_ids(rng, ng.min(cap));
            format!("f|{}|{}", name, join(&ids))
        }
    }
}

fn main() {
    harness_main(&run, &mut gen)
}
