//! avh — correspondence harness: runs the implementation on generated cases and prints
//! `input => result` lines for the OCaml model driver (ocaml/avm) to compare.
mod c14;
mod prng;

use prng::Rng;
use std::io::Write;

fn usage() -> ! {
    eprintln!("usage: avh <prop> gen <seed> <count> <outfile> | avh <prop> replay <input-line>");
    std::process::exit(2)
}

fn main() {
    std::panic::set_hook(Box::new(|_| {}));
    let args: Vec<String> = std::env::args().collect();
    if args.len() < 3 {
        usage();
    }
    let mode = if cfg!(debug_assertions) { "d" } else { "r" };
    match (args[1].as_str(), args[2].as_str()) {
        ("c14", "gen") => {
            let seed: u64 = args[3].parse().unwrap();
            let count: usize = args[4].parse().unwrap();
            let mut out = std::io::BufWriter::new(std::fs::File::create(&args[5]).unwrap());
            // corpus lines (inputs only) first
            if let Some(corpus) = args.get(6) {
                if let Ok(txt) = std::fs::read_to_string(corpus) {
                    for line in txt.lines().filter(|l| !l.is_empty() && !l.starts_with('#')) {
                        let parts: Vec<&str> = line.split('|').collect();
                        let buf = prng::unhex(parts[1]);
                        let ops: Vec<String> = parts[2].split(' ').filter(|s| !s.is_empty()).map(String::from).collect();
                        let res = c14::run_program(&buf, &ops);
                        writeln!(out, "{} => {}", c14::case_line(mode, &buf, &ops), res).unwrap();
                    }
                }
            }
            let mut rng = Rng::new(seed);
            for _ in 0..count {
                let (buf, ops) = c14::gen_program(&mut rng);
                let res = c14::run_program(&buf, &ops);
                writeln!(out, "{} => {}", c14::case_line(mode, &buf, &ops), res).unwrap();
            }
        }
        ("c14", "replay") => {
            let parts: Vec<&str> = args[3].split('|').collect();
            let buf = prng::unhex(parts[1]);
            let ops: Vec<String> = parts[2].split(' ').filter(|s| !s.is_empty()).map(String::from).collect();
            println!("{} => {}", c14::case_line(mode, &buf, &ops), c14::run_program(&buf, &ops));
        }
        _ => usage(),
    }
}
