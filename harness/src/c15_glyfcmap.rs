//! C15, second part: composite glyphs and the cmap writers, on the real allsorts code.
//!
//! Line formats (numbers decimal, bytes hex, `-` = empty):
//!   NL       = `-` | item `,` item ..      item = v | v`*`k   (k copies; written for runs of 3 and more)
//!   COMP     = FLAGS:GID:ARG:ARG:SCALE      ARG = B<u8> | b<i8> | W<u16> | w<i16>
//!                                           SCALE = `-` | s<v> | x<v>_<v> | m<v>_<v>_<v>_<v>  (raw F2Dot14)
//!   COMPS    = `.` | COMP `+` COMP ..
//!   ST       = 0:LANG:NL | 4:LANG:NLends:NLstarts:NLdeltas:NLros:NLgids | 6:LANG:FIRST:NL
//!            | 10:LANG:START:NL | 12:LANG:GROUPS | 2:LANG:NLkeys:NSUBHEADERS (shown only)
//!   GROUPS   = `-` | grp `,` grp ..         grp = start_end_gid | start_end_gid`*`k
//!   RECS     = `.` | REC `+` REC ..         REC = PLAT/ENC/ST | PLAT/ENC/ST^k (k copies)
//!
//!   cg|MODE|BBOX|COMPS|INSTRSTR        composite value -> Glyph::write -> Glyph::read (3 trailing bytes appended)
//!        => w=HEX;r=ok:C/BBOX/COMPS/INSTRHEX;rem=N | w=err:E
//!   glyphrd|MODE|HEX (composite branch) bytes -> Glyph::read -> Glyph::write -> Glyph::read
//!        => r=ok:C/..;n=CONSUMED;w=HEX;r2=ok:C/..;rem2=N
//!   cms|MODE|b/o|ST                    sub-table value -> borrowed / owned write -> CmapSubtable::read
//!        => w=HEX;r=ok:ST | w=err:E
//!   cmsrd|MODE|b/o|HEX                 bytes -> read -> write (borrowed / to_owned + owned) -> read -> write
//!        => r=ok:ST;w=HEX;r2=ok:ST;w2=same
//!   cmapv|MODE|RECS                    owned::Cmap value -> write -> Cmap::read + every sub-table
//!        => w=HEX;r=ok:PLAT/ENC/OFFSET/ST+..
//!   cmaprd|MODE|HEX                    bytes -> Cmap::read + sub-tables -> to_owned -> owned::Cmap::write -> read
//!        => r=ok:..;w=HEX;r2=ok:..
//!   filec|PATH                         every composite glyph, cmap sub-table and the cmap table of a fixture
//!        => items=N#KIND HEX -> RESULT ## ..
use allsorts::binary::read::{ReadArray, ReadScope};
use allsorts::binary::write::{WriteBinary, WriteBuffer};
use allsorts::binary::{I16Be, U16Be, U8};
use allsorts::error::{ParseError, WriteError};
use allsorts::tables::cmap::{owned, Cmap, CmapSubtable, CmapSubtableFormat4, EncodingId, PlatformId, SequentialMapGroup};
use allsorts::tables::glyf::{
    BoundingBox, CompositeGlyph, CompositeGlyphArgument, CompositeGlyphComponent, CompositeGlyphFlag,
    CompositeGlyphScale, Glyph,
};
use allsorts::tables::F2Dot14;
use avh::perr;
use avh::prng::{hex, unhex, Rng};
use std::panic::{catch_unwind, AssertUnwindSafe};

pub const TRAIL: [u8; 3] = [0xa5, 0x5a, 0x3c];

fn werr(e: &WriteError) -> &'static str {
    match e {
        WriteError::BadValue => "BadValue",
        WriteError::NotImplemented => "NotImplemented",
        WriteError::PlaceholderMismatch => "OtherErr",
    }
}
fn wbuf<F: FnOnce(&mut WriteBuffer) -> Result<(), WriteError>>(f: F) -> Result<Vec<u8>, WriteError> {
    let mut b = WriteBuffer::new();
    f(&mut b)?;
    Ok(b.into_inner())
}
fn parse_str(s: &str) -> Vec<u8> {
    if s == "-" {
        vec![]
    } else if let Some(h) = s.strip_prefix('h') {
        unhex(h)
    } else if let Some(r) = s.strip_prefix('r') {
        let (l, b) = r.split_once('x').unwrap();
        vec![b.parse::<u8>().unwrap(); l.parse::<usize>().unwrap()]
    } else {
        panic!("STR {}", s)
    }
}

// ---------------------------------------------------------------- number lists
pub fn nl_parse(s: &str) -> Vec<i128> {
    let mut out = vec![];
    if s == "-" || s.is_empty() {
        return out;
    }
    for it in s.split(',') {
        match it.split_once('*') {
            Some((v, k)) => {
                let v: i128 = v.parse().unwrap();
                for _ in 0..k.parse::<usize>().unwrap() {
                    out.push(v);
                }
            }
            None => out.push(it.parse().unwrap()),
        }
    }
    out
}
/// run-length form of a list of already formatted items
fn rle(items: &[String]) -> String {
    if items.is_empty() {
        return "-".to_string();
    }
    let mut out: Vec<String> = vec![];
    let mut i = 0;
    while i < items.len() {
        let mut j = i;
        while j < items.len() && items[j] == items[i] {
            j += 1;
        }
        let k = j - i;
        if k >= 3 {
            out.push(format!("{}*{}", items[i], k));
        } else {
            for _ in 0..k {
                out.push(items[i].clone());
            }
        }
        i = j;
    }
    out.join(",")
}
pub fn nl_show<T: std::fmt::Display>(v: &[T]) -> String {
    rle(&v.iter().map(|x| x.to_string()).collect::<Vec<_>>())
}

// ---------------------------------------------------------------- composite glyphs
fn arg_show(a: &CompositeGlyphArgument) -> String {
    match a {
        CompositeGlyphArgument::U8(v) => format!("B{}", v),
        CompositeGlyphArgument::I8(v) => format!("b{}", v),
        CompositeGlyphArgument::U16(v) => format!("W{}", v),
        CompositeGlyphArgument::I16(v) => format!("w{}", v),
    }
}
fn arg_parse(s: &str) -> CompositeGlyphArgument {
    let v: i64 = s[1..].parse().unwrap();
    match &s[..1] {
        "B" => CompositeGlyphArgument::U8(v as u8),
        "b" => CompositeGlyphArgument::I8(v as i8),
        "W" => CompositeGlyphArgument::U16(v as u16),
        "w" => CompositeGlyphArgument::I16(v as i16),
        _ => panic!("ARG {}", s),
    }
}
fn scale_show(s: &Option<CompositeGlyphScale>) -> String {
    match s {
        None => "-".to_string(),
        Some(CompositeGlyphScale::Scale(v)) => format!("s{}", v.raw_value()),
        Some(CompositeGlyphScale::XY { x_scale, y_scale }) => format!("x{}_{}", x_scale.raw_value(), y_scale.raw_value()),
        Some(CompositeGlyphScale::Matrix(m)) => {
            format!("m{}_{}_{}_{}", m[0][0].raw_value(), m[0][1].raw_value(), m[1][0].raw_value(), m[1][1].raw_value())
        }
    }
}
fn scale_parse(s: &str) -> Option<CompositeGlyphScale> {
    if s == "-" {
        return None;
    }
    let v: Vec<F2Dot14> = s[1..].split('_').map(|x| F2Dot14::from_raw(x.parse::<i64>().unwrap() as i16)).collect();
    Some(match &s[..1] {
        "s" => CompositeGlyphScale::Scale(v[0]),
        "x" => CompositeGlyphScale::XY { x_scale: v[0], y_scale: v[1] },
        "m" => CompositeGlyphScale::Matrix([[v[0], v[1]], [v[2], v[3]]]),
        _ => panic!("SCALE {}", s),
    })
}
fn comp_show(c: &CompositeGlyphComponent) -> String {
    format!("{}:{}:{}:{}:{}", c.flags.bits(), c.glyph_index, arg_show(&c.argument1), arg_show(&c.argument2), scale_show(&c.scale))
}
fn comp_parse(s: &str) -> CompositeGlyphComponent {
    let f: Vec<&str> = s.split(':').collect();
    CompositeGlyphComponent {
        // the struct field can hold any bit pattern the bitflags type allows to construct
        flags: CompositeGlyphFlag::from_bits_truncate(f[0].parse::<u32>().unwrap() as u16),
        glyph_index: f[1].parse::<u32>().unwrap() as u16,
        argument1: arg_parse(f[2]),
        argument2: arg_parse(f[3]),
        scale: scale_parse(f[4]),
    }
}
pub fn cg_show(g: &CompositeGlyph<'_>) -> String {
    let c: Vec<String> = g.glyphs.iter().map(comp_show).collect();
    let bb = [g.bounding_box.x_min, g.bounding_box.y_min, g.bounding_box.x_max, g.bounding_box.y_max];
    format!(
        "C/{}/{}/{}",
        bb.iter().map(|x| x.to_string()).collect::<Vec<_>>().join(","),
        if c.is_empty() { ".".to_string() } else { c.join("+") },
        hex(g.instructions)
    )
}
/// Glyph::read through a ReadCtxt: the shown glyph (composite only) and the bytes left unread
fn cg_read(b: &[u8]) -> (String, usize) {
    let scope = ReadScope::new(b);
    let mut ctxt = scope.ctxt();
    let r = ctxt.read::<Glyph<'_>>();
    let rem = ctxt.scope().data().len();
    match r {
        Err(e) => (format!("err:{}", perr(&e)), rem),
        Ok(Glyph::Composite(g)) => (format!("ok:{}", cg_show(&g)), rem),
        Ok(Glyph::Simple(_)) => ("simple".to_string(), rem),
        Ok(Glyph::Empty(_)) => ("empty".to_string(), rem),
    }
}
fn with_trail(b: &[u8]) -> Vec<u8> {
    let mut v = b.to_vec();
    v.extend_from_slice(&TRAIL);
    v
}
/// cg|MODE|BBOX|COMPS|INSTRSTR
pub fn run_cg(p: &[&str]) -> String {
    let bb = nl_parse(p[2]);
    let instr = parse_str(p[4]);
    let comps: Vec<CompositeGlyphComponent> = if p[3] == "." { vec![] } else { p[3].split('+').map(comp_parse).collect() };
    let g = CompositeGlyph {
        bounding_box: BoundingBox { x_min: bb[0] as i16, y_min: bb[1] as i16, x_max: bb[2] as i16, y_max: bb[3] as i16 },
        glyphs: comps,
        instructions: &instr,
        phantom_points: None,
    };
    match catch_unwind(AssertUnwindSafe(|| wbuf(|b| Glyph::write(b, Glyph::Composite(g))))) {
        Err(_) => "w=panic".to_string(),
        Ok(Err(e)) => format!("w=err:{}", werr(&e)),
        Ok(Ok(b)) => match catch_unwind(AssertUnwindSafe(|| cg_read(&with_trail(&b)))) {
            Err(_) => format!("w={};r=panic", hex(&b)),
            Ok((r, rem)) if r.starts_with("ok:") => format!("w={};r={};rem={}", hex(&b), r, rem),
            Ok((r, _)) => format!("w={};r={}", hex(&b), r),
        },
    }
}
/// the composite branch of glyphrd|MODE|HEX
pub fn run_cgrd(d: &[u8], g: CompositeGlyph<'_>) -> String {
    let r = cg_show(&g);
    let (_, rem) = cg_read(d);
    let n = d.len() - rem;
    match catch_unwind(AssertUnwindSafe(|| wbuf(|b| Glyph::write(b, Glyph::Composite(g))))) {
        Err(_) => format!("r=ok:{};n={};w=panic", r, n),
        Ok(Err(e)) => format!("r=ok:{};n={};w=err:{}", r, n, werr(&e)),
        Ok(Ok(b)) => match catch_unwind(AssertUnwindSafe(|| cg_read(&with_trail(&b)))) {
            Err(_) => format!("r=ok:{};n={};w={};r2=panic", r, n, hex(&b)),
            Ok((r2, rem2)) if r2.starts_with("ok:") => format!("r=ok:{};n={};w={};r2={};rem2={}", r, n, hex(&b), r2, rem2),
            Ok((r2, _)) => format!("r=ok:{};n={};w={};r2={}", r, n, hex(&b), r2),
        },
    }
}

// ---------------------------------------------------------------- cmap sub-tables
fn be16(v: &[i128]) -> Vec<u8> {
    v.iter().flat_map(|x| (*x as u16).to_be_bytes()).collect()
}
fn groups_parse(s: &str) -> Vec<(u32, u32, u32)> {
    let mut out = vec![];
    if s == "-" {
        return out;
    }
    for it in s.split(',') {
        let (g, k) = match it.split_once('*') {
            Some((g, k)) => (g, k.parse::<usize>().unwrap()),
            None => (it, 1),
        };
        let f: Vec<u32> = g.split('_').map(|x| x.parse::<u64>().unwrap() as u32).collect();
        for _ in 0..k {
            out.push((f[0], f[1], f[2]));
        }
    }
    out
}
fn group_fields(g: SequentialMapGroup) -> (u32, u32, u32) {
    // the fields are pub(crate): take them from the group's own serialisation
    let b = wbuf(|w| SequentialMapGroup::write(w, g)).unwrap();
    let f = |i: usize| u32::from_be_bytes([b[i], b[i + 1], b[i + 2], b[i + 3]]);
    (f(0), f(4), f(8))
}
fn groups_show(gs: &[(u32, u32, u32)]) -> String {
    rle(&gs.iter().map(|(a, b, c)| format!("{}_{}_{}", a, b, c)).collect::<Vec<_>>())
}
fn groups_bytes(gs: &[(u32, u32, u32)]) -> Vec<u8> {
    gs.iter().flat_map(|(a, b, c)| [a.to_be_bytes(), b.to_be_bytes(), c.to_be_bytes()].concat()).collect()
}

pub fn st_show(st: &CmapSubtable<'_>) -> String {
    match st {
        CmapSubtable::Format0 { language, glyph_id_array } => {
            format!("0:{}:{}", language, nl_show(&glyph_id_array.to_vec()))
        }
        CmapSubtable::Format2 { language, sub_header_keys, sub_headers, .. } => {
            format!("2:{}:{}:{}", language, nl_show(&sub_header_keys.to_vec()), sub_headers.len())
        }
        CmapSubtable::Format4(f) => format!(
            "4:{}:{}:{}:{}:{}:{}",
            f.language,
            nl_show(&f.end_codes.to_vec()),
            nl_show(&f.start_codes.to_vec()),
            nl_show(&f.id_deltas.to_vec()),
            nl_show(&f.id_range_offsets.to_vec()),
            nl_show(&f.glyph_id_array.to_vec())
        ),
        CmapSubtable::Format6 { language, first_code, glyph_id_array } => {
            format!("6:{}:{}:{}", language, first_code, nl_show(&glyph_id_array.to_vec()))
        }
        CmapSubtable::Format10 { language, start_char_code, glyph_id_array } => {
            format!("10:{}:{}:{}", language, start_char_code, nl_show(&glyph_id_array.to_vec()))
        }
        CmapSubtable::Format12 { language, groups } => {
            let gs: Vec<(u32, u32, u32)> = groups.iter().map(group_fields).collect();
            format!("12:{}:{}", language, groups_show(&gs))
        }
    }
}
pub fn owned_show(st: &owned::CmapSubtable) -> String {
    match st {
        owned::CmapSubtable::Format0 { language, glyph_id_array } => format!("0:{}:{}", language, nl_show(&glyph_id_array[..])),
        owned::CmapSubtable::Format4(f) => format!(
            "4:{}:{}:{}:{}:{}:{}",
            f.language,
            nl_show(&f.end_codes),
            nl_show(&f.start_codes),
            nl_show(&f.id_deltas),
            nl_show(&f.id_range_offsets),
            nl_show(&f.glyph_id_array)
        ),
        owned::CmapSubtable::Format6 { language, first_code, glyph_id_array } => {
            format!("6:{}:{}:{}", language, first_code, nl_show(glyph_id_array))
        }
        owned::CmapSubtable::Format10 { language, start_char_code, glyph_id_array } => {
            format!("10:{}:{}:{}", language, start_char_code, nl_show(glyph_id_array))
        }
        owned::CmapSubtable::Format12(f) => {
            let gs: Vec<(u32, u32, u32)> = f.groups.iter().map(|g| group_fields(*g)).collect();
            format!("12:{}:{}", f.language, groups_show(&gs))
        }
    }
}

/// byte buffers backing the ReadArrays of a borrowed sub-table value
pub struct StBufs {
    fmt: u32,
    nums: Vec<i128>,
    bufs: Vec<Vec<u8>>,
    counts: Vec<usize>,
}
pub fn st_bufs(s: &str) -> StBufs {
    let f: Vec<&str> = s.split(':').collect();
    let fmt: u32 = f[0].parse().unwrap();
    let mut b = StBufs { fmt, nums: vec![], bufs: vec![], counts: vec![] };
    match fmt {
        0 => {
            b.nums.push(f[1].parse().unwrap());
            let v = nl_parse(f[2]);
            b.counts.push(v.len());
            b.bufs.push(v.iter().map(|x| *x as u8).collect());
        }
        4 => {
            b.nums.push(f[1].parse().unwrap());
            for i in 2..7 {
                let v = nl_parse(f[i]);
                b.counts.push(v.len());
                b.bufs.push(be16(&v));
            }
        }
        6 | 10 => {
            b.nums.push(f[1].parse().unwrap());
            b.nums.push(f[2].parse().unwrap());
            let v = nl_parse(f[3]);
            b.counts.push(v.len());
            b.bufs.push(be16(&v));
        }
        12 => {
            b.nums.push(f[1].parse().unwrap());
            let g = groups_parse(f[2]);
            b.counts.push(g.len());
            b.bufs.push(groups_bytes(&g));
        }
        _ => panic!("ST format {}", fmt),
    }
    b
}
fn arr<'a, T: allsorts::binary::read::ReadUnchecked>(buf: &'a [u8], n: usize) -> ReadArray<'a, T> {
    ReadScope::new(buf).ctxt().read_array::<T>(n).unwrap()
}
pub fn st_borrowed(b: &StBufs) -> CmapSubtable<'_> {
    match b.fmt {
        0 => CmapSubtable::Format0 { language: b.nums[0] as u16, glyph_id_array: arr::<U8>(&b.bufs[0], b.counts[0]) },
        4 => CmapSubtable::Format4(CmapSubtableFormat4 {
            language: b.nums[0] as u16,
            end_codes: arr::<U16Be>(&b.bufs[0], b.counts[0]),
            start_codes: arr::<U16Be>(&b.bufs[1], b.counts[1]),
            id_deltas: arr::<I16Be>(&b.bufs[2], b.counts[2]),
            id_range_offsets: arr::<U16Be>(&b.bufs[3], b.counts[3]),
            glyph_id_array: arr::<U16Be>(&b.bufs[4], b.counts[4]),
        }),
        6 => CmapSubtable::Format6 {
            language: b.nums[0] as u16,
            first_code: b.nums[1] as u16,
            glyph_id_array: arr::<U16Be>(&b.bufs[0], b.counts[0]),
        },
        10 => CmapSubtable::Format10 {
            language: b.nums[0] as u32,
            start_char_code: b.nums[1] as u32,
            glyph_id_array: arr::<U16Be>(&b.bufs[0], b.counts[0]),
        },
        12 => CmapSubtable::Format12 { language: b.nums[0] as u32, groups: arr::<SequentialMapGroup>(&b.bufs[0], b.counts[0]) },
        _ => unreachable!(),
    }
}
/// the owned value with the same fields (format 0: first 256 entries, zero padded, as to_owned does)
pub fn st_owned(s: &str) -> owned::CmapSubtable {
    let b = st_bufs(s);
    st_borrowed(&b).to_owned().unwrap()
}

fn st_read_show(b: &[u8]) -> String {
    match ReadScope::new(b).read::<CmapSubtable<'_>>() {
        Ok(st) => format!("ok:{}", st_show(&st)),
        Err(e) => format!("err:{}", perr(&e)),
    }
}
fn wshow(w: &Result<Vec<u8>, WriteError>) -> String {
    match w {
        Ok(b) => hex(b),
        Err(e) => format!("err:{}", werr(e)),
    }
}
/// cms|MODE|b/o|ST
pub fn run_cms(p: &[&str]) -> String {
    let bufs = st_bufs(p[3]);
    let st = st_borrowed(&bufs);
    let w = if p[2] == "o" {
        let o = st.to_owned().unwrap();
        wbuf(|b| owned::CmapSubtable::write(b, o))
    } else {
        wbuf(|b| CmapSubtable::write(b, &st))
    };
    match w {
        Err(e) => format!("w=err:{}", werr(&e)),
        Ok(b) => format!("w={};r={}", hex(&b), st_read_show(&with_trail(&b))),
    }
}
fn st_write_via(st: &CmapSubtable<'_>, owned_path: bool) -> Option<Result<Vec<u8>, WriteError>> {
    if owned_path {
        st.to_owned().map(|o| wbuf(|b| owned::CmapSubtable::write(b, o)))
    } else {
        Some(wbuf(|b| CmapSubtable::write(b, st)))
    }
}
pub fn cmsrd(d: &[u8], owned_path: bool) -> String {
    match ReadScope::new(d).read::<CmapSubtable<'_>>() {
        Err(e) => format!("r=err:{}", perr(&e)),
        Ok(st) => {
            let r = st_show(&st);
            match st_write_via(&st, owned_path) {
                None => format!("r=ok:{};w=none", r),
                Some(Err(e)) => format!("r=ok:{};w=err:{}", r, werr(&e)),
                Some(Ok(b)) => {
                    let bt = with_trail(&b);
                    match ReadScope::new(&bt).read::<CmapSubtable<'_>>() {
                        Err(e) => format!("r=ok:{};w={};r2=err:{}", r, hex(&b), perr(&e)),
                        Ok(st2) => {
                            let w2 = match st_write_via(&st2, owned_path) {
                                Some(Ok(b2)) if b2 == b => "same".to_string(),
                                Some(w2) => wshow(&w2),
                                None => "none".to_string(),
                            };
                            format!("r=ok:{};w={};r2=ok:{};w2={}", r, hex(&b), st_show(&st2), w2)
                        }
                    }
                }
            }
        }
    }
}
/// cmsrd|MODE|b/o|HEX
pub fn run_cmsrd(p: &[&str]) -> String {
    cmsrd(&unhex(p[3]), p[2] == "o")
}

// ---------------------------------------------------------------- the cmap table
fn recs_parse(s: &str) -> Vec<(u16, u16, String)> {
    let mut out = vec![];
    if s == "." {
        return out;
    }
    for r in s.split('+') {
        let (r, k) = match r.split_once('^') {
            Some((r, k)) => (r, k.parse::<usize>().unwrap()),
            None => (r, 1),
        };
        let f: Vec<&str> = r.splitn(3, '/').collect();
        for _ in 0..k {
            out.push((f[0].parse::<u32>().unwrap() as u16, f[1].parse::<u32>().unwrap() as u16, f[2].to_string()));
        }
    }
    out
}
/// Cmap::read and every record's sub-table: `ok:PLAT/ENC/OFFSET/ST+..`, or the first error
fn cmap_read_show(d: &[u8]) -> (String, Option<Vec<(u16, u16, Option<owned::CmapSubtable>)>>) {
    let scope = ReadScope::new(d);
    let cmap = match scope.read::<Cmap<'_>>() {
        Ok(c) => c,
        Err(e) => return (format!("err:{}", perr(&e)), None),
    };
    let mut shown = vec![];
    let mut owned_recs = vec![];
    for rec in cmap.encoding_records() {
        let st = match cmap.scope.offset(rec.offset as usize).read::<CmapSubtable<'_>>() {
            Ok(st) => st,
            Err(e) => return (format!("err:{}@{}", perr(&e), shown.len()), None),
        };
        shown.push(format!("{}/{}/{}/{}", rec.platform_id.0, rec.encoding_id.0, rec.offset, st_show(&st)));
        owned_recs.push((rec.platform_id.0, rec.encoding_id.0, st.to_owned()));
    }
    (format!("ok:{}", if shown.is_empty() { ".".to_string() } else { shown.join("+") }), Some(owned_recs))
}
fn cmap_write_owned(recs: Vec<(u16, u16, owned::CmapSubtable)>) -> Result<Vec<u8>, WriteError> {
    let table = owned::Cmap {
        encoding_records: recs
            .into_iter()
            .map(|(p, e, st)| owned::EncodingRecord { platform_id: PlatformId(p), encoding_id: EncodingId(e), sub_table: st })
            .collect(),
    };
    wbuf(|b| owned::Cmap::write(b, table))
}
/// cmapv|MODE|RECS
pub fn run_cmapv(p: &[&str]) -> String {
    let recs: Vec<(u16, u16, owned::CmapSubtable)> = recs_parse(p[2]).into_iter().map(|(a, b, s)| (a, b, st_owned(&s))).collect();
    match cmap_write_owned(recs) {
        Err(e) => format!("w=err:{}", werr(&e)),
        Ok(b) => format!("w={};r={}", hex(&b), cmap_read_show(&b).0),
    }
}
pub fn cmaprd(d: &[u8]) -> String {
    let (r, recs) = cmap_read_show(d);
    let recs = match recs {
        None => return format!("r={}", r),
        Some(x) => x,
    };
    if recs.iter().any(|(_, _, o)| o.is_none()) {
        return format!("r={};w=none", r);
    }
    let recs: Vec<(u16, u16, owned::CmapSubtable)> = recs.into_iter().map(|(a, b, o)| (a, b, o.unwrap())).collect();
    match cmap_write_owned(recs) {
        Err(e) => format!("r={};w=err:{}", r, werr(&e)),
        Ok(b) => format!("r={};w={};r2={}", r, hex(&b), cmap_read_show(&b).0),
    }
}
/// cmaprd|MODE|HEX
pub fn run_cmaprd(p: &[&str]) -> String {
    cmaprd(&unhex(p[2]))
}

// ---------------------------------------------------------------- fixture fonts
/// filec|PATH: every composite glyph (`cg`), every distinct cmap sub-table (`cms`, borrowed and owned
/// path: `cmsb` / `cmso`) and the cmap table (`cmap`) of the font through parse-write-parse.
/// Sub-tables above `BIG` bytes are compared in the harness only (`big:LEN:stable|unstable`).
pub const BIG: usize = 150_000;
pub fn run_filec(p: &[&str], root: &str) -> String {
    use allsorts::binary::read::ReadBinaryDep;
    use allsorts::font_data::FontData;
    use allsorts::tables::glyf::GlyfTable;
    use allsorts::tables::loca::LocaTable;
    use allsorts::tables::{FontTableProvider, HeadTable, MaxpTable};
    use allsorts::tag;
    let _ = <GlyfTable<'_> as ReadBinaryDep>::read_dep;
    let path = if p[1].starts_with('/') { p[1].to_string() } else { format!("{}/{}", root, p[1]) };
    let data = match std::fs::read(&path) {
        Ok(d) => d,
        Err(_) => return "items=nofile".to_string(),
    };
    let font = match ReadScope::new(&data).read::<FontData<'_>>() {
        Ok(f) => f,
        Err(e) => return format!("items=err:{}", perr(&e)),
    };
    let provider = match font.table_provider(0) {
        Ok(p) => p,
        Err(_) => return "items=err:provider".to_string(),
    };
    let get = |t: u32| provider.table_data(t).ok().flatten().map(|c| c.into_owned());
    let mut items: Vec<String> = vec![];
    // composite glyphs
    if let (Some(gd), Some(ld), Some(md), Some(hd)) = (get(tag::GLYF), get(tag::LOCA), get(tag::MAXP), get(tag::HEAD)) {
        if let (Ok(maxp), Ok(head)) = (ReadScope::new(&md).read::<MaxpTable>(), ReadScope::new(&hd).read::<HeadTable>()) {
            if let Ok(loca) = ReadScope::new(&ld).read_dep::<LocaTable<'_>>((usize::from(maxp.num_glyphs), head.index_to_loc_format)) {
                let offs: Vec<u32> = loca.offsets.iter().collect();
                for w in offs.windows(2) {
                    let (s, e) = (w[0] as usize, w[1] as usize);
                    if e > s && e <= gd.len() && gd[s] >= 0x80 {
                        let d = &gd[s..e];
                        let res = match catch_unwind(AssertUnwindSafe(|| match ReadScope::new(d).read::<Glyph<'_>>() {
                            Ok(Glyph::Composite(g)) => run_cgrd(d, g),
                            Ok(_) => "r=notcomposite".to_string(),
                            Err(e) => format!("r=err:{}", perr(&e)),
                        })) {
                            Ok(s) => s,
                            Err(_) => "panic".to_string(),
                        };
                        items.push(format!("cg {} -> {}", hex(d), res));
                    }
                }
            }
        }
    }
    // cmap
    if let Some(cd) = get(tag::CMAP) {
        if let Ok(cmap) = ReadScope::new(&cd).read::<Cmap<'_>>() {
            let mut seen: Vec<u32> = vec![];
            for rec in cmap.encoding_records() {
                if seen.contains(&rec.offset) || rec.offset as usize > cd.len() {
                    continue;
                }
                seen.push(rec.offset);
                let d = &cd[rec.offset as usize..];
                // the extent of the sub-table: its own length field
                let ext = match d {
                    [0, f, a, b, ..] if *f == 0 || *f == 2 || *f == 4 || *f == 6 => usize::from(u16::from_be_bytes([*a, *b])),
                    [0, f, _, _, a, b, c, e, ..] if *f == 8 || *f == 10 || *f == 12 || *f == 13 => u32::from_be_bytes([*a, *b, *c, *e]) as usize,
                    _ => d.len(),
                };
                let d = &d[..ext.min(d.len())];
                for (k, o) in [("cmsb", false), ("cmso", true)] {
                    let res = catch_unwind(AssertUnwindSafe(|| cmsrd(d, o))).unwrap_or_else(|_| "panic".to_string());
                    if d.len() > BIG {
                        let stable = res.contains(";w2=same") && {
                            let f: Vec<&str> = res.split(';').collect();
                            f.len() == 4 && f[0][2..] == f[2][3..]
                        };
                        items.push(format!("{}big {}:{} -> {}", k, d.len(), hex(&d[..8]), if stable { "stable" } else { "unstable" }));
                    } else {
                        items.push(format!("{} {} -> {}", k, hex(d), res));
                    }
                }
            }
            if cd.len() <= BIG {
                let res = catch_unwind(AssertUnwindSafe(|| cmaprd(&cd))).unwrap_or_else(|_| "panic".to_string());
                items.push(format!("cmap {} -> {}", hex(&cd), res));
            }
        }
    }
    format!("items={}#{}", items.len(), items.join(" ## "))
}

// ---------------------------------------------------------------- generators
fn edge16(rng: &mut Rng, signed: bool) -> i64 {
    let (lo, hi) = if signed { (-32768i64, 32767i64) } else { (0, 65535) };
    match rng.below(8) {
        0 => lo,
        1 => hi,
        2 => 0,
        3 => lo + 1,
        4 => hi - 1,
        5 => rng.range(-3, 300).clamp(lo, hi),
        _ => rng.range(lo, hi),
    }
}
fn edge8(rng: &mut Rng, signed: bool) -> i64 {
    let (lo, hi) = if signed { (-128i64, 127i64) } else { (0, 255) };
    match rng.below(6) {
        0 => lo,
        1 => hi,
        2 => 0,
        3 => lo + 1,
        4 => hi - 1,
        _ => rng.range(lo, hi),
    }
}
/// one component as text; `more` / `instr` set the two structural flags; `consistent` = argument
/// variants and scale form follow the flags
fn gen_comp(rng: &mut Rng, more: bool, instr: bool, consistent: bool) -> String {
    let mut flags: u16 = 0;
    let words = rng.chance(1, 2);
    let xy = rng.chance(1, 2);
    if words {
        flags |= 1;
    }
    if xy {
        flags |= 2;
    }
    for b in [0x4u16, 0x200, 0x400, 0x800, 0x1000] {
        if rng.chance(1, 3) {
            flags |= b;
        }
    }
    // the three scale flags: usually at most one, sometimes several (the reader takes the first)
    let sc = rng.below(10);
    match sc {
        0..=4 => {}
        5 => flags |= 0x8,
        6 => flags |= 0x40,
        7 => flags |= 0x80,
        8 => flags |= *rng.pick(&[0x48u16, 0x88, 0xc0, 0xc8]),
        _ => {}
    }
    if more {
        flags |= 0x20;
    }
    if instr {
        flags |= 0x100;
    }
    let (mut w, mut s) = (words, xy);
    if !consistent && rng.chance(1, 2) {
        if rng.chance(1, 2) {
            w = !w
        } else {
            s = !s
        }
    }
    let arg = |rng: &mut Rng| match (w, s) {
        (true, true) => format!("w{}", edge16(rng, true)),
        (true, false) => format!("W{}", edge16(rng, false)),
        (false, true) => format!("b{}", edge8(rng, true)),
        (false, false) => format!("B{}", edge8(rng, false)),
    };
    let a1 = arg(rng);
    let a2 = arg(rng);
    let form = if flags & 0x8 != 0 {
        1
    } else if flags & 0x40 != 0 {
        2
    } else if flags & 0x80 != 0 {
        3
    } else {
        0
    };
    let form = if !consistent && rng.chance(1, 2) { rng.below(4) } else { form };
    let f = |rng: &mut Rng| edge16(rng, true);
    let scale = match form {
        0 => "-".to_string(),
        1 => format!("s{}", f(rng)),
        2 => format!("x{}_{}", f(rng), f(rng)),
        _ => format!("m{}_{}_{}_{}", f(rng), f(rng), f(rng), f(rng)),
    };
    format!("{}:{}:{}:{}:{}", flags, edge16(rng, false), a1, a2, scale)
}
/// the WE_HAVE_INSTRUCTIONS pattern over n components: none, first, middle, last, several, all
fn instr_pattern(rng: &mut Rng, n: usize) -> Vec<bool> {
    let mut v = vec![false; n];
    match rng.below(7) {
        0 => {}
        1 => v[0] = true,
        2 => v[n / 2] = true,
        3 => v[n - 1] = true,
        4 => {
            for x in v.iter_mut() {
                *x = rng.chance(1, 2)
            }
        }
        5 => {
            // every component but the last
            for x in v.iter_mut().take(n - 1) {
                *x = true
            }
        }
        _ => v = vec![true; n],
    }
    v
}
fn gen_instr(rng: &mut Rng) -> String {
    match rng.below(60) {
        0..=9 => "-".to_string(),
        // instructionLength is 16 bits wide (slow in the model: rare)
        10 => "r65535x7".to_string(),
        11 => "r65536x7".to_string(),
        12 => format!("r{}x{}", rng.range(65530, 65540), rng.below(256)),
        _ => {
            let n = rng.range(1, 6) as usize;
            format!("h{}", hex(&rng.bytes(n)))
        }
    }
}
pub fn gen_cg(rng: &mut Rng, mode: &str) -> String {
    let n = match rng.below(10) {
        0 => 0,
        1..=3 => 1,
        4..=6 => 2,
        7 | 8 => 3,
        _ => rng.range(4, 9) as usize,
    };
    let consistent = !rng.chance(1, 8);
    let comps = if n == 0 {
        ".".to_string()
    } else {
        let pat = instr_pattern(rng, n);
        let broken_more = !consistent && rng.chance(1, 2);
        (0..n)
            .map(|i| {
                let more = if broken_more { rng.chance(1, 2) } else { i + 1 < n };
                gen_comp(rng, more, pat[i], consistent)
            })
            .collect::<Vec<_>>()
            .join("+")
    };
    let bb: Vec<String> = (0..4).map(|_| edge16(rng, true).to_string()).collect();
    format!("cg|{}|{}|{}|{}", mode, bb.join(","), comps, gen_instr(rng))
}
/// composite glyph bytes assembled by hand (reserved flag bits, any negative contour count), then
/// sometimes truncated / extended / bit-flipped
pub fn gen_cgrd(rng: &mut Rng, mode: &str, mutate: &mut dyn FnMut(&mut Rng, Vec<u8>) -> Vec<u8>) -> String {
    let mut b: Vec<u8> = vec![];
    let nc: i16 = *rng.pick(&[-1i16, -1, -1, -2, -32768, -100]);
    b.extend(nc.to_be_bytes());
    b.extend(rng.bytes(8));
    let n = rng.range(1, 5) as usize;
    let pat = instr_pattern(rng, n);
    let mut any = false;
    for i in 0..n {
        let c = gen_comp(rng, i + 1 < n, pat[i], true);
        let f: Vec<&str> = c.split(':').collect();
        let mut flags: u16 = f[0].parse().unwrap();
        any |= flags & 0x100 != 0;
        if rng.chance(1, 6) {
            flags |= *rng.pick(&[0x10u16, 0x2000, 0x4000, 0x8000, 0xe010]);
        }
        b.extend(flags.to_be_bytes());
        b.extend((f[1].parse::<u32>().unwrap() as u16).to_be_bytes());
        for a in [f[2], f[3]] {
            let v: i64 = a[1..].parse().unwrap();
            match &a[..1] {
                "B" | "b" => b.push(v as u8),
                _ => b.extend((v as u16).to_be_bytes()),
            }
        }
        if f[4] != "-" {
            for v in f[4][1..].split('_') {
                b.extend((v.parse::<i64>().unwrap() as i16).to_be_bytes());
            }
        }
    }
    if any {
        let il = *rng.pick(&[0usize, 1, 2, 5, 300]);
        b.extend((il as u16).to_be_bytes());
        b.extend(rng.bytes(il));
    }
    if rng.chance(1, 3) {
        let n = rng.range(1, 4) as usize;
        b.extend(rng.bytes(n));
    }
    let b = if rng.chance(1, 3) { mutate(rng, b) } else { b };
    format!("glyphrd|{}|{}", mode, hex(&b))
}

fn nl_of(v: &[i64]) -> String {
    nl_show(v)
}
fn gen_u16s(rng: &mut Rng, n: usize) -> Vec<i64> {
    if n > 64 {
        // long arrays: a few runs, so that the line stays short
        let mut v = Vec::with_capacity(n);
        while v.len() < n {
            let x = edge16(rng, false);
            let k = (rng.range(1, 4000) as usize).min(n - v.len());
            v.extend(std::iter::repeat(x).take(k));
        }
        v
    } else {
        (0..n).map(|_| edge16(rng, false)).collect()
    }
}
/// a format 4 sub-table value: `segs` segments ending with 0xFFFF, `ngids` glyph ids
fn gen_f4(rng: &mut Rng, segs: usize, ngids: usize, wf: bool) -> String {
    let lang = edge16(rng, false);
    let (mut ends, mut starts, mut deltas, mut ros) = (vec![], vec![], vec![], vec![]);
    if segs > 64 {
        // ascending one-code segments (0, 2, 4, ..), the last one 0xFFFF
        for i in 0..segs {
            let c = if i + 1 == segs { 65535 } else { (2 * i as i64).min(65534) };
            ends.push(c);
            starts.push(c);
        }
        deltas = vec![1; segs];
        ros = vec![0; segs];
    } else {
        let mut code: i64 = rng.range(0, 200);
        for i in 0..segs {
            let last = i + 1 == segs;
            let s = if last && rng.chance(3, 4) { 65535 } else { code.min(65535) };
            let e = if last { 65535 } else { (s + rng.range(0, 40)).min(65535) };
            starts.push(s);
            ends.push(e);
            code = e + rng.range(1, 500);
            deltas.push(edge16(rng, true));
            // idRangeOffset forms: 0, pointing into glyphIdArray, odd, beyond the array
            ros.push(match rng.below(6) {
                0..=2 => 0,
                3 => 2 * ((segs - i) as i64) + 2 * rng.range(0, (ngids as i64).max(1) - 1).max(0),
                4 => edge16(rng, false),
                _ => 2 * rng.range(0, 40) + 1,
            });
        }
    }
    if !wf && segs > 0 {
        // unequal array lengths (not a value the reader can produce)
        match rng.below(3) {
            0 => {
                ends.pop();
            }
            1 => deltas.push(0),
            _ => {
                ros.pop();
            }
        }
    }
    let gids = gen_u16s(rng, ngids);
    format!("4:{}:{}:{}:{}:{}:{}", lang, nl_of(&ends), nl_of(&starts), nl_of(&deltas), nl_of(&ros), nl_of(&gids))
}
/// (segments, glyph ids) of a format 4 value; `huge` = sizes straddling the 65535/65536-byte boundary
fn f4_shape(rng: &mut Rng, huge: bool) -> (usize, usize) {
    if huge {
        match rng.below(8) {
            // 16 + 8*segs + 2*gids = 65534 | 65536 | ..
            0 => (2, 32751), // 65534
            1 => (2, 32752), // 65536: refused
            2 => (2, 32818), // the seeded shape
            3 => (8189, 3),  // 65534
            4 => (8190, 0),  // 65536
            5 => (8189, 4),  // 65536
            6 => (1, rng.range(32740, 32770) as usize),
            _ => (rng.range(8180, 8200) as usize, rng.range(0, 12) as usize),
        }
    } else {
        match rng.below(10) {
            0 => (0, rng.range(0, 3) as usize),
            1 => (1, 0),
            2..=6 => (rng.range(1, 6) as usize, rng.range(0, 8) as usize),
            7 => (rng.range(1, 40) as usize, rng.range(0, 300) as usize),
            8 => (*rng.pick(&[15usize, 16, 17, 31, 32, 33, 63, 64]), 0),
            _ => (rng.range(100, 1200) as usize, rng.range(0, 50) as usize),
        }
    }
}
fn gen_groups(rng: &mut Rng, n: usize) -> String {
    if n > 64 {
        // few distinct groups, long runs
        let mut items = vec![];
        let mut left = n;
        while left > 0 {
            let k = (rng.range(1, 30000) as usize).min(left);
            items.push(format!("{}_{}_{}*{}", rng.below(1 << 21), rng.below(1 << 21), rng.below(70000), k));
            left -= k;
        }
        return items.join(",");
    }
    if n == 0 {
        return "-".to_string();
    }
    let e32 = |rng: &mut Rng| -> u64 {
        match rng.below(6) {
            0 => 0,
            1 => 0xffff_ffff,
            2 => 0x10_ffff,
            3 => 0xffff,
            _ => rng.below(0x11_0000),
        }
    };
    (0..n).map(|_| format!("{}_{}_{}", e32(rng), e32(rng), e32(rng))).collect::<Vec<_>>().join(",")
}
/// a sub-table value as text
pub fn gen_st(rng: &mut Rng, huge_ok: bool) -> String {
    match rng.below(20) {
        0..=2 => {
            // format 0: 256 entries; sometimes another length (only the borrowed type can hold it)
            let n = if rng.chance(1, 6) { *rng.pick(&[0usize, 1, 255, 257, 300]) } else { 256 };
            let v: Vec<i64> = (0..n).map(|i| if rng.chance(1, 3) { edge8(rng, false) } else { (i % 7) as i64 }).collect();
            format!("0:{}:{}", edge16(rng, false), nl_of(&v))
        }
        3..=10 => {
            let huge = huge_ok && rng.chance(1, 40);
            let (segs, ngids) = f4_shape(rng, huge);
            let wf = !rng.chance(1, 15) || huge;
            gen_f4(rng, segs, ngids, wf)
        }
        11..=13 => {
            // format 6: entryCount and the 16-bit length (10 + 2n): 32762 entries = 65534 bytes, 32763 = 65536
            let n = if huge_ok && rng.chance(1, 20) { *rng.pick(&[32762usize, 32763, 32764, 65535, 65536]) } else { rng.range(0, 12) as usize };
            format!("6:{}:{}:{}", edge16(rng, false), edge16(rng, false), nl_of(&gen_u16s(rng, n)))
        }
        14 | 15 => {
            let n = if huge_ok && rng.chance(1, 30) { 70000 } else { rng.range(0, 12) as usize };
            format!("10:{}:{}:{}", rng.next() as u32, rng.next() as u32, nl_of(&gen_u16s(rng, n)))
        }
        _ => {
            let n = if huge_ok && rng.chance(1, 30) { *rng.pick(&[5461usize, 5462, 65535, 65536, 70000]) } else { rng.range(0, 6) as usize };
            format!("12:{}:{}", rng.next() as u32, gen_groups(rng, n))
        }
    }
}
pub fn gen_cms(rng: &mut Rng, mode: &str) -> String {
    let st = gen_st(rng, true);
    let w = if rng.chance(1, 2) { "b" } else { "o" };
    format!("cms|{}|{}|{}", mode, w, st)
}
/// the bytes of a sub-table value as a conforming writer would produce them, with the freedom a
/// parsed table has (length beyond the arrays, search fields, reservedPad, format 2), then mutated
pub fn gen_cmsrd(rng: &mut Rng, mode: &str, mutate: &mut dyn FnMut(&mut Rng, Vec<u8>) -> Vec<u8>) -> String {
    let w = if rng.chance(1, 2) { "b" } else { "o" };
    let b: Vec<u8> = if rng.chance(1, 10) {
        // format 2: 256 keys, a few sub-headers, glyph ids
        let mut b = vec![0u8, 2];
        let nsub = rng.range(1, 4) as usize;
        let body_len = 6 + 512 + 8 * nsub + 8;
        b.extend((body_len as u16).to_be_bytes());
        b.extend((rng.next() as u16).to_be_bytes());
        for _ in 0..256 {
            b.extend(((8 * rng.below(nsub as u64)) as u16).to_be_bytes());
        }
        b.extend(rng.bytes(8 * nsub + 8));
        b
    } else {
        let st = gen_st(rng, false);
        let bufs = st_bufs(&st);
        let v = st_borrowed(&bufs);
        match wbuf(|b| CmapSubtable::write(b, &v)) {
            Ok(mut b) => {
                if bufs.fmt == 4 && b.len() >= 16 {
                    if rng.chance(1, 3) {
                        // free fields of a parsed table: search fields, reservedPad
                        for i in [8usize, 10, 12] {
                            if rng.chance(1, 2) {
                                let x = (rng.next() as u16).to_be_bytes();
                                b[i] = x[0];
                                b[i + 1] = x[1];
                            }
                        }
                        let segs = usize::from(u16::from_be_bytes([b[6], b[7]])) / 2;
                        let pad = 14 + 2 * segs;
                        if pad + 1 < b.len() && rng.chance(1, 2) {
                            b[pad] = rng.next() as u8;
                        }
                    }
                    if rng.chance(1, 5) {
                        // the length field decides the size of glyphIdArray
                        let l = u16::from_be_bytes([b[2], b[3]]);
                        let l2 = match rng.below(4) {
                            0 => l.wrapping_add(2),
                            1 => l.wrapping_sub(2),
                            2 => l.wrapping_add(1),
                            _ => rng.next() as u16,
                        };
                        b[2..4].copy_from_slice(&l2.to_be_bytes());
                        let n = rng.range(0, 6) as usize;
                        b.extend(rng.bytes(n));
                    }
                } else if rng.chance(1, 6) && b.len() >= 4 {
                    // formats whose reader ignores the length field
                    let x = (rng.next() as u16).to_be_bytes();
                    b[2] = x[0];
                    b[3] = x[1];
                }
                b
            }
            Err(_) => rng.bytes(24),
        }
    };
    let b = if rng.chance(1, 3) { mutate(rng, b) } else { b };
    format!("cmsrd|{}|{}|{}", mode, w, hex(&b))
}
fn gen_rec(rng: &mut Rng) -> String {
    let (p, e) = *rng.pick(&[(0i64, 3i64), (0, 4), (1, 0), (3, 1), (3, 10), (3, 0), (65535, 65535), (4, 7)]);
    format!("{}/{}/{}", p, e, gen_st(rng, false))
}
pub fn gen_cmapv(rng: &mut Rng, mode: &str) -> String {
    let recs = match rng.below(40) {
        0 => ".".to_string(),
        1 => format!("{}^65536", "3/1/6:0:0:-"),
        2 => format!("{}^{}+{}", "0/3/6:0:0:-", rng.range(1, 300), gen_rec(rng)),
        _ => (0..rng.range(1, 4)).map(|_| gen_rec(rng)).collect::<Vec<_>>().join("+"),
    };
    format!("cmapv|{}|{}", mode, recs)
}
pub fn gen_cmaprd(rng: &mut Rng, mode: &str, mutate: &mut dyn FnMut(&mut Rng, Vec<u8>) -> Vec<u8>) -> String {
    // a written table, then: shared sub-tables, reordered / overlapping offsets, odd header fields
    let n = rng.range(1, 4) as usize;
    let recs: Vec<(u16, u16, owned::CmapSubtable)> = (0..n)
        .map(|_| {
            let r = gen_rec(rng);
            let f: Vec<&str> = r.splitn(3, '/').collect();
            (f[0].parse::<u32>().unwrap() as u16, f[1].parse::<u32>().unwrap() as u16, st_owned(f[2]))
        })
        .collect();
    let mut b = match cmap_write_owned(recs) {
        Ok(b) => b,
        Err(_) => rng.bytes(20),
    };
    if b.len() >= 4 + 8 * n {
        if n > 1 && rng.chance(1, 3) {
            // two records share one sub-table
            let (i, j) = (rng.below(n as u64) as usize, rng.below(n as u64) as usize);
            let src: Vec<u8> = b[4 + 8 * i + 4..4 + 8 * i + 8].to_vec();
            b[4 + 8 * j + 4..4 + 8 * j + 8].copy_from_slice(&src);
        }
        if rng.chance(1, 8) {
            let j = rng.below(n as u64) as usize;
            let off: u32 = *rng.pick(&[0u32, 4, b.len() as u32, b.len() as u32 - 1, 0xffff_fff0, 12]);
            b[4 + 8 * j + 4..4 + 8 * j + 8].copy_from_slice(&off.to_be_bytes());
        }
        if rng.chance(1, 10) {
            b[1] = rng.below(3) as u8; // version
        }
        if rng.chance(1, 10) {
            b[3] = b[3].wrapping_add(rng.range(1, 3) as u8); // numTables beyond the records
        }
    }
    let b = if rng.chance(1, 4) { mutate(rng, b) } else { b };
    format!("cmaprd|{}|{}", mode, hex(&b))
}

#[allow(dead_code)]
fn _unused(_: ParseError) {}
