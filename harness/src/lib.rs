//! avh — shared helpers of the correspondence harness binaries (src/bin/cXX.rs, one per property).
pub mod prng;

use allsorts::error::ParseError;

/// canonical name of a ParseError, as printed by the model driver
pub fn perr(e: &ParseError) -> &'static str {
    match e {
        ParseError::BadEof => "Eof",
        ParseError::BadValue => "BadValue",
        ParseError::BadVersion => "BadVersion",
        ParseError::BadOffset => "BadOffset",
        ParseError::BadIndex => "BadIndex",
        ParseError::LimitExceeded => "LimitExceeded",
        ParseError::MissingValue => "MissingValue",
        ParseError::MissingTable(_) => "MissingTable",
        ParseError::CompressionError => "CompressionError",
        ParseError::UnsuitableCmap => "UnsuitableCmap",
        ParseError::NotImplemented => "NotImplemented",
    }
}

/// "oob" if the panic came from a verif-hooks bounds assertion, "panic" otherwise
pub fn panic_kind(e: &(dyn std::any::Any + Send)) -> &'static str {
    let msg = if let Some(s) = e.downcast_ref::<&str>() {
        s.to_string()
    } else if let Some(s) = e.downcast_ref::<String>() {
        s.clone()
    } else {
        String::new()
    };
    if msg.contains("VERIF-OOB") {
        "oob"
    } else {
        "panic"
    }
}

/// "d" when built with debug assertions (overflow checks on), "r" otherwise
pub fn build_mode() -> &'static str {
    if cfg!(debug_assertions) {
        "d"
    } else {
        "r"
    }
}

/// Standard command line of every harness binary:
///   <bin> gen <seed> <count> <outfile> [corpusfile]   — corpus inputs first, then <count> generated cases
///   <bin> replay <input>                              — one case to stdout
/// `run` maps an input line to the implementation's result string; `gen` produces one input line.
///
/// Cases are executed in child processes of this same binary (`<bin> child <infile> <from> <to> <out>`),
/// several in parallel, so that an abort, a stack overflow, an out-of-memory kill or an endless loop of
/// the implementation is observed and attributed to the one input that caused it
/// (`input => abort:<how>` / `input => timeout:<seconds>`) instead of taking the whole run down.  The
/// output file lists the cases in generation order whatever the scheduling was.
pub fn harness_main(
    run: &dyn Fn(&str) -> String,
    gen: &mut dyn FnMut(&mut prng::Rng) -> String,
) {
    std::panic::set_hook(Box::new(|_| {}));
    harness_main_keep_hook(run, gen)
}

/// as `harness_main`, but leaves the panic hook the binary installed (C01 / C02 record the panic location)
pub fn harness_main_keep_hook(
    run: &dyn Fn(&str) -> String,
    gen: &mut dyn FnMut(&mut prng::Rng) -> String,
) {
    use std::io::Write;
    let args: Vec<String> = std::env::args().collect();
    if args.len() >= 6 && args[1] == "child" {
        child_main(run, &args[2], args[3].parse().unwrap(), args[4].parse().unwrap(), &args[5]);
    } else if args.len() >= 5 && args[1] == "gen" {
        let seed: u64 = args[2].parse().unwrap();
        let count: usize = args[3].parse().unwrap();
        let mut inputs: Vec<String> = vec![];
        if let Some(corpus) = args.get(5) {
            if let Ok(txt) = std::fs::read_to_string(corpus) {
                inputs.extend(txt.lines().filter(|l| !l.is_empty() && !l.starts_with('#')).map(String::from));
            }
        }
        let mut rng = prng::Rng::new(seed);
        for _ in 0..count {
            inputs.push(gen(&mut rng));
        }
        let results = run_isolated(&inputs, &args[4]);
        let mut out = std::io::BufWriter::new(std::fs::File::create(&args[4]).unwrap());
        for (input, res) in inputs.iter().zip(results.iter()) {
            writeln!(out, "{} => {}", input, res).unwrap();
        }
    } else if args.len() >= 3 && args[1] == "replay" {
        let base = std::env::temp_dir().join(format!("avh-replay-{}", std::process::id()));
        let inputs = vec![args[2].clone()];
        let results = run_isolated(&inputs, base.to_str().unwrap());
        println!("{} => {}", args[2], results[0]);
    } else {
        eprintln!("usage: {} gen <seed> <count> <outfile> [corpus] | replay <input>", args[0]);
        std::process::exit(2);
    }
}

/// seconds a single case may take before the child gives up on it (`timeout:`)
fn case_timeout_s() -> u64 {
    std::env::var("AVH_CASE_TIMEOUT").ok().and_then(|s| s.parse().ok()).unwrap_or(120)
}

const EXIT_TIMEOUT: i32 = 97;

fn child_main(run: &dyn Fn(&str) -> String, infile: &str, from: usize, to: usize, outfile: &str) {
    use std::io::Write;
    use std::sync::atomic::{AtomicU64, Ordering};
    unsafe {
        // an allocation the input cannot justify fails (and aborts) instead of taking the machine down
        let lim = libc::rlimit { rlim_cur: 8 << 30, rlim_max: 8 << 30 };
        libc::setrlimit(libc::RLIMIT_AS, &lim);
    }
    static STARTED: AtomicU64 = AtomicU64::new(0); // ms since the child started, 0 = no case running
    let t0 = std::time::Instant::now();
    let limit = case_timeout_s() * 1000;
    std::thread::spawn(move || loop {
        std::thread::sleep(std::time::Duration::from_millis(250));
        let s = STARTED.load(Ordering::Relaxed);
        if s != 0 && (t0.elapsed().as_millis() as u64).saturating_sub(s) > limit {
            std::process::exit(EXIT_TIMEOUT);
        }
    });
    let txt = std::fs::read_to_string(infile).unwrap_or_default();
    let mut out = std::fs::OpenOptions::new().append(true).create(true).open(outfile).unwrap();
    for line in txt.lines().skip(from).take(to - from) {
        STARTED.store(t0.elapsed().as_millis() as u64 + 1, Ordering::Relaxed);
        let res = run(line);
        STARTED.store(0, Ordering::Relaxed);
        // one line per case; a result never contains a line break
        writeln!(out, "{}", res.replace('\n', " ")).unwrap();
        out.flush().unwrap();
    }
}

/// run every input in child processes; the result for input i is at index i
fn run_isolated(inputs: &[String], base: &str) -> Vec<String> {
    use std::io::Write;
    use std::sync::{Arc, Mutex};
    let infile = format!("{}.in", base);
    {
        let mut f = std::io::BufWriter::new(std::fs::File::create(&infile).unwrap());
        for i in inputs {
            writeln!(f, "{}", i).unwrap();
        }
    }
    let n = inputs.len();
    let workers = std::thread::available_parallelism().map(|n| n.get()).unwrap_or(4).min(16).max(1);
    let chunk = ((n + workers * 8 - 1) / (workers * 8)).max(1).min(500);
    let mut ranges: Vec<(usize, usize)> = vec![];
    let mut a = 0;
    while a < n {
        ranges.push((a, (a + chunk).min(n)));
        a += chunk;
    }
    ranges.reverse();
    let queue = Arc::new(Mutex::new(ranges));
    let results = Arc::new(Mutex::new(vec![String::new(); n]));
    let exe = std::env::current_exe().unwrap();
    let mut handles = vec![];
    for w in 0..workers.min(n.max(1)) {
        let (queue, results, exe, infile) = (queue.clone(), results.clone(), exe.clone(), infile.clone());
        let part = format!("{}.part{}", base, w);
        handles.push(std::thread::spawn(move || loop {
            let (mut from, to) = match queue.lock().unwrap().pop() {
                Some(r) => r,
                None => break,
            };
            while from < to {
                let _ = std::fs::remove_file(&part);
                let status = std::process::Command::new(&exe)
                    .arg("child")
                    .arg(&infile)
                    .arg(from.to_string())
                    .arg(to.to_string())
                    .arg(&part)
                    .stderr(std::process::Stdio::null())
                    .stdout(std::process::Stdio::null())
                    .status();
                let txt = std::fs::read_to_string(&part).unwrap_or_default();
                // only complete lines count
                let complete: Vec<&str> = if txt.ends_with('\n') { txt.lines().collect() } else {
                    let mut v: Vec<&str> = txt.lines().collect();
                    v.pop();
                    v
                };
                let done = complete.len().min(to - from);
                {
                    let mut res = results.lock().unwrap();
                    for (k, l) in complete.iter().take(done).enumerate() {
                        res[from + k] = l.to_string();
                    }
                    if from + done < to {
                        // the case after the last completed one killed the child
                        let how = match &status {
                            Ok(s) => match s.code() {
                                Some(EXIT_TIMEOUT) => format!("timeout:{}", case_timeout_s()),
                                Some(c) => format!("abort:exit{}", c),
                                None => {
                                    use std::os::unix::process::ExitStatusExt;
                                    format!("abort:signal{}", s.signal().unwrap_or(0))
                                }
                            },
                            Err(_) => "abort:spawn".to_string(),
                        };
                        res[from + done] = how;
                    }
                }
                from += done + 1;
            }
            let _ = std::fs::remove_file(&part);
        }));
    }
    for h in handles {
        h.join().unwrap();
    }
    let _ = std::fs::remove_file(&infile);
    let r = results.lock().unwrap().clone();
    r
}
