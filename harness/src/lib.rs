//! avh — shared helpers of the correspondence harness binaries (src/bin/cXX.rs, one per property).
pub mod prng;

use allsorts::error::ParseError;

/// canonical name of a ParseError, as printed by the model driver
pub fn perr(e: &ParseError) -> &'static str {
    match e {
        ParseError::BadEof => "Eof",
        ParseError::BadValue => "BadValue",
        ParseError::BadVersion => "BadVersion",
        ParseError::BadOffset => "BadOffset",
        ParseError::BadIndex => "BadIndex",
        ParseError::LimitExceeded => "LimitExceeded",
        ParseError::MissingValue => "MissingValue",
        ParseError::MissingTable(_) => "MissingTable",
        ParseError::CompressionError => "CompressionError",
        ParseError::UnsuitableCmap => "UnsuitableCmap",
        ParseError::NotImplemented => "NotImplemented",
    }
}

/// "oob" if the panic came from a verif-hooks bounds assertion, "panic" otherwise
pub fn panic_kind(e: &(dyn std::any::Any + Send)) -> &'static str {
    let msg = if let Some(s) = e.downcast_ref::<&str>() {
        s.to_string()
    } else if let Some(s) = e.downcast_ref::<String>() {
        s.clone()
    } else {
        String::new()
    };
    if msg.contains("VERIF-OOB") {
        "oob"
    } else {
        "panic"
    }
}

/// "d" when built with debug assertions (overflow checks on), "r" otherwise
pub fn build_mode() -> &'static str {
    if cfg!(debug_assertions) {
        "d"
    } else {
        "r"
    }
}

/// Standard command line of every harness binary:
///   <bin> gen <seed> <count> <outfile> [corpusfile]   — corpus inputs first, then <count> generated cases
///   <bin> replay <input>                              — one case to stdout
/// `run` maps an input line to the implementation's result string; `gen` produces one input line.
pub fn harness_main(
    run: &dyn Fn(&str) -> String,
    gen: &mut dyn FnMut(&mut prng::Rng) -> String,
) {
    use std::io::Write;
    std::panic::set_hook(Box::new(|_| {}));
    let args: Vec<String> = std::env::args().collect();
    if args.len() >= 5 && args[1] == "gen" {
        let seed: u64 = args[2].parse().unwrap();
        let count: usize = args[3].parse().unwrap();
        let mut out = std::io::BufWriter::new(std::fs::File::create(&args[4]).unwrap());
        if let Some(corpus) = args.get(5) {
            if let Ok(txt) = std::fs::read_to_string(corpus) {
                for line in txt.lines().filter(|l| !l.is_empty() && !l.starts_with('#')) {
                    writeln!(out, "{} => {}", line, run(line)).unwrap();
                }
            }
        }
        let mut rng = prng::Rng::new(seed);
        for _ in 0..count {
            let input = gen(&mut rng);
            writeln!(out, "{} => {}", input, run(&input)).unwrap();
        }
    } else if args.len() >= 3 && args[1] == "replay" {
        println!("{} => {}", args[2], run(&args[2]));
    } else {
        eprintln!("usage: {} gen <seed> <count> <outfile> [corpus] | replay <input>", args[0]);
        std::process::exit(2);
    }
}
