// C15: item variation stores (src/tables/variable_fonts.rs) and the variation store of a CFF2 table.
//
//   ivd|HEX      bytes -> ItemVariationData::read -> write (behind a 3-byte prefix) -> read -> write
//                -> r=ok:CONSUMED;w=HEX;r2=ok:CONSUMED;w2=HEX      (r=err:E / w=err:E)
//   vrl|HEX      the same for VariationRegionList       (r=ok:CONSUMED/REGIONS/AXES)
//   ivs|HEX      ItemVariationStore: bytes -> read -> write into a fresh buffer (w) and behind a 3-byte
//                prefix (wp, prefix stripped) -> read -> write
//                -> r=ok:REGIONS/SUBTABLES;w=HEX;wp=HEX;r2=ok:REGIONS/SUBTABLES;w2=HEX
//   cff2f|PATH   the CFF2 table of a fixture font: read -> write -> read -> write; the variation store of
//                each parse is written on its own for comparison
//                -> pwp=absent | r=ok:vs=HEX|none;w=LEN;r2=ok:vs=HEX|none;w2=same|differs
//
// The fields of the three structures are private: the value is observed through the bytes its writer
// produces (the judge in ocaml/c15/drv.ml decodes input and output with its own reference decoder).
use allsorts::binary::read::{ReadBinary, ReadScope};
use allsorts::binary::write::{WriteBinary, WriteBuffer, WriteContext};
use allsorts::error::WriteError;
use allsorts::tables::variable_fonts::{ItemVariationData, ItemVariationStore, VariationRegionList};
use avh::perr;
use avh::prng::{hex, unhex, Rng};

fn werr(e: &WriteError) -> &'static str {
    match e {
        WriteError::BadValue => "BadValue",
        WriteError::NotImplemented => "NotImplemented",
        WriteError::PlaceholderMismatch => "PlaceholderMismatch",
    }
}

const PREFIX: [u8; 3] = [0xEE, 0xEE, 0xEE];

/// run `f` on a buffer that already holds `PREFIX`; the prefix is stripped from the result
fn behind_prefix<F: FnOnce(&mut WriteBuffer) -> Result<(), WriteError>>(f: F) -> Result<Vec<u8>, WriteError> {
    let mut b = WriteBuffer::new();
    b.write_bytes(&PREFIX)?;
    f(&mut b)?;
    let v = b.into_inner();
    Ok(v[PREFIX.len()..].to_vec())
}
fn fresh<F: FnOnce(&mut WriteBuffer) -> Result<(), WriteError>>(f: F) -> Result<Vec<u8>, WriteError> {
    let mut b = WriteBuffer::new();
    f(&mut b)?;
    Ok(b.into_inner())
}
fn wshow(w: &Result<Vec<u8>, WriteError>) -> String {
    match w {
        Ok(b) => hex(b),
        Err(e) => format!("err:{}", werr(e)),
    }
}

pub fn run_ivd(p: &[&str]) -> String {
    let d = unhex(p[1]);
    let mut c = ReadScope::new(&d).ctxt();
    let v = match c.read::<ItemVariationData<'_>>() {
        Ok(v) => v,
        Err(e) => return format!("r=err:{}", perr(&e)),
    };
    let mut out = format!("r=ok:{}", d.len() - c.scope().data().len());
    let w = behind_prefix(|b| ItemVariationData::write(b, &v));
    out += &format!(";w={}", wshow(&w));
    if let Ok(w) = w {
        let mut c2 = ReadScope::new(&w).ctxt();
        match c2.read::<ItemVariationData<'_>>() {
            Err(e) => out += &format!(";r2=err:{}", perr(&e)),
            Ok(v2) => {
                out += &format!(";r2=ok:{}", w.len() - c2.scope().data().len());
                out += &format!(";w2={}", wshow(&fresh(|b| ItemVariationData::write(b, &v2))));
            }
        }
    }
    out
}

pub fn run_vrl(p: &[&str]) -> String {
    let d = unhex(p[1]);
    let mut c = ReadScope::new(&d).ctxt();
    let v = match c.read::<VariationRegionList<'_>>() {
        Ok(v) => v,
        Err(e) => return format!("r=err:{}", perr(&e)),
    };
    let mut out = format!(
        "r=ok:{}/{}/{}",
        d.len() - c.scope().data().len(),
        v.variation_regions.len(),
        v.variation_regions.args()
    );
    let w = behind_prefix(|b| VariationRegionList::write(b, &v));
    out += &format!(";w={}", wshow(&w));
    if let Ok(w) = w {
        let mut c2 = ReadScope::new(&w).ctxt();
        match c2.read::<VariationRegionList<'_>>() {
            Err(e) => out += &format!(";r2=err:{}", perr(&e)),
            Ok(v2) => {
                out += &format!(
                    ";r2=ok:{}/{}/{}",
                    w.len() - c2.scope().data().len(),
                    v2.variation_regions.len(),
                    v2.variation_regions.args()
                );
                out += &format!(";w2={}", wshow(&fresh(|b| VariationRegionList::write(b, &v2))));
            }
        }
    }
    out
}

fn ivs_shape(s: &ItemVariationStore<'_>) -> String {
    format!("{}/{}", s.variation_region_list.variation_regions.len(), s.item_variation_data.len())
}

pub fn run_ivs(p: &[&str]) -> String {
    let d = unhex(p[1]);
    let v = match ReadScope::new(&d).read::<ItemVariationStore<'_>>() {
        Ok(v) => v,
        Err(e) => return format!("r=err:{}", perr(&e)),
    };
    let mut out = format!("r=ok:{}", ivs_shape(&v));
    let w = fresh(|b| ItemVariationStore::write(b, &v));
    out += &format!(";w={}", wshow(&w));
    out += &format!(";wp={}", wshow(&behind_prefix(|b| ItemVariationStore::write(b, &v))));
    if let Ok(w) = w {
        match ReadScope::new(&w).read::<ItemVariationStore<'_>>() {
            Err(e) => out += &format!(";r2=err:{}", perr(&e)),
            Ok(v2) => {
                out += &format!(";r2=ok:{}", ivs_shape(&v2));
                out += &format!(";w2={}", wshow(&fresh(|b| ItemVariationStore::write(b, &v2))));
            }
        }
    }
    out
}

pub fn run_cff2f(p: &[&str], root: &str) -> String {
    use allsorts::cff::cff2::CFF2;
    use allsorts::font_data::FontData;
    use allsorts::tables::FontTableProvider;
    use allsorts::tag;
    let data = match std::fs::read(format!("{}/{}", root, p[1])) {
        Ok(d) => d,
        Err(_) => return "pwp=nofile".to_string(),
    };
    let fd = match ReadScope::new(&data).read::<FontData<'_>>() {
        Ok(f) => f,
        Err(e) => return format!("r=err:{}", perr(&e)),
    };
    let prov = match fd.table_provider(0) {
        Ok(p) => p,
        Err(_) => return "r=err:provider".to_string(),
    };
    let t = match prov.table_data(tag::CFF2).ok().flatten() {
        Some(t) => t.into_owned(),
        None => return "pwp=absent".to_string(),
    };
    let vs = |c: &CFF2<'_>| match &c.vstore {
        None => "none".to_string(),
        Some(s) => wshow(&fresh(|b| ItemVariationStore::write(b, s))),
    };
    let c1 = match ReadScope::new(&t).read::<CFF2<'_>>() {
        Ok(c) => c,
        Err(e) => return format!("r=err:{}", perr(&e)),
    };
    let mut out = format!("r=ok:vs={}", vs(&c1));
    // local subrs: CFF2::write puts the Local Subr INDEX in front of its Private DICT (see docs/C15.md)
    out += &format!(";ls={}", c1.fonts.iter().any(|f| f.local_subr_index.is_some()) as u8);
    match fresh(|b| CFF2::write(b, c1.clone())) {
        Err(e) => out += &format!(";w=err:{}", werr(&e)),
        Ok(w) => {
            out += &format!(";w={}", w.len());
            // the VariationStore data of the written table, found through its header and Top DICT only:
            // uint16 length, then the store
            out += &format!(";vs2={}", written_vstore(&w));
            match ReadScope::new(&w).read::<CFF2<'_>>() {
                Err(e) => out += &format!(";t2=err:{}", perr(&e)),
                Ok(c2) => {
                    out += &format!(";t2=ok:vs={}", vs(&c2));
                    match fresh(|b| CFF2::write(b, c2.clone())) {
                        Ok(w2) if w2 == w => out += ";w2=same",
                        Ok(_) => out += ";w2=differs",
                        Err(e) => out += &format!(";w2=err:{}", werr(&e)),
                    }
                }
            }
        }
    }
    out
}

/// `none` | `HEX@LENFIELD/ACTUAL` (the store re-written on its own, the uint16 length field in front of it,
/// the number of bytes from the store to the end of the table) | `bad:WHY`
fn written_vstore(w: &[u8]) -> String {
    use allsorts::cff::{self, cff2};
    use std::convert::TryFrom;
    if w.len() < 5 {
        return "bad:short".to_string();
    }
    let hs = w[2] as usize;
    let tl = u16::from_be_bytes([w[3], w[4]]) as usize;
    let top = match w.get(hs..hs + tl) {
        Some(t) => t,
        None => return "bad:topdict".to_string(),
    };
    let dict = match ReadScope::new(top).read_dep::<cff::Dict<cff2::TopDictDefault>>(cff2::MAX_OPERANDS) {
        Ok(d) => d,
        Err(e) => return format!("bad:topdict:{}", perr(&e)),
    };
    let off = match dict.get(cff::Operator::VStore) {
        None => return "none".to_string(),
        Some([cff::Operand::Offset(o)]) => match usize::try_from(*o) {
            Ok(o) => o,
            Err(_) => return "bad:offset".to_string(),
        },
        Some(_) => return "bad:operands".to_string(),
    };
    if off + 2 > w.len() {
        return "bad:offset".to_string();
    }
    let len = u16::from_be_bytes([w[off], w[off + 1]]) as usize;
    match ReadScope::new(&w[off + 2..]).read::<ItemVariationStore<'_>>() {
        Err(e) => format!("bad:store:{}@{}", perr(&e), len),
        Ok(s) => match fresh(|b| ItemVariationStore::write(b, &s)) {
            Err(e) => format!("bad:write:{}", werr(&e)),
            // CFF2::write puts the store last: the bytes up to the end of the table are the store
            Ok(b) => format!("{}@{}/{}", hex(&b), len, w.len() - off - 2),
        },
    }
}

// ---------------------------------------------------------------- generator
fn u16_edge(rng: &mut Rng) -> u16 {
    *rng.pick(&[0u16, 1, 2, 3, 0x7f, 0x80, 0xff, 0x100, 0x7ffe, 0x7fff, 0x8000, 0x8001, 0xfffe, 0xffff])
}

/// a well-formed ItemVariationData sub-table: the LONG_WORDS flag, word / short splits at their
/// boundaries (no words, all words, more words than regions), item count 0, no regions
pub fn ivd_bytes(rng: &mut Rng) -> Vec<u8> {
    let regions = match rng.below(8) {
        0 => 0usize,
        1 => 1,
        2 => 2,
        3 => rng.below(40) as usize,
        _ => rng.below(6) as usize,
    };
    let words = match rng.below(6) {
        0 => 0usize,
        1 => regions,
        2 => regions + 1 + rng.below(3) as usize, // more word deltas than regions: the row length still adds them
        _ => rng.below(regions as u64 + 1) as usize,
    };
    let long = rng.chance(1, 2);
    let items = match rng.below(8) {
        0 => 0usize,
        1 => 1,
        2 => 256 + rng.below(3) as usize,
        _ => rng.below(7) as usize,
    };
    let row = (regions + words) * if long { 2 } else { 1 };
    let mut b = Vec::new();
    b.extend((items as u16).to_be_bytes());
    b.extend(((words as u16) | if long { 0x8000 } else { 0 }).to_be_bytes());
    b.extend((regions as u16).to_be_bytes());
    for _ in 0..regions {
        let ix = if rng.chance(1, 6) { u16_edge(rng) } else { rng.below(8) as u16 };
        b.extend(ix.to_be_bytes());
    }
    for _ in 0..items * row {
        b.push(match rng.below(4) {
            0 => 0,
            1 => 0xff,
            2 => 0x80,
            _ => rng.next() as u8,
        });
    }
    b
}

pub fn vrl_bytes(rng: &mut Rng) -> Vec<u8> {
    let axes = match rng.below(6) {
        0 => 0usize,
        1 => 1,
        _ => rng.below(5) as usize,
    };
    let regions = match rng.below(6) {
        0 => 0usize,
        1 => 1,
        _ => rng.below(6) as usize,
    };
    let mut b = Vec::new();
    b.extend((axes as u16).to_be_bytes());
    b.extend((regions as u16).to_be_bytes());
    for _ in 0..regions * axes * 3 {
        let v: i16 = *rng.pick(&[-16384i16, -8192, 0, 1, 8192, 16384, -1, 32767, -32768]);
        b.extend(v.to_be_bytes());
    }
    b
}

/// a store in the writer's layout (header, region list, sub-tables in order) or, 1 in 4, with the parts
/// placed elsewhere (gap after the header, sub-tables before the region list, a shared sub-table)
pub fn ivs_bytes(rng: &mut Rng) -> Vec<u8> {
    let n = match rng.below(6) {
        0 => 0usize,
        1 => 1,
        _ => rng.below(5) as usize,
    };
    let vrl = vrl_bytes(rng);
    let subs: Vec<Vec<u8>> = (0..n).map(|_| ivd_bytes(rng)).collect();
    let hdr = 8 + 4 * n;
    let shuffled = rng.chance(1, 4);
    let gap = if shuffled { rng.below(4) as usize } else { 0 };
    let mut body = vec![0xAAu8; gap];
    let mut offs = Vec::new();
    let vrl_off;
    if shuffled && rng.chance(1, 2) {
        for s in &subs {
            offs.push(hdr + body.len());
            body.extend(s);
        }
        vrl_off = hdr + body.len();
        body.extend(&vrl);
    } else {
        vrl_off = hdr + body.len();
        body.extend(&vrl);
        for s in &subs {
            offs.push(hdr + body.len());
            body.extend(s);
        }
    }
    if shuffled && n >= 2 && rng.chance(1, 2) {
        offs[n - 1] = offs[0];
    }
    let mut b = Vec::new();
    b.extend(1u16.to_be_bytes());
    b.extend((vrl_off as u32).to_be_bytes());
    b.extend((n as u16).to_be_bytes());
    for o in offs {
        b.extend((o as u32).to_be_bytes());
    }
    b.extend(body);
    b
}

pub fn gen_ivs(rng: &mut Rng, mutate: &mut dyn FnMut(&mut Rng, Vec<u8>) -> Vec<u8>) -> String {
    let (kind, mut b) = match rng.below(10) {
        0..=4 => ("ivd", ivd_bytes(rng)),
        5 | 6 => ("vrl", vrl_bytes(rng)),
        _ => ("ivs", ivs_bytes(rng)),
    };
    match rng.below(8) {
        0 => b = mutate(rng, b),
        1 => {
            // trailing bytes are not part of the structure
            let n = 1 + rng.below(5) as usize;
            b.extend(rng.bytes(n));
        }
        2 if kind == "ivd" && b.len() >= 4 => {
            // a boundary value in the packed wordDeltaCount (flag kept or dropped, count at a 15/16-bit edge)
            let v = *rng.pick(&[0x8000u16, 0x8001, 0x7fff, 0xffff, 0x0001, 0x8002]);
            b[2..4].copy_from_slice(&v.to_be_bytes());
        }
        _ => {}
    }
    format!("{}|{}", kind, hex(&b))
}
